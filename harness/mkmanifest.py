#!/usr/bin/env python3
"""Regenerate /verif/MANIFEST.json from the table below (run after adding a property module)."""
import json
import os

VERIF = os.path.dirname(os.path.dirname(os.path.abspath(__file__)))
ALL = ["C%02d" % i for i in range(1, 21)]

# property -> (level text, level note, technique, design_ref)
CLAIMED = {
    "C14": (
        "Lean 4 theorems, for every closed integer polygon, image shape and admissible ceiling slack: sorted pair-fill == parity count, "
        "covers strict interior, hugs within one pixel, clip == crop (Python slice semantics), translation equivariance, rounding to "
        "nearest centre, last-label-wins, incremental AET == closed form. Tied to gwcs/region.py by an exact correspondence "
        "(implementation mask and logged ceilings vs the model's executable definitions) and an independent exact crossing-number oracle.",
        "Trusted: Lean kernel; axioms propext/Classical.choice/Quot.sound; correspondence harness; 'inside' = even-odd rule (Jordan curve "
        "theorem not proved); float intersection error covered by the per-case admissibility check of logged ceilings.",
        "Lean 4 proof over hand-written model + differential correspondence + exact oracle search", "DESIGN.md §6 C14"),
}

CLAIMED["C01"] = (
    "Lean 4 theorems for every pipeline over an arbitrary transform type (only law assumed: `a|b` evaluates left-then-right): forward "
    "transform = fold of the steps, downstream get_transform = chain of the intervening steps, upstream = their inverses in reverse order, "
    "self -> None, unknown frame -> error, split through an intermediate frame, forward = transform between the end frames, fix_inputs "
    "evaluates as the original with inputs held. Tied to gwcs/wcs.py by an exact correspondence (dyadic values) over generated pipelines "
    "of 1..6 steps / arities 1..4 / every ordered frame pair by name and by object, plus an independent hand-composition oracle.",
    "Trusted: Lean kernel; standard axioms; correspondence harness; astropy CompoundModel / fix_inputs evaluation (modelled, exercised).",
    "Lean 4 proof over hand-written generic model + differential correspondence + oracle search", "DESIGN.md §6 C01")

CLAIMED["C07"] = (
    "Lean 4 theorems relating every edit operation of the model (set_transform, insert_transform before/after incl. Python negative "
    "indexing at the first frame, insert_frame on either side, bounding_box assignment) to the obvious list edit, exact characterisation "
    "of rejected edits, composition of the transform sequence after insert_frame, the box kept while the step-0 transform object is "
    "untouched, and distinct frame names as an invariant over histories of any length. Tied to gwcs/wcs.py by comparing the full observable "
    "state (frames, attributes, box, every frame pair on probes) after every op, valid or rejected, of generated histories; an independent "
    "Python reference list is the oracle (atomicity of rejected edits is checked there). Added: a new frame named like a read-only property of the WCS class is rejected with the state unchanged (reserved_name_rejected); the list of such names is regenerated from the class on every run (Generated/ReadOnly.lean).",
    "Trusted: Lean kernel; standard axioms; correspondence harness; astropy composition and ModelBoundingBox.validate (modelled).",
    "Lean 4 refinement proofs over hand-written model + history correspondence + reference-list oracle", "DESIGN.md §6 C07")

CLAIMED["C08"] = (
    "Lean 4 theorems over an abstract pipeline type: the only query-dependent state (the memoised initial guess of the iterative inverse) is "
    "coherent with the current pipeline after any interleaving of queries, accepted edits and rejected edits (invariant by induction over "
    "histories), hence every answer equals a fresh twin's answer; queries change neither pipeline nor edit count; a witness shows the "
    "statement fails without invalidation on edit (the D5 defect, fixed). Tied to gwcs by (a) comparing every answer of generated histories "
    "with a fresh twin and snapshotting pipeline/box/shape/parameters/caller arguments around every query, (b) comparing the memo's "
    "bookkeeping (edit count at which _calc_approx_inv ran) with the model after every event. Also a separable 3-axis WCS stream whose coupling is edited (set/insert/direct step assignment) between queries that use the separability analysis (correlation matrix, -TAB grouping), each answer compared with a freshly built twin.",
    "Trusted: Lean kernel; standard axioms; harness. Known finding D19 (astropy Identity.inverse clears the box of a bare Identity first step). "
    "Not modelled: user code mutating transform parameters in place.",
    "Lean 4 invariant proof over hand-written state machine + fresh-twin differential oracle", "DESIGN.md §6 C08")

CLAIMED["C03"] = (
    "Lean 4 theorems for any scalar type with a decidable < and no order axioms (so IEEE doubles with NaN are inside the quantifier): "
    "outside <-> some coordinate strictly beyond its interval; outside -> fill on every output; not outside -> exactly the unmasked "
    "evaluation; masking off / no box -> box irrelevant; incomparable (NaN) coordinates are not outside; closed edges are inside (Preorder) "
    "and not-outside <-> inside the closed box (LinearOrder); batches are pointwise maps; set/get round trip in (x,y,..) order; wrong "
    "dimensionality rejected. Tied to gwcs by a bit-exact correspondence (IEEE bit patterns, Lean Float instance) over boxes x fills x "
    "flags x points at the edges and one ulp either side x array shapes, plus an independent oracle and read-back of the box after evaluation. Storage order: a box kept in astropy's own (last input first) order - set on the model, inherited, or copied between WCSs - is read, masked and reported per input axis (toF_modelBox, copy_preserves_axes, mask_order_independent), and re-reading its own tuple as (x, y, ...) or flipping its order flag transposes a non-symmetric box (own_reading_transposes, flip_changes_reading).",
    "Trusted: Lean kernel; standard axioms; correspondence harness; astropy ModelBoundingBox.evaluate is modelled (its comparison mirrored).",
    "Lean 4 proof over order-axiom-free model + bit-exact differential correspondence", "DESIGN.md §6 C03")

CLAIMED["C13"] = (
    "Lean 4 theorems: _toindex = floor(v+1/2) is the unique nearest pixel centre (halves up); array-index variants are the same maps "
    "with axes reversed and entries rounded; array_shape = reversed pixel_shape after any history of assignments; wrong-length pixel_shape "
    "rejected with state unchanged; evaluation respects declared arities (dimension counts); and soundness of astropy's separability matrix "
    "on the transform algebra by structural induction (matrix False => the world coordinate does not change when only that pixel coordinate "
    "changes). Tied to gwcs/api.py by exact correspondence on generated pipelines/points/histories, the matrix compared with astropy's on "
    "every case and independence spot-checked by perturbation.",
    "Trusted: Lean kernel; standard axioms; harness; astropy separable (modelled, compared every case). Known finding D13 (fix_inputs WCS).",
    "Lean 4 proof (structural induction for separability) + differential correspondence", "DESIGN.md §6 C13")

CLAIMED["C15"] = (
    "Lean 4 theorems: a label array returns the label of the cell whose pixel area [c-1/2,c+1/2) x [r-1/2,r+1/2) contains the point and an "
    "indexing error beyond either far edge; when the constructor's overlap test does not fire the ranges are pairwise disjoint (proof about "
    "the sort-and-compare algorithm), so a key strictly inside a range gets that range's label in any visiting order, end points / outside / "
    "NaN get no label, overlapping tables are refused; dict keys within tolerance; and RegionsSelector.evaluate (group-by-label, masked "
    "gather/scatter, outputs initialised to the undefined value) equals the pointwise specification for every batch and labelling; set_input "
    "lookup. Tied to gwcs/selector.py by exact correspondence and an independent exact oracle; two defects found and fixed (D9, D21).",
    "Trusted: Lean kernel; standard axioms; harness; numpy fancy indexing and np.isclose semantics (modelled).",
    "Lean 4 proof over hand-written model + differential correspondence", "DESIGN.md §6 C15")

CLAIMED["C17"] = (
    "Lean 4 theorem over event traces of any length: along a *guarded* trace (errstate / catch_warnings brackets balanced — Python runs "
    "__exit__ on every path —, every np.seterr inside an errstate bracket, every filter insertion inside catch_warnings, no "
    "set_printoptions) the error modes, warnings filters and print options at the end are those at the start, wherever an exception cuts "
    "the trace; the solver's trace shape is guarded for every number of evaluations and crash position; a witness shows the pre-fix code "
    "(unbracketed seterr) leaks. Tied to gwcs by trace inclusion: every entry point x every crash position k of a counting user transform "
    "(plus NoConvergence, invalid arguments, fit failures) is run from a non-default process state with np.seterr/np.errstate/warnings/"
    "set_printoptions wrapped; the recorded trace must be accepted by the Lean checker and np.geterr()/warnings.filters/printoptions are "
    "compared before/after.",
    "Trusted: Lean kernel; standard axioms; harness instrumentation (misses state changes made through captured references; the "
    "before/after oracle still sees their net effect). Thread races outside the property.",
    "Lean 4 invariant proof over event traces + trace-inclusion correspondence + before/after oracle", "DESIGN.md §6 C17")

CLAIMED["C18"] = (
    "Lean 4 theorems over the rationals: the grid along each axis starts at the lower limit, advances by the step, its last node has "
    "reached the upper limit and the one before has not (from ceil bounds, any positive step); with centring and unit step the nodes are "
    "exactly the integers m with lo-1/2 < m < hi+1/2 (pixels overlapping the box, x.5 going to the pixel inside); axes come out in "
    "(x, y, ...) order with per-axis steps, scalar steps broadcast, wrong-length steps refused; the footprint for axis_type='all' is the "
    "forward image of the corners of the chosen box (passed box wins, own box otherwise, none -> refused), clockwise from lower-left for "
    "an all-spatial output and the full product (2^n corners, each coordinate a limit of its axis, first axis slowest) otherwise, corners "
    "moved to pixel centres first when centring. Tied to gwcs by exact correspondence on dyadic inputs and an independent oracle; two "
    "defects found and fixed (D22, D23). Added: axis types compared without regard to case and with 'TIME' = 'temporal' (axis_type_spelling_irrelevant, temporal_alias); the correspondence sends the strings as the frames report them and as the caller spelled them.",
    "Trusted: Lean kernel; standard axioms; harness; np.mgrid length rule (modelled). Doubles-vs-rationals divergence of arange lengths for "
    "non-dyadic steps is named, not compared.",
    "Lean 4 proof over rational model + exact differential correspondence", "DESIGN.md §6 C18")

CLAIMED["C19"] = (
    "Lean 4 theorems over the reals about definitions REGENERATED from the Python source on every run (harness/translate.py, AST -> Lean): "
    "spherical->cartesian lies on the unit sphere and ignores whole turns; direction cosines are normalised and the declared inverse pair "
    "round-trips on vectors with unit third component; the grating law, Snell's law and unit direction-cosine triples; the Sellmeier "
    "formula; the Zemax chain equals the published formula and reduces to the glass formula at reference T,P; and, for the hand model of "
    "CartesianToSpherical with arctan2 := Complex.arg, latitude in [-90,90], longitude in [0,360) resp. [-180,180], poles -> longitude 0, "
    "and s2c(c2s v) = v/|v| for every non-zero vector and both wrap settings (full statement, no abstract-atan2 fallback needed). "
    "A changed constant, sign, precedence or index in the source changes the generated definitions and breaks a proof; the Float "
    "instantiation of every definition is compared with the Python function (<= 4 ulp) and an independent oracle checks the identities.",
    "Trusted: Lean kernel; axioms propext/Classical.choice/Quot.sound (Mathlib reals); the translator (whitelist, fails closed); libm rounding "
    "is named, not proved.",
    "Lean 4 proof over translator-regenerated model (Mathlib reals) + Float correspondence", "DESIGN.md §3, §6 C19")

CLAIMED["C06"] = (
    "Lean 4 theorems: a batch answer is the map of the element answer (element i of the batch = the answer to element i alone, length "
    "preserved, permutation/reversal/concatenation/splitting of the batch permutes/reverses/concatenates/splits the result, empty batch -> "
    "empty answer); numerical_inverse's array path (reshape, transpose to rows, solve each row, transpose back) puts component j of row i's "
    "own solution at (j, i) whatever the other rows contain; broadcasting facts; the selector's group-by-label scatter equals the pointwise "
    "map (shared with C15); the analytic models are per-element by construction of the translated definitions (C19). Tied to gwcs by a "
    "metamorphic comparison on the real code: array answer vs element-by-element vs permuted batch vs partitioned batch for every entry "
    "point, shape and mode, and the Lean layout vs the real output layout.",
    "Trusted: Lean kernel; standard axioms; harness. Iterative inverse compared to solver tolerance. Known finding D24 (separable transforms "
    "return un-broadcast output shapes for broadcastable inputs).",
    "Lean 4 proof of batching skeletons + metamorphic differential oracle", "DESIGN.md §6 C06")

CLAIMED["C04"] = (
    "Lean 4 theorems for any ordered scalar type: on a path that masks, a valid solution outside the closed box becomes the fill value "
    "on every axis and one inside is returned unchanged; masking off / no box -> untouched on both paths; in_image is true exactly for "
    "finite solutions inside the closed box on EVERY path (also the unmasked analytic one, because in_image re-tests the box), scalar and "
    "array answers agree elementwise. The property's first clause at full strength (both paths mask) is stated, proved for the variant in "
    "which the analytic path masks, and REFUTED for the code as it is (known finding D12, witness in Lean and replayed on the real code); "
    "the proved part for the unchanged tree is named ..._partial (iterative path). Tied to gwcs by applying the Lean masking to the real "
    "unmasked solutions and comparing bit for bit with the real masked output, on exact affine and celestial WCSs, both paths.",
    "Trusted: Lean kernel; standard axioms; harness; solver accuracy is C05's subject (values compared to 2e-4 px, masks exactly). "
    "Known finding D12: a fix exists but breaks an existing test, so it is recorded, not committed.",
    "Lean 4 proof with variant flag for a known finding + bit-exact differential correspondence", "DESIGN.md §6 C04")

CLAIMED["C05"] = (
    "Lean 4 theorems about the solver's reporting logic: a loop invariant (a de-selected row is converged by the solver's criterion, or "
    "classified divergent, or non-finite) established at both entries to the adaptive loop and preserved by every adaptive pass whatever "
    "the numeric oracle returns; rows are updated independently (a NaN row cannot touch its neighbours); COVERAGE: at exit every row is "
    "converged, or in the divergent list, or in the slow-convergence list, or has a non-finite world coordinate, or was rescued by the "
    "fallback solver, and an exception is raised (quiet off) iff a list is non-empty; and the Aitken-accelerated step is exact on "
    "axis-aligned affine maps of either parity (convergence in one step). PARTIAL: that dn < tol^2 bounds the forward residual and that the "
    "iteration converges for the distorted family and the NIRCam reference WCS are numerical facts - exercised on every run by forward-"
    "mapping the returned pixels (in pixels) and by a full-grid NIRCam run, not proved. Tied to gwcs by reading the solver's internal state "
    "(k, ind, dn, dnprev, invalid, inddiv) with a line tracer and requiring the Lean classification, invariant and raise decision to match. Added: the solver's angle wrap mod(d + P/2, P) - P/2 (Wrap.lean: range, periodicity, identity on the half-open period, recovery of a short difference from any multiple of the period, equality of the two written forms), tied to the source by an AST pattern check of every np.mod in _vectorized_fixed_point (c05.prepare).",
    "Trusted: Lean kernel; standard axioms; tracer harness. Runtime behaviour not modelled: IEEE rounding, contraction of the iteration, "
    "scipy hybr. Known finding D25 (isolated non-convergence at |Dec| >= 60).",
    "Lean 4 invariant/coverage proof over a state-machine model + traced-state correspondence + forward-mapping oracle", "DESIGN.md §6 C05")

CLAIMED["C02"] = (
    "Lean 4 theorems on the transform algebra (exact rationals): (l|r)^-1 = r^-1|l^-1, (l&r)^-1 = l^-1&r^-1, user-supplied inverses taken "
    "verbatim, a missing inverse makes the whole inverse unavailable; the inverse of an n-step chain exists when every step's does and "
    "evaluates as the step inverses in REVERSE order (induction over the chain); for every transform built from shifts, non-zero scales, "
    "identities, stacks and compositions, inverse(eval x) = x and eval(inverse y) = y (structural induction, with arities), and the inverse "
    "of the backward transform evaluates as the forward transform. PARTIAL: the sky projections / rotations (wcslib) are modelled - their "
    "inverse law is a hypothesis, measured on every run for every zenithal projection x pointing x scale to 1e-6 px + conditioning. Tied to "
    "gwcs by exact correspondence on generated pipelines (forward, both round trips, backward vs hand-composed reversed inverses, "
    "backward.inverse, iterative kwargs ignored, in-place parameter change, per-frame round trips). Added: image-slicer round trips (slicer_round_trip: a RegionsSelector followed by its inverse selector returns every labelled pixel of a batch of any size when each region's backward transform undoes its forward one and the mapper's inverse labels a region's image with that region) over the selector model tied by C15's correspondence; exercised on slicer WCSs with a user-supplied mapper inverse.",
    "Trusted: Lean kernel; standard axioms; harness; astropy model inverses for leaves (modelled). Runtime behaviour not modelled: IEEE rounding, wcslib.",
    "Lean 4 structural-induction proofs on the transform algebra + exact differential correspondence", "DESIGN.md §6 C02")

CLAIMED["C12"] = (
    "Lean 4 theorems on the frame bookkeeping of CompositeFrame (any number of sub-frames, any axes_order lists): scattering a sub-frame's "
    "per-axis metadata by axes_order puts the entry of (frame f, local axis k) at world axis axes_order[f][k] and nowhere else "
    "(metadata_aligned), the object components follow the same scatter (components_aligned), duplicate or incomplete axes are rejected, each sub-frame is handed exactly the world values on its own axes in its "
    "local order (objects_get_own_axes), coordinate_to_quantity after coordinates is the identity on world vectors for every permutation "
    "(objects_roundtrip), and the class-key renaming yields pairwise distinct keys for any list of frames and keys (rename_unique, "
    "pickFresh_not_mem). PARTIAL: astropy's SkyCoord/SpectralCoord/Time/StokesCoord constructors are tagged tuples in the model; lone frames "
    "with swapped axes (D11) and nested generic sub-frames (D30) are recorded findings. Tied to gwcs by correspondence on generated frame "
    "layouts: per-axis provenance, components and class keys agree with the model; metadata, object values/units, astropy's generic "
    "machinery and the three round trips are measured on the real WCS with distinct asymmetric pixels, scalar and array.",
    "Trusted: Lean kernel; standard axioms; harness; astropy coordinate classes (modelled). Runtime behaviour not modelled: unit conversion and Time arithmetic rounding.",
    "Lean 4 proofs over lists/permutations (scatter/gather, freshness induction) + differential correspondence on generated frame layouts", "DESIGN.md §6 C12")

CLAIMED["C16"] = (
    "Lean 4 theorems on the unit glue (_add_units_input, _remove_quantity_output, _sanitize_pixel_inputs, the isnumerical/get_values dispatch "
    "of invert, frame.coordinates) for an ARBITRARY numeric transform of any arity with declared units: the values interface of the "
    "unit-carrying WCS equals that of its unit-free twin in both directions and returns bare numbers (values_agree, world_values_agree); "
    "world quantities in any convertible unit invert like bare numbers in frame units (quantity_any_unit, _usesQ, bare_equals_frame_units, "
    "via toValue_trans); a pixel quantity in a wrong unit at any position, whatever the other arguments, is rejected and one in the frame "
    "unit is stripped (wrong_pixel_unit_rejected, right_pixel_unit_stripped, wrong_pixel_dim_rejected); objects requested with units carry "
    "the frame's units and the values-interface numbers, and the twins build the same objects (with_units_in_frame_units, objects_agree). "
    "PARTIAL: astropy's unit registry and SkyCoord frame conversion are modelled as per-axis rescalings / bijections and measured. Tied to "
    "gwcs by correspondence on generated twin pairs (9 operations per pair incl. mixed wrong-unit pixels) and by metamorphic comparison of "
    "the twins incl. a TAN imaging WCS, world inputs in deg/arcsec/arcmin/rad, m/um/nm/AA, Hz/MHz/GHz, s/min/h, SkyCoord in "
    "ICRS/FK5/FK5(J1975)/FK4/Galactic, SpectralCoord, Time; generic 1-D frames; a unit-carrying forward transform with a user-supplied "
    "unit-free inverse (mixed_world_values). Added: pixel quantities in any unit convertible to the input frame's are converted, never taken at face value (pixel_quantity_converted); twins are also built through edit histories; WCS.transform by frame object, array indices, SpectralCoord of another physical type, other time scales.",
    "Trusted: Lean kernel; standard axioms; harness (twin construction); astropy units/coordinates (modelled). Runtime behaviour not modelled: float rounding of unit conversion (1e-11 relative).",
    "Lean 4 proofs over lists/rationals for arbitrary numeric transforms + differential and twin (metamorphic) correspondence", "DESIGN.md §6 C16")

CLAIMED["C09"] = (
    "Lean 4 theorems on the converter logic of gwcs/converters/wcs.py (which keys are written under which condition, which are read back "
    "and handed to the constructor): for every non-Stokes frame of any kind and any field values the node written is read back to the same "
    "frame whatever the constructor defaults are (leaf_roundtrip; reference_position via upper(lower p) = p over the standard positions, "
    "decide +kernel); Stokes frames round-trip exactly when the unwritten fields are defaults and provably not otherwise "
    "(stokes_roundtrip_partial, stokes_full_fails = recorded finding D16); lifted by induction to nested composite frames and the whole WCS "
    "node - name, pixel shape, frame sequence, per-step transform (tree_roundtrip, wcs_roundtrip); rewriting the re-read object gives the "
    "same tree (tree_idempotent, stokes_tree_idempotent); selector nodes keep the label->transform association for any dict order "
    "(selector_roundtrip); positional construction binds each key to its own parameter iff the call follows the signature order "
    "(positional_binding, positional_swap_detected). PARTIAL: asdf, asdf-astropy, YAML, schema validation, block storage and pickle are "
    "runtime behaviour: exercised, not modelled. Tied to gwcs by (i) exact correspondence of the real converters' to_yaml_tree / "
    "from_yaml_tree with the model on generated frames and selector nodes, (ii) real round trips of frames, package models and whole WCSs "
    "through buffer/file x lazy_load x memmap x ASDF standard 1.5/1.6 x gwcs manifests 1.0.1-1.4.0, second write compared as a canonical "
    "YAML graph, deepcopy and pickle incl. mutation independence; all fields and numerics (forward, backward, every frame pair) compared.",
    "Trusted: Lean kernel; standard axioms; harness (field extraction, YAML canonicalisation). Runtime behaviour not modelled: asdf/asdf-astropy/YAML/pickle; last-bit parameter changes of astropy rotation models (1e-12).",
    "Lean 4 proofs (case analysis + structural induction over nested frames) + exact converter-level correspondence + real round-trip comparison", "DESIGN.md §6 C09")

CLAIMED["C11"] = (
    "Lean 4 theorems: (groups) for EVERY list of axis sets the merge loop of _separable_groups returns pairwise disjoint groups that cover "
    "exactly the input axes, never split world axes sharing a pixel axis, and are connected - i.e. they are exactly the "
    "connected components (groups_pairwise_disjoint, groups_cover, input_set_in_one_group, groups_connected; induction over the loop with the fixpoint invariant of the fixed code); (table) with the CRPIX/CDELT/CRVAL that "
    "_to_fits_tab writes, the FITS Paper III index at the k-th node is exactly k+1 for every box, node count and k, first/last nodes are "
    "the box ends, the reader returns the tabulated value at a node and a convex combination of neighbours between nodes, and the node "
    "spacing never exceeds the requested step (tab_node_exact, tab_spans_box, reader_at_node, tab_between_nodes, step_le_sampling); "
    "(header) NAXISj cards stay in increasing order and hold the box (insertAll_sorted, naxis_holds_box). PARTIAL: wcslib's reader is "
    "exercised, not modelled beyond psi/interp. Tied to gwcs by correspondence (groups, node counts, NAXIS, CRPIX, scale vs header cards) "
    "and by reading every returned header+tables with astropy.wcs.WCS and comparing with the gwcs transform at every tabulated node "
    "(independent linspace grid) and at random in-box points against the surrounding node values, for generated WCS of 1-4 pixel axes "
    "(sky, spectral, time, generic, coupled pair, slit 2->3, fans 1->2 and 1->3, transitive chain) in any world-axis permutation, "
    "offset/fractional boxes, scalar/per-axis sampling, to_fits_tab and to_fits, plus the three rejected calls. Added: the PC/CD cards of the celestial rows under the original axis numbers (Remap.lean: block_placed, celestial_rows_clean, other_rows_untouched) compared card by card with the header and row by row with the matrix wcslib assembles; which separable group is the celestial pair (celestial_group_same_frame, split_celestial_not_paired) compared with the CTYPEs.",
    "Trusted: Lean kernel; standard axioms; harness; astropy.wcs/wcslib as the standard reader. Runtime behaviour not modelled: float rounding in linspace/reader (1e-9 relative).",
    "Lean 4 proofs (loop invariant induction; rational arithmetic of the -TAB index) + header correspondence + end-to-end comparison through the standard FITS reader", "DESIGN.md §6 C11")

CLAIMED["C10"] = (
    "Lean 4 theorems: (degree search of _fit_2D_poly over an abstract per-degree fit outcome) when the search ends without the "
    "'failed to achieve' warning the returned degree meets the request, carries its own coefficients and every permitted degree tried "
    "before it missed the request - the lowest permitted degree (search_no_warning_minimal, fit2D_no_warning_minimal); if no permitted "
    "degree meets it the warning is set (all_fail_warns); the permitted degrees are tried in increasing order whatever order the caller "
    "lists them in (degList_perm, insertion sort = permutation + sorted); an explicit degree ignores the requested error; the reported "
    "error is the max of the residuals on both grids. (SIP split) for every degree, all coefficients and det CD != 0, "
    "CD.(u + A(u,v), v + B(u,v)) equals the fitted polynomials exactly (reform_sound); zero offset maps to zero intermediate coordinates "
    "(reference pixel -> reference value); which A_i_j/AP_i_j keywords are written (stored_iff). PARTIAL: the least-squares solve, that "
    "the fit achieves its error BETWEEN nodes, and wcslib are exercised, not proved. Tied to gwcs by exact correspondence of "
    "_fit_2D_poly with scripted fit outcomes (degree, coefficient degree, reported error, all three warnings, errors), of "
    "_reform_poly_coefficients/_store_2D_coefficients on random dyadic polynomials, of the Lean sipEval with the returned header "
    "(exact rationals), and end to end: to_fits_sip on generated WCS read by astropy.wcs and an independent SIP evaluator on a dense "
    "sample against max_pix_error, SIPMXERR, SIPIVERR (inverse from true sky positions), CRPIX/CRVAL, NAXIS, CTYPE/RADESYS, and a re-run "
    "at the next lower permitted degree.",
    "Trusted: Lean kernel; standard axioms; harness (SIP evaluator, dense sample, allowance: 2x requested error, 5x recorded error as in the method's own double-sampling check); astropy.wcs/wcslib.",
    "Lean 4 proofs (induction over the degree search; polynomial identity over lists of monomials) + exact scripted correspondence + end-to-end dense-sample comparison", "DESIGN.md §6 C10")

CLAIMED["C20"] = (
    "Lean 4 theorems: fitswcs_linear's composition translation | rotation | scaling (scaling only without CD) is the FITS Paper I formula "
    "x_i = s_i sum_j m_ij (p_j + 1 - r_j) on 0-based pixels for CD and PC+CDELT forms, for all values (fitswcs_linear_eq_fits), and the "
    "opposite composition order is a different map (order_matters); over the reals, with astropy's Euler-angle convention for "
    "RotateNative2Celestial written out (Rz(psi).Rx(theta).Rz(phi)), the native pole - the reference point of every zenithal projection - "
    "is sent to the unit vector of the fiducial for EVERY lon, lat, lon_pole (fiducial_anchored_zenithal); the native origin of "
    "cylindrical-type projections is sent to (lon+180, 90-lat), so the full statement fails there (nonzenithal_image, "
    "nonzenithal_not_anchored = recorded finding D33); the FITS default LONPOLE rule (lonpole_zenithal); a prepended transform moves the "
    "reference pixel to the pre-image of the origin (prepended_origin). PARTIAL: wcslib's projections, celprm and the Levenberg-Marquardt "
    "fit of wcs_from_points are exercised, not modelled. Tied to gwcs by exact correspondence of fitswcs_linear (dyadic headers) and of "
    "the lon_pole chosen by wcs_from_fiducial with the default rule and with wcslib over 24 projections x pointings; anchoring measured "
    "on the real WCS (composite sky+spectral, prepended transforms, bounding boxes); make_fitswcs_transform vs wcslib on fractional "
    "0-based pixels; wcs_from_points recovery on points generated by a WCS of the fitted form with sky stored in deg/hourangle/rad. Added: the n-axis FITS formula and skyBlock_sound (the 2x2 block reproduces it on decoupled celestial rows), the matrix read from the header cards (cd_form_from_any_card, pc_form_defaults) compared with read_wcs_from_header, 3-axis headers, omitted default cards, LONPOLE cards.",
    "Trusted: Lean kernel; standard axioms (Mathlib real analysis); harness; astropy.wcs/wcslib as the FITS reference; astropy's rotation convention as transcribed.",
    "Lean 4 proofs (ring identities over Q; trigonometric identity over R) + exact correspondence of the linear part and pole longitude + measured comparison with wcslib", "DESIGN.md §6 C20")

NOT_YET = "check not built yet in this round; will be claimed once its Lean model, theorems and correspondence run green"


def main():
    checks = []
    for p in ALL:
        if p not in CLAIMED:
            continue
        text, note, tech, ref = CLAIMED[p]
        checks.append({
            "property_id": p,
            "quick_cmd": "/venv/bin/python harness/check.py %s --tier quick" % p,
            "thorough_cmd": "/venv/bin/python harness/check.py %s --tier thorough" % p,
            "evidence_file": "evidence/%s.json" % p,
            "replay_cmd_template": "/venv/bin/python harness/check.py %s --replay {path}" % p,
            "engine": "lean4-gwcs",
            "level_claimed": {"category": "proof", "text": text, "design_ref": ref},
            "level_note": note,
            "technique": tech,
        })
    man = {
        "version": 1,
        "setup_cmd": "/venv/bin/python harness/translate.py && cd lean && lake build GwcsModel GwcsProofs driver",
        "hooks": {
            "guard": "GWCS_VERIF",
            "enable": "no hooks: checks import gwcs from /repo's working tree and observe it from the harness side (monkeypatching, sys.settrace)",
            "baseline_off_cmd": "cd /repo && /venv/bin/python -m pytest -ra -q -p no:cacheprovider --timeout=900 --continue-on-collection-errors",
            "source_commits": [],
            "add_only": True,
        },
        "engines": [{
            "name": "lean4-gwcs", "path": "lean/",
            "serves_properties": [c["property_id"] for c in checks],
            "kind_free_text": "Lean 4.33 models (GwcsModel/, core-only) + theorems (GwcsProofs/, single Mathlib modules) + native driver exe "
                              "speaking a JSON line protocol; harness/check.py runs build, axiom audit, correspondence with the real gwcs, "
                              "oracle search, known findings, evidence",
        }],
        "checks": checks,
        "not_applicable": [{"property_id": p, "reason": NOT_YET} for p in ALL if p not in CLAIMED],
        "notes": "See DESIGN.md. Fix commits in /repo are listed in known_findings.json as 'fixed:' entries.",
    }
    with open(os.path.join(VERIF, "MANIFEST.json"), "w") as fh:
        json.dump(man, fh, indent=1)
    print("wrote MANIFEST.json with", len(checks), "checks")


if __name__ == "__main__":
    main()
