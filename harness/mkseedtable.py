#!/usr/bin/env python3
"""Regenerate the seeded-change table of DESIGN.md §15.5 from seeded/*/meta.json (between the two marker lines)."""
import glob, json, os, re
V = os.path.dirname(os.path.dirname(os.path.abspath(__file__)))
rows = []
def key(d):
    b = os.path.basename(d.rstrip("/")); p, k = b.rsplit("-", 1); return (p, int(k))
for d in sorted(glob.glob(os.path.join(V, "seeded", "*-*/")), key=key):
    m = json.load(open(d + "meta.json"))
    w = m.get("what_was_run", {})
    name = os.path.basename(d.rstrip("/"))
    summ = re.split(r"(?<=[.;])\s", m.get("summary", "").strip().replace("\n", " ").replace("|", "/"))[0]
    if len(summ) > 150:
        summ = summ[:147] + "..."
    det = [k + (" (cross)" if v.get("cross") else "") for k, v in w.get("checks", {}).items() if v.get("rc") == 1 and not v.get("cross")]
    det += [k + " (cross)" for k, v in w.get("checks", {}).items() if v.get("rc") == 1 and v.get("cross")]
    det += [k + " (cross)" for k, v in w.get("cross_check", {}).items() if v.get("rc") == 1]
    det += [k + " (after strengthening)" for k in w.get("after_strengthening", {})]
    first = det[0] if det else "NOT REPORTED"
    hist = m.get("history") or []
    note = ""
    if m.get("superseded") and not det:
        first = "never reported: missed at first, then made harmless by a later fix before the check caught up (see meta.json)"
    elif m.get("superseded"):
        first += " (while it broke the property: made harmless by a later fix, see meta.json)"
    if det and any(h.get("detected") is False for h in hist):
        note = " (missed at first; reported after strengthening)"
    files = ",".join(os.path.basename(f) for f in m.get("files_touched", []))
    rows.append("| %s | %s | %s | %s%s |" % (name, files, summ, first, note))
tbl = "| seeded change | file | what it does | first check that reports it |\n|---|---|---|---|\n" + "\n".join(rows)
p = os.path.join(V, "DESIGN.md")
s = open(p).read()
a, b = "<!-- SEEDTABLE:BEGIN -->", "<!-- SEEDTABLE:END -->"
if a in s:
    s = s[:s.index(a) + len(a)] + "\n" + tbl + "\n" + s[s.index(b):]
    open(p, "w").write(s)
print(len(rows), "rows;", sum("NOT REPORTED" in r for r in rows), "not reported;", sum("never reported" in r for r in rows), "made harmless before being reported")
