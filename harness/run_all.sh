#!/bin/bash
# run every claimed check's quick command (complete runs: evidence files are rewritten), print one line each
cd "$(dirname "$0")/.."
for p in $(python3 -c "import json; print(' '.join(c['property_id'] for c in json.load(open('MANIFEST.json'))['checks']))"); do
  out=$(/venv/bin/python harness/check.py $p --tier ${1:-quick} 2>&1); rc=$?
  echo "rc=$rc $(echo "$out" | grep -v '^KNOWN' | tail -1)"
done
