#!/usr/bin/env python3
"""seedtest.py <PROP> <outdir> [--checks C01,C07] [--no-confirm]

For every mutation directory m*/ under <outdir> (patch.diff, demo.py, meta.json written by an
independent sub-agent):
  1. confirm it in a scratch worktree of /repo: patch applies, the repo test suite still passes
     (977 passed, only the 2 known environmental failures), demo exits 1 with the patch and 0 without;
  2. apply it to /repo, run the registered quick check(s) (thorough too when quick misses), undo it;
  3. keep confirmed ones as /verif/seeded/<PROP>-<k>/ with the verdict in meta.json.
Nothing is ever committed to /repo.
"""
import json
import os
import shutil
import subprocess
import sys

VERIF = os.path.dirname(os.path.dirname(os.path.abspath(__file__)))
REPO = "/repo"
PY = "/venv/bin/python"


def sh(cmd, cwd=None, timeout=3600, env=None):
    p = subprocess.run(cmd, shell=True, cwd=cwd, capture_output=True, text=True, timeout=timeout, env=env)
    return p.returncode, p.stdout + p.stderr


def main():
    prop = sys.argv[1]
    outdir = sys.argv[2]
    checks = [prop]
    confirm = True
    for a in sys.argv[3:]:
        if a.startswith("--checks"):
            checks = a.split("=", 1)[1].split(",")
        if a == "--no-confirm":
            confirm = False
    muts = sorted(d for d in os.listdir(outdir) if os.path.isdir(os.path.join(outdir, d)) and os.path.exists(os.path.join(outdir, d, "patch.diff")))
    rc, out = sh("git status --porcelain", cwd=REPO)
    if out.strip():
        print("refusing: /repo working tree not clean:\n" + out)
        sys.exit(2)
    for m in muts:
        d = os.path.join(outdir, m)
        patch = os.path.join(d, "patch.diff")
        demo = os.path.join(d, "demo.py")
        verdict = {"mutation": m}
        if confirm:
            wt = "/tmp/seedwt-%s-%s" % (prop, m)
            sh("git -C %s worktree remove --force %s" % (REPO, wt))
            rc, out = sh("git -C %s worktree add -q %s HEAD" % (REPO, wt))
            try:
                rc0, o0 = sh("%s %s" % (PY, demo), cwd=wt)
                rc, out = sh("git apply %s" % patch, cwd=wt)
                if rc != 0:
                    verdict["confirmed"] = False
                    verdict["why"] = "patch does not apply: " + out[-300:]
                else:
                    rc1, o1 = sh("%s %s" % (PY, demo), cwd=wt)
                    rct, ot = sh("%s -m pytest -q -p no:cacheprovider -n 8 2>&1 | tail -4" % PY, cwd=wt)
                    tail = ot.strip().splitlines()[-1] if ot.strip() else ""
                    suite_ok = "977 passed" in tail and "2 failed" in tail
                    verdict.update({"demo_rc_unpatched": rc0, "demo_rc_patched": rc1, "suite": tail,
                                    "confirmed": bool(rc0 == 0 and rc1 == 1 and suite_ok)})
                    if not verdict["confirmed"]:
                        verdict["why"] = "demo/suite: unpatched rc=%s patched rc=%s suite=%s | %s" % (rc0, rc1, tail, o1[-300:])
            finally:
                sh("git -C %s worktree remove --force %s" % (REPO, wt))
        else:
            verdict["confirmed"] = None
        # run our checks against it: in a scratch worktree (GWCS_REPO points the harness at it), so that several properties can be
        # processed at once; C19's model is regenerated from the source and built, so that one goes through /repo itself
        tree = REPO
        if "C19" not in checks and prop != "C19":
            tree = "/tmp/seedrun-%s-%s" % (prop, m)
            sh("git -C %s worktree remove --force %s" % (REPO, tree))
            sh("git -C %s worktree add -q %s HEAD" % (REPO, tree))
        envc = dict(os.environ, GWCS_REPO=tree)
        rc, out = sh("git apply %s" % patch, cwd=tree)
        detected = {}
        try:
            if rc != 0:
                verdict["apply_repo"] = out[-300:]
            else:
                for c in checks:
                    for tier in ("quick", "thorough"):
                        # --no-build: the Lean side is unchanged by a seeded change, and no evidence may be written from a mutated tree
                        # (C19's model is regenerated from the source by the translator: its run includes the build)
                        rcc, oc = sh("%s harness/check.py %s --tier %s %s" % (PY, c, tier, "--no-evidence" if c == "C19" else "--no-build"), cwd=VERIF, env=envc)
                        viol = [l for l in oc.splitlines() if l.startswith("VIOLATION")]
                        detected["%s/%s" % (c, tier)] = {"rc": rcc, "violation": viol[:1], "tail": oc.strip().splitlines()[-3:]}
                        if rcc == 1 and viol:
                            break
                if not any(v["rc"] == 1 and v["violation"] for v in detected.values()):
                    # missed by the named checks: which other properties' quick checks report it? (run in parallel)
                    import concurrent.futures
                    others = ["C%02d" % i for i in range(1, 21) if "C%02d" % i not in checks and (tree == REPO or i != 19)]
                    with concurrent.futures.ThreadPoolExecutor(max_workers=8) as ex:
                        futs = {c: ex.submit(sh, "%s harness/check.py %s --tier quick --no-build" % (PY, c), VERIF, 3600, envc) for c in others}
                    for c, fu in futs.items():
                        rcc, oc = fu.result()
                        viol = [l for l in oc.splitlines() if l.startswith("VIOLATION")]
                        if rcc == 1 and viol:
                            detected["%s/quick" % c] = {"rc": rcc, "violation": viol[:1], "tail": oc.strip().splitlines()[-3:], "cross": True}
        finally:
            if tree == REPO:
                sh("git checkout -- .", cwd=REPO)
            else:
                sh("git -C %s worktree remove --force %s" % (REPO, tree))
        verdict["detected"] = any(v["rc"] == 1 and v["violation"] for v in detected.values())
        verdict["checks"] = detected
        print(json.dumps(verdict, indent=1)[:3000])
        if verdict.get("confirmed") is not False:
            k = 1
            while os.path.exists(os.path.join(VERIF, "seeded", "%s-%d" % (prop, k))):
                k += 1
            dst = os.path.join(VERIF, "seeded", "%s-%d" % (prop, k))
            os.makedirs(dst)
            shutil.copy(patch, dst)
            shutil.copy(demo, os.path.join(dst, "demo.py"))
            meta = {}
            try:
                meta = json.load(open(os.path.join(d, "meta.json")))
            except Exception:
                pass
            meta["property"] = prop
            meta["what_was_run"] = verdict
            json.dump(meta, open(os.path.join(dst, "meta.json"), "w"), indent=1)
    rc, out = sh("git status --porcelain", cwd=REPO)
    assert not out.strip(), "repo left dirty: " + out


if __name__ == "__main__":
    main()
