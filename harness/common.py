"""Shared machinery for every check: Lean build + axiom audit, driver line protocol,
float/rational wire format, known findings, evidence, violation reporting.

A check never treats a broken proof / broken correspondence as a failing input by itself:
it runs the property oracle on the implementation over the whole generated stream (the
failing-input search) and reports either a concrete replay or `no-failing-input-found`.
"""
import fcntl
import hashlib
import json
import os
import re
import struct
import subprocess
import sys
import time
from fractions import Fraction

VERIF = os.path.dirname(os.path.dirname(os.path.abspath(__file__)))
LEAN = os.environ.get("GWCS_LEAN", os.path.join(VERIF, "lean"))   # (override: scratch copy while developing)
REPO = os.environ.get("GWCS_REPO", "/repo")
EVIDENCE = os.path.join(VERIF, "evidence")
REPLAYS = os.path.join(VERIF, "replays")
CORPUS = os.path.join(VERIF, "corpus")
KNOWN = os.path.join(VERIF, "known_findings.json")
ALLOWED_AXIOMS = {"propext", "Classical.choice", "Quot.sound"}
FORBIDDEN = re.compile(r"\b(sorry|admit|native_decide|bv_decide|implemented_by|unsafe)\b|^\s*axiom\s|maxHeartbeats\s+0\b")


class Infra(Exception):
    """Infrastructure failure: exit 2, never reported as a violation."""


# ---------------------------------------------------------------- wire format
def f2w(x):
    """double -> 'x' + 16 hex digits of its IEEE bit pattern"""
    return "x%016x" % struct.unpack("<Q", struct.pack("<d", float(x)))[0]


def w2f(s):
    assert s[0] == "x"
    return struct.unpack("<d", struct.pack("<Q", int(s[1:], 16)))[0]


def q2w(q):
    """Fraction/int -> JSON int or 'p/q' string"""
    q = Fraction(q)
    return int(q) if q.denominator == 1 else "%d/%d" % (q.numerator, q.denominator)


def w2q(v):
    if isinstance(v, int):
        return Fraction(v)
    p, _, d = v.partition("/")
    return Fraction(int(p), int(d) if d else 1)


def exc_enum(e):
    """Map a Python exception to the model's error enum."""
    name = type(e).__name__
    if name == "CoordinateFrameError":
        return "frameErr"
    if name == "NoConvergence":
        return "noConv"
    if isinstance(e, NotImplementedError):
        return "notImpl"
    if isinstance(e, IndexError):
        return "indexErr"
    if isinstance(e, TypeError):
        return "typeErr"
    if isinstance(e, ValueError):  # incl. astropy InputParameterError, UnitsError (ValueError subclasses)
        return "valueErr"
    if name == "UserTransformError":
        return "userErr"
    return "other"


# ---------------------------------------------------------------- Lean side
def _lock():
    f = open(os.path.join(LEAN, ".build.lock"), "w")
    fcntl.flock(f, fcntl.LOCK_EX)
    return f


def lean_build(targets, timeout=3000):
    """lake build <targets> under an exclusive lock. Returns (ok, output)."""
    lk = _lock()
    try:
        p = subprocess.run(["lake", "build"] + list(targets), cwd=LEAN, capture_output=True, text=True, timeout=timeout)
        return p.returncode == 0, (p.stdout + p.stderr)
    except subprocess.TimeoutExpired as e:
        raise Infra("lake build timed out") from e
    finally:
        lk.close()


def driver_cmd():
    exe = os.path.join(LEAN, ".lake", "build", "bin", "driver")
    if os.path.exists(exe):
        return [exe]
    return ["lake", "env", "lean", "--run", "Driver.lean"]


def driver_run(requests, timeout=3000):
    """Send requests (list of dicts) to the Lean driver, return list of response dicts."""
    if not requests:
        return []
    data = "\n".join(json.dumps(r, separators=(",", ":")) for r in requests) + "\n"
    try:
        p = subprocess.run(driver_cmd(), cwd=LEAN, input=data, capture_output=True, text=True, timeout=timeout)
    except subprocess.TimeoutExpired as e:
        raise Infra("driver timed out") from e
    lines = p.stdout.splitlines()
    if p.returncode != 0 or len(lines) != len(requests):
        raise Infra("driver failed: rc=%s, %d responses for %d requests: %s" % (p.returncode, len(lines), len(requests), p.stderr[-2000:]))
    return [json.loads(l) for l in lines]


def source_scan(files):
    """grep model + proof sources for forbidden constructs (comments stripped)."""
    hits = []
    for f in files:
        try:
            txt = open(f).read()
        except OSError:
            continue
        txt = re.sub(r"/-.*?-/", lambda m: "\n" * m.group(0).count("\n"), txt, flags=re.S)
        for n, line in enumerate(txt.splitlines(), 1):
            line = line.split("--")[0]
            if FORBIDDEN.search(line):
                hits.append("%s:%d: %s" % (os.path.relpath(f, VERIF), n, line.strip()))
    return hits


def axiom_audit(prop, module, theorems, timeout=1800):
    """#print axioms for each registered theorem. Returns dict name -> list of axioms, or None if missing."""
    src = "import %s\n" % module + "".join("#print axioms %s\n" % t for t in theorems)
    path = os.path.join(LEAN, "_audit_%s.lean" % prop)
    with open(path, "w") as fh:
        fh.write(src)
    try:
        p = subprocess.run(["lake", "env", "lean", path], cwd=LEAN, capture_output=True, text=True, timeout=timeout)
    except subprocess.TimeoutExpired as e:
        raise Infra("axiom audit timed out") from e
    finally:
        try:
            os.remove(path)
        except OSError:
            pass
    out = p.stdout + p.stderr
    res = {}
    flat = re.sub(r"\s+", " ", out)
    for t in theorems:
        m = re.search(r"'%s' depends on axioms: \[([^\]]*)\]" % re.escape(t), flat)
        if m:
            res[t] = [a.strip() for a in m.group(1).split(",") if a.strip()]
        elif re.search(r"'%s' does not depend on any axioms" % re.escape(t), flat):
            res[t] = []
        else:
            res[t] = None
    return res, out


# ---------------------------------------------------------------- findings / corpus
def load_known(prop):
    try:
        data = json.load(open(KNOWN))
    except OSError:
        return []
    return [e for e in data.get("findings", []) if e.get("property") == prop]


def load_corpus(prop):
    path = os.path.join(CORPUS, prop + ".jsonl")
    out = []
    if os.path.exists(path):
        for line in open(path):
            line = line.strip()
            if line and not line.startswith("#"):
                out.append(json.loads(line))
    return out


def case_hash(obj):
    return hashlib.sha1(json.dumps(obj, sort_keys=True, default=str).encode()).hexdigest()[:16]


def _finite(o):
    """strict JSON: non-finite floats become strings"""
    if isinstance(o, float):
        return o if o == o and o not in (float("inf"), float("-inf")) else repr(o)
    if isinstance(o, dict):
        return {str(k): _finite(v) for k, v in o.items()}
    if isinstance(o, (list, tuple)):
        return [_finite(v) for v in o]
    return o


def write_json(path, obj):
    obj = _finite(json.loads(json.dumps(obj, default=str)))
    os.makedirs(os.path.dirname(path), exist_ok=True)
    tmp = path + ".tmp%d" % os.getpid()
    with open(tmp, "w") as fh:
        json.dump(obj, fh, indent=1, default=str, allow_nan=False)
    os.replace(tmp, path)
