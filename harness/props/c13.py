"""C13 — the APE-14 low-level interface is a faithful, self-consistent view of the WCS (gwcs/api.py, gwcs/utils.py)."""
import math
from fractions import Fraction

import numpy as np

import common as C
import pipegen as G
from gwcs import coordinate_frames as cf
from gwcs import utils as gu
from gwcs import wcs as gw

PROP = "C13"
LEAN_MODULE = "GwcsProofs.C13"
SOURCES = ["GwcsModel/Basic.lean", "GwcsModel/TExpr.lean", "GwcsModel/Api.lean", "GwcsProofs/C13.lean", "GwcsProofs/Lemmas/SepLemmas.lean"]
THEOREMS = [
    "Gwcs.Api.toindex_nearest",
    "Gwcs.Api.toindex_unique",
    "Gwcs.Api.toindex_int",
    "Gwcs.Api.array_index_eq_reversed",
    "Gwcs.Api.w2ai_values_rounds",
    "Gwcs.Api.w2ai_entry",
    "Gwcs.Api.shape_sync",
    "Gwcs.Api.set_array_then_pixel",
    "Gwcs.Api.set_pixel_then_array",
    "Gwcs.Api.pixel_shape_wrong_len_rejected_unchanged",
    "Gwcs.Api.array_shape_wrong_len_rejected_unchanged",
    "Gwcs.Api.pixel_shape_len_invariant",
    "Gwcs.TExpr.eval_length",
    "Gwcs.TExpr.ndim_eq_arity",
    "Gwcs.TExpr.dep_sound",
    "Gwcs.TExpr.separability_sound",
]
RULE = ("cases: (a) api — pipelines of 1..4 steps / arities 1..4 with frame objects, points with distinct non-integral coordinates incl. exact "
        "halves and negatives, optional box, world points for the inverse direction: values methods vs plain call/invert, array-index variants, "
        "integer rounding, dimension counts, correlation matrix vs model and vs single-input perturbation; (b) shape — random histories of "
        "pixel_shape/array_shape/bounding_box assignments incl. wrong lengths; (c) toindex on doubles at/around halves; (d) fix_inputs-derived WCS. "
        "non-trivial = non-integral pairwise distinct coordinates, or a history with >= 2 assignments; distinct by case hash")
TRUSTED = ["harness/props/c13.py correspondence; astropy.modeling.separable is modelled on the transform algebra (mirrored, compared on every case)"]
ASSUMPTIONS = ["atoms' declared separability is truthful (1->1 leaves separable, Polynomial2D not)",
               "astropy's np.roll quirk for multi-input separable leaves on the right of & is outside the generated class"]


def _build(case):
    frames = [G.frame_obj(f["name"], f["naxes"], f.get("order"), f.get("unit")) if f.get("obj", 1) is not None else f["name"] for f in case["frames"]]
    w = gw.WCS([(fr_, None if t is None else G.build(t)) for fr_, t in zip(frames, case["trs"])])
    if case.get("box"):
        b = tuple((float(G.fr(lo)), float(G.fr(hi))) for lo, hi in case["box"])
        w.bounding_box = b[0] if len(b) == 1 else b
    return w


def _vals(f, args, nout):
    try:
        r = f(*args)
        return {"ok": G.canon_vals(r, nout)}
    except Exception as e:
        return {"err": C.exc_enum(e)}


def impl(case):
    k = case["kind"]
    if k == "toindex":
        r = gu._toindex(np.array(case["vals"], dtype=float))
        return {"idx": [int(v) for v in r], "dtype_int": bool(np.issubdtype(r.dtype, np.integer)),
                "scalar": [int(gu._toindex(v)) for v in case["vals"]]}
    if k == "shape":
        frames = [G.frame_obj("detector", case["ndim"]), G.frame_obj("world", case["ndim"])]
        w = gw.WCS([(frames[0], G.build(G.stack_all([["shift", 1]] * case["ndim"]))), (frames[1], None)])
        steps = []
        for op in case["ops"]:
            try:
                given = None
                if op["k"] in ("pixel", "array") and op["v"] is not None and op.get("as_array"):
                    given = np.array(op["v"])          # the shape handed over as an array (data.shape of a memory-mapped file, say)
                if op["k"] == "pixel":
                    w.pixel_shape = None if op["v"] is None else (given if given is not None else tuple(op["v"]))
                elif op["k"] == "array":
                    w.array_shape = None if op["v"] is None else (given if given is not None else tuple(op["v"]))
                else:
                    b = tuple((float(lo), float(hi)) for lo, hi in op["v"])
                    if op.get("as_dict") and len(b) > 1:
                        # the box given per input name, the keys NOT in axis order
                        names_ = list(w.forward_transform.inputs)
                        w.bounding_box = {names_[i]: b[i] for i in reversed(range(len(b)))}
                    else:
                        w.bounding_box = b[0] if len(b) == 1 else b
                res = "ok"
                if given is not None:
                    kept = [int(v) for v in w.pixel_shape]
                    given[0] += 1000                   # the caller goes on using their array
                    if [int(v) for v in w.pixel_shape] != kept:
                        res = "aliased"
                        w.pixel_shape = tuple(kept)
            except Exception as e:
                res = C.exc_enum(e)
            ps, as_ = w.pixel_shape, w.array_shape
            pb = w.pixel_bounds
            bb = w.bounding_box
            bbt = None
            if bb is not None:
                t = bb.bounding_box(order="F")
                bbt = [list(map(float, t))] if case["ndim"] == 1 else [list(map(float, iv)) for iv in t]
            steps.append([res, None if ps is None else [int(v) for v in ps], None if as_ is None else [int(v) for v in as_],
                          None if pb is None else [list(map(float, iv)) for iv in pb], bbt])
        return {"steps": steps}
    if k == "fixed":
        frames = [G.frame_obj("detector", 3), G.frame_obj("world", 3)]
        w = gw.WCS([(frames[0], G.build(["stack", ["stack", ["shift", 1], ["scale", 2]], ["shift", 3]])), (frames[1], None)])
        nw = w.fix_inputs({case["axis"]: 5.0})
        out = {"pixel_n_dim": nw.pixel_n_dim, "n_inputs": nw.forward_transform.n_inputs, "world_n_dim": nw.world_n_dim,
               "n_outputs": nw.forward_transform.n_outputs}
        try:
            out["corr_shape"] = list(np.shape(nw.axis_correlation_matrix))
        except Exception as e:
            out["corr_err"] = C.exc_enum(e)
        # the bounds of a WCS derived from one that has a box: the intervals of the pixel axes that remain
        try:
            wb = gw.WCS([(G.frame_obj("detector", 3), G.build(["stack", ["stack", ["shift", 1], ["scale", 2]], ["shift", 3]])), (G.frame_obj("world", 3), None)])
            box3 = ((0.0, 10.0), (1.5, 20.0), (-0.5, 30.5))
            wb.bounding_box = box3
            pbd = wb.fix_inputs({case["axis"]: 5.0}).pixel_bounds
            want = [list(iv) for i, iv in enumerate(box3) if i != case["axis"]]
            got = None if pbd is None else [[float(a), float(b)] for a, b in pbd]
            out["fixed_bounds"] = "ok" if got == want else "pixel_bounds %s, the remaining intervals of the box are %s" % (got, want)
        except Exception as e:
            out["fixed_bounds"] = "raised %s: %s" % (type(e).__name__, str(e)[:80])
        # the same derivation on a unit-carrying WCS: the values interface of the derived WCS equals its forward evaluation
        try:
            from astropy import units as _u
            from astropy.modeling import models as _m
            det = cf.CoordinateFrame(naxes=3, axes_type=("SPATIAL",) * 3, axes_order=(0, 1, 2), name="detector", unit=(_u.pix,) * 3)
            wo = cf.CoordinateFrame(naxes=3, axes_type=("SPATIAL",) * 3, axes_order=(0, 1, 2), name="world", unit=(_u.m,) * 3)
            tq = (_m.Shift(1 * _u.pix) & _m.Shift(2 * _u.pix) & _m.Shift(3 * _u.pix) |
                  _m.Multiply(1 * _u.m / _u.pix) & _m.Multiply(100 * _u.cm / _u.pix) & _m.Multiply(0.5 * _u.m / _u.pix))
            wq = gw.WCS(tq, det, wo).fix_inputs({case["axis"]: 2.5 * _u.pix})
            pts = (1.25, -3.0)
            ref = [r.to_value(_u.m) for r in wq(*[p * _u.pix for p in pts])]
            got = wq.pixel_to_world_values(*pts)
            out["units_fixed"] = "ok" if np.allclose(got, ref, rtol=1e-13, atol=0) else "values %s, forward evaluation %s" % (list(got), ref)
        except Exception as e:
            out["units_fixed"] = "raised %s: %s" % (type(e).__name__, str(e)[:80])
        return out
    # api
    w = _build(case)
    f = w.forward_transform
    nin, nout = f.n_inputs, f.n_outputs
    res = {"nin": nin, "nout": nout, "pixel_n_dim": w.pixel_n_dim, "world_n_dim": w.world_n_dim}
    if w.output_frame is None:
        # the output frame is only a name: gwcs supports the dimension counts (taken from the transforms) and the correlation matrix;
        # the values interface needs frame objects and is not exercised
        res["dims_only"] = True
        try:
            res["corr_shape"] = list(np.shape(w.axis_correlation_matrix))
        except Exception as e:
            res["corr_err"] = C.exc_enum(e)
        return res
    res["p2w"] = [_vals(w.pixel_to_world_values, G.to_float_pt(p), nout) for p in case["pts"]]
    res["call"] = [_vals(w, G.to_float_pt(p), nout) for p in case["pts"]]
    res["ai2w"] = [_vals(w.array_index_to_world_values, G.to_float_pt(p)[::-1], nout) for p in case["pts"]]
    # a pixel with one undefined (NaN) coordinate: undefined exactly on the world axes the transform computes from it
    if case["pts"] and not case.get("box"):
        nanpts = []
        for j in range(nin):
            q_ = G.to_float_pt(case["pts"][0])
            q_[j] = float("nan")
            nanpts.append(q_)
        res["p2w_nan"] = [_vals(w.pixel_to_world_values, q_, nout) for q_ in nanpts]
        res["call_nan"] = [_vals(f, q_, nout) for q_ in nanpts]
    res["p2w_out"] = [_vals(w.pixel_to_world_values, G.to_float_pt(p), nout) for p in case.get("pts_out", [])]
    res["call_out"] = [_vals(w, G.to_float_pt(p), nout) for p in case.get("pts_out", [])]
    res["w2p"] = [_vals(w.world_to_pixel_values, G.to_float_pt(p), nin) for p in case["world"]]
    res["inv"] = [_vals(w.invert, G.to_float_pt(p), nin) for p in case["world"]]
    w2ai, ints = [], True
    for p in case["world"]:
        try:
            r = w.world_to_array_index_values(*G.to_float_pt(p))
            rr = r if isinstance(r, tuple) else (r,)
            ints = ints and all(np.issubdtype(np.asarray(v).dtype, np.integer) for v in rr)
            w2ai.append({"ok": [int(v) for v in rr]})
        except Exception as e:
            w2ai.append({"err": C.exc_enum(e)})
    res["w2ai"], res["w2ai_int"] = w2ai, ints
    # world inputs of different but broadcastable shapes (a scalar next to arrays): the same indices as point by point
    analytic = True
    try:
        w.backward_transform
    except Exception:
        analytic = False        # (the iterative inverse takes inputs of one common shape only: not part of this comparison)
    if analytic and nout >= 2 and len(case["world"]) >= 2 and all("ok" in v for v in w2ai):
        try:
            wa = [G.to_float_pt(p) for p in case["world"]]
            args = [wa[0][0]] + [np.array([p[i] for p in wa]) for i in range(1, nout)]
            r = w.world_to_array_index_values(*args)
            rr = r if isinstance(r, tuple) else (r,)
            want = []
            for p in wa:
                q = w.world_to_array_index_values(wa[0][0], *p[1:])
                want.append([int(v) for v in (q if isinstance(q, tuple) else (q,))])
            got = [[int(v) for v in np.broadcast_to(np.asarray(x), (len(wa),))] for x in rr]
            res["w2ai_mix"] = "ok" if [list(c) for c in zip(*got)] == want else "differs: %s, point by point %s" % ([list(c) for c in zip(*got)], want)
        except Exception as e:
            res["w2ai_mix"] = "raised %s: %s" % (type(e).__name__, str(e)[:80])
    # array call of the values methods: same numbers, same shape
    try:
        cols = [np.array(c) for c in zip(*[G.to_float_pt(p) for p in case["pts"]])]
        r = w.pixel_to_world_values(*cols)
        rr = r if isinstance(r, tuple) else (r,)
        res["p2w_arr"] = [[C.q2w(Fraction(float(v))) if v == v else "nan" for v in col] for col in np.array(rr).T.tolist()]
    except Exception as e:
        res["p2w_arr_err"] = C.exc_enum(e)
    try:
        m = w.axis_correlation_matrix
        res["corr"] = [[bool(v) for v in row] for row in m]
    except Exception as e:
        res["corr_err"] = C.exc_enum(e)
    # independence by perturbation: for each (i, j) reported False, change pixel coordinate j only
    indep = []
    if "corr" in res and case["pts"]:
        base = G.to_float_pt(case["pts"][0])
        y0 = f(*base)
        y0 = y0 if isinstance(y0, tuple) else (y0,)
        for j in range(nin):
            x = list(base)
            x[j] = x[j] + 2.75
            y1 = f(*x)
            y1 = y1 if isinstance(y1, tuple) else (y1,)
            for i in range(nout):
                if not res["corr"][i][j] and float(y0[i]) != float(y1[i]):
                    indep.append([i, j, float(y0[i]), float(y1[i])])
    res["indep_violations"] = indep
    return res


def _d51(case):
    """astropy reports uses_quantity = True for a model without parameters: with frames that declare different units the values
    interface wraps the pixels in the input unit and then cannot convert the (untouched) result to the output unit (finding D51)"""
    if case.get("kind") != "api":
        return False
    fs = case["frames"]
    return bool(fs[0].get("unit") and fs[-1].get("unit") and fs[0]["unit"] != fs[-1]["unit"] and
                (all(G.paramless(t) for t in case["trs"]) or all(G.paramless_inverse(t) for t in case["trs"])))


def _d36(case):
    """astropy: the inverse of a bare Scale/Multiply carries the forward bounding box mapped through the transform WITHOUT sorting the
    limits, so a negative factor gives an empty interval (lower > upper) and every inverse evaluation is masked (finding D36)"""
    if case.get("kind") != "api" or not case.get("box"):
        return False
    trs = [t for t in case["trs"] if t is not None]
    return len(trs) == 1 and trs[0][0] == "scale" and G.fr(trs[0][1]) < 0


def oracle(case, res):
    out = _oracle(case, res)
    if _d51(case):
        return [("D51", what) for _, what in out]
    if _d36(case):
        out = [("D36", what) for _, what in out]
        if not out and all(v.get("ok") and all(x == "nan" for x in v["ok"]) for v in res.get("inv", [])):
            out = [("D36", "invert returns NaN for every world value: the analytic inverse carries an empty bounding box")]
    return out


def _oracle(case, res):
    out = []
    k = case["kind"]
    if k == "toindex":
        if not res["dtype_int"]:
            out.append(("toindex_int", "_toindex did not return integers"))
        for v, i, s in zip(case["vals"], res["idx"], res["scalar"]):
            if i != s:
                out.append(("toindex_scalar", "_toindex(%r) gives %d in an array but %d as a scalar" % (v, i, s)))
            d = Fraction(v) - i
            if not (Fraction(-1, 2) - Fraction(1, 10**12) <= d < Fraction(1, 2) + Fraction(1, 10**12)):
                out.append(("toindex", "_toindex(%r) = %d is not the nearest pixel centre (pixel n covers [n-1/2, n+1/2))" % (v, i)))
            elif not (Fraction(-1, 2) <= d < Fraction(1, 2)) and abs(abs(d) - Fraction(1, 2)) > Fraction(1, 10**12):
                out.append(("toindex", "_toindex(%r) = %d" % (v, i)))
        return out[:3]
    if k == "shape":
        prev = [None, None, None, None, None]
        for op, st in zip(case["ops"], res["steps"]):
            r, ps, as_, pb, bb = st
            if (ps is None) != (as_ is None) or (ps is not None and as_ != ps[::-1]):
                out.append(("shape_sync", "after %s: pixel_shape %s but array_shape %s" % (op, ps, as_)))
            if pb != bb:
                out.append(("pixel_bounds", "after %s: pixel_bounds %s != bounding box %s" % (op, pb, bb)))
            if op["k"] in ("pixel", "array") and op["v"] is not None and len(op["v"]) != case["ndim"]:
                if r == "ok":
                    out.append(("pixel_shape_len", "%s_shape %s of the wrong length accepted by a %d-D WCS" % (op["k"], op["v"], case["ndim"])))
                elif [ps, as_] != prev[1:3]:
                    out.append(("pixel_shape_atomic", "rejected %s_shape %s changed the shapes %s -> %s" % (op["k"], op["v"], prev[1:3], [ps, as_])))
            if st[0] == "aliased":
                out.append(("shape_alias", "the %s_shape given as an array is kept by reference: changing the caller's array afterwards changed the WCS's shape" % op["k"]))
            if r == "ok" and op["k"] == "pixel" and op["v"] is not None and ps != list(op["v"]):
                out.append(("shape_set", "pixel_shape set to %s reads %s" % (op["v"], ps)))
            if r == "ok" and op["k"] == "array" and op["v"] is not None and as_ != list(op["v"]):
                out.append(("shape_set", "array_shape set to %s reads %s" % (op["v"], as_)))
            prev = st
        return out[:3]
    if k == "fixed":
        if res["pixel_n_dim"] != res["n_inputs"] or "corr_err" in res:
            out.append(("D13", "fix_inputs-derived WCS: pixel_n_dim %s but the transform takes %s inputs; correlation matrix: %s"
                        % (res["pixel_n_dim"], res["n_inputs"], res.get("corr_err", res.get("corr_shape")))))
        if res["world_n_dim"] != res["n_outputs"]:
            out.append(("ndim", "world_n_dim %s != n_outputs %s" % (res["world_n_dim"], res["n_outputs"])))
        if res.get("fixed_bounds", "ok") != "ok":
            out.append(("fixed_bounds", "a WCS derived with fix_inputs from one with a bounding box: %s" % res["fixed_bounds"]))
        if res.get("units_fixed", "ok") != "ok":
            out.append(("fixed_units", "pixel_to_world_values of a unit-carrying WCS derived with fix_inputs: %s" % res["units_fixed"]))
        return out
    if res.get("dims_only"):
        if res["pixel_n_dim"] != res["nin"] or res["world_n_dim"] != res["nout"]:
            out.append(("ndim", "output frame given by name: pixel_n_dim/world_n_dim %s/%s vs transform inputs/outputs %s/%s" %
                        (res["pixel_n_dim"], res["world_n_dim"], res["nin"], res["nout"])))
        if "corr_shape" in res and res["corr_shape"] != [res["nout"], res["nin"]]:
            out.append(("ndim", "correlation matrix shape %s for a %d -> %d transform" % (res["corr_shape"], res["nin"], res["nout"])))
        return out
    if res["p2w"] != res["call"] or res["p2w_out"] != res["call_out"]:
        out.append(("p2w", "pixel_to_world_values %s differs from plain evaluation %s" % (res["p2w"] + res["p2w_out"], res["call"] + res["call_out"])))
    if res["ai2w"] != res["p2w"]:
        out.append(("ai2w", "array_index_to_world_values on reversed indices %s != pixel_to_world_values %s" % (res["ai2w"], res["p2w"])))
    if res["w2p"] != res["inv"]:
        out.append(("w2p", "world_to_pixel_values %s differs from invert %s" % (res["w2p"], res["inv"])))
    for a, b, p in zip(res["w2ai"], res["w2p"], case["world"]):
        if ("ok" in a) != ("ok" in b):
            out.append(("w2ai", "world_to_array_index_values %s vs world_to_pixel_values %s" % (a, b)))
        elif "ok" in a and all(v not in ("nan", "inf", "-inf") for v in b["ok"]):
            want = [math.floor(G.fr(v) + Fraction(1, 2)) for v in b["ok"]][::-1]
            if a["ok"] != want:
                out.append(("w2ai", "world_to_array_index_values(%s) = %s, nearest pixel centres of the reversed pixel position %s are %s" %
                            (p, a["ok"], b["ok"], want)))
    if res.get("p2w_nan") != res.get("call_nan"):
        out.append(("nan_coordinate", "pixel_to_world_values of a pixel with one NaN coordinate gives %s, plain evaluation of the transform %s" %
                    (res.get("p2w_nan"), res.get("call_nan"))))
    if res.get("w2ai_mix", "ok") != "ok":
        out.append(("w2ai_mix", "world_to_array_index_values with a scalar first coordinate and array others: %s" % res["w2ai_mix"]))
    if not res["w2ai_int"]:
        out.append(("w2ai_int", "world_to_array_index_values does not return integers"))
    if res["pixel_n_dim"] != res["nin"] or res["world_n_dim"] != res["nout"]:
        out.append(("ndim", "pixel_n_dim/world_n_dim %s/%s vs transform inputs/outputs %s/%s" % (res["pixel_n_dim"], res["world_n_dim"], res["nin"], res["nout"])))
    if "p2w_arr" in res and all("ok" in v for v in res["p2w"]) and res["p2w_arr"] != [v["ok"] for v in res["p2w"]]:
        out.append(("p2w_array", "array pixel_to_world_values %s differs from pointwise %s" % (res["p2w_arr"], res["p2w"])))
    if res["indep_violations"]:
        out.append(("separability", "correlation matrix says world axis does not depend on pixel axis, but it does: %s" % res["indep_violations"][:2]))
    return out[:4]


def request(case, res):
    k = case["kind"]
    if k == "toindex":
        return {"op": "toindex", "vals": [C.f2w(v) for v in case["vals"]]}
    if k == "shape":
        return {"op": "shape", "ndim": case["ndim"], "ops": [o for o in case["ops"] if o["k"] in ("pixel", "array")]}
    if k == "fixed" or res.get("dims_only"):
        return None
    return {"op": "api", "trs": [t for t in case["trs"] if t is not None], "pts": case["pts"], "world": case["world"]}


def compare(case, res, resp):
    if "ok" not in resp and "err" not in resp:
        return "model error %s" % resp
    k = case["kind"]
    if k == "toindex":
        for v, i, m in zip(case["vals"], res["idx"], resp["ok"]):
            if m[0] != i:
                return "_toindex(%r): impl %d, model (double arithmetic) %s, exact %s" % (v, i, m[0], m[1])
        return None
    if k == "shape":
        sh = [s for o, s in zip(case["ops"], res["steps"]) if o["k"] in ("pixel", "array")]
        for o, a, b in zip([o for o in case["ops"] if o["k"] in ("pixel", "array")], sh, resp["ok"]):
            if a[:3] != b:
                return "after %s: impl %s model %s" % (o, a[:3], b)
        return None
    if "err" in resp:
        return "model cannot compose the pipeline (%s) but the implementation evaluated it" % resp["err"]
    m = resp["ok"]
    if [m["nin"], m["nout"]] != [res["nin"], res["nout"]]:
        return "arity impl %s/%s model %s/%s" % (res["nin"], res["nout"], m["nin"], m["nout"])
    if _d51(case):
        return None        # (finding D51: the values interface fails altogether for these; reported by the oracle under that id)
    if not case.get("box"):
        if m["p2w"] != res["p2w"]:
            return "pixel_to_world_values impl %s model %s" % (res["p2w"], m["p2w"])
    if _d36(case):
        return None
    if m["w2p"] != res["w2p"] and all(r.get("err") != "notImpl" or mm.get("err") != "notImpl" for r, mm in zip(res["w2p"], m["w2p"])):
        # the iterative fall-back (no analytic inverse) is numerical: only the analytic answers are compared exactly
        if all("err" not in mm for mm in m["w2p"]):
            return "world_to_pixel_values impl %s model %s" % (res["w2p"], m["w2p"])
    if all("ok" in mm for mm in m["w2ai"]) and m["w2ai"] != res["w2ai"]:
        return "world_to_array_index_values impl %s model %s" % (res["w2ai"], m["w2ai"])
    if "corr" in res and m["corr"] != res["corr"]:
        return "correlation matrix impl %s model %s" % (res["corr"], m["corr"])
    return None


def nontrivial(case, res):
    if case["kind"] == "api":
        return len(case["pts"]) > 0 and all(len(set(p)) == len(p) for p in case["pts"])
    if case["kind"] == "shape":
        return sum(1 for s in res["steps"] if s[0] == "ok") >= 2
    return case["kind"] == "toindex"


def stats(case, res, st):
    st["kind_" + case["kind"]] += 1
    if case["kind"] == "api":
        st["nin_%d" % res["nin"]] += 1
        st["nout_%d" % res["nout"]] += 1
        st["box"] += bool(case.get("box"))
        st["inv_analytic"] += any("ok" in v for v in res["w2p"])
        st["inv_err_" + next((v["err"] for v in res["w2p"] if "err" in v), "none")] += 1
        if "corr" in res:
            st["corr_has_false"] += any(not v for row in res["corr"] for v in row)


def _pt(rng, n):
    vals = []
    while len(vals) < n:
        v = rng.choice([Fraction(rng.randint(-40, 40), 4), Fraction(2 * rng.randint(-10, 10) + 1, 2), Fraction(rng.randint(-300, 300), 8)])
        if v not in vals:
            vals.append(v)
    return [C.q2w(v) for v in vals]


def gen(rng, tier):
    n = 150 if tier == "quick" else 5000
    for _ in range(n):
        nsteps = rng.randint(1, 4)
        invertible = rng.random() < 0.6
        frames, trs, dims = G.gen_pipeline(rng, nsteps, invertible=invertible)
        for f in frames:
            f["obj"] = 1
        if rng.random() < 0.25:
            frames[-1]["obj"] = None        # the output frame given only by name: dimension counts come from the transforms
        if rng.random() < 0.3:
            # frames that declare units (pixels in, degrees out); the transforms carry none
            frames[0]["unit"], frames[-1]["unit"] = "pix", "deg"
        if frames[-1].get("obj") is None:
            pass
        elif frames[-1]["naxes"] > 1 and rng.random() < 0.4:
            # a lone (non-composite) output frame whose axes_order is not the identity: the values interface and the correlation matrix
            # follow the transform's outputs
            o = list(range(frames[-1]["naxes"]))
            while o == sorted(o):
                rng.shuffle(o)
            frames[-1]["order"] = o
        pts = [_pt(rng, dims[0]) for _ in range(3)]
        # world points: images of other pixel points, so the inverse direction sees non-integral pixels
        world = []
        try:
            m = None
            for t in trs[:-1]:
                mm = G.build(t)
                m = mm if m is None else m | mm
            for _w in range(2):
                p = _pt(rng, dims[0])
                r = m(*G.to_float_pt(p))
                r = r if isinstance(r, tuple) else (r,)
                world.append([C.q2w(Fraction(float(v))) for v in r])
        except Exception:
            world = [_pt(rng, dims[-1])]
        case = {"kind": "api", "frames": frames, "trs": trs, "dims": dims, "pts": pts, "world": world}
        if rng.random() < 0.4:
            case["box"] = [[-100, 100]] * dims[0]
            case["pts_out"] = [[C.q2w(Fraction(101 + i)) for i in range(dims[0])]]
        yield case
    for _ in range(30 if tier == "quick" else 1500):
        ndim = rng.randint(1, 4)
        ops = []
        for _o in range(rng.randint(1, 8)):
            k = rng.choice(["pixel", "array", "pixel", "array", "bbox"])
            if k == "bbox":
                ops.append({"k": "bbox", "v": [[-0.5, rng.randint(1, 100) - 0.5] for _i in range(ndim)], "as_dict": rng.random() < 0.4})
            else:
                ln = ndim if rng.random() < 0.7 else max(1, ndim + rng.choice([-1, 1, 2]))
                ops.append({"k": k, "v": None if rng.random() < 0.12 else [rng.randint(1, 500) for _i in range(ln)], "as_array": rng.random() < 0.3})
        yield {"kind": "shape", "ndim": ndim, "ops": ops}
    for _ in range(6 if tier == "quick" else 200):
        vals = []
        for _v in range(12):
            nn = rng.randint(-50, 50)
            vals.append(rng.choice([nn + 0.5, math.nextafter(nn + 0.5, -math.inf), math.nextafter(nn + 0.5, math.inf), float(nn),
                                    nn + round(rng.uniform(-0.49, 0.49), 3), -0.5, 0.49999, 1.49999]))
        yield {"kind": "toindex", "vals": vals}
    for ax in (0, 1, 2):
        yield {"kind": "fixed", "axis": ax}
