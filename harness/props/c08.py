"""C08 — answers depend only on the current pipeline, never on earlier queries (gwcs/wcs.py, gwcs/api.py)."""
import copy
import io
import contextlib

import numpy as np
from astropy.modeling import models

import common as C
import skygen as S
from gwcs import wcs as gw
from gwcs import coordinate_frames as cf

PROP = "C08"
LEAN_MODULE = "GwcsProofs.C08"
SOURCES = ["GwcsModel/Basic.lean", "GwcsModel/Cache.lean", "GwcsProofs/C08.lean"]
THEOREMS = [
    "Gwcs.Cache.step_coherent",
    "Gwcs.Cache.step_epochCoherent",
    "Gwcs.Cache.queries_preserve_abs",
    "Gwcs.Cache.rejected_edit_noop",
    "Gwcs.Cache.answer_depends_on_abs",
    "Gwcs.Cache.run_coherent",
    "Gwcs.Cache.run_history",
    "Gwcs.Cache.run_epochCoherent",
    "Gwcs.Cache.stale_without_invalidation",
]
RULE = ("case = history interleaving edits (set_transform of either step, insert_transform, insert_frame, bounding_box, pixel_shape, rejected "
        "edits) with queries (forward, invert, numerical_inverse, in_image, footprint, to_fits_sip, get_transform, APE-14 properties, str/repr) "
        "on a 2-D celestial WCS with/without analytic inverse; every answer compared with a fresh twin built from the current pipeline, and "
        "pipeline/box/shape/parameters/arguments snapshotted around every query; non-trivial = >= 1 inverting query after a successful edit; "
        "distinct by hash of history")
TRUSTED = ["harness/props/c08.py: fresh-twin comparison and snapshots on the real WCS; memo bookkeeping (epoch of _calc_approx_inv) vs Lean model"]
ASSUMPTIONS = ["user code does not mutate transform parameters in place behind gwcs' back (no API event exists for it)",
               "iterative answers compared to solver tolerance (1e-4 px), all others exactly"]
SERIAL = False

_EPOCH = [0]
_orig_calc = gw.WCS._calc_approx_inv


def _calc_wrapped(self, *a, **k):
    with contextlib.redirect_stdout(io.StringIO()):
        r = _orig_calc(self, *a, **k)
    self.__dict__["_verif_calc_epoch"] = _EPOCH[0]
    return r


gw.WCS._calc_approx_inv = _calc_wrapped


def _twin(w):
    steps = [(s.frame, copy.deepcopy(s.transform)) for s in w.pipeline]
    t = gw.WCS(steps)
    try:
        bb = w.bounding_box
    except Exception:
        bb = None
    if bb is not None:
        t.bounding_box = tuple(tuple(iv) for iv in bb.bounding_box(order="F"))
    else:
        try:
            t.bounding_box = None
        except Exception:
            pass
    t.pixel_shape = w.pixel_shape
    return t


def _snapshot(w):
    try:
        bb = w.bounding_box
        box = None if bb is None else [[repr(iv[0]), repr(iv[1])] for iv in bb.bounding_box(order="F")] + [bb.order]
    except Exception as e:
        box = "err:" + C.exc_enum(e)
    def inv_box(t):
        ui = getattr(t, "_user_inverse", None)
        if ui is None:
            return None
        try:
            return repr(ui.bounding_box.bounding_box())
        except NotImplementedError:
            return "no box"
    def inv_state(t):
        # a user-supplied inverse is the caller's model: its parameters and what it gives as its own inverse are not a query's to change
        ui = getattr(t, "_user_inverse", None)
        if ui is None:
            return None
        return [[float(x) for x in ui.parameters], id(getattr(ui, "_user_inverse", None))]
    return {"frames": list(w.available_frames),
            "user_inverse_boxes": [None if s.transform is None else inv_box(s.transform) for s in w.pipeline],
            "user_inverse_state": [None if s.transform is None else inv_state(s.transform) for s in w.pipeline],
            "params": [None if s.transform is None else [float(x) for x in s.transform.parameters] for s in w.pipeline],
            "tids": [id(s.transform) for s in w.pipeline],
            "bbox": box, "pixel_shape": None if w.pixel_shape is None else list(w.pixel_shape)}


def _canon(v):
    if isinstance(v, (tuple, list)):
        return [_canon(x) for x in v]
    if isinstance(v, np.ndarray):
        return _canon(v.tolist())
    if isinstance(v, (np.floating, float, np.integer, int, np.bool_, bool)):
        f = float(v)
        return "nan" if f != f else f
    if v is None or isinstance(v, str):
        return v
    return str(v)


def _ask(w, q):
    k = q["q"]
    args = None
    try:
        with contextlib.redirect_stdout(io.StringIO()):
            if k == "forward":
                args = [np.array(c, dtype=float) for c in zip(*q["pts"])]
                keep = [a.copy() for a in args]
                r = w(*args, with_bounding_box=q.get("wbb", True))
                if any((a != b).any() for a, b in zip(args, keep)):
                    return {"err": "args_mutated"}
                return {"v": _canon(r)}
            if k in ("invert", "numinv", "in_image"):
                args = [np.array(c, dtype=float) for c in zip(*q["world"])]
                keep = [a.copy() for a in args]
                f = {"invert": w.invert, "numinv": w.numerical_inverse, "in_image": w.in_image}[k]
                r = f(*args)
                if any(not np.array_equal(a, b, equal_nan=True) for a, b in zip(args, keep)):
                    return {"err": "args_mutated"}
                return {"v": _canon(r), "iter": True}
            if k == "footprint":
                return {"v": _canon(w.footprint())}
            if k == "sip":
                crpix = None if q.get("crpix") is None else np.array(q["crpix"], dtype=float)
                keep = None if crpix is None else crpix.copy()
                deg = copy.deepcopy(q.get("degree", 3))      # (a copy: the recorded case must stay what was generated)
                deg_keep = list(deg) if isinstance(deg, list) else deg
                tol = np.array(100.0)        # the tolerances as 0-d arrays (what indexing a table of requirements gives)
                itol = np.array(100.0)
                h = w.to_fits_sip(degree=deg, max_pix_error=tol, max_inv_pix_error=itol, npoints=8, crpix=crpix)
                if crpix is not None and not np.array_equal(crpix, keep):
                    return {"err": "args_mutated"}
                if float(tol) != 100.0 or float(itol) != 100.0:
                    return {"err": "args_mutated"}
                if deg != deg_keep:
                    return {"err": "args_mutated"}
                return {"v": [[c.keyword, _canon(c.value)] for c in h.cards], "iter": True}
            if k == "tab":
                bb = [tuple(b) for b in q["bbox"]]
                keep = copy.deepcopy(bb)
                h, t = w.to_fits_tab(bounding_box=bb, sampling=q.get("sampling", 150))
                if bb != keep:
                    return {"err": "args_mutated"}
                return {"v": [[c.keyword, _canon(c.value)] for c in h.cards] + [_canon(np.asarray(t.data["coordinates"]).ravel()[:50])], "iter": True}
            if k == "fits":
                bb = [tuple(b) for b in q["bbox"]]
                h, tabs = w.to_fits(bounding_box=bb, sampling=q.get("sampling", 2))
                return {"v": [[c.keyword, _canon(c.value)] for c in h.cards if c.keyword not in ("COMMENT", "")] +
                             [[t.name, int(t.ver), _canon(np.asarray(t.data["coordinates"]).ravel()[:60])] for t in tabs], "iter": True}
            if k == "qforward":
                import astropy.units as u
                r = w(*[c * u.pix for c in q["pt"]])
                return {"v": _canon([float(u.Quantity(x).value) for x in r])}
            if k == "pixel_bounds":
                return {"v": _canon(w.pixel_bounds)}
            if k == "get":
                t = w.get_transform(q["from"], q["to"])
                if t is None:
                    return {"v": None}
                return {"v": _canon(t(*q["pt"]))}
            if k == "props":
                return {"v": [w.pixel_n_dim, w.world_n_dim, _canon(w.array_shape), _canon(w.pixel_shape),
                              _canon(w.pixel_bounds), list(w.world_axis_physical_types), list(w.world_axis_units),
                              _canon(w.axis_correlation_matrix), list(w.available_frames),
                              str(type(w.forward_transform).__name__)]}
            if k == "str":
                return {"v": [str(w), repr(w)]}
    except Exception as e:
        return {"err": C.exc_enum(e), "msg": str(e)[:120]}
    return {"err": "badq"}


def _close(a, b, tol):
    if isinstance(a, list) and isinstance(b, list):
        return len(a) == len(b) and all(_close(x, y, tol) for x, y in zip(a, b))
    if isinstance(a, float) and isinstance(b, float):
        return a == b or abs(a - b) <= tol
    return a == b


def _edit(w, ev, st):
    op = ev["op"]
    if op == "set2" and ev.get("direct"):
        # the same edit through the public Step.transform setter of the step the pipeline hands out
        w.pipeline[list(w.available_frames).index("focal")].transform = S.step2(ev["params"])
    elif op == "set2":
        w.set_transform("focal", "sky", S.step2(ev["params"]))
    elif op == "set1":
        w.set_transform("detector", "inter" if "inter" in w.available_frames else "focal", S.step1(ev["params"]))
    elif op == "instr":
        w.insert_transform("focal", models.Shift(ev["shift"][0]) & models.Shift(ev["shift"][1]), after=ev["after"])
    elif op == "insfr":
        fr_ = cf.Frame2D(name="inter", axes_order=(0, 1))
        w.insert_frame(fr_, models.Shift(ev["shift"][0]) & models.Scale(ev["shift"][1]), "focal")
    elif op == "bbox":
        w.bounding_box = None if ev["v"] is None else tuple(tuple(b) for b in ev["v"])
    elif op == "param":
        # a parameter of the sky step changed in place, through the model the pipeline hands out (re-pointing by a small angle)
        t = w.pipeline[list(w.available_frames).index("focal")].transform
        name = [n_ for n_ in t.param_names if n_.startswith("lon_") and "pole" not in n_][-1]
        setattr(t, name, getattr(t, name).value + ev["delta"])
        # ... and the focal plane re-centred (the linear part's translation: its inverse is computed, not shared)
        name = [n_ for n_ in t.param_names if n_.startswith("translation")][0]
        setattr(t, name, getattr(t, name).value + 1e-4 * ev["delta"])
    elif op == "set_inverse":
        # the user attaches an (approximate: distortion-free) analytic inverse to the first step's transform, in place
        w.pipeline[0].transform.inverse = S.step1(dict(ev["params"], dist=None)).inverse
    elif op == "sep_instr":
        w.insert_transform("mid", _sep_t(ev["t"]), after=ev["after"])
    elif op == "sep_set":
        w.set_transform(ev["from"], ev["to"], _sep_t(ev["t"]))
    elif op == "sep_step":
        # the public Step.transform setter: a direct assignment to a pipeline step
        w.pipeline[ev["i"]].transform = _sep_t(ev["t"])
    elif op == "bad":
        kind = ev["kind"]
        if kind == "nonadjacent":
            w.set_transform("detector", "sky", models.Identity(2))
        elif kind == "ghost":
            w.insert_transform("ghost", models.Identity(2))
        elif kind == "box_shape":
            w.bounding_box = ((0, 1), (0, 1), (0, 1))
        elif kind == "dup_frame":
            w.insert_frame("detector", models.Identity(2), "sky")
        elif kind == "not_model":
            w.set_transform("focal", "sky", 5)


def _sep_t(spec):
    """three separable axes, optionally coupled pairwise by a rotation"""
    t = None
    for a, b in zip(spec["a"], spec["b"]):
        m = models.Scale(b) | models.Shift(a)
        t = m if t is None else t & m
    if spec.get("couple") == "01":
        t = t | (models.Rotation2D(spec["angle"]) & models.Identity(1))
    elif spec.get("couple") == "12":
        t = t | (models.Identity(1) & models.Rotation2D(spec["angle"]))
    return t


def _build_sep(case):
    import astropy.units as u
    det = cf.CoordinateFrame(3, ("SPATIAL",) * 3, (0, 1, 2), unit=(u.pix,) * 3, name="detector")
    world = cf.CompositeFrame([cf.SpectralFrame(unit=u.um, axes_order=(0,), name="spec"),
                               cf.CoordinateFrame(1, ("SPATIAL",), (1,), unit=(u.m,), name="g1", axes_names=("g1",)),
                               cf.CoordinateFrame(1, ("SPATIAL",), (2,), unit=(u.m,), name="g2", axes_names=("g2",))], name="world")
    w = gw.WCS([(det, _sep_t(case["t1"])), ("mid", _sep_t(case["t2"])), (world, None)])
    w.bounding_box = tuple(tuple(b) for b in case["box"])
    return w


def _build_userinv(case):
    """one step whose transform has a user-supplied inverse that carries a validity box of its own"""
    a, b = case["shift"]
    t = models.Shift(a) & models.Shift(b)
    ui = models.Shift(-a) & models.Shift(-b)
    ui.bounding_box = tuple(tuple(x) for x in case["inv_box"])[::-1]
    t.inverse = ui
    w = gw.WCS([(cf.Frame2D(name="detector"), t), (cf.Frame2D(name="world"), None)])
    w.bounding_box = ((-5.0, 45.0), (-5.0, 25.0))      # single step, non-square box
    return w


def _build_units(case):
    import astropy.units as u
    from astropy import coordinates as coord
    cx, cy, sc = case["units"]
    shift = models.Shift(-cx * u.pix) & models.Shift(-cy * u.pix)
    scale = models.Multiply(sc * u.deg / u.pix) & models.Multiply(sc * u.deg / u.pix)
    rot = models.RotateNative2Celestial(30 * u.deg, 45 * u.deg, 180 * u.deg)
    det = cf.Frame2D(name="detector", axes_order=(0, 1), unit=(u.pix, u.pix))
    sky = cf.CelestialFrame(name="sky", reference_frame=coord.ICRS(), unit=(u.deg, u.deg))
    w = gw.WCS([(det, shift | scale), ("focal", models.Pix2Sky_TAN() | rot), (sky, None)])
    w.bounding_box = ((0 * u.pix, 2 * cx * u.pix), (0 * u.pix, 2 * cy * u.pix))
    return w


def impl(case):
    if case.get("kind") == "identity_bbox":
        w = gw.WCS([("detector", models.Identity(2)), ("world", None)])
        w.bounding_box = ((0, 10), (0, 20))
        before = _snapshot(w)
        ans = _ask(w, {"q": "invert", "world": [[1.0, 2.0]]})
        return {"special": True, "before": before, "after": _snapshot(w), "ans": ans}
    _EPOCH[0] = 0
    if case.get("kind") == "units":
        w = _build_units(case)
    elif case.get("kind") == "sep":
        w = _build_sep(case)
    elif case.get("kind") == "userinv":
        w = _build_userinv(case)
    else:
        w = S.build(case["params"], with_bbox=case.get("bbox0", True))
    steps = []
    for ev in case["events"]:
        rec = {}
        if ev["k"] == "edit":
            snap = _snapshot(w)
            try:
                _edit(w, ev, None)
                rec["ok"] = True
                if ev["op"] not in ("param", "set_inverse"):
                    _EPOCH[0] += 1      # (a change made inside a model is invisible to the WCS: its memo of the initial guess stays)
            except Exception as e:
                rec["ok"] = False
                rec["err"] = C.exc_enum(e)
                rec["unchanged"] = _snapshot(w) == snap
        elif ev["k"] == "shape":
            w.pixel_shape = ev["v"]
            rec["ok"] = True
        elif ev["k"] == "derived":
            # a second WCS built from this one's pipeline (or by fix_inputs) is edited: this one must not notice
            snap = _snapshot(w)
            pts = [np.array([10.0, 200.0]), np.array([20.0, 100.0])]
            before = _canon(w(*pts, with_bounding_box=False))
            try:
                w2 = gw.WCS(w.pipeline) if ev["how"] == "pipeline" else w.fix_inputs({})
                if ev["edit"] == "set":
                    w2.set_transform(w2.available_frames[-2], w2.available_frames[-1], S.step2(ev["params"]))
                else:
                    w2.insert_transform(w2.available_frames[-1], models.Shift(3.0) & models.Shift(-2.0), after=False)
                rec["ok"] = True
            except Exception as e:
                rec["ok"] = False
                rec["err"] = C.exc_enum(e)
            after = _snapshot(w)
            rec["unchanged"] = after == snap and _canon(w(*pts, with_bounding_box=False)) == before
            if not rec["unchanged"]:
                rec["changed"] = [k for k in snap if snap[k] != after[k]] or ["forward values"]
        else:
            tw = _twin(w)
            snap = _snapshot(w)
            a = _ask(w, ev)
            b = _ask(tw, ev)
            rec["ans"] = a
            rec["twin"] = b
            rec["unchanged"] = _snapshot(w) == snap
            if not rec["unchanged"]:
                after = _snapshot(w)
                rec["changed"] = [k for k in snap if snap[k] != after[k]]
        rec["epoch"] = _EPOCH[0]
        # the memo counts only while it is valid for the transforms the pipeline holds now (it is dropped lazily, at the next
        # inversion, when a step's transform was replaced through the Step object)
        key_now = tuple(id(st_.transform) for st_ in w.pipeline)
        stale = "_approx_inverse_key" in w.__dict__ and w.__dict__["_approx_inverse_key"] != key_now
        rec["memo"] = None if (w._approx_inverse is None or stale) else w.__dict__.get("_verif_calc_epoch", -1)
        steps.append(rec)
    return {"steps": steps}


def oracle(case, res):
    out = []
    if res.get("special"):
        if res["before"] != res["after"]:
            out.append(("D19", "inverting a WCS whose first transform is a bare Identity dropped its bounding box: %s -> %s"
                        % (res["before"]["bbox"], res["after"]["bbox"])))
        return out
    for n, (ev, rec) in enumerate(zip(case["events"], res["steps"])):
        if ev["k"] == "edit":
            if ev["op"] == "bad" and rec["ok"]:
                out.append(("accepted_invalid", "event %d: invalid edit %s was accepted" % (n, ev["kind"])))
            if not rec["ok"] and not rec.get("unchanged", True):
                out.append(("atomic", "event %d: rejected edit %s changed the WCS" % (n, ev)))
            if ev["op"] != "bad" and not rec["ok"]:
                out.append(("rejected_valid", "event %d: valid edit %s raised %s" % (n, ev["op"], rec.get("err"))))
        elif ev["k"] == "derived":
            if not rec["unchanged"]:
                out.append(("shared", "event %d: editing a WCS derived from this one (%s, %s) changed %s of this one" % (n, ev["how"], ev["edit"], rec.get("changed"))))
        elif ev["k"] == "query":
            if not rec["unchanged"]:
                out.append(("query_mutates", "event %d: query %s changed %s of the WCS" % (n, ev["q"], rec.get("changed"))))
            a, b = rec["ans"], rec["twin"]
            if a.get("err") == "args_mutated":
                out.append(("args", "event %d: query %s modified the caller's arguments" % (n, ev["q"])))
                continue
            if ("err" in a) != ("err" in b) or ("err" in a and a["err"] != b["err"]):
                out.append(("twin", "event %d: query %s answers %s but a fresh twin answers %s (history %s)" %
                            (n, ev["q"], _brief(a), _brief(b), [e.get("op", e.get("q")) for e in case["events"][:n]])))
            elif "v" in a:
                tol = 1e-4 if a.get("iter") else 0.0
                if ev["q"] == "sip":
                    tol = 1e-9
                if not _close(a["v"], b["v"], tol):
                    out.append(("twin", "event %d: query %s answers %s but a fresh twin answers %s (history %s)" %
                                (n, ev["q"], _brief(a), _brief(b), [e.get("op", e.get("q")) for e in case["events"][:n]])))
        if len(out) > 3:
            break
    return out


def _brief(a):
    s = str(a)
    return s if len(s) < 300 else s[:300] + "..."


def request(case, res):
    if res.get("special"):
        return None
    evs = []
    for ev, rec in zip(case["events"], res["steps"]):
        if ev["k"] == "edit" and ev.get("op") in ("param", "set_inverse"):
            evs.append({"k": "query", "inverting": False})      # a change inside a model: not an edit the WCS can see, its memo stays
        elif ev["k"] == "edit":
            evs.append({"k": "edit", "ok": bool(rec["ok"])})
        elif ev["k"] in ("shape", "derived"):
            evs.append({"k": "query", "inverting": False})
        else:
            evs.append({"k": "query", "inverting": bool(ev.get("inverting"))})
    return {"op": "cache", "events": evs}


def compare(case, res, resp):
    if "ok" not in resp:
        return "model error %s" % resp
    for n, (rec, m) in enumerate(zip(res["steps"], resp["ok"])):
        if case["events"][n].get("motif"):
            break      # (from here on the history holds changes made inside a model, which the memo model does not follow: answers only)
        if [rec["epoch"], rec["memo"]] != m:
            return ("after event %d (%s): implementation has edit count %s and an initial-guess memo computed at edit count %s; "
                    "model says %s" % (n, case["events"][n].get("op", case["events"][n].get("q")), rec["epoch"], rec["memo"], m))
    return None


def nontrivial(case, res):
    if res.get("special"):
        return False
    seen_edit = False
    for ev, rec in zip(case["events"], res["steps"]):
        if ev["k"] == "edit" and rec.get("ok"):
            seen_edit = True
        if ev["k"] == "query" and (ev.get("inverting") or case.get("kind") == "sep") and seen_edit:
            return True
    return False


def stats(case, res, st):
    if res.get("special"):
        st["special"] += 1
        return
    for ev, rec in zip(case["events"], res["steps"]):
        if ev["k"] == "edit":
            st["edit_" + ev["op"] + ("_ok" if rec["ok"] else "_rej")] += 1
        elif ev["k"] == "query":
            st["q_" + ev["q"]] += 1
            if "err" in rec["ans"]:
                st["qerr_" + rec["ans"]["err"]] += 1
            if ev.get("inverting"):
                st["inverting"] += 1
    if case.get("kind") == "units":
        st["units"] += 1
    elif case.get("kind") == "sep":
        st["separable3"] += 1
    elif case.get("kind") == "userinv":
        st["user_inverse_with_box"] += 1
    else:
        st["analytic0" if case["params"]["dist"] is None else "iterative0"] += 1


def gen(rng, tier):
    n = 36 if tier == "quick" else 1500
    for _ in range(n):
        p = S.gen_params(rng)
        cur1, cur2 = p, p
        has_bbox = rng.random() < 0.85
        bbox0 = has_bbox
        has_frame = False
        extra_shift = []
        events = []
        for _e in range(rng.randint(3, 10)):
            analytic = cur1["dist"] is None
            r = rng.random()
            if r < 0.4:
                op = rng.choice(["set2", "set2", "set1", "instr", "insfr", "bbox", "bbox", "bad", "shape"])
                if not has_bbox and rng.random() < 0.5:
                    op = "bbox"
                if op == "set2":
                    np_ = S.gen_params(rng)
                    np_["crpix"], np_["dist"] = cur1["crpix"], cur1["dist"]
                    if rng.random() < 0.5:  # small re-pointing, same scale
                        np_["scale"], np_["rot"], np_["parity"] = cur2["scale"], cur2["rot"], cur2["parity"]
                    cur2 = np_
                    events.append({"k": "edit", "op": "set2", "params": np_, "direct": rng.random() < 0.35})
                elif op == "set1":
                    np_ = S.gen_params(rng)
                    np_["crpix"] = [cur1["crpix"][0] + rng.uniform(-40, 40), cur1["crpix"][1] + rng.uniform(-40, 40)]
                    cur1 = np_
                    has_bbox = False   # the box lives on the replaced step-0 transform object
                    events.append({"k": "edit", "op": "set1", "params": np_})
                elif op == "instr":
                    after = rng.random() < 0.5
                    if not after and not has_frame:
                        has_bbox = False   # composes onto the step-0 transform: a new object without a box
                    events.append({"k": "edit", "op": "instr", "after": after,
                                   "shift": [rng.uniform(-30, 30), rng.uniform(-30, 30)]})
                elif op == "insfr":
                    if has_frame:
                        events.append({"k": "edit", "op": "bad", "kind": "dup_frame"})
                    else:
                        has_frame = True
                        events.append({"k": "edit", "op": "insfr", "shift": [rng.uniform(-5, 5), rng.choice([1.0, 0.5, 2.0])]})
                elif op == "bbox":
                    if rng.random() < 0.2:
                        has_bbox = False
                        events.append({"k": "edit", "op": "bbox", "v": None})
                    else:
                        has_bbox = True
                        events.append({"k": "edit", "op": "bbox", "v": [[-0.5, rng.randint(300, 1200) - 0.5], [-0.5, rng.randint(300, 1200) - 0.5]]})
                elif op == "bad":
                    events.append({"k": "edit", "op": "bad", "kind": rng.choice(["nonadjacent", "ghost", "box_shape", "dup_frame", "not_model"])})
                else:
                    events.append({"k": "shape", "v": [rng.randint(10, 2000), rng.randint(10, 2000)]})
            else:
                q = rng.choice(["forward", "invert", "invert", "numinv", "numinv", "in_image", "footprint", "sip", "tab", "get", "props", "str"])
                if tier == "quick" and q == "tab" and rng.random() < 0.5:
                    q = "str"
                if tier == "quick" and q == "sip" and rng.random() < 0.6:
                    q = "props"
                ev = {"k": "query", "q": q}
                if q == "forward":
                    ev["pts"] = [[rng.uniform(-100, 1500), rng.uniform(-100, 1500)] for _ in range(4)]
                    ev["wbb"] = rng.random() < 0.7
                elif q in ("invert", "numinv", "in_image"):
                    # world points from the *current* WCS family member: use the current parameters' fiducial neighbourhood
                    d = cur2["scale"] * 300
                    ra0, dec0 = cur2["crval"]
                    ev["world"] = [[ra0 + rng.uniform(-d, d) / max(0.05, np.cos(np.radians(dec0))), dec0 + rng.uniform(-d, d)] for _ in range(3)]
                    if rng.random() < 0.2:
                        ev["world"].append([float("nan"), dec0])
                    if q == "numinv":
                        ev["inverting"] = bool(analytic or has_bbox)
                    else:
                        ev["inverting"] = bool((not analytic) and has_bbox)
                elif q == "sip":
                    if rng.random() < 0.6:
                        ev["crpix"] = [cur1["crpix"][0] + 1.0, cur1["crpix"][1] + 1.0]
                    if rng.random() < 0.5:
                        ev["degree"] = rng.choice([[3, 1, 2], [2, 1], [1, 3]])      # a caller's list, not in ascending order
                elif q == "tab":
                    ev["bbox"] = [[0.0, 300.0], [0.0, 200.0]]
                elif q == "get":
                    fr_ = ["detector", "focal", "sky"]
                    ev["from"], ev["to"] = rng.choice([("detector", "focal"), ("focal", "sky"), ("detector", "sky"), ("focal", "detector") if analytic else ("detector", "focal")])
                    ev["pt"] = [rng.uniform(0, 500), rng.uniform(0, 500)]
                events.append(ev)
        if rng.random() < 0.3:
            events.insert(rng.randrange(len(events) + 1), {"k": "derived", "how": rng.choice(["pipeline", "pipeline", "fix_inputs"]),
                                                            "edit": rng.choice(["set", "instr"]), "params": S.gen_params(rng)})
        if rng.random() < 0.35:
            # motif: evaluate, replace or remove the bounding box, evaluate the same points again (some inside exactly one of the boxes)
            pts = [[rng.uniform(-100, 1500), rng.uniform(-100, 1500)] for _ in range(5)]
            events.append({"k": "query", "q": "forward", "pts": pts, "wbb": True})
            events.append({"k": "edit", "op": "bbox", "v": None if rng.random() < 0.3 else
                           [[-0.5, rng.randint(300, 1200) - 0.5], [-0.5, rng.randint(300, 1200) - 0.5]]})
            events.append({"k": "query", "q": "forward", "pts": pts, "wbb": True})
        if _ % 3 == 1 and not has_frame and not extra_shift:
            # motif: ask upstream across the sky step, re-point that step in place, ask again
            sky_pt = [cur2["crval"][0] + 0.003, cur2["crval"][1] - 0.002]
            events.append({"k": "query", "q": "get", "from": "sky", "to": "focal", "pt": sky_pt})
            events.append({"k": "edit", "op": "param", "delta": 0.0625})
            events.append({"k": "query", "q": "get", "from": "sky", "to": "focal", "pt": sky_pt})
        if _ % 3 == 2 and cur1["dist"] is not None and not has_frame and not extra_shift:
            # motif: invert iteratively, attach a user inverse to the first step in place, invert again
            d_ = cur2["scale"] * 200
            c_ = max(0.05, np.cos(np.radians(cur2["crval"][1])))
            wpts = [[cur2["crval"][0] + d_ / c_, cur2["crval"][1] + 0.5 * d_], [cur2["crval"][0] - 0.5 * d_ / c_, cur2["crval"][1] + d_]]
            events.append({"k": "query", "q": "invert", "world": wpts, "inverting": bool(has_bbox), "motif": True})
            events.append({"k": "edit", "op": "set_inverse", "params": cur1})
            events.append({"k": "query", "q": "invert", "world": wpts, "inverting": False})
        yield {"params": p, "bbox0": bbox0, "events": events}
    # separable 3-axis WCS whose coupling pattern is changed by edits (incl. direct assignment to a pipeline step) between queries
    # that depend on the separability analysis (correlation matrix, -TAB grouping)
    def sep_spec(coupled=None):
        c = rng.choice([None, None, "01", "12"]) if coupled is None else (None if coupled is False else coupled)
        return {"a": [float(rng.randint(-5, 5)) for _i in range(3)], "b": [rng.choice([0.5, 1.0, 2.0, 0.25]) for _i in range(3)],
                "couple": c, "angle": rng.choice([30.0, 45.0, 60.0])}
    for _ in range(10 if tier == "quick" else 300):
        box = [[0.0, float(rng.randint(4, 9))] for _i in range(3)]
        evs = []
        for _e in range(rng.randint(4, 8)):
            if rng.random() < 0.45:
                op = rng.choice(["sep_instr", "sep_set", "sep_step", "sep_step", "bbox"])
                if op == "sep_instr":
                    evs.append({"k": "edit", "op": op, "t": sep_spec(rng.choice(["01", "12"])), "after": rng.random() < 0.5})
                elif op == "sep_set":
                    fr_, to = rng.choice([("detector", "mid"), ("mid", "world")])
                    evs.append({"k": "edit", "op": op, "from": fr_, "to": to, "t": sep_spec()})
                elif op == "sep_step":
                    evs.append({"k": "edit", "op": op, "i": rng.choice([0, 1]), "t": sep_spec()})
                else:
                    box = [[0.0, float(rng.randint(4, 9))] for _i in range(3)]
                    evs.append({"k": "edit", "op": "bbox", "v": box})
            else:
                q = rng.choice(["props", "props", "tab", "fits", "forward"])
                ev = {"k": "query", "q": q}
                if q == "forward":
                    ev["pts"] = [[rng.uniform(-1, 10), rng.uniform(-1, 10), rng.uniform(-1, 10)] for _i in range(4)]
                if q in ("tab", "fits"):
                    ev["bbox"] = [[0.0, float(rng.randint(3, 6))] for _i in range(3)]
                    ev["sampling"] = rng.choice([1, 2])
                evs.append(ev)
        yield {"kind": "sep", "t1": sep_spec(), "t2": sep_spec(False), "box": box, "events": evs}
    for _ in range(6 if tier == "quick" else 150):
        box = [[0.0, float(rng.randint(5, 30))], [0.0, float(rng.randint(5, 30))]]
        evs = []
        for _e in range(rng.randint(3, 6)):
            q = rng.choice(["get", "invert", "in_image", "get", "forward", "props"])
            ev = {"k": "query", "q": q}
            if q == "get":
                ev["from"], ev["to"] = "world", "detector"
                ev["pt"] = [rng.uniform(-10, 40), rng.uniform(-10, 40)]
            elif q in ("invert", "in_image"):
                ev["world"] = [[rng.uniform(-10, 40), rng.uniform(-10, 40)] for _i in range(3)]
            elif q == "forward":
                ev["pts"] = [[rng.uniform(-10, 40), rng.uniform(-10, 40)] for _i in range(3)]
            evs.append(ev)
        yield {"kind": "userinv", "shift": [float(rng.randint(-5, 5)), float(rng.randint(-5, 5))], "inv_box": box, "events": evs}
    for _ in range(4 if tier == "quick" else 100):
        evs = []
        for _e in range(rng.randint(2, 6)):
            q = rng.choice(["pixel_bounds", "props", "qforward", "str", "qforward"])
            ev = {"k": "query", "q": q}
            if q == "qforward":
                ev["pt"] = [rng.uniform(-10, 120), rng.uniform(-10, 60)]
            evs.append(ev)
        yield {"kind": "units", "units": [rng.choice([50.0, 64.0]), rng.choice([25.0, 32.0]), rng.choice([0.01, 0.001])], "events": evs}
