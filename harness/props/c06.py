"""C06 — every conversion is a pointwise map: shape-preserving and batch-independent (wcs.py, api.py, selector.py, ...)."""
import contextlib
import io

import numpy as np
from astropy.modeling import models

import common as C
import skygen as S
from gwcs import wcs as gw

PROP = "C06"
LEAN_MODULE = "GwcsProofs.C06"
SOURCES = ["GwcsModel/Batch.lean", "GwcsProofs/C06.lean"]
THEOREMS = [
    "Gwcs.Batch.batch_elem",
    "Gwcs.Batch.batch_length",
    "Gwcs.Batch.batch_perm",
    "Gwcs.Batch.batch_reverse",
    "Gwcs.Batch.batch_append",
    "Gwcs.Batch.batch_split",
    "Gwcs.Batch.batch_empty",
    "Gwcs.Batch.numinv_skeleton",
    "Gwcs.Batch.numinv_rows_independent",
    "Gwcs.Batch.broadcast_scalar",
    "Gwcs.Batch.broadcast_self",
    "Gwcs.Sel.selector_pointwise",
    "Gwcs.Sel.scatter_gather_eq",
]
RULE = ("case = (entry point, WCS, input shape, permutation, partition): forward, analytic and iterative inversion, numerical_inverse, in_image and "
        "the four APE-14 values methods on exact affine WCSs (1..3-D, with/without box) and on distorted celestial WCSs (iterative path), for "
        "shapes 0-d, (1,), (n,), (n,m), (k,1,m), (0,), broadcastable mixes (forward); the array answer is compared with element-by-element "
        "answers, with the answer to the permuted batch and with the answers to a partition; package-defined models are covered by C15/C19's "
        "batch clauses; non-trivial = >= 2 elements with pairwise different element answers; distinct by (entry, shape, WCS)")
TRUSTED = ["harness/props/c06.py metamorphic comparison on the real WCS; the Lean layout of numerical_inverse's array path compared with the real output layout"]
ASSUMPTIONS = ["iterative inverse compared to the solver tolerance (2e-4 px at tolerance 1e-5); everything else exactly",
               "astropy model evaluation is pointwise (modelled)"]


def _c(v):
    v = float(v)
    return "nan" if v != v else C.f2w(v)


def _build(case):
    if case["wcs"] == "affine":
        t = None
        for a, b in case["ab"]:
            s = models.Scale(a) | models.Shift(b)
            t = s if t is None else t & s
        import pipegen as G
        n = len(case["ab"])
        w = gw.WCS([(G.frame_obj("detector", n), t), (G.frame_obj("world", n), None)])
        if case.get("box"):
            bx = tuple(tuple(iv) for iv in case["box"])
            w.bounding_box = bx[0] if len(bx) == 1 else bx
        return w
    return S.build(case["params"])


def _call(w, entry, args, mode=None):
    with contextlib.redirect_stdout(io.StringIO()):
        if entry == "numinv" and mode:
            return w.numerical_inverse(*args, **mode)
        if entry == "forward":
            return w(*args)
        if entry in ("invert", "invert_iter"):
            return w.invert(*args)
        if entry == "numinv":
            return w.numerical_inverse(*args)
        if entry == "in_image":
            return w.in_image(*args)
        if entry == "p2w_values":
            return w.pixel_to_world_values(*args)
        if entry == "w2p_values":
            return w.world_to_pixel_values(*args)
        if entry == "ai2w_values":
            return w.array_index_to_world_values(*args)
        if entry == "w2ai_values":
            return w.world_to_array_index_values(*args)
    raise ValueError(entry)


def _tup(r):
    return r if isinstance(r, (tuple, list)) else (r,)


def impl(case):
    if "c15" in case:
        from props import c15
        return c15.impl(case["c15"])
    w = _build(case)
    entry = case["entry"]
    cols = [np.array(c, dtype=float) for c in case["cols"]]       # flat columns, one per input axis
    shape = tuple(case["shape"])
    n = int(np.prod(shape)) if shape else 1
    res = {}
    # array call in the requested shape (0-d: python scalars)
    try:
        if case.get("bshapes"):
            args = [c.reshape(s) for c, s in zip(cols, case["bshapes"])]
            full = np.broadcast_arrays(*args)
            flat_in = [f.ravel() for f in full]
        else:
            args = [c.reshape(shape) for c in cols] if shape else [float(c[0]) for c in cols]
            flat_in = cols
        r = _tup(_call(w, entry, args, case.get("mode")))
        res["out_shapes"] = [list(np.shape(x)) for x in r]
        res["out"] = [[_c(v) for v in np.asarray(x, dtype=float).ravel()] for x in r]
        if case.get("bshapes"):
            # outputs broadcast to the common shape (astropy evaluates the parts of a separable `&` transform on their own inputs)
            try:
                res["out"] = [[_c(v) for v in np.broadcast_to(np.asarray(x, dtype=float), tuple(case["shape"])).ravel()] for x in r]
                res["broadcastable"] = True
            except ValueError:
                res["broadcastable"] = False
        res["scalar_types"] = [bool(np.ndim(x) == 0) for x in r]
    except Exception as e:
        res["err"] = C.exc_enum(e) + ":" + str(e)[:100]
        return res
    m = len(flat_in[0])
    # element by element
    per = []
    for i in range(m):
        try:
            ri = _tup(_call(w, entry, [float(c[i]) for c in flat_in], case.get("mode")))
            per.append([_c(v) for v in ri])
        except Exception as e:
            per.append(["err:" + C.exc_enum(e)])
    res["per"] = per
    if m >= 2 and not case.get("bshapes") and shape:
        perm = case["perm"]
        try:
            rp = _tup(_call(w, entry, [c[perm] for c in cols], case.get("mode")))
            res["perm_out"] = [[_c(v) for v in np.asarray(x, dtype=float).ravel()] for x in rp]
        except Exception as e:
            res["perm_err"] = C.exc_enum(e)
        k = case["split"]
        try:
            r1 = _tup(_call(w, entry, [c[:k] for c in cols], case.get("mode")))
            r2 = _tup(_call(w, entry, [c[k:] for c in cols], case.get("mode")))
            res["split_out"] = [[_c(v) for v in np.asarray(a, dtype=float).ravel()] + [_c(v) for v in np.asarray(b, dtype=float).ravel()] for a, b in zip(r1, r2)]
        except Exception as e:
            res["split_err"] = C.exc_enum(e) + str(e)[:60]
    return res


def _tol(case):
    """iterative answers (distorted celestial WCS, inverse direction) are compared to the solver tolerance"""
    if case["wcs"] == "sky" and case["entry"] in ("invert_iter", "numinv", "w2p_values"):
        return 2e-4
    if case["wcs"] == "sky":
        return 1e-11     # libm sin/cos/atan2: numpy's vectorised and scalar code paths may differ in the last bits
    return 0.0


def _near(a, b, tol):
    if a == b:
        return True
    if a == "nan" or b == "nan" or a.startswith("err") or b.startswith("err"):
        return False
    x, y = C.w2f(a), C.w2f(b)
    return abs(x - y) <= tol


def oracle(case, res):
    out = []
    if "c15" in case:
        from props import c15
        return [(k, "region selector / label mapper as a batch: " + w) for k, w in c15.oracle(case["c15"], res)]
    tol = _tol(case)
    if "err" in res:
        if case["shape"] == [0] or 0 in case["shape"]:
            return out      # empty batches need not be accepted
        return [("raise", "%s on shape %s raised %s" % (case["entry"], case["shape"], res["err"]))]
    want_shape = case.get("bshape_expected", case["shape"])
    if case.get("bshapes") and res.get("broadcastable") and any(s != list(want_shape) for s in res["out_shapes"]):
        out.append(("D24", "forward evaluation with broadcastable inputs of shapes %s returns outputs of shapes %s, not the broadcast shape %s "
                    "(the values agree once broadcast)" % (case["bshapes"], res["out_shapes"], want_shape)))
    elif any(s != list(want_shape) for s in res["out_shapes"]):
        out.append(("shape", "%s: input shape %s (broadcast %s) gives output shapes %s" % (case["entry"], case["shape"], want_shape, res["out_shapes"])))
    if not case["shape"] and not all(res["scalar_types"]):
        out.append(("scalar", "%s: scalar input did not give scalar output" % case["entry"]))
    nout = len(res["out"])
    for j in range(nout):
        col = res["out"][j]
        el = [p[j] if j < len(p) else p[0] for p in res["per"]]
        bad = [i for i, (a, b) in enumerate(zip(col, el)) if not _near(a, b, tol)]
        if bad:
            i = bad[0]
            out.append(("pointwise", "%s shape %s: element %d of output %d is %s in the batch but %s alone (inputs %s)" %
                        (case["entry"], case["shape"], i, j, _d(col[i]), _d(el[i]), [c[i] if not case.get("bshapes") else "?" for c in case["cols"]])))
            break
    if "perm_out" in res:
        perm = case["perm"]
        for j in range(nout):
            want = [res["out"][j][p] for p in perm]
            if not all(_near(a, b, tol) for a, b in zip(res["perm_out"][j], want)):
                out.append(("permutation", "%s: permuting the batch does not permute output %d" % (case["entry"], j)))
                break
    elif "perm_err" in res:
        out.append(("permutation", "%s raised %s on the permuted batch" % (case["entry"], res["perm_err"])))
    if "split_out" in res:
        for j in range(nout):
            if not all(_near(a, b, tol) for a, b in zip(res["split_out"][j], res["out"][j])) or len(res["split_out"][j]) != len(res["out"][j]):
                out.append(("partition", "%s: answers to the two sub-batches (split at %d) do not concatenate to output %d of the whole batch" %
                            (case["entry"], case["split"], j)))
                break
    elif "split_err" in res and 0 < case["split"] < len(case["cols"][0]):
        out.append(("partition", "%s raised %s on a sub-batch" % (case["entry"], res["split_err"])))
    return out[:4]


def _d(s):
    return s if (s == "nan" or s.startswith("err")) else C.w2f(s)


def request(case, res):
    if "c15" in case:
        return None
    if "err" in res or not res.get("per") or any(len(p) != len(res["out"]) for p in res["per"]):
        return None
    r = {"op": "layout", "nout": len(res["out"]), "sols": res["per"]}
    if case.get("bshapes"):
        r["shapes"] = case["bshapes"]
    else:
        r["shapes"] = [case["shape"]] * len(case["cols"])
    return r


def compare(case, res, resp):
    if "ok" not in resp:
        return "model error %s" % resp
    tol = _tol(case)
    cols = resp["ok"]["cols"]
    for j, (a, b) in enumerate(zip(res["out"], cols)):
        if len(a) != len(b) or not all(_near(x, y, tol) for x, y in zip(a, b)):
            return "%s shape %s: output %d laid out as %s, the per-row assembly gives %s" % (case["entry"], case["shape"], j, [_d(v) for v in a][:8], [_d(v) for v in b][:8])
    bs = resp["ok"]["bshape"]
    if bs is not None and any(s != bs for s in res["out_shapes"]) and not (case.get("bshapes") and res.get("broadcastable")):
        return "%s: output shapes %s, broadcast shape of the inputs %s" % (case["entry"], res["out_shapes"], bs)
    return None


def nontrivial(case, res):
    if "c15" in case:
        return True
    per = res.get("per") or []
    return len(per) >= 2 and len({tuple(p) for p in per}) == len(per)


def stats(case, res, st):
    if "c15" in case:
        st["model_" + case["c15"]["kind"]] += 1
        return
    st["entry_" + case["entry"]] += 1
    st["wcs_" + case["wcs"]] += 1
    st["shape_%s" % ("x".join(map(str, case["shape"])) or "0d")] += 1
    if "err" in res:
        st["err"] += 1
    if case.get("bshapes"):
        st["broadcast"] += 1


SHAPES = [[], [1], [5], [2, 3], [3, 2], [2, 1, 3], [4, 1], [0], [6]]


def gen(rng, tier):
    q = tier == "quick"
    for _ in range(110 if q else 4000):
        dim = rng.randint(1, 3)
        ab = [[rng.choice([1.0, 2.0, -1.0, 0.5, 4.0]), float(rng.randint(-20, 20))] for _ in range(dim)]
        box = [[-2.0, 30.0 + i] for i in range(dim)] if rng.random() < 0.5 else None
        entry = rng.choice(["forward", "invert", "in_image", "p2w_values", "w2p_values", "ai2w_values", "w2ai_values"])
        shape = rng.choice(SHAPES)
        n = int(np.prod(shape)) if shape else 1
        cols = [[rng.choice([round(rng.uniform(-10, 45), 2), float(rng.randint(-5, 40)), float(rng.randint(0, 30)) + 0.5]) for _i in range(n)] for _d2 in range(dim)]
        if rng.random() < 0.25 and n:
            cols[0][rng.randrange(n)] = float("nan")
        perm = list(range(n))
        rng.shuffle(perm)
        case = {"wcs": "affine", "ab": ab, "box": box, "entry": entry, "shape": shape, "cols": cols, "perm": perm, "split": rng.randint(0, n)}
        if entry == "forward" and dim == 2 and rng.random() < 0.35:
            a, b = rng.randint(1, 4), rng.randint(1, 4)
            case["bshapes"] = [[a, 1], [1, b]] if rng.random() < 0.7 else [[a, b], []]
            case["cols"] = [[float(rng.randint(-5, 40)) for _i in range(int(np.prod(s)) if s else 1)] for s in case["bshapes"]]
            case["shape"] = [a, b]
            case["bshape_expected"] = [a, b]
        yield case
    for _ in range(24 if q else 800):
        p = S.gen_params(rng, distortion=True, aligned=True)
        p["scale"] = 10 ** rng.uniform(-5, -4)
        entry = rng.choice(["invert_iter", "numinv", "in_image", "w2p_values", "forward"])
        shape = rng.choice([[], [1], [4], [2, 3], [3, 2], [2, 1, 2]])
        n = int(np.prod(shape)) if shape else 1
        w = S.build(p)
        pts = S.pix_points(rng, p, n, margin=-20.0)
        if entry == "forward":
            cols = [[pt[0] for pt in pts], [pt[1] for pt in pts]]
        else:
            ra, dec = w(np.array([pt[0] for pt in pts]), np.array([pt[1] for pt in pts]), with_bounding_box=False)
            cols = [[float(v) for v in np.atleast_1d(ra)], [float(v) for v in np.atleast_1d(dec)]]
            if rng.random() < 0.3 and n > 1:
                cols[0][rng.randrange(n)] = float("nan")
        perm = list(range(n))
        rng.shuffle(perm)
        case = {"wcs": "sky", "params": p, "entry": entry, "shape": shape, "cols": cols, "perm": perm, "split": rng.randint(0, n)}
        if entry == "numinv":
            case["mode"] = {"adaptive": rng.random() < 0.5, "detect_divergence": rng.random() < 0.5, "quiet": True}
        yield case
    # package-defined models as batches: region selector with points of a single region plus unlabelled ones, label mappers
    from props import c15
    for c in c15.gen(rng, tier):
        if c["kind"] == "selector":
            if c["mapper"] == "array" and rng.random() < 0.5:
                lab = rng.choice([1, 2, 3, 4])
                c["mask"] = [[v if v in (0, lab) else 0 for v in row] for row in c["mask"]]
            yield {"c15": c}
        elif rng.random() < 0.3:
            yield {"c15": c}
