"""C02 — world-to-pixel inversion undoes pixel-to-world wherever an exact inverse exists (gwcs/wcs.py)."""
import contextlib
import io
import math
from fractions import Fraction

import numpy as np
from astropy.modeling import models

import common as C
import pipegen as G
import skygen as S
from gwcs import wcs as gw

PROP = "C02"
LEAN_MODULE = "GwcsProofs.C02"
SOURCES = ["GwcsModel/TExpr.lean", "GwcsProofs/C02.lean", "GwcsProofs/Lemmas/SepLemmas.lean", "GwcsProofs/C02b.lean"]
THEOREMS = [
    "Gwcs.TExpr.inverse_comp",
    "Gwcs.TExpr.inverse_stack",
    "Gwcs.TExpr.inverse_user_supplied",
    "Gwcs.TExpr.inverse_comp_missing_left",
    "Gwcs.TExpr.inverse_arity",
    "Gwcs.TExpr.roundtrip_pix",
    "Gwcs.TExpr.inverse_invertible",
    "Gwcs.TExpr.roundtrip_world",
    "Gwcs.TExpr.backward_inverse_is_forward",
    "Gwcs.TExpr.eval_chainL",
    "Gwcs.TExpr.backward_is_reversed_inverses",
    "Gwcs.Sel.slicerEval_pointwise",
    "Gwcs.Sel.slicer_round_trip",
    "Gwcs.Sel.wrong_mapper_breaks",
]
RULE = ("cases: (a) exact — pipelines of 1..5 steps of shifts / power-of-two scales / identities / permutations / stacks, some steps with a "
        "user-supplied inverse or without inverse: forward, both round trips, backward transform vs the step inverses composed by hand in "
        "reverse order, backward.inverse vs forward, iterative keyword arguments ignored on the analytic path — all exact; (b) sky — every "
        "zenithal projection x pointing (poles, RA 0/360) x scale x rotation/parity, round trips to 1e-7 px / 1e-9 deg; non-trivial = >= 2 steps "
        "with a non-involutive step; distinct by TExpr list / projection parameters")
TRUSTED = ["harness/props/c02.py exact correspondence on the transform algebra", "astropy's sky projections and rotations (wcslib): modelled; their "
           "inverse law is measured on every run (assumption measured, not an obligation)"]
ASSUMPTIONS = ["IEEE rounding / conditioning of the projections: round trips compared to 1e-7 px and 1e-9 deg"]

PROJ = {"TAN": lambda: models.Pix2Sky_TAN(), "STG": lambda: models.Pix2Sky_STG(), "SIN": lambda: models.Pix2Sky_SIN(),
        "ARC": lambda: models.Pix2Sky_ARC(), "ZEA": lambda: models.Pix2Sky_ZEA(), "AZP": lambda: models.Pix2Sky_AZP(mu=2.0, gamma=10.0),
        "SZP": lambda: models.Pix2Sky_SZP(mu=3.0, phi0=20.0, theta0=70.0), "AIR": lambda: models.Pix2Sky_AIR(theta_b=45.0)}


def _build(case):
    frames = [G.frame_obj(f["name"], f["naxes"]) for f in case["frames"]]
    models_ = [None if t is None else G.build(t) for t in case["trs"]]
    if case.get("stale_inv") is not None:
        # the user-supplied inverse U already carries an inverse of its own (left over from earlier use, or set by the user):
        # the WCS must still treat U as *the* inverse and its own backward.inverse must be the current forward transform
        for t, m in zip(case["trs"], models_):
            if t is not None and t[0] == "withinv":
                m.inverse.inverse = G.build(case["stale_inv"])
    return gw.WCS(list(zip(frames, models_)))


def _vals(f, args, nout):
    try:
        with contextlib.redirect_stdout(io.StringIO()):
            r = f(*args)
        return {"ok": G.canon_vals(r, nout)}
    except Exception as e:
        return {"err": C.exc_enum(e)}


def _chain(pt, fns):
    x = tuple(pt)
    for f in fns:
        x = f(*x)
        x = x if isinstance(x, tuple) else (x,)
    return x


def _impl_slicer(case):
    """an image-slicer step: pixels are labelled by a mask, each slice has its own transform; the backward direction labels world points
    with the mapper's user-supplied inverse (ranges of the second world coordinate) and applies the inverse of that slice's transform"""
    from astropy import units as u
    from gwcs import coordinate_frames as cf
    from gwcs import selector
    ny, nx = 60, 100
    labels = np.zeros((ny, nx), dtype=int)
    slices, ranges = {}, {}
    for k, (x0, x1, beta0) in enumerate(case["slices"], start=1):
        labels[:, x0:x1 + 1] = k
        xc = (x0 + x1) / 2.0
        slices[k] = (models.Shift(-xc) | models.Scale(case["sx"])) & (models.Scale(0.01) | models.Shift(beta0))
        ranges[(beta0 - 0.5, beta0 + 0.01 * ny + 0.5)] = models.Mapping((0,), n_inputs=2) | models.Const1D(k)
    pix2label = selector.LabelMapperArray(labels)
    pix2label.inverse = selector.LabelMapperRange(("alpha", "beta"), ranges, inputs_mapping=models.Mapping((1,), n_inputs=2))
    slicer = selector.RegionsSelector(inputs=("x", "y"), outputs=("alpha", "beta"), selector=slices, label_mapper=pix2label)
    det = cf.Frame2D(name="detector", axes_order=(0, 1), unit=(u.pix, u.pix))
    slit = cf.Frame2D(name="slit", axes_order=(0, 1), unit=(u.arcsec, u.arcsec), axes_names=("alpha", "beta"))
    w = gw.WCS([(det, slicer), (slit, None)])
    x = np.array([p_[0] for p_ in case["pix"]], dtype=float)
    y = np.array([p_[1] for p_ in case["pix"]], dtype=float)
    res = {}
    try:
        a, b = w(x, y)
        res["fwd_finite"] = bool(np.all(np.isfinite(a)) and np.all(np.isfinite(b)))
        for nm_, f_ in (("invert", lambda: w.invert(a, b)), ("backward", lambda: w.backward_transform(a, b)),
                        ("pointwise", lambda: tuple(np.array(c_) for c_ in zip(*[w.invert(float(ai), float(bi)) for ai, bi in zip(a, b)])))):
            try:
                xb, yb = f_()
                res[nm_] = float(np.nanmax(np.hypot(np.asarray(xb, dtype=float) - x, np.asarray(yb, dtype=float) - y))) \
                    if np.all(np.isfinite(xb)) and np.all(np.isfinite(yb)) else "nan"
            except Exception as e:
                res[nm_] = "raised %s: %s" % (type(e).__name__, str(e)[:80])
    except Exception as e:
        res["err"] = type(e).__name__ + ":" + str(e)[:100]
    return res


def impl(case):
    if case["kind"] == "slicer":
        return _impl_slicer(case)
    if case["kind"] == "sky":
        return _impl_sky(case)
    w = _build(case)
    f = w.forward_transform
    nin, nout = f.n_inputs, f.n_outputs
    res = {}
    pts = [G.to_float_pt(p) for p in case["pts"]]
    world = [G.to_float_pt(p) for p in case["world"]]
    res["fwd"] = [_vals(w, p, nout) for p in pts]
    res["roundtrip_pix"] = []
    for p in pts:
        try:
            y = w(*p)
            y = y if isinstance(y, tuple) else (y,)
            res["roundtrip_pix"].append(_vals(w.invert, [float(v) for v in y], nin))
        except Exception as e:
            res["roundtrip_pix"].append({"err": C.exc_enum(e)})
    res["back"] = [_vals(w.invert, p, nin) for p in world]
    res["roundtrip_world"] = []
    for p in world:
        try:
            x = w.invert(*p)
            x = x if isinstance(x, tuple) else (x,)
            res["roundtrip_world"].append(_vals(w, [float(v) for v in x], nout))
        except Exception as e:
            res["roundtrip_world"].append({"err": C.exc_enum(e)})
    try:
        bt = w.backward_transform
        res["has_inverse"] = True
        res["bt"] = [_vals(bt, p, nin) for p in world]
        try:
            res["inv_inv"] = [_vals(bt.inverse, p, nout) for p in pts]
        except Exception as e:
            res["inv_inv_err"] = C.exc_enum(e)
        # the analytic path must not depend on the iterative keyword arguments
        res["back_kw"] = [_vals(lambda *a: w.invert(*a, tolerance=1e-3, maxiter=2, adaptive=False, detect_divergence=False, quiet=False), p, nin) for p in world]
    except NotImplementedError:
        res["has_inverse"] = False
    # pixel -> intermediate frame -> pixel through WCS.transform, for every intermediate frame
    names = list(w.available_frames)
    rtf = []
    for k in range(1, len(names) - 1):
        for p in pts[:2]:
            try:
                mid = w.transform(names[0], names[k], *p, with_bounding_box=False)
                mid = mid if isinstance(mid, tuple) else (mid,)
                back = w.transform(names[k], names[0], *[float(v) for v in mid], with_bounding_box=False)
                rtf.append({"ok": G.canon_vals(back, nin if True else 0)} if not isinstance(back, tuple) or True else None)
            except NotImplementedError:
                rtf.append({"err": "notImpl"})
            except Exception as e:
                rtf.append({"err": C.exc_enum(e)})
    res["roundtrip_frames"] = rtf
    # by hand: step inverses in reverse order
    try:
        invs = [s.transform.inverse for s in w.pipeline[:-1]][::-1]
        res["hand"] = []
        for p in world:
            try:
                res["hand"].append({"ok": G.canon_vals(_chain(p, invs), nin)})
            except Exception as e:
                res["hand"].append({"err": C.exc_enum(e)})
    except NotImplementedError:
        res["hand"] = None
    # in-place change of a transform parameter (e.g. a user re-centring CRPIX) after an inversion: round trips must follow
    if case.get("mutate") and res.get("has_inverse"):
        try:
            t0 = w.pipeline[0].transform
            leaf = t0
            while hasattr(leaf, "left"):
                leaf = leaf.left
            if leaf.param_names and leaf.param_names[0] in ("offset",):
                setattr(leaf, "offset", float(leaf.offset.value) + 8.0)
                rt = []
                for p in pts:
                    y = w(*p)
                    y = y if isinstance(y, tuple) else (y,)
                    rt.append(_vals(w.invert, [float(v) for v in y], nin))
                res["roundtrip_after_mutation"] = rt
        except Exception as e:
            res["mutation_err"] = C.exc_enum(e)
    return res


def _sky_wcs(case):
    p = case["params"]
    det, foc, sky = S.frames()
    th = math.radians(p["rot"])
    s = p["scale"]
    m = np.array([[-s * p["parity"] * math.cos(th), s * math.sin(th)], [s * p["parity"] * math.sin(th), s * math.cos(th)]])
    t2 = models.AffineTransformation2D(matrix=m, translation=[0, 0]) | PROJ[p["proj"]]() | models.RotateNative2Celestial(p["crval"][0], p["crval"][1], 180)
    return gw.WCS([(det, models.Shift(-p["crpix"][0]) & models.Shift(-p["crpix"][1])), (foc, t2), (sky, None)])


def _impl_sky(case):
    w = _sky_wcs(case)
    pts = np.array(case["pix"], dtype=float)
    ra, dec = w(pts[:, 0], pts[:, 1])
    x, y = w.invert(ra, dec)
    dpix = np.hypot(x - pts[:, 0], y - pts[:, 1])
    ra2, dec2 = w(x, y)
    dra = (np.asarray(ra2) - np.asarray(ra) + 180) % 360 - 180
    dsky = np.hypot(dra * np.cos(np.radians(dec)), np.asarray(dec2) - np.asarray(dec))
    bt = w.backward_transform
    fx, fy = bt.inverse(x, y)
    dfi = np.hypot(((np.asarray(fx) - np.asarray(ra2) + 180) % 360 - 180) * np.cos(np.radians(dec)), np.asarray(fy) - np.asarray(dec2))
    return {"max_dpix": float(np.nanmax(dpix)), "max_dsky": float(np.nanmax(dsky)), "max_inv_inv": float(np.nanmax(dfi)),
            "nan": bool(np.isnan(dpix).any()), "dec_range": [float(np.min(dec)), float(np.max(dec))]}


def oracle(case, res):
    out = []
    if case["kind"] == "slicer":
        if "err" in res or not res.get("fwd_finite"):
            return [("slicer", "forward evaluation of the slicer WCS failed: %s" % res.get("err", "non-finite values inside the slices"))]
        for nm_ in ("invert", "backward", "pointwise"):
            if not (isinstance(res[nm_], float) and res[nm_] <= 1e-9):
                out.append(("slicer", "%s of the world points of pixels inside the slices does not return the pixels: %s" % (nm_, res[nm_])))
        return out
    if case["kind"] == "sky":
        p = case["params"]
        if res["nan"]:
            out.append(("sky_nan", "round trip of in-field pixels produced NaN for %s at %s" % (p["proj"], p["crval"])))
        # conditioning: an error of 2e-9 deg (a few micro-arcseconds, what wcslib's iterative projection inverses deliver) in pixels
        if res["max_dpix"] > 1e-6 + 2e-9 / p["scale"]:
            out.append(("sky_roundtrip_pix", "%s at pointing %s scale %.1e: pixel -> sky -> pixel is off by %.3g px" % (p["proj"], p["crval"], p["scale"], res["max_dpix"])))
        if res["max_dsky"] > 2e-9:
            out.append(("sky_roundtrip_world", "%s at %s: sky -> pixel -> sky is off by %.3g deg" % (p["proj"], p["crval"], res["max_dsky"])))
        if res["max_inv_inv"] > 2e-9:
            out.append(("sky_inv_inv", "%s at %s: backward_transform.inverse differs from forward by %.3g deg" % (p["proj"], p["crval"], res["max_inv_inv"])))
        return out
    lawful = case["lawful"]
    if lawful:
        if not res["has_inverse"]:
            out.append(("no_backward", "every step has an inverse but backward_transform is not available"))
            return out
        for p, r in zip(case["pts"], res["roundtrip_pix"]):
            if r != {"ok": p}:
                out.append(("roundtrip_pix", "pixel %s -> world -> pixel gives %s" % (p, r)))
                break
        for p, r in zip(case["world"], res["roundtrip_world"]):
            if r != {"ok": p}:
                out.append(("roundtrip_world", "world %s -> pixel -> world gives %s" % (p, r)))
                break
    if lawful and "roundtrip_after_mutation" in res:
        for p, r in zip(case["pts"], res["roundtrip_after_mutation"]):
            if r != {"ok": p}:
                out.append(("roundtrip_after_mutation", "after changing a Shift offset of the first step in place, pixel %s -> world -> pixel gives %s" % (p, r)))
                break
    if lawful and res.get("roundtrip_frames"):
        k = 0
        for i in range(1, len(case["frames"]) - 1):
            for p in case["pts"][:2]:
                r = res["roundtrip_frames"][k]
                k += 1
                if r != {"ok": p}:
                    out.append(("roundtrip_frames", "pixel %s -> frame %d -> pixel through WCS.transform gives %s" % (p, i, r)))
                    break
    if res["has_inverse"]:
        if res["hand"] is not None and res["bt"] != res["hand"]:
            out.append(("reversed_inverses", "backward transform gives %s, the step inverses (user-supplied ones as given) composed in reverse order give %s" % (res["bt"], res["hand"])))
        if res["back"] != res["bt"]:
            out.append(("invert_vs_backward", "invert gives %s, backward_transform %s" % (res["back"], res["bt"])))
        if "inv_inv" in res and res["inv_inv"] != res["fwd"]:
            out.append(("inv_inv", "backward_transform.inverse evaluates to %s, forward transform to %s" % (res["inv_inv"], res["fwd"])))
        if "inv_inv_err" in res:
            out.append(("inv_inv", "backward_transform.inverse raised %s" % res["inv_inv_err"]))
        if res["back_kw"] != res["back"]:
            out.append(("iter_kwargs", "analytic inversion depends on iterative keyword arguments: %s vs %s" % (res["back_kw"], res["back"])))
    elif res["hand"] is not None and all("ok" in h for h in res["hand"]):
        out.append(("no_backward", "all step inverses exist but backward_transform raised NotImplementedError"))
    return out[:4]


def request(case, res):
    if case["kind"] in ("sky", "slicer"):
        return None
    return {"trs": [t for t in case["trs"] if t is not None], "pts": case["pts"], "world": case["world"]}


def compare(case, res, resp):
    if "ok" not in resp:
        return "model error %s" % resp
    m = resp["ok"]
    if m["has_inverse"] != res["has_inverse"]:
        return "backward transform available: impl %s model %s" % (res["has_inverse"], m["has_inverse"])
    for key in ("fwd",) + (("roundtrip_pix", "back", "roundtrip_world") if res["has_inverse"] else ()):
        if m[key] != res[key]:
            return "%s: impl %s model %s" % (key, res[key], m[key])
    if res["has_inverse"] and "inv_inv" in res and case["lawful"] and m["inv_inv"] != res["inv_inv"]:
        return "backward.inverse: impl %s model %s" % (res["inv_inv"], m["inv_inv"])
    return None


def nontrivial(case, res):
    if case["kind"] in ("sky", "slicer"):
        return True
    return len(case["trs"]) >= 3 and res["has_inverse"]


def stats(case, res, st):
    st["kind_" + case["kind"]] += 1
    if case["kind"] == "slicer":
        return
    if case["kind"] == "sky":
        st["proj_" + case["params"]["proj"]] += 1
        return
    st["steps_%d" % (len(case["trs"]) - 1)] += 1
    st["lawful"] += bool(case["lawful"])
    st["has_inverse"] += bool(res["has_inverse"])
    st["user_inverse"] += bool(case.get("user_inv"))
    st["user_inverse_with_stale_inverse"] += bool(case.get("stale_inv"))


def _has(t, tag):
    return isinstance(t, list) and (t[0] == tag or any(_has(x, tag) for x in t[1:] if isinstance(x, list)))


def gen(rng, tier):
    q = tier == "quick"
    for _ in range(6 if q else 120):
        # image slicer: 2 or 3 slices of columns, each with its own transform; the label mapper carries a user-supplied inverse
        ns = rng.choice([2, 3])
        edges = sorted(rng.sample(range(5, 95, 5), 2 * ns))
        slices = [[edges[2 * i], edges[2 * i + 1], 10.0 * (i + 1)] for i in range(ns)]
        pix = []
        for _p in range(8):
            x0, x1, _b = rng.choice(slices)
            pix.append([x0 + rng.random() * (x1 - x0), rng.uniform(0, 59)])
        yield {"kind": "slicer", "slices": slices, "sx": rng.choice([0.1, 0.25, -0.5]), "pix": pix}
    for _ in range(160 if q else 6000):
        nsteps = rng.randint(1, 5)
        lawful = rng.random() < 0.6
        frames, trs, dims = G.gen_pipeline(rng, nsteps, invertible=True if lawful else rng.random() < 0.5, same_arity=True)
        user_inv = False
        if not lawful and rng.random() < 0.5:
            i = rng.randrange(nsteps)
            trs[i] = ["withinv", trs[i], G.gen_same(rng, dims[i], invertible=True)]
            user_inv = True
        if lawful and any(_has(t, "mapping") or _has(t, "poly1") or _has(t, "withinv") for t in trs if t):
            # permutations are lawful too, but the Lean `Invertible` class is stated for shifts/scales/identities/stacks/compositions
            lawful = not any(_has(t, "poly1") or _has(t, "withinv") for t in trs if t)
        for f in frames:
            f["obj"] = 1
        pts = [G.point(rng, dims[0]) for _i in range(3)]
        world = []
        try:
            m = None
            for t in trs[:-1]:
                mm = G.build(t)
                m = mm if m is None else m | mm
            for _w in range(2):
                r = m(*G.to_float_pt(G.point(rng, dims[0])))
                r = r if isinstance(r, tuple) else (r,)
                world.append([C.q2w(Fraction(float(v))) for v in r])
        except Exception:
            world = [G.point(rng, dims[-1])]
        case = {"kind": "exact", "frames": frames, "trs": trs, "dims": dims, "pts": pts, "world": world, "lawful": lawful, "user_inv": user_inv,
                "mutate": rng.random() < 0.4}
        if user_inv and rng.random() < 0.6:
            i = next(k for k, t in enumerate(trs) if t and t[0] == "withinv")
            case["stale_inv"] = G.gen_tr(rng, dims[i + 1], dims[i], invertible=True)
        yield case
    projs = list(PROJ)
    for i in range(32 if q else 800):
        proj = projs[i % len(projs)]
        p = S.gen_params(rng, distortion=False)
        p["proj"] = proj
        p["scale"] = 10 ** rng.uniform(-6, -3.3)
        r = rng.random()
        if r < 0.15:
            p["crval"] = [rng.choice([0.0, 360.0, 359.999999]), round(rng.uniform(-60, 60), 6)]
        elif r < 0.3:
            p["crval"] = [round(rng.uniform(0, 360), 6), rng.choice([89.9, -89.9, 90.0, -90.0])]
        pix = [[rng.uniform(0, 1000), rng.uniform(0, 1000)] for _p in range(12)]
        yield {"kind": "sky", "params": p, "pix": pix}
