"""C04 — inverse results and in_image respect the bounding box on every inversion path (gwcs/wcs.py)."""
import contextlib
import io
import math

import numpy as np
from astropy.modeling import models

import common as C
import pipegen as G
import skygen as S
from gwcs import wcs as gw

PROP = "C04"
LEAN_MODULE = "GwcsProofs.C04"
SOURCES = ["GwcsModel/Invert.lean", "GwcsProofs/C04.lean"]
THEOREMS = [
    "Gwcs.Inv.invert_masks_of_masking",
    "Gwcs.Inv.invert_masks_both_paths_of_fixed",
    "Gwcs.Inv.invert_masks_both_paths_fails_unfixed",
    "Gwcs.Inv.invert_masks_both_paths_partial",
    "Gwcs.Inv.invert_nomask",
    "Gwcs.Inv.invert_nobox",
    "Gwcs.Inv.inImage_iff",
    "Gwcs.Inv.inImage_scalar_eq_array",
    "Gwcs.Inv.mask_all_or_nothing",
    "Gwcs.Inv.mask_rowwise",
    "Gwcs.Inv.mask_append",
    "Gwcs.Inv.mask_perm",
    "Gwcs.Inv.rescued_point_masked",
]
RULE = ("case = (1-D or 2-D WCS with a box, inversion path, fill, masking flag, world points obtained from pixels inside / on the edge / outside "
        "the box plus NaN): analytic path on exact affine WCSs and on undistorted celestial WCSs; iterative path on distorted axis-aligned "
        "celestial WCSs (pixels >= 1e-3 px away from the edges); invert with default / explicit fill / masking off; in_image as array and as "
        "scalars; non-trivial = batch has inside and outside points; distinct by (WCS, path, fill, flags)")
TRUSTED = ["harness/props/c04.py: masked output of the real invert vs Lean `invert` applied to the real unmasked solution (bit-exact), in_image vs model"]
ASSUMPTIONS = ["the iterative solver's accuracy (1e-5 px requested) — values compared to 2e-4 px, masks exactly",
               "1-D iterative inversion is refused by gwcs (claimed nothing there)"]


def _c(v):
    v = float(v)
    return "nan" if v != v else C.f2w(v)


def _build(case):
    if case["wcs"] == "affine":
        t = None
        for a, b in case["ab"]:
            s = models.Scale(a) | models.Shift(b)
            t = s if t is None else t & s
        n = len(case["ab"])
        w = gw.WCS([(G.frame_obj("detector", n), t), (G.frame_obj("world", n), None)])
        bx = tuple(tuple(iv) for iv in case["box"]) if case["box"] else None
        if bx:
            w.bounding_box = bx[0] if n == 1 else bx
        return w
    w = S.build(case["params"], with_bbox=case["box"] is not None)
    return w


def _tup(r):
    return r if isinstance(r, (tuple, list)) else (r,)


def impl(case):
    w = _build(case)
    n = len(case["pix"][0])
    pix = np.array(case["pix"], dtype=float)
    with contextlib.redirect_stdout(io.StringIO()):
        world = _tup(w(*[pix[:, i] for i in range(n)], with_bounding_box=False))
        world = [np.array(x, dtype=float) for x in world]
        bad_ax = case.get("bad_axis", 0) % len(world)       # the world axis that carries the NaN / infinity
        for i in case.get("nan_at", []):
            world[bad_ax][i] = np.nan
        for i, sgn in case.get("inf_at", []):
            world[bad_ax][i] = sgn * np.inf
        for i in case.get("anti_at", []):
            # a finite direction that has no pixel at all: the far hemisphere of a gnomonic field
            world[0][i] = (world[0][i] + 180.0) % 360.0
            world[1][i] = -world[1][i]
        res = {"world": [[_c(v) for v in x] for x in world]}
        kw = {}
        if case["fill"] is not None:
            kw["fill_value"] = case["fill"]
        if case["withbb"] is not None:
            kw["with_bounding_box"] = {"np": np.bool_(case["withbb"]), "int": int(case["withbb"])}.get(case.get("flag_form"), case["withbb"])
        try:
            inv = _tup(w.invert(*world, **kw))
            res["inv"] = [[_c(v) for v in np.asarray(x, dtype=float)] for x in inv]
            raw = _tup(w.invert(*world, with_bounding_box=False))
            res["raw"] = [[_c(v) for v in np.asarray(x, dtype=float)] for x in raw]
            if case["wcs"] == "sky" and case["path"] == "analytic":
                # the iterative solver called directly on a WCS that also has an analytic inverse: it masks like any iterative inversion
                r_ = _tup(w.numerical_inverse(*world, **kw))
                res["numinv_direct"] = [[_c(v) for v in np.asarray(x, dtype=float)] for x in r_]
            if case["path"] == "iterative":
                # the other modes of the solver (the fallback that recovers divergent points runs only in some of them): the masking
                # claim is the same in each
                modes = {}
                for nm_, md in (("noadapt", {"adaptive": False}), ("nodiv", {"detect_divergence": False}),
                                ("noadapt_nodiv", {"adaptive": False, "detect_divergence": False})):
                    r_ = _tup(w.invert(*world, **kw, **md))
                    modes[nm_] = [[_c(v) for v in np.asarray(x, dtype=float)] for x in r_]
                res["inv_modes"] = modes
                # does the solver itself report non-convergence for this batch?  (its accuracy is C05's subject, not C04's)
                try:
                    w.numerical_inverse(*world, with_bounding_box=False, quiet=False)
                    res["noconv"] = False
                except gw.NoConvergence:
                    res["noconv"] = True
        except Exception as e:
            res["inv_err"] = C.exc_enum(e) + ":" + str(e)[:80]
            return res
        try:
            ii = w.in_image(*world)
            res["in_image"] = [bool(v) for v in np.asarray(ii)]
            res["in_image_shape"] = list(np.shape(ii))
            sc = []
            types_ok = True
            for k in range(len(pix)):
                v = w.in_image(*[float(x[k]) for x in world])
                types_ok = types_ok and np.ndim(v) == 0
                sc.append(bool(v))
            res["in_image_scalar"] = sc
            res["in_image_scalar_0d"] = types_ok
            # other scalar forms of the same point: 0-d arrays and numpy scalars answer like Python floats
            forms = []
            for k in range(min(3, len(pix))):
                for nm_, conv in (("0d", lambda v: np.array(float(v))), ("np", lambda v: np.float64(v))):
                    try:
                        v = w.in_image(*[conv(x[k]) for x in world])
                        forms.append([nm_, bool(v) == sc[k] and np.ndim(v) == 0])
                    except Exception as e:
                        forms.append([nm_, "raised " + type(e).__name__])
            res["in_image_forms"] = forms
            # in_image decides with its own masking settings: keywords meant for invert must not change the answer
            alt = []
            for kw2 in ({"fill_value": 0.0}, {"fill_value": 1.0, "with_bounding_box": False}):
                try:
                    alt.append([bool(v) for v in np.asarray(w.in_image(*world, **kw2))])
                except Exception as e:
                    alt.append("err:" + C.exc_enum(e))
            res["in_image_kw"] = alt
        except Exception as e:
            res["in_image_err"] = C.exc_enum(e) + ":" + str(e)[:80]
    return res


def _inside(box, p):
    return all(lo <= x <= hi for (lo, hi), x in zip(box, p))


def oracle(case, res):
    out = []
    if "inv_err" in res:
        if case["path"] == "iterative" and len(case["pix"][0]) == 1:
            return out
        return [("raise", "invert raised %s" % res["inv_err"])]
    box = case["box"]
    masking = (case["withbb"] is None or case["withbb"]) and box is not None
    fill = float("nan") if case["fill"] is None else case["fill"]
    tol = 0.0 if case["wcs"] == "affine" else (2e-4 if case["path"] == "iterative" else 1e-6)
    npts = len(case["pix"])
    for k in range(npts):
        p = case["pix"][k]
        got = [res["inv"][i][k] for i in range(len(p))]
        if k in [i for i, _s in case.get("inf_at", [])]:
            # an infinite world coordinate has no pixel position in the image
            if "in_image" in res and res["in_image"][k]:
                out.append(("in_image_inf", "in_image is True for a world point with an infinite coordinate (box %s)" % (box,)))
            continue
        if k in case.get("anti_at", []):
            # no pixel position: NaN or the fill value, and not in the image
            if got != [_c(fill)] * len(p) and not all(g == "nan" for g in got):
                out.append(("nan", "a direction in the far hemisphere inverted to %s" % [_d(g) for g in got]))
            if "in_image" in res and res["in_image"][k]:
                out.append(("in_image_nan", "in_image is True for a direction in the far hemisphere"))
            continue
        if k in case.get("nan_at", []):
            # a NaN world point has no pixel position: NaN, or the fill value when masking is on, are both accepted
            if case["path"] == "iterative" and any(g != "nan" for g in got) and not (masking and got == [_c(fill)] * len(p)):
                out.append(("nan", "NaN world input inverted to %s" % [_d(g) for g in got]))
            if "in_image" in res and res["in_image"][k]:
                out.append(("in_image_nan", "in_image is True for a NaN world point"))
            continue
        inside = True if box is None else _inside(box, p)
        far = box is not None and case["path"] == "iterative" and any(x < lo - 100 or x > hi + 100 for (lo, hi), x in zip(box, p))
        if far:
            # far outside the image the distorted WCS need not be one-to-one: the only claim is that whatever is returned
            # with masking on is the fill value, NaN (no solution), or a position inside the box (another pre-image)
            if masking and got != [_c(fill)] * len(p) and not all(g == "nan" for g in got) and \
                    not _inside(box, [_d(g) if g != "nan" else float("nan") for g in got]):
                out.append(("mask", "iterative inversion (masking on) of a far-outside point returned %s, which is outside the box %s and not the fill value %r" %
                            ([_d(g) for g in got], box, fill)))
            continue
        if masking and not inside:
            if got != [_c(fill)] * len(p) and not (case["path"] == "iterative" and all(g == "nan" for g in got)):
                key = "D12" if case["path"] == "analytic" else "mask"
                out.append((key, "%s inversion of a world point whose pixel %s is outside the box %s gives %s instead of the fill value %r" %
                            (case["path"], p, box, [_d(g) for g in got], fill)))
        elif not res.get("noconv") and not (box is not None and case["path"] == "iterative" and
                                           any(x < lo - 100 or x > hi + 100 for (lo, hi), x in zip(box, p))):
            # (far outside the image the iterative solution need not be the generating pixel: no claim)
            if not all(g != "nan" and abs(C.w2f(g) - x) <= tol for g, x in zip(got, p)):
                out.append(("value", "%s inversion of the image of pixel %s (inside / masking off) gives %s" % (case["path"], p, [_d(g) for g in got])))
        if "in_image" in res:
            want = inside
            if res["in_image"][k] != want:
                out.append(("in_image", "in_image(%s path) is %s for the image of pixel %s, box %s" % (case["path"], res["in_image"][k], p, box)))
    modes_ = dict(res.get("inv_modes") or {})
    if "numinv_direct" in res:
        modes_["numerical_inverse called directly"] = res["numinv_direct"]
    for nm_, inv_m in modes_.items():
        for k in range(npts):
            if k in case.get("nan_at", []) or k in case.get("anti_at", []) or k in [i for i, _s in case.get("inf_at", [])] or not masking:
                continue
            got = [inv_m[i][k] for i in range(len(case["pix"][k]))]
            if got != [_c(fill)] * len(got) and not all(g == "nan" for g in got) and not _inside(box, [_d(g) if g != "nan" else float("nan") for g in got]):
                out.append(("mask", "iterative inversion (masking on, solver mode %s) of the image of pixel %s returned %s, which is outside the box %s and not the fill value %r" %
                            (nm_, case["pix"][k], [_d(g) for g in got], box, fill)))
                break
    if "in_image_err" in res:
        out.append(("in_image_raise", "in_image raised %s" % res["in_image_err"]))
    elif "in_image" in res:
        if res["in_image_scalar"] != res["in_image"]:
            out.append(("in_image_scalar", "in_image scalar answers %s differ from the array answer %s" % (res["in_image_scalar"], res["in_image"])))
        for a_ in res.get("in_image_kw", []):
            if a_ != res["in_image"]:
                out.append(("in_image_kw", "in_image with fill_value / with_bounding_box keywords answers %s, without them %s" % (a_, res["in_image"])))
                break
        badf = [f_ for f_ in res.get("in_image_forms", []) if f_[1] is not True]
        if badf:
            out.append(("in_image_scalar", "in_image of a scalar point given as a 0-d array / numpy scalar: %s (the Python-float answer is %s)" % (badf[:3], res["in_image_scalar"][:3])))
        if res["in_image_shape"] != [npts] or not res["in_image_scalar_0d"]:
            out.append(("in_image_shape", "in_image shape %s for %d points / scalar answer not 0-d" % (res["in_image_shape"], npts)))
    return out[:4]


def _d(s):
    return s if s == "nan" else C.w2f(s)


def request(case, res):
    if "inv_err" in res or case.get("inf_at"):
        return None
    n = len(case["pix"][0])
    rows = []
    for k in range(len(case["pix"])):
        raw = [res["raw"][i][k] for i in range(n)]
        # `invalid` in the solver = non-finite solution of a *finite* world point; a NaN world point is not "invalid"
        pix_finite = all(r != "nan" and math.isfinite(C.w2f(r)) for r in raw)
        world_finite = all(res["world"][i][k] != "nan" for i in range(len(res["world"])))
        valid = not ((not pix_finite) and world_finite)
        rows.append([valid, [r if r != "nan" else C.f2w(float("nan")) for r in raw]])
    return {"path": case["path"], "box": None if case["box"] is None else [[C.f2w(a), C.f2w(b)] for a, b in case["box"]],
            "fill": C.f2w(float("nan") if case["fill"] is None else case["fill"]),
            "withbb": True if case["withbb"] is None else case["withbb"], "rows": rows}


def compare(case, res, resp):
    if "ok" not in resp:
        return "model error %s" % resp
    n = len(case["pix"][0])
    for k in range(len(case["pix"])):
        a = [res["inv"][i][k] for i in range(n)]
        b = resp["ok"]["pix"][k]
        if a != b:
            return "%s path, pixel %s: implementation returns %s, model (masking applied to the unmasked solution) %s" % (case["path"], case["pix"][k], [_d(x) for x in a], [_d(x) for x in b])
    if "in_image" in res and res["in_image"] != resp["ok"]["in_image"]:
        return "in_image impl %s model %s" % (res["in_image"], resp["ok"]["in_image"])
    return None


def nontrivial(case, res):
    if case["box"] is None:
        return False
    ins = [_inside(case["box"], p) for p in case["pix"]]
    return any(ins) and not all(ins)


def stats(case, res, st):
    st["path_" + case["path"]] += 1
    st["wcs_" + case["wcs"]] += 1
    st["dim_%d" % len(case["pix"][0])] += 1
    st["fill_" + str(case["fill"])] += 1
    st["withbb_" + str(case["withbb"])] += 1
    if case["box"] is not None:
        ins = [_inside(case["box"], p) for p in case["pix"]]
        st["pts_inside"] += sum(ins)
        st["pts_outside"] += len(ins) - sum(ins)


_ANTI = []


def _wide_sin(k):
    """a very wide orthographic field (50 degrees across) with a little distortion: towards the limb the fixed-point steps leave the
    valid hemisphere, the iterate becomes NaN and the root finder takes over from the initial guess"""
    p = {"crpix": [500.0, 500.0], "crval": [[30.0, 40.0], [200.0, -35.0], [359.0, 10.0]][k % 3], "scale": 0.05, "rot": 0.0, "parity": -1, "proj": "SIN",
         "bbox": [[0.0, 1000.0], [0.0, 1000.0]], "dist": {"order": 2, "cx": {"c2_0": 1e-6}, "cy": {"c0_2": 1e-6}}}
    pts = [[500.0, 500.0], [120.0, 870.0], [1100.0, 500.0], [500.0, 1010.0]]
    for ang in (45, 60, 120, 135, 225, 300, 315):
        a = math.radians(ang + 7 * (k // 3))
        pts.append([500 + 800 * math.cos(a), 500 + 800 * math.sin(a)])
    return {"wcs": "sky", "path": "iterative", "params": p, "box": p["bbox"], "pix": pts, "fill": [None, -1.0, 0.0][k % 3], "withbb": None,
            "nan_at": [], "bad_axis": 0}


def gen(rng, tier):
    del _ANTI[:]
    q = tier == "quick"
    for k in range(3 if q else 18):
        yield _wide_sin(k)
    for _ in range(150 if q else 6000):
        dim = rng.choice([1, 2, 2])
        ab = [[rng.choice([1.0, 2.0, -1.0, 0.5, 4.0, -2.0]), float(rng.randint(-20, 20))] for _ in range(dim)]
        box = [[float(rng.randint(-5, 5)) + rng.choice([0.0, 0.5]), float(rng.randint(8, 60)) + rng.choice([0.0, 0.5])] for _ in range(dim)] if rng.random() < 0.85 else None
        pts = []
        for _p in range(7):
            pt = []
            for i in range(dim):
                lo, hi = box[i] if box else (0.0, 30.0)
                r = rng.random()
                if r < 0.35:
                    pt.append(rng.choice([lo, hi, lo + 2.0 ** -10, hi - 2.0 ** -10, lo - 2.0 ** -10, hi + 2.0 ** -10]))
                elif r < 0.7:
                    pt.append(lo + math.floor((hi - lo) * rng.random() * 8) / 8)
                else:
                    pt.append(rng.choice([lo - rng.randint(1, 30) / 4, hi + rng.randint(1, 30) / 4]))
            pts.append(pt)
        yield {"wcs": "affine", "path": "analytic", "ab": ab, "box": box, "pix": pts, "fill": rng.choice([None, None, -1.0, 0.0, float("inf")]),
               "withbb": rng.choice([None, None, True, False]), "nan_at": [rng.randrange(7)] if rng.random() < 0.4 else [],
               "inf_at": [[rng.randrange(7), rng.choice([-1, 1])]] if rng.random() < 0.15 else [], "bad_axis": rng.randrange(dim),
               "flag_form": rng.choice([None, None, "np", "int"])}
    for _ in range(30 if q else 1200):
        distort = rng.random() < 0.7
        p = S.gen_params(rng, distortion=distort, aligned=True)
        p["scale"] = 10 ** rng.uniform(-5, -4)
        if rng.random() < 0.4:
            # a clearly non-square box owned by the astropy model ('C' order): axis mix-ups in the masking become visible
            (bx0, bx1), (by0, by1) = p["bbox"]
            p["bbox"] = [[bx0, bx1], [by0, by0 + 0.55 * (by1 - by0)]] if rng.random() < 0.5 else [[bx0, bx0 + 0.55 * (bx1 - bx0)], [by0, by1]]
            p["bbox_on_model"] = True
        (x0, x1), (y0, y1) = p["bbox"]
        pts = []
        for _p in range(6):
            r = rng.random()
            if r < 0.5:
                pts.append([rng.uniform(x0 + 1, x1 - 1), rng.uniform(y0 + 1, y1 - 1)])
            elif r < 0.65:
                pts.append([rng.choice([x0 + 0.01, x1 - 0.01]), rng.uniform(y0 + 1, y1 - 1)])
            else:
                side = rng.choice(["l", "r", "b", "t"])
                d = rng.uniform(0.01, 60) if rng.random() < 0.6 else rng.uniform(500, 9000)
                pts.append({"l": [x0 - d, rng.uniform(y0, y1)], "r": [x1 + d, rng.uniform(y0, y1)],
                            "b": [rng.uniform(x0, x1), y0 - d], "t": [rng.uniform(x0, x1), y1 + d]}[side])
        # a hair beyond an edge (a few thousandths of a pixel: far less than a relative tolerance of 1e-5 on a four-digit edge would forgive)
        pts.append([x1 + 0.004, 0.5 * (y0 + y1)] if _ % 2 == 0 else [0.5 * (x0 + x1), y1 + 0.003])
        # far off the corners (where the fixed-point iteration diverges and the fallback solver takes over)
        for _p in range(2):
            pts.append([rng.choice([x0 - 1, x1 + 1]) + rng.choice([-1, 1]) * rng.uniform(1500, 9500), rng.choice([y0 - 1, y1 + 1]) + rng.choice([-1, 1]) * rng.uniform(1500, 9500)])
        case_ = {"wcs": "sky", "path": "iterative" if distort else "analytic", "params": p, "box": p["bbox"], "pix": pts,
                 "fill": rng.choice([None, None, -1.0, 0.0, 99.5]), "withbb": rng.choice([None, None, True, False]),
                 "nan_at": [rng.randrange(6)] if rng.random() < 0.4 else [], "bad_axis": rng.randrange(2)}
        yield case_
        if distort and len(_ANTI) < (4 if tier == "quick" else 60):
            # the same batch with its first point sent to the far hemisphere: a point without any solution ahead of the out-of-box ones
            _ANTI.append(1)
            yield dict(case_, anti_at=[0], nan_at=[], withbb=None)
