"""C11 — FITS -TAB (and mixed SIP+TAB) export tabulates the WCS exactly at its nodes (wcs.py: _separable_groups, to_fits_tab, to_fits, _to_fits_tab)."""
import itertools
import math
import warnings
from fractions import Fraction

import numpy as np
import astropy.units as u
from astropy import coordinates as coord
from astropy import time
from astropy.io import fits
from astropy import wcs as astwcs
from astropy.modeling import models

import common as C
from gwcs import coordinate_frames as cf
from gwcs import wcs as gw

PROP = "C11"
LEAN_MODULE = "GwcsProofs.C11"
SOURCES = ["GwcsModel/Tab.lean", "GwcsModel/Remap.lean", "GwcsProofs/C11.lean", "GwcsProofs/C11b.lean", "GwcsProofs/C11c.lean"]
THEOREMS = [
    "Gwcs.Tab.groups_pairwise_disjoint",
    "Gwcs.Tab.groups_cover",
    "Gwcs.Tab.input_set_in_one_group",
    "Gwcs.Tab.groups_connected",
    "Gwcs.Tab.tab_node_exact",
    "Gwcs.Tab.tab_spans_box",
    "Gwcs.Tab.tab_between_nodes",
    "Gwcs.Tab.reader_at_node",
    "Gwcs.Tab.step_le_sampling",
    "Gwcs.Tab.insertAll_sorted",
    "Gwcs.Tab.naxis_holds_box",
    "Gwcs.Remap.block_placed",
    "Gwcs.Remap.celestial_rows_clean",
    "Gwcs.Remap.other_rows_untouched",
    "Gwcs.Remap.missing_lat_zero_leaks",
    "Gwcs.Tab.celestial_group_same_frame",
    "Gwcs.Tab.split_celestial_not_paired",
]
RULE = ("case = (WCS assembled from blocks sky 2->2, spectral/time/generic 1->1, coupled pair 2->2, slit 2->3, fan 1->2, fan 1->3 with 1..4 "
        "pixel axes, permutation of world axes, bounding box incl. offset/fractional, scalar or per-axis sampling, method to_fits_tab or "
        "to_fits), plus rejected calls; the returned header + tables are read by astropy.wcs.WCS and compared with the gwcs transform at "
        "every tabulated node and at random in-box points; non-trivial = more than one block or a non-identity permutation or a "
        "fractional/offset box; distinct by (blocks, permutation, box, sampling, method)")
TRUSTED = ["harness/props/c11.py: independent node grid (linspace) and connected components of the correlation matrix; astropy.wcs/wcslib as the standard reader"]
ASSUMPTIONS = ["wcslib's -TAB lookup (exercised as the reader; its semantics are the Lean `psi`/`interp`)"]

REF = time.Time("2020-01-01T00:00:00")


# ------------------------------------------------------------------ WCS from blocks
def _block(b, box=None):
    """(transform, n_pix, [(kind, unit)] per output)"""
    k = b["kind"]
    if k == "tab1":
        # a look-up table defined only around the bounding box of its own axis (default bounds_error=True): evaluating it at a pixel
        # outside that range - e.g. 0 when the box is offset - raises
        lo, hi = (0.0, 12.0) if box is None else box
        pts = np.arange(math.floor(min(lo, hi)) - 1, math.ceil(max(lo, hi)) + 2, dtype=float)
        vals = b["c"][0] + b["c"][1] * pts + b["c"][2] * pts ** 2
        return models.Tabular1D(points=pts, lookup_table=vals), 1, [("spectral", "um")]
    if k == "sky":
        t = models.Shift(-b["crpix"][0]) & models.Shift(-b["crpix"][1])
        if b.get("dist"):
            # optical distortion of `dist` pixels at 10 pixels from the reference pixel: a linear fit cannot follow it to 0.25 pixel
            q_ = b["dist"] / 100.0
            t = t | models.Mapping((0, 1, 0, 1)) | (models.Polynomial2D(2, c1_0=1.0, c2_0=q_, c0_2=-q_) & models.Polynomial2D(2, c0_1=1.0, c1_1=q_))
        t = (t | models.Scale(b["scale"]) & models.Scale(b["scale"]) |
             models.Pix2Sky_TAN() | models.RotateNative2Celestial(b["lon"], b["lat"], 180.0))
        return t, 2, [("lon", "deg"), ("lat", "deg")]
    if k == "raster":
        # a raster-scanned slit: longitude from the scan position alone, (latitude, wavelength) from the two detector axes - the two
        # axes of the celestial frame sit in different separable groups
        t = (models.Polynomial1D(1, c0=b["lon"], c1=b["scale"]) &
             (models.Mapping((0, 1, 0, 1)) | (models.Polynomial2D(1, c0_0=b["lat"], c1_0=b["scale"], c0_1=b["scale"] / 8) &
                                               models.Polynomial2D(1, c0_0=b["c"][0], c1_0=b["c"][2], c0_1=b["c"][1]))))
        return t, 3, [("lon", "deg"), ("lat", "deg"), ("spectral", "um")]
    if k in ("spec", "time", "gen"):
        t = models.Polynomial1D(2, c0=b["c"][0], c1=b["c"][1], c2=b["c"][2])
        return t, 1, [({"spec": "spectral", "time": "temporal", "gen": "generic"}[k], {"spec": "um", "time": "s", "gen": "m"}[k])]
    if k == "pair":
        t = models.Mapping((0, 1, 0, 1)) | (models.Polynomial2D(1, c0_0=b["c"][0], c1_0=1.0, c0_1=b["c"][1]) &
                                             models.Polynomial2D(1, c0_0=b["c"][2], c1_0=-b["c"][1], c0_1=1.0))
        return t, 2, [("generic", "m"), ("generic", "m")]
    if k == "slit":
        sky = (models.Shift(-b["crpix"][0]) & models.Shift(-b["crpix"][1]) | models.Scale(b["scale"]) & models.Scale(b["scale"]) |
               models.Pix2Sky_TAN() | models.RotateNative2Celestial(b["lon"], b["lat"], 180.0))
        t = models.Mapping((0, 1, 0, 1)) | sky & models.Polynomial2D(1, c0_0=b["c"][0], c1_0=b["c"][1], c0_1=b["c"][2])
        return t, 2, [("lon", "deg"), ("lat", "deg"), ("spectral", "um")]
    if k == "fan2":
        t = models.Mapping((0, 0)) | models.Polynomial1D(2, c0=b["c"][0], c1=b["c"][1], c2=b["c"][2]) & models.Polynomial1D(1, c0=b["c"][2], c1=b["c"][0])
        return t, 1, [("spectral", "um"), ("generic", "m")]
    if k == "fan3":
        t = models.Mapping((0, 0, 0)) | (models.Polynomial1D(2, c0=b["c"][0], c1=b["c"][1], c2=b["c"][2]) & models.Polynomial1D(1, c0=b["c"][2], c1=b["c"][0]) &
                                          models.Polynomial1D(1, c0=1.0, c1=b["c"][1]))
        return t, 1, [("spectral", "um"), ("generic", "m"), ("temporal", "s")]
    if k == "chain":      # a <- (x0, x1), b <- (x1, x2), c <- (x2): one group, found only by merging transitively
        t = models.Mapping((0, 1, 1, 2, 2)) | (models.Polynomial2D(1, c0_0=b["c"][0], c1_0=1.0, c0_1=b["c"][1]) &
                                                models.Polynomial2D(1, c0_0=b["c"][2], c1_0=b["c"][1], c0_1=1.0) &
                                                models.Polynomial1D(2, c0=b["c"][0], c1=b["c"][1], c2=b["c"][2]))
        return t, 3, [("generic", "m"), ("generic", "m"), ("spectral", "um")]
    if k == "chain4":     # a <- (x0, x1), b <- (x1, x2), c <- (x2, x3), d <- (x3): one group, closed only after three rounds of merging
        t = models.Mapping((0, 1, 1, 2, 2, 3, 3)) | (models.Polynomial2D(1, c0_0=b["c"][0], c1_0=1.0, c0_1=b["c"][1]) &
                                                      models.Polynomial2D(1, c0_0=b["c"][2], c1_0=b["c"][1], c0_1=1.0) &
                                                      models.Polynomial2D(1, c0_0=b["c"][1], c1_0=1.0, c0_1=b["c"][2]) &
                                                      models.Polynomial1D(1, c0=b["c"][0], c1=b["c"][1]))
        return t, 4, [("generic", "m"), ("generic", "m"), ("generic", "m"), ("spectral", "um")]
    if k == "collapse":   # 2 pixel axes -> 1 world axis: more pixel than world axes
        return models.Polynomial2D(1, c0_0=1.0, c1_0=0.5, c0_1=0.25), 2, [("spectral", "um")]
    raise ValueError(k)


def build(case):
    t, npix, outs = None, 0, []
    for b in case["blocks"]:
        own_box = None
        if b["kind"] == "tab1":
            bx = case.get("bbox_arg") or case.get("bbox")
            own_box = None if not bx else bx[npix]
            if case.get("bbox_arg") and case.get("bbox"):
                own_box = [min(case["bbox"][npix][0], case["bbox_arg"][npix][0]), max(case["bbox"][npix][1], case["bbox_arg"][npix][1])]
        bt, n, o = _block(b, own_box)
        t = bt if t is None else t & bt
        npix += n
        outs += [(kind, unit, len(outs) + i) for i, (kind, unit) in enumerate(o)]
        outs = [(kind, unit, i) for i, (kind, unit, _) in enumerate(outs)]
    if case.get("pixperm") and len(case["pixperm"]) == npix:      # (a later rule of the generator may have replaced the blocks)
        # the blocks fed from pixel axes that are not next to each other: pixel axis i of the WCS goes to block input pixperm[i]
        inv_ = [case["pixperm"].index(k) for k in range(npix)]
        t = models.Mapping(tuple(inv_)) | t
    nw = len(outs)
    perm = case.get("perm") or list(range(nw))      # world axis j of the WCS = block output perm[j]
    if perm != list(range(nw)):
        t = t | models.Mapping(tuple(perm))
    pos = {p: j for j, p in enumerate(perm)}        # block output p sits at world axis pos[p]
    frames, i, gi = [], 0, 0
    kinds = [o[0] for o in outs]
    while i < nw:
        if kinds[i] == "lon":
            frames.append(cf.CelestialFrame(reference_frame=coord.ICRS(), axes_order=(pos[i], pos[i + 1]), name="sky%d" % i))
            i += 2
        elif kinds[i] == "spectral":
            frames.append(cf.SpectralFrame(unit=u.um, axes_order=(pos[i],), name="spec%d" % i))
            i += 1
        elif kinds[i] == "temporal":
            frames.append(cf.TemporalFrame(REF, unit=u.s, axes_order=(pos[i],), name="time%d" % i))
            i += 1
        else:
            frames.append(cf.CoordinateFrame(1, ("SPATIAL",), (pos[i],), unit=(u.m,), axes_names=("g%d" % i,), name="gen%d" % i,
                                             axis_physical_types=("custom:g%d" % i,)))
            i += 1
    out = frames[0] if len(frames) == 1 and nw == frames[0].naxes and perm == list(range(nw)) else cf.CompositeFrame(frames, name="world")
    det = cf.CoordinateFrame(npix, ("SPATIAL",) * npix, tuple(range(npix)), unit=(u.pix,) * npix, name="detector")
    w = gw.WCS([(det, t), (out, None)])
    if case.get("bbox") is not None:
        bb = [tuple(x) for x in case["bbox"]]
        w.bounding_box = tuple(bb) if npix > 1 else bb[0]
    return w, npix, nw


def _npix(lo, hi, s):
    return max(2, 1 + int(np.ceil(abs((hi - lo) / s))))


def _components(corr):
    """connected components of world axes (rows) linked through shared pixel axes (columns) — union-find, independent of gwcs"""
    nw, npx = corr.shape
    parent = list(range(nw))

    def find(a):
        while parent[a] != a:
            parent[a] = parent[parent[a]]
            a = parent[a]
        return a
    for j in range(npx):
        rows = [i for i in range(nw) if corr[i, j]]
        for r in rows[1:]:
            parent[find(r)] = find(rows[0])
    comp = {}
    for i in range(nw):
        comp.setdefault(find(i), []).append(i)
    return sorted(comp.values())


def impl(case):
    res = {}
    w, npx, nw = build(case)
    res["npix"], res["nworld"] = npx, nw
    sampling = case["sampling"] if isinstance(case["sampling"], (int, float)) else tuple(case["sampling"])
    kw = {"sampling": sampling}
    if case.get("bbox_arg") is not None:
        kw["bounding_box"] = tuple(tuple(x) for x in case["bbox_arg"]) if npx > 1 else tuple(case["bbox_arg"][0])
    try:
        with warnings.catch_warnings():
            warnings.simplefilter("ignore")
            if case["method"] == "tab":
                hdr, tab = w.to_fits_tab(**kw)
                tabs = [tab]
            else:
                hdr, tabs = w.to_fits(**kw)
    except Exception as e:
        res["err"] = C.exc_enum(e) if not isinstance(e, RuntimeError) else "runtimeErr"
        res["msg"] = type(e).__name__ + ":" + str(e)[:100]
        return res
    of = w.output_frame
    res["frames"] = [{"axes": [int(a) for a in f.axes_order], "cel": isinstance(f, cf.CelestialFrame)}
                     for f in (of.frames if isinstance(of, cf.CompositeFrame) else [of])]
    corr = np.asarray(w.axis_correlation_matrix, dtype=bool)
    res["corr_cols"] = [[int(i) for i in np.flatnonzero(corr[:, j])] for j in range(npx)]
    res["components"] = _components(corr)
    cards = {k: (v if not isinstance(v, (np.floating, np.integer)) else v.item()) for k, v in hdr.items() if k not in ("COMMENT", "HISTORY", "")}
    res["cards"] = cards
    res["card_order"] = [k for k in hdr.keys() if k.startswith("NAXIS") and k != "NAXIS"]
    res["tables"] = [{"name": t.name, "ver": int(t.ver), "shape": list(t.data[t.columns[0].name][0].shape)} for t in tabs]
    bb = case.get("bbox_arg") or case["bbox"]
    res["bb"] = bb
    samp = [float(sampling)] * npx if isinstance(sampling, (int, float)) else [float(x) for x in sampling]
    res["expect_npix"] = [_npix(lo, hi, s) for (lo, hi), s in zip(bb, samp)]
    # a header that names an axis twice or counts more axes than the WCS has is not handed to the C reader (wcslib may abort on it)
    nw_ = w.world_n_dim
    dup = [k for k in set(hdr.keys()) if k not in ("COMMENT", "HISTORY", "") and list(hdr.keys()).count(k) > 1]
    if dup or (not case.get("expect") and (int(hdr.get("WCSAXES", nw_)) > max(nw_, npx) or len(tabs) > len(res["components"]))):
        res["reader_err"] = "malformed header: duplicate cards %s, WCSAXES %s for %d world axes, %d tables for %d coupled groups" % (
            sorted(dup)[:4], hdr.get("WCSAXES"), nw_, len(tabs), len(res["components"]))
        return res
    # the standard reader
    try:
        hdul = fits.HDUList([fits.PrimaryHDU(np.zeros((2,) * npx), hdr)] + list(tabs))
        with warnings.catch_warnings():
            warnings.simplefilter("ignore")
            fw = astwcs.WCS(hdul[0].header, hdul)
    except Exception as e:
        res["reader_err"] = type(e).__name__ + ":" + str(e)[:160]
        return res
    res["ctype"] = [str(x) for x in fw.wcs.ctype]
    res["cunit"] = [str(x) for x in fw.wcs.cunit]
    naxes_f = fw.wcs.naxis
    tab_axes = [i for i, ct in enumerate(res["ctype"]) if ct.endswith("-TAB")]
    res["tab_axes"] = tab_axes
    grids = [np.linspace(lo, hi, n) for (lo, hi), n in zip(bb, res["expect_npix"])]
    rng = np.random.RandomState(case.get("seed", 1))
    # nodes: all of them when few, else the corners plus a random sample
    total = int(np.prod([len(g) for g in grids]))
    if total <= 3000:
        idx = np.array(list(itertools.product(*[range(len(g)) for g in grids])))
    else:
        idx = np.array([[rng.randint(0, len(g)) for g in grids] for _ in range(2000)] +
                       list(itertools.product(*[(0, len(g) - 1) for g in grids])))
    pts = np.array([[grids[a][i] for a, i in enumerate(row)] for row in idx]).T           # (npx, N)

    def reader(p):
        full = list(p) + [np.zeros_like(p[0])] * (naxes_f - npx)
        r = fw.wcs_pix2world(*full, 0)
        return [np.asarray(x) for x in r]

    def gw_eval(p):
        r = w(*p, with_bounding_box=False)
        return [np.asarray(x, dtype=float) for x in (r if isinstance(r, tuple) else (r,))]
    try:
        rv, gv = reader(pts), gw_eval(pts)
    except Exception as e:
        res["reader_err"] = "evaluation: " + type(e).__name__ + ":" + str(e)[:160]
        return res
    worst = []
    for ax in tab_axes:
        a, b = rv[ax], gv[ax]
        scale = max(1.0, float(np.nanmax(np.abs(b))))
        bad = ~(np.abs(a - b) <= 1e-9 * scale)
        if bad.any():
            j = int(np.flatnonzero(bad)[0])
            worst.append({"axis": ax, "pix": pts[:, j].tolist(), "reader": float(a[j]), "gwcs": float(b[j]), "nbad": int(bad.sum()), "n": int(bad.size)})
    # the celestial pair (carried by the linear part: the blocks' sky transform is an exact TAN, so a degree-1 fit reproduces it)
    sky_axes = [i for i, ct in enumerate(res["ctype"]) if not ct.endswith("-TAB")]
    if case["method"] == "mixed" and len(sky_axes) == 2:
        lon_ax = sky_axes[0] if res["ctype"][sky_axes[0]][:2] in ("RA", "GL") else sky_axes[1]
        lat_ax = sky_axes[1] if lon_ax == sky_axes[0] else sky_axes[0]
        l1, b1, l2, b2 = map(np.radians, (rv[lon_ax], rv[lat_ax], gv[lon_ax], gv[lat_ax]))
        sep = np.degrees(2 * np.arcsin(np.sqrt(np.clip(np.sin((b2 - b1) / 2) ** 2 + np.cos(b1) * np.cos(b2) * np.sin((l2 - l1) / 2) ** 2, 0, 1))))
        j = int(np.nanargmax(sep))
        # to_fits fits the linear/SIP part about the box centre to within max_pix_error = 0.25 pixel (its documented default)
        tol = max((0.5 + 4.0 * bl.get("dist", 0.0)) * bl["scale"] for bl in case["blocks"] if bl["kind"] in ("sky", "slit"))
        if not (sep[j] <= tol):
            worst.append({"axis": lon_ax, "pix": pts[:, j].tolist(), "reader": [float(rv[lon_ax][j]), float(rv[lat_ax][j])],
                          "gwcs": [float(gv[lon_ax][j]), float(gv[lat_ax][j])], "nbad": int((~(sep <= tol)).sum()), "n": int(sep.size)})
    if case["method"] == "mixed" and len(sky_axes) == 2:
        # the linear-matrix bookkeeping of the celestial pair: cards as written, and the rows the reader assembled from them
        import re as _re
        kind = "CD" if any(_re.fullmatch(r"CD\d_\d", k) for k in cards) else "PC"
        dep = [j for j in range(npx) if corr[lon_ax, j] or corr[lat_ax, j]]          # pixel axes feeding the pair (independent of gwcs's lists)
        if len(dep) == 2:
            nlon, nlat, iax1, iax2 = lon_ax + 1, lat_ax + 1, dep[0] + 1, dep[1] + 1
            wr = {}
            for k, v in cards.items():
                m_ = _re.fullmatch(r"(PC|CD)(\d)_(\d)", k)
                if m_ and int(m_.group(2)) in (nlon, nlat):
                    wr["%s_%s" % (m_.group(2), m_.group(3))] = [m_.group(1), float(v)]
            mat = fw.wcs.cd if fw.wcs.has_cd() else fw.wcs.get_pc()
            res["remap"] = {"kind": kind, "nlon": nlon, "nlat": nlat, "iax1": iax1, "iax2": iax2, "n": int(naxes_f), "written": wr,
                            "reader_lon": [float(x) for x in mat[nlon - 1]], "reader_lat": [float(x) for x in mat[nlat - 1]]}
    res["node_mismatch"] = worst
    res["nodes_checked"] = int(pts.shape[1])
    # between nodes: the reader's value lies within the values at the corners of the cell
    npt = 300
    cell = np.array([[rng.randint(0, len(g) - 1) for g in grids] for _ in range(npt)])
    frac = rng.uniform(0.05, 0.95, size=cell.shape)
    p_in = np.array([[grids[a][c] + f * (grids[a][c + 1] - grids[a][c]) for a, (c, f) in enumerate(zip(crow, frow))] for crow, frow in zip(cell, frac)]).T
    rin = reader(p_in)
    between = []
    corner_vals = None
    for ax in tab_axes:
        deps = [j for j in range(npx) if corr[ax, j]]
        lo_v = np.full(npt, np.inf)
        hi_v = np.full(npt, -np.inf)
        for combo in itertools.product((0, 1), repeat=len(deps)):
            q = p_in.copy()
            for d, bit in zip(deps, combo):
                q[d] = np.array([grids[d][c + bit] for c in cell[:, d]])
            v = gw_eval(q)[ax]
            lo_v, hi_v = np.minimum(lo_v, v), np.maximum(hi_v, v)
        tol = 1e-9 * np.maximum(1.0, np.abs(hi_v))
        bad = (rin[ax] < lo_v - tol) | (rin[ax] > hi_v + tol) | ~np.isfinite(rin[ax])
        if bad.any():
            j = int(np.flatnonzero(bad)[0])
            between.append({"axis": ax, "pix": p_in[:, j].tolist(), "reader": float(rin[ax][j]), "lo": float(lo_v[j]), "hi": float(hi_v[j]), "nbad": int(bad.sum())})
    res["between_mismatch"] = between
    return res


def oracle(case, res):
    out = _oracle(case, res)
    # D18: a separable group fed by more pixel axes than it has world axes, inside a WCS that is not rejected as a whole
    if not case.get("expect") and any(b["kind"] == "collapse" for b in case["blocks"]):
        out = [("D18", what) for _, what in out]
    return out


def _oracle(case, res):
    out = []
    exp = case.get("expect")
    if exp:   # calls the property says are rejected
        if res.get("err") != exp:
            out.append(("reject", "%s with %s should be rejected with %s, got %s" % (case["method"], case["why"], exp, res.get("msg") or "a header")))
        return out
    if "err" in res:
        return [("export", "%s raised %s" % (case["method"], res["msg"]))]
    if "reader_err" in res:
        return [("reader", "astropy.wcs.WCS does not accept the %s output: %s" % (case["method"], res["reader_err"]))]
    npx, nw = res["npix"], res["nworld"]
    c = res["cards"]
    bb = res["bb"]
    for m in res["node_mismatch"][:2]:
        out.append(("node", "world axis %d at tabulated node %s: FITS reader gives %r, the WCS %r (%d of %d nodes differ)" %
                    (m["axis"], m["pix"], m["reader"], m["gwcs"], m["nbad"], m["n"])))
    for m in res["between_mismatch"][:2]:
        out.append(("between", "world axis %d at pixel %s: FITS reader gives %r, outside the values [%r, %r] at the surrounding nodes" %
                    (m["axis"], m["pix"], m["reader"], m["lo"], m["hi"])))
    # image sizes
    for j, (lo, hi) in enumerate(bb):
        want = int(max(lo, hi)) + 1
        if c.get("NAXIS%d" % (j + 1)) != want:
            out.append(("naxis", "NAXIS%d = %r for the box %s, expected %d" % (j + 1, c.get("NAXIS%d" % (j + 1)), [lo, hi], want)))
    if res["card_order"] != sorted(res["card_order"], key=lambda k: int(k[5:])):
        out.append(("naxis", "NAXISj cards out of order: %s" % res["card_order"]))
    if c.get("NAXIS") != npx:
        out.append(("naxis", "NAXIS = %r for %d pixel axes" % (c.get("NAXIS"), npx)))
    if c.get("WCSAXES") != nw:
        out.append(("axes", "WCSAXES = %r for %d world axes" % (c.get("WCSAXES"), nw)))
    # each world axis once, with CTYPE/CUNIT of its physical type
    w, _, _ = build(case)
    for i in range(nw):
        ct = c.get("CTYPE%d" % (i + 1))
        if ct is None:
            out.append(("axes", "world axis %d has no CTYPE%d card" % (i, i + 1)))
            continue
        want = cf.get_ctype_from_ucd(w.world_axis_physical_types[i])
        if not ct.startswith(want.split("-")[0][:4].rstrip("-")) and not ct.startswith(want):
            out.append(("axes", "CTYPE%d = %r for physical type %r (expected %r...)" % (i + 1, ct, w.world_axis_physical_types[i], want)))
        cu = c.get("CUNIT%d" % (i + 1), "")
        try:
            same_unit = u.Unit(cu or "", format="fits") == u.Unit(w.world_axis_units[i] or "")
        except ValueError:
            same_unit = False        # not a FITS unit string at all (FITS units are case sensitive: 'UM', 'HZ', 'DEG' are not units)
        if not same_unit:
            out.append(("axes", "CUNIT%d = %r for unit %r" % (i + 1, cu, w.world_axis_units[i])))
    if any(k.startswith("CTYPE") and int(k[5:]) > nw for k in c):
        out.append(("axes", "more CTYPE cards than world axes: %s" % sorted(k for k in c if k.startswith("CTYPE"))))
    # table extensions and groups
    vers = [t["ver"] for t in res["tables"]]
    if vers != list(range(1, len(vers) + 1)):
        out.append(("ext", "table extension versions %s are not consecutive from 1" % vers))
    sky = [i for i in range(nw) if not c.get("CTYPE%d" % (i + 1), "").endswith("-TAB")]
    if case["method"] == "mixed":
        byver = {}
        for i in res["tab_axes"]:
            byver.setdefault(c.get("PV%d_1" % (i + 1)), []).append(i)
        groups = sorted(sorted(v) for v in byver.values())
        want = sorted(g for g in res["components"] if not (set(g) <= set(sky)))
        if groups != want:
            out.append(("ext", "table extensions hold world axes %s, separable groups are %s" % (groups, want)))
        for g in groups:
            pv3 = sorted(c.get("PV%d_3" % (i + 1)) for i in g)
            if pv3 != list(range(1, len(g) + 1)):
                out.append(("ext", "PVi_3 of group %s are %s" % (g, pv3)))
        if sky:
            lonlat = sorted(sky)
            cts = [c.get("CTYPE%d" % (i + 1), "") for i in lonlat]
            if len(sky) != 2 or not (cts[0][:2] in ("RA", "DE") and cts[1][:2] in ("RA", "DE") and cts[0][:2] != cts[1][:2]):
                out.append(("axes", "celestial pair not carried by the linear/SIP part at its own axis numbers: %s" % dict(zip(lonlat, cts))))
    # node counts follow the requested per-axis sampling
    for t in res["tables"]:
        pass
    if case["method"] == "tab" and len(res["tables"]) == 1:
        shp = res["tables"][0]["shape"]
        want = [1] * (nw - npx) + res["expect_npix"][::-1] + [nw]
        if shp != want:
            out.append(("sampling", "coordinate array shape %s, expected %s for box %s and sampling %s" % (shp, want, bb, case["sampling"])))
    return out[:6]


def request(case, res):
    if "cards" not in res:
        return None
    samp = case["sampling"]
    samp = [samp] * res["npix"] if isinstance(samp, (int, float)) else samp
    main = {"tag": "main", "sets": res["corr_cols"], "frames": res.get("frames", []),
            "axes": [{"lo": C.q2w(Fraction(lo)), "hi": C.q2w(Fraction(hi)), "s": C.q2w(Fraction(s))} for (lo, hi), s in zip(res["bb"], samp)],
            "used": [], "insert": list(range(res["npix"]))[::-1]}
    reqs = [main]
    rm = res.get("remap")
    if rm:
        wr = rm["written"]
        blk = [[wr.get("%d_%d" % (r_, c_), [None, None])[1] for c_ in (rm["iax1"], rm["iax2"])] for r_ in (rm["nlon"], rm["nlat"])]
        if all(v is not None for row in blk for v in row):
            reqs.append({"tag": "remap", "remap": {"kind": rm["kind"], "nlon": rm["nlon"], "nlat": rm["nlat"], "iax1": rm["iax1"], "iax2": rm["iax2"],
                                                   "n": rm["n"], "b": [[C.q2w(Fraction(v)) for v in row] for row in blk]}})
    return {"multi": reqs}


def compare(case, res, resp):
    if "ok" not in resp:
        return "model error %s" % resp
    parts = {x["tag"]: x["resp"] for x in resp["ok"]}
    for t, x in parts.items():
        if "ok" not in x:
            return "model error (%s) %s" % (t, x)
    rm = res.get("remap")
    if rm and "remap" not in parts:
        return "celestial block: not all four elements (%d|%d, %d|%d) are written: %s" % (rm["nlon"], rm["nlat"], rm["iax1"], rm["iax2"], rm["written"])
    if rm:
        mm = parts["remap"]["ok"]
        want = {"%d_%d" % (c_[0], c_[1]): float(C.w2q(c_[2])) for c_ in mm["cards"]}
        got = {k: v[1] for k, v in rm["written"].items()}
        if any(v[0] != rm["kind"] for v in rm["written"].values()):
            return "celestial rows mix PC and CD cards: %s" % rm["written"]
        if want != got:
            return "matrix cards of the celestial rows: header %s, model %s" % (got, want)
        for nm_ in ("lon", "lat"):
            mrow = [float(C.w2q(v)) for v in mm[nm_ + "_row"]]
            # (wcslib parses the card text: a value keeps about 15 significant digits)
            if len(mrow) != len(rm["reader_" + nm_]) or any(abs(x - y) > 1e-12 * max(abs(x), abs(y)) for x, y in zip(mrow, rm["reader_" + nm_])):
                return "%s row of the matrix the reader assembled: wcslib %s, model reader %s" % (nm_, rm["reader_" + nm_], mrow)
    m = parts["main"]["ok"]
    if m["groups"] != sorted(res["components"]) and sorted(m["groups"]) != sorted(res["components"]):
        return "separable groups: model %s, connected components %s" % (m["groups"], res["components"])
    c = res["cards"]
    if case["method"] == "mixed" and "ctype" in res:
        # which world axes went to the SIP/linear part: exactly the model's celestial pair (if any)
        lin_axes = sorted(i for i, ct in enumerate(res["ctype"][:res["nworld"]]) if not ct.endswith("-TAB"))      # (beyond: the reader's own table-index axes)
        want = sorted(a for g in m["celestial"] for a in g)
        if lin_axes != want:
            return "world axes carried by the linear part: header %s (CTYPE %s), model's celestial pair %s" % (lin_axes, res["ctype"], want)
    if "tab_axes" not in res:
        return None        # the standard reader refused the header: the oracle reports that; nothing further to compare
    for j, a in enumerate(m["axes"]):
        if a["npix"] != res["expect_npix"][j]:
            return "pixel axis %d: model node count %d, harness %d" % (j, a["npix"], res["expect_npix"][j])
        if c.get("NAXIS%d" % (j + 1)) != a["naxis"]:
            return "NAXIS%d: header %r, model %r" % (j + 1, c.get("NAXIS%d" % (j + 1)), a["naxis"])
        # CRPIX/CDELT of the pixel axis when it carries a tabulated world axis
        crp = c.get("CRPIX%d" % (j + 1))
        tabbed = [i for i in res["tab_axes"] if any(abs(c.get(k % (i + 1, j + 1), 0.0)) > 0 for k in ("PC%d_%d", "CD%d_%d")) or
                  (i == j and ("PC%d_%d" % (i + 1, j + 1)) not in c and ("CD%d_%d" % (i + 1, j + 1)) not in c and
                   not any(k.startswith("PC%d_" % (i + 1)) or k.startswith("CD%d_" % (i + 1)) for k in c))]
        if tabbed:
            i = tabbed[0]
            if crp is None or abs(crp - float(C.w2q(a["crpix"]))) > 1e-12 * max(1, abs(crp)):
                return "CRPIX%d: header %r, model %s" % (j + 1, crp, a["crpix"])
            cd = c.get("CDELT%d" % (i + 1), 1.0) * c.get("PC%d_%d" % (i + 1, j + 1), 1.0) if ("CD%d_%d" % (i + 1, j + 1)) not in c else c["CD%d_%d" % (i + 1, j + 1)]
            want = float(C.w2q(a["cdelt"]))
            if abs(cd - want) > 1e-12 * max(1, abs(want)):
                return "scale of world axis %d on pixel axis %d: header %r, model %s" % (i + 1, j + 1, cd, a["cdelt"])
    return None


def nontrivial(case, res):
    bb = case.get("bbox") or []
    return len(case["blocks"]) > 1 or bool(case.get("perm")) or any(lo != 0 or hi != int(hi) for lo, hi in bb)


def stats(case, res, st):
    st["method_" + case["method"]] += 1
    st["npix_%d" % res.get("npix", 0)] += 1
    st["nworld_%d" % res.get("nworld", 0)] += 1
    for b in case["blocks"]:
        st["block_" + b["kind"]] += 1
    if case.get("expect"):
        st["rejected_call"] += 1
    if "err" in res:
        st["err_" + res["err"]] += 1
    if "nodes_checked" in res:
        st["nodes_checked"] += res["nodes_checked"]
    st["sampling_" + ("scalar" if isinstance(case["sampling"], (int, float)) else "per_axis")] += 1


def gen(rng, tier):
    q = tier == "quick"
    for it in range(40 if q else 700):
        blocks, npx = [], 0
        target = rng.choice([1, 2, 2, 3, 3, 4])
        while npx < target:
            cands = ["spec", "time", "gen", "fan2", "fan3", "tab1"]
            if target - npx >= 2:
                cands += ["sky", "sky", "pair", "slit"]
                if rng.random() < 0.15:
                    cands = ["collapse"]
            if target - npx >= 3 and rng.random() < 0.4:
                cands = ["chain", "chain", "raster"]
            k = rng.choice(cands)
            if k in ("sky", "slit", "raster") and any(b["kind"] in ("sky", "slit", "raster") for b in blocks):
                continue
            if k in ("fan2", "fan3") and any(b["kind"] in ("fan2", "fan3") for b in blocks):
                continue
            b = {"kind": k}
            if k in ("sky", "slit", "raster"):
                if k == "sky" and rng.random() < 0.3:
                    b["dist"] = rng.choice([1.0, 2.0])
                b.update(crpix=[float(rng.randint(2, 8)), float(rng.randint(2, 8))], scale=rng.choice([0.01, 0.05]), lon=float(rng.randint(40, 300)),
                         lat=float(rng.randint(-60, 60)))
            b["c"] = [float(rng.randint(1, 9)), rng.choice([0.5, 0.25, 1.5]), rng.choice([0.03125, 0.0625, 0.125])]
            blocks.append(b)
            npx += 3 if k in ("chain", "raster") else 2 if k in ("sky", "pair", "slit", "collapse") else 1
        nw = sum({"sky": 2, "pair": 2, "slit": 3, "fan2": 2, "fan3": 3, "chain": 3, "raster": 3}.get(b["kind"], 1) for b in blocks)
        case = {"blocks": blocks, "method": rng.choice(["tab", "mixed", "mixed"])}
        crossed = it % 8 == 3
        if crossed:
            # the celestial pair's world numbers both outside the numbers of the pixel axes that feed it (and the other way round)
            sky = dict(blocks[0], kind="sky") if blocks[0]["kind"] in ("sky", "slit") else \
                {"kind": "sky", "crpix": [float(rng.randint(2, 8)), float(rng.randint(2, 8))], "scale": rng.choice([0.01, 0.05]),
                 "lon": float(rng.randint(40, 300)), "lat": float(rng.randint(-60, 60)), "c": [1.0, 0.5, 0.125]}
            one = [{"kind": k1, "c": [float(rng.randint(1, 9)), rng.choice([0.5, 0.25, 1.5]), rng.choice([0.03125, 0.0625, 0.125])]}
                   for k1 in rng.sample(["spec", "time", "gen"], 2)]
            blocks = [sky] + one if rng.random() < 0.5 else one + [sky]
            npx, nw = 4, 4
            case = {"blocks": blocks, "method": "mixed", "perm": [2, 3, 0, 1] if rng.random() < 0.7 else [2, 3, 1, 0]}
        if it % 8 in (1, 6):
            skyb = {"kind": "sky", "crpix": [float(rng.randint(2, 8)), float(rng.randint(2, 8))], "scale": rng.choice([0.01, 0.05]),
                    "lon": float(rng.randint(40, 300)), "lat": float(rng.randint(-60, 60)), "c": [1.0, 0.5, 0.125]}
            cc = [float(rng.randint(1, 9)), rng.choice([0.5, 0.25, 1.5]), rng.choice([0.03125, 0.0625, 0.125])]
            if it % 8 == 1:
                # the two celestial axes in different separable groups (raster-scanned slit), exported with to_fits
                blocks, npx, nw = [dict(skyb, kind="raster", c=cc)], 3, 3
            else:
                # a distorted celestial pair next to a spectral axis, default arguments
                blocks, npx, nw = [dict(skyb, dist=rng.choice([1.0, 2.0])), {"kind": "spec", "c": cc}], 3, 3
            case = {"blocks": blocks, "method": "mixed"}
            crossed = True      # (keeps the world axes in their natural order)
        if it % 20 == 13:
            # a coupled pair fed from pixel axes 0 and 2, a separate axis on pixel axis 1 between them
            cc = [float(rng.randint(1, 9)), rng.choice([0.5, 0.25, 1.5]), rng.choice([0.03125, 0.0625, 0.125])]
            blocks, npx, nw = [{"kind": "pair", "c": cc}, {"kind": rng.choice(["spec", "time"]), "c": cc}], 3, 3
            case = {"blocks": blocks, "method": "mixed", "pixperm": [0, 2, 1], "perm": [0, 2, 1]}
            crossed = True
        if it % 20 == 7:
            # four pixel axes coupled in a chain, in one of the orders the sets can be met in
            blocks, npx, nw = [{"kind": "chain4", "c": [float(rng.randint(1, 9)), rng.choice([0.5, 0.25, 1.5]), rng.choice([0.03125, 0.0625, 0.125])]}], 4, 4
            case = {"blocks": blocks, "method": rng.choice(["tab", "mixed"])}
            crossed = False
        if nw < npx:
            case.update(expect="runtimeErr", why="more pixel than world axes")
        # permutation of world axes: celestial lon/lat keep their relative order
        if rng.random() < 0.6 and nw > 1 and not crossed:
            perm = list(range(nw))
            rng.shuffle(perm)
            case["perm"] = perm
        bb = []
        for _ in range(npx):
            lo = rng.choice([0.0, -0.5, 2.0, 2.25, 5.5])
            hi = lo + rng.choice([4.0, 6.0, 7.5, 10.0, 10.5, 12.25])
            bb.append([lo, hi])
        case["bbox"] = bb
        case["sampling"] = rng.choice([1, 1, 0.5, 2, 0.7, 3]) if rng.random() < 0.5 else [rng.choice([1, 0.5, 2, 0.7, 3, 1.5]) for _ in range(npx)]
        if rng.random() < 0.2 or (it % 8 == 5 and npx > 1):
            case["bbox_arg"] = [[lo + 1.0, hi - 0.5] for lo, hi in bb]
            if it % 8 == 5 and npx > 1:
                case["method"] = "tab"      # (a box passed to to_fits_tab, on a WCS of several pixel axes, every 8th case)
        case["seed"] = rng.randint(1, 10**6)
        r = rng.random() if "expect" not in case else 1.0
        if r < 0.06:
            # (a Tabular1D brings a bounding box of its own: not a "no box" WCS)
            case["blocks"] = [dict(b, kind="spec") if b["kind"] == "tab1" else b for b in case["blocks"]]
            case.update(bbox=None, expect="valueErr", why="no bounding box")
            case.pop("bbox_arg", None)
        elif r < 0.12 and npx > 1:
            case.update(sampling=[1.0] * (npx + 1), expect="valueErr", why="a sampling tuple of the wrong length")
        elif r < 0.16:
            case.update(blocks=[{"kind": "collapse"}], bbox=[[0.0, 5.0], [0.0, 5.0]], sampling=1, expect="runtimeErr", why="more pixel than world axes")
            case.pop("perm", None)
            case.pop("bbox_arg", None)
        yield case
