"""C16 — units are transparent: quantities, bare numbers and unit transforms agree (api.py, wcs.py, utils.py, coordinate_frames.py)."""
import math
from fractions import Fraction

import numpy as np
import astropy.units as u
from astropy import coordinates as coord
from astropy import time
from astropy.modeling import models

import common as C
from gwcs import coordinate_frames as cf
from gwcs import wcs as gw

PROP = "C16"
LEAN_MODULE = "GwcsProofs.C16"
SOURCES = ["GwcsModel/Units.lean", "GwcsProofs/C16.lean"]
THEOREMS = [
    "Gwcs.Units.toValue_trans",
    "Gwcs.Units.values_agree",
    "Gwcs.Units.world_values_agree",
    "Gwcs.Units.quantity_any_unit",
    "Gwcs.Units.quantity_any_unit_usesQ",
    "Gwcs.Units.bare_equals_frame_units",
    "Gwcs.Units.mixed_world_values",
    "Gwcs.Units.wrong_pixel_unit_rejected",
    "Gwcs.Units.right_pixel_unit_stripped",
    "Gwcs.Units.wrong_pixel_dim_rejected",
    "Gwcs.Units.with_units_in_frame_units",
    "Gwcs.Units.with_units_in_frame_units_twin",
    "Gwcs.Units.objects_agree",
    "Gwcs.Units.pixel_quantity_converted",
    "Gwcs.Units.sanitize_keeps_qtys",
    "Gwcs.Units.mixed_rev_world_values",
    "Gwcs.Units.arrayIndexScaleOnly_eq",
    "Gwcs.Units.array_index_unit_independent",
    "Gwcs.Units.array_index_matches_twin",
    "Gwcs.Units.removeQuantityOutput_bare",
    "Gwcs.Units.mixed_outputs_converted",
]
RULE = ("case = (WCS family: 1-D spectral / 1-D temporal / 2-D sky / 3-D sky+spectral cube / TAN imaging, units of the transform, units of the "
        "frames, units of the world inputs, sky frame of object inputs, point or array); each case builds the unit-carrying WCS and its "
        "unit-free twin; non-trivial = some transform, frame or input unit differs from another on the same axis; distinct by "
        "(family, all unit names, object frame, array flag)")
TRUSTED = ["harness/props/c16.py: twin construction (unit scale folded into the coefficients), tolerance 1e-11 relative for float unit conversion"]
ASSUMPTIONS = ["astropy unit registry and SkyCoord.transform_to (measured, not modelled): conversions are per-axis rescalings / frame bijections"]

UNITS = {  # name -> (dimension, scale to the dimension's base as an exact rational)
    "pix": (0, Fraction(1)), "mpix": (0, Fraction(1, 1000)),
    "deg": (1, Fraction(1)), "arcsec": (1, Fraction(1, 3600)), "arcmin": (1, Fraction(1, 60)), "rad": (1, Fraction(180 / math.pi)),
    "m": (2, Fraction(1)), "um": (2, Fraction(1, 10**6)), "nm": (2, Fraction(1, 10**9)), "AA": (2, Fraction(1, 10**10)),
    "Hz": (3, Fraction(1)), "GHz": (3, Fraction(10**9)), "MHz": (3, Fraction(10**6)),
    "s": (4, Fraction(1)), "min": (4, Fraction(60)), "h": (4, Fraction(3600)),
}
BYDIM = {1: ["deg", "arcsec", "arcmin", "rad"], 2: ["m", "um", "nm", "AA"], 3: ["Hz", "GHz", "MHz"], 4: ["s", "min", "h"]}
REF = time.Time("2020-01-01T00:00:00")


def _ref(case):
    """the reference epoch of the temporal frame (UTC); one of the choices has a leap second (2016-12-31T23:59:60) right after it"""
    return time.Time(case["epoch"]) if case.get("epoch") else REF
SKY = {"icrs": coord.ICRS(), "fk5": coord.FK5(), "galactic": coord.Galactic(), "fk4": coord.FK4(), "fk5_1975": coord.FK5(equinox="J1975")}


def _wu(name):
    d, s = UNITS[name]
    return [d, "%d/%d" % (s.numerator, s.denominator)]


def _out_frame(case):
    fam = case["family"]
    ax = case["axes"]
    if fam == "spectral":
        return cf.SpectralFrame(unit=u.Unit(ax[0]["world"]), name="world")
    if fam == "temporal":
        return cf.TemporalFrame(_ref(case), unit=u.Unit(ax[0]["world"]), name="world")
    if fam == "generic":
        return cf.CoordinateFrame(1, ("SPATIAL",), (0,), unit=(u.Unit(ax[0]["world"]),), name="world", axes_names=("g",))
    if fam == "plane":      # a focal-plane-like output: Frame2D in angular units, no sky frame
        return cf.Frame2D(name="world", unit=(u.Unit(ax[0]["world"]), u.Unit(ax[1]["world"])))
    sky = cf.CelestialFrame(reference_frame=SKY[case["sky"]], unit=(u.Unit(ax[0]["world"]), u.Unit(ax[1]["world"])), name="sky", axes_order=(0, 1))
    if fam in ("sky", "tan"):
        return sky
    return cf.CompositeFrame([sky, cf.SpectralFrame(unit=u.Unit(ax[2]["world"]), axes_order=(2,), name="spec")], name="world")


def _transform(case, with_units):
    n = len(case["axes"])
    if case["family"] == "tan":
        a0, a1 = case["axes"]
        if with_units:
            t = ((models.Shift(-a0["crpix"] * u.pix) & models.Shift(-a1["crpix"] * u.pix)) |
                 (models.Multiply(a0["a"] * u.Unit(a0["tout"]) / u.pix) & models.Multiply(a1["a"] * u.Unit(a1["tout"]) / u.pix)) |
                 models.Pix2Sky_TAN() | models.RotateNative2Celestial(a0["b"] * u.deg, a1["b"] * u.deg, 180 * u.deg))
        else:
            k0 = a0["a"] * float(UNITS[a0["tout"]][1])
            k1 = a1["a"] * float(UNITS[a1["tout"]][1])
            post = models.Multiply(1 / float(UNITS[a0["world"]][1])) & models.Multiply(1 / float(UNITS[a1["world"]][1]))
            t = ((models.Shift(-a0["crpix"]) & models.Shift(-a1["crpix"])) | (models.Multiply(k0) & models.Multiply(k1)) |
                 models.Pix2Sky_TAN() | models.RotateNative2Celestial(a0["b"], a1["b"], 180) | post)
        return t
    t = None
    for i_ax, ax in enumerate(case["axes"]):
        if with_units:
            tu = u.Unit(ax["tout"])
            s = models.Multiply(ax["a"] * tu / _pixu(case, i_ax))
            if not case.get("noshift"):      # (a scale-only transform converts nothing on the way back: its result is in 'world unit * pix / transform unit')
                s = s | models.Shift(ax["b"] * tu)
        else:
            k = float(UNITS[ax["tout"]][1] / UNITS[ax["world"]][1])
            s = models.Multiply(ax["a"] * k) | models.Shift(ax["b"] * k)
        t = s if t is None else t & s
    if with_units and case.get("mixed"):
        # a user-supplied inverse WITHOUT units (numbers in frame units -> pixels) on the unit-carrying forward transform
        inv = None
        for ax in case["axes"]:
            k = float(UNITS[ax["tout"]][1] / UNITS[ax["world"]][1])
            s = models.Shift(-ax["b"] * k) | models.Multiply(1.0 / (ax["a"] * k))
            inv = s if inv is None else inv & s
        t.inverse = inv
    if (not with_units) and case.get("mixed_rev"):
        # the other way round: a user-supplied inverse WITH units (quantities in frame units -> pixels) on the unit-free forward transform
        inv = None
        for i_ax, ax in enumerate(case["axes"]):
            k = float(UNITS[ax["tout"]][1] / UNITS[ax["world"]][1])
            wu_ = u.Unit(ax["world"])
            s = models.Shift(-ax["b"] * k * wu_) | models.Multiply(1.0 / (ax["a"] * k) * _pixu(case, i_ax) / wu_)
            inv = s if inv is None else inv & s
        t.inverse = inv
    return t


def _pixu(case, i):
    """the unit of pixel axis i (a detector whose axes are in different units: pixels along one, adu-like counts along the other)"""
    return u.Unit((case.get("pixu") or ["pix"] * 8)[i])


def _use(w, n):
    """look at a WCS before it is edited (whatever it remembers from this must not outlive the edit)"""
    for f in (lambda: w.pixel_to_world_values(*[1.0] * n), lambda: w.pixel_to_world(*[1.0] * n),
              lambda: w.world_to_pixel_values(*w.pixel_to_world_values(*[2.0] * n)) if n > 1 else w.world_to_pixel_values(w.pixel_to_world_values(2.0)),
              lambda: w.invert(*[3.0] * n)):
        try:
            f()
        except Exception:
            pass


def _build(case, with_units):
    n = len(case["axes"])
    det = cf.CoordinateFrame(naxes=n, axes_type=("SPATIAL",) * n, axes_order=tuple(range(n)), name="detector", unit=tuple(_pixu(case, i) for i in range(n)))
    t, out = _transform(case, with_units), _out_frame(case)
    staged = case.get("staged")
    if staged == "insert_frame":
        # detector -> binned (a unit-free factor of exactly 1), used, then extended to the world frame
        pre = None
        for _ in range(n):
            pre = models.Scale(1.0) if pre is None else pre & models.Scale(1.0)
        mid = cf.CoordinateFrame(naxes=n, axes_type=("SPATIAL",) * n, axes_order=tuple(range(n)), name="binned", unit=tuple(_pixu(case, i) for i in range(n)))
        w = gw.WCS([(det, pre), (mid, None)])
        _use(w, n)
        w.insert_frame(mid, t, out)
        return w
    if staged == "set_transform":
        # first built with the OTHER twin's transform, used, then given its own
        w = gw.WCS([(det, _transform(case, not with_units)), (out, None)])
        _use(w, n)
        w.set_transform("detector", out.name, t)
        return w
    if staged == "insert_transform":
        w = gw.WCS([(det, models.Identity(n)), (out, None)])
        _use(w, n)
        w.insert_transform(out.name, t, after=False)
        return w
    return gw.WCS([(det, t), (out, None)])




def _vals(r):
    """canonical form of a values-interface result: (kind, nested floats)"""
    seq = list(r) if isinstance(r, (tuple, list)) else [r]
    # a pixel quantity in a composite unit ('Hz pix / MHz' from a scale-only transform) is the same pixel: read it in the plain unit
    seq = [x.to(b_) if isinstance(x, u.Quantity) and x.unit != b_ and x.unit.is_equivalent(b_) else x for x in seq for b_ in [u.adu if isinstance(x, u.Quantity) and x.unit.is_equivalent(u.adu) else u.pix]]
    kinds = sorted({"Quantity" if isinstance(x, u.Quantity) else ("float" if np.ndim(x) == 0 else "ndarray") for x in seq})
    return {"kinds": kinds, "v": [np.asarray(getattr(x, "value", x), dtype=float).tolist() for x in seq],
            "units": [str(getattr(x, "unit", "")) for x in seq]}


def _try(f):
    try:
        return f()
    except Exception as e:
        # astropy's UnitsError (not a ValueError in this astropy) and gwcs's ValueError are both "rejected" = valueErr in the model
        return {"err": "valueErr" if isinstance(e, u.UnitsError) else C.exc_enum(e), "msg": type(e).__name__ + ":" + str(e)[:80]}


def _objs(case, r):
    """objects -> per world axis (value in frame unit)"""
    fam = case["family"]
    ax = case["axes"]
    seq = list(r) if isinstance(r, (list, tuple)) else [r]
    out, kinds = [], []
    for o in seq:
        kinds.append(type(o).__name__)
        if isinstance(o, coord.SkyCoord):
            o2 = o.transform_to(SKY[case["sky"]])
            lon_ = o2.spherical.lon.wrap_at(180 * u.deg) if case.get("neg_lon") else o2.spherical.lon   # a field written around lon 0 as -20..+30
            out += [np.asarray(lon_.to_value(u.Unit(ax[0]["world"]))).tolist(), np.asarray(o2.spherical.lat.to_value(u.Unit(ax[1]["world"]))).tolist()]
            if o.frame.name != SKY[case["sky"]].name:
                kinds[-1] += ":" + o.frame.name
        elif isinstance(o, time.Time):
            out.append(np.asarray((o - _ref(case)).to_value(u.Unit(ax[0]["world"]))).tolist())
        else:
            i = len(out)
            if o.unit != u.Unit(ax[i]["world"]):
                kinds[-1] += ":unit=" + str(o.unit)
            out.append(np.asarray(o.to_value(u.Unit(ax[i]["world"]))).tolist())
    return {"kinds": kinds, "v": out}


def _impl_frames3(case):
    """detector (pix) -> focal (arcsec) -> sky (deg), unit-free transforms: WCS.transform between frames with quantity inputs"""
    cx, cy, s1, lon0, lat0 = case["p"]
    det = cf.Frame2D(name="detector", unit=(u.pix, u.pix))
    foc = cf.Frame2D(name="focal", unit=(u.arcsec, u.arcsec))
    sky = cf.CelestialFrame(reference_frame=coord.ICRS(), unit=(u.deg, u.deg), name="sky")
    t1 = models.Shift(-cx) & models.Shift(-cy) | models.Scale(s1) & models.Scale(s1)
    t2 = models.Scale(1.0 / 3600.0) & models.Scale(1.0 / 3600.0) | models.Shift(lon0) & models.Shift(lat0)
    w = gw.WCS([(det, t1), (foc, t2), (sky, None)])
    fx, fy = case["focal"]
    alt = u.Unit(case["alt"])
    qx, qy = (fx * u.arcsec).to(alt), (fy * u.arcsec).to(alt)
    res = {}
    for to in ("sky", "detector"):
        res["bare_" + to] = _try(lambda: _vals(w.transform("focal", to, fx, fy)))
        res["qty_" + to] = _try(lambda: _vals(w.transform("focal", to, qx, qy)))
    px = [(fx / s1 + cx), (fy / s1 + cy)]
    res["pix_qty_to_focal"] = _try(lambda: _vals(w.transform("detector", "focal", px[0] * u.pix, px[1] * u.pix)))
    res["pix_bare_to_focal"] = _try(lambda: _vals(w.transform("detector", "focal", px[0], px[1])))
    return res


def _impl_tabq(case):
    """a wavelength axis read from a look-up table of QUANTITIES behind a unit-free shift: the transform's parameters carry no
    units (uses_quantity is False) but its results are quantities; the twin's table holds the same numbers in the frame's unit"""
    tu, wu = u.Unit(case["tunit"]), u.Unit(case["wunit"])
    vals = np.array(case["table"], dtype=float)
    det = cf.CoordinateFrame(1, ("SPATIAL",), (0,), unit=(u.pix,), name="detector")
    res = {}
    for nm, tab in (("q", models.Tabular1D(points=np.arange(len(vals), dtype=float), lookup_table=vals * tu, bounds_error=False, fill_value=None)),
                    ("t", models.Tabular1D(points=np.arange(len(vals), dtype=float), lookup_table=(vals * tu).to_value(wu), bounds_error=False, fill_value=None))):
        pix = np.array(case["pix"]) if case["array"] else case["pix"][0]
        if case.get("two"):
            # a slit position (plain numbers, metres) beside the wavelength read from the table of quantities: first output plain, second a quantity
            det2 = cf.CoordinateFrame(2, ("SPATIAL", "SPATIAL"), (0, 1), unit=(u.pix, u.pix), name="detector")
            out2 = cf.CompositeFrame([cf.CoordinateFrame(1, ("SPATIAL",), (0,), unit=(u.m,), name="slit", axes_names=("s",)),
                                      cf.SpectralFrame(unit=wu, axes_order=(1,), name="spec")], name="world")
            w = gw.WCS([(det2, models.Shift(2.5) & (models.Shift(0.0) | tab)), (out2, None)])
            res[nm] = {"p2wv": _try(lambda: _vals(w.pixel_to_world_values(pix * 0 + 3.0, pix))),
                       "ai2wv": _try(lambda: _vals(w.array_index_to_world_values(np.asarray(np.floor(np.asarray(pix) + 0.5), dtype=int), np.asarray(np.floor(np.asarray(pix) + 0.5), dtype=int) * 0 + 3)))}
            continue
        w = gw.WCS([(det, models.Shift(0.0) | tab), (cf.SpectralFrame(unit=wu, name="world"), None)])
        r = {"p2wv": _try(lambda: _vals(w.pixel_to_world_values(pix))),
             "ai2wv": _try(lambda: _vals(w.array_index_to_world_values(np.asarray(np.floor(np.asarray(pix) + 0.5), dtype=int)))),
             "p2w": _try(lambda: {"kinds": [type(w.pixel_to_world(pix)).__name__], "v": [np.asarray(w.pixel_to_world(pix).to_value(wu)).tolist()]})}
        if "err" not in r["p2wv"]:
            world = np.array(r["p2wv"]["v"][0]) if case["array"] else float(np.asarray(r["p2wv"]["v"][0]))
            r["w2pv"] = _try(lambda: _vals(w.world_to_pixel_values(world)))
        res[nm] = r
    return res


def _impl_perm(case):
    """a spectral-first cube (wavelength, lon, lat) whose composite frame lists the sky frame before the spectral one: the frame's
    units are per world axis, whatever the order the member frames are listed in - values interface of the twins"""
    ax = case["axes"]      # world axis order: spectral, lon, lat
    out = cf.CompositeFrame([cf.CelestialFrame(reference_frame=coord.ICRS(), unit=(u.Unit(ax[1]["world"]), u.Unit(ax[2]["world"])), axes_order=(1, 2), name="sky"),
                             cf.SpectralFrame(unit=u.Unit(ax[0]["world"]), axes_order=(0,), name="spec")], name="world")
    det = cf.CoordinateFrame(naxes=3, axes_type=("SPATIAL",) * 3, axes_order=(0, 1, 2), name="detector", unit=(u.pix,) * 3)
    pix = [np.array(p) if case["array"] else p[0] for p in case["pix"]]
    res = {}
    for nm, with_units in (("q", True), ("t", False)):
        w = gw.WCS([(det, _transform(case, with_units)), (out, None)])
        r = {"p2wv": _try(lambda: _vals(w.pixel_to_world_values(*pix)))}
        if "err" not in r["p2wv"]:
            world = [np.array(v) if case["array"] else float(np.asarray(v)) for v in r["p2wv"]["v"]]
            r["w2pv"] = _try(lambda: _vals(w.world_to_pixel_values(*world)))
            r["w2aiv"] = _try(lambda: _vals(w.world_to_array_index_values(*world)))
        r["ai2wv"] = _try(lambda: _vals(w.array_index_to_world_values(*[np.asarray(np.floor(np.asarray(p) + 0.5), dtype=int) for p in pix][::-1])))
        res[nm] = r
    return res


def impl(case):
    if case["family"] == "frames3":
        return _impl_frames3(case)
    if case["family"] == "perm":
        return _impl_perm(case)
    if case["family"] == "tabq":
        return _impl_tabq(case)
    wq = _build(case, True)
    wt = _build(case, False)
    pix = [np.array(p) if case["array"] else p[0] for p in case["pix"]]
    ax = case["axes"]
    res = {}
    for nm, w in (("q", wq), ("t", wt)):
        r = {}
        r["p2wv"] = _try(lambda: _vals(w.pixel_to_world_values(*pix)))
        if "err" in r["p2wv"]:
            res[nm] = r
            continue
        world = [np.array(v) for v in r["p2wv"]["v"]]
        worldarg = [x if case["array"] else float(x) for x in world]
        r["w2pv"] = _try(lambda: _vals(w.world_to_pixel_values(*worldarg)))
        r["ai2wv"] = _try(lambda: _vals(w.array_index_to_world_values(*[np.asarray(np.floor(np.asarray(p) + 0.5), dtype=int) for p in pix][::-1])))
        r["w2aiv"] = _try(lambda: _vals(w.world_to_array_index_values(*worldarg)))
        r["p2w"] = _try(lambda: _objs(case, w.pixel_to_world(*pix)))
        r["call_units"] = _try(lambda: _objs(case, w(*([p * _pixu(case, i) for i, p in enumerate(pix)] if nm == "q" else pix), with_units=True)))
        # array indices (reversed pixel order), bare and as quantities in each axis's own unit: the objects of the whole-number pixels
        ipix = [np.floor(np.asarray(p) + 0.5) for p in pix]
        r["ai2w_ref"] = _try(lambda: _objs(case, w.pixel_to_world(*[x if case["array"] else float(x) for x in ipix])))
        r["ai2w_bare"] = _try(lambda: _objs(case, w.array_index_to_world(*[np.asarray(x, dtype=int) if case["array"] else int(x) for x in ipix][::-1])))
        r["ai2w_qty"] = _try(lambda: _objs(case, w.array_index_to_world(*[x * _pixu(case, i) for i, x in enumerate(ipix)][::-1])))
        # world inputs as quantities in other units
        alt = [x * u.Unit(a["world"]) for x, a in zip(worldarg, ax)]
        altq = [q.to(u.Unit(a["alt"])) for q, a in zip(alt, ax)]
        r["inv_alt"] = _try(lambda: _vals(w.invert(*altq)))
        r["inv_frame_q"] = _try(lambda: _vals(w.invert(*alt)))
        if nm == "t" and not case.get("mixed_rev"):
            # (bare numbers go to the backward transform as they are: a unit-carrying inverse rejects them, as a unit-carrying forward
            # transform rejects bare pixels)
            r["inv_bare"] = _try(lambda: _vals(w.invert(*worldarg)))
        r["w2p_alt"] = None
        # world inputs as objects (other sky frame / SpectralCoord in another unit / Time)
        def objs():
            o = []
            if case["family"] in ("sky", "cube", "tan"):
                sc = coord.SkyCoord(alt[0], alt[1], frame=SKY[case["sky"]]).transform_to(SKY[case["obj_sky"]])
                o.append(sc)
                if case["family"] == "cube":
                    o.append(coord.SpectralCoord(altq[2]))
            elif case["family"] == "spectral":
                o.append(coord.SpectralCoord(altq[0]))
            elif case["family"] == "generic":
                o.append(altq[0])
            elif case["family"] == "plane":
                o += [altq[0], altq[1]]
            else:
                t_ = _ref(case) + altq[0]
                # the same instant on another time scale is the same world point
                o.append(getattr(t_, case["tscale"]) if case.get("tscale") else t_)
            return o
        if case["family"] == "spectral" and not case.get("mixed"):
            # the same spectral point as a SpectralCoord of another physical type (wavelength <-> frequency <-> energy)
            other = u.THz if UNITS[ax[0]["world"]][0] == 2 else u.um
            r["inv_spectral_other"] = _try(lambda: _vals(w.invert(coord.SpectralCoord(alt[0]).to(other))))
            r["w2p_spectral_other"] = _try(lambda: _vals(w.world_to_pixel(coord.SpectralCoord(alt[0]).to(other))))
        # (a SkyCoord carries its longitude in [0, 360): for a linear field written with negative longitudes only the quantity and
        # number spellings name the same world point to the backward transform)
        skyobj = case["family"] in ("sky", "cube", "tan") and case.get("neg_lon")
        if not skyobj:
            r["inv_obj"] = _try(lambda: _vals(w.invert(*objs())))
            r["w2p_obj"] = _try(lambda: _vals(w.world_to_pixel(*objs())))
            r["w2ai_obj"] = _try(lambda: _vals(w.world_to_array_index(*objs())))
        r["inv_units"] = _try(lambda: _vals(w.invert(*altq, with_units=True)))
        # WCS.transform from the output frame, named or handed over as the frame object, on the same rich inputs
        if not skyobj:
            r["tr_name"] = _try(lambda: _vals(w.transform(w.output_frame.name, "detector", *objs())))
            r["tr_obj"] = _try(lambda: _vals(w.transform(w.output_frame, w.input_frame, *objs())))
        r["tr_alt"] = _try(lambda: _vals(w.transform(w.output_frame.name, "detector", *altq)))
        if case["family"] in ("sky", "tan") and not case.get("mixed"):
            # the iterative solver called directly: the same world point however it is given
            r["numinv_alt"] = _try(lambda: _vals(w.numerical_inverse(*altq)))
            if not skyobj:
                r["numinv_obj"] = _try(lambda: _vals(w.numerical_inverse(*objs())))
            r["numinv_bare"] = _try(lambda: _vals(w.numerical_inverse(*worldarg)))
        if nm == "q" and case["family"] == "spectral" and not case.get("mixed") and not case.get("noshift") and UNITS[ax[0]["world"]][0] == 2:
            # keywords that are not the iterative solver's own go through to the analytic backward transform: a wavelength axis asked
            # for by frequency with a spectral equivalency
            nu = [a_.to(u.Hz, equivalencies=u.spectral()) for a_ in alt]
            r["inv_equiv"] = _try(lambda: _vals(w.invert(*nu, equivalencies={w.backward_transform.inputs[0]: u.spectral()})))
        # pixel quantities in a wrong unit, all / first only / last only
        bad = u.Unit(case["bad_pix_unit"])
        for tag, args in (("all", [p * bad for p in pix]), ("first", [pix[0] * bad] + list(pix[1:])), ("last", list(pix[:-1]) + [pix[-1] * bad]),
                          ("right", [p * _pixu(case, i) for i, p in enumerate(pix)])):
            r["pixq_" + tag] = _try(lambda: _objs(case, w.pixel_to_world(*args)))
            if bad.is_equivalent(u.pix) and tag != "right":
                # a unit that converts to pixels (mpix): rejected, or converted - the reference is the same call on the converted numbers
                conv = [a_.to_value(u.pix) if isinstance(a_, u.Quantity) else a_ for a_ in args]
                r["pixq_" + tag + "_ref"] = _try(lambda: _objs(case, w.pixel_to_world(*conv)))
        res[nm] = r
    return res


def _close(a, b, tol=1e-11, absol=1e-9):
    a, b = np.asarray(a, dtype=float), np.asarray(b, dtype=float)
    if a.shape != b.shape:
        return False
    return bool(np.all((np.abs(a - b) <= tol * np.maximum(np.abs(a), np.abs(b)) + absol) | (np.isnan(a) & np.isnan(b))))


def oracle(case, res):
    out = []
    if case["family"] == "frames3":
        for a, b, what in (("bare_sky", "qty_sky", "focal -> sky"), ("bare_detector", "qty_detector", "focal -> detector"),
                           ("pix_bare_to_focal", "pix_qty_to_focal", "detector -> focal")):
            ra, rb = res[a], res[b]
            if "err" in ra or "err" in rb:
                out.append(("transform", "WCS.transform %s: bare numbers give %s, quantities in %s give %s" % (what, ra.get("v", ra.get("msg")), case["alt"], rb.get("v", rb.get("msg")))))
            elif not all(_close(x, y) for x, y in zip(ra["v"], rb["v"])):
                out.append(("transform", "WCS.transform %s: bare numbers in the frame's unit give %s, the same point as quantities in %s gives %s" %
                            (what, ra["v"], case["alt"], rb["v"])))
        return out
    if case["family"] == "tabq":
        for op in ("p2wv", "ai2wv", "p2w", "w2pv"):
            rq, rt = res["q"].get(op), res["t"].get(op)
            if rq is None or rt is None:
                continue
            if "err" in rt:
                out.append(("values", "%s failed on the unit-free look-up table WCS: %s" % (op, rt["msg"])))
            elif "err" in rq:
                # the way back through a table of quantities is finding D70; the way forward must work
                out.append(("D70" if op == "w2pv" else "values", "%s failed on the WCS whose look-up table holds quantities (%s, frame in %s): %s" %
                            (op, case["tunit"], case["wunit"], rq["msg"])))
            elif "Quantity" in rq.get("kinds", []) or not all(_close(a, b) for a, b in zip(rq["v"], rt["v"])):
                out.append(("values", "%s on the WCS whose look-up table holds quantities (%s, frame in %s) returns %s %s %s, its unit-free twin %s" %
                            (op, case["tunit"], case["wunit"], rq.get("kinds"), rq["v"], rq.get("units", ""), rt["v"])))
        return out
    if case["family"] == "perm":
        for op in ("p2wv", "w2pv", "ai2wv", "w2aiv"):
            rq, rt = res["q"].get(op), res["t"].get(op)
            if rq is None or rt is None:
                continue
            if "err" in rq or "err" in rt:
                out.append(("values", "%s on the spectral-first cube (sky frame listed first): unit-carrying %s, unit-free %s" % (op, rq.get("msg", "ok"), rt.get("msg", "ok"))))
            elif "Quantity" in rq["kinds"] or not all(_close(a, b) for a, b in zip(rq["v"], rt["v"])):
                out.append(("twin", "%s on the spectral-first cube (frames listed sky, spectral; units %s): unit-carrying WCS gives %s, its unit-free twin %s" %
                            (op, [a["world"] for a in case["axes"]], rq["v"], rt["v"])))
        if "w2pv" in res["t"] and "err" not in res["t"]["w2pv"]:
            pix = [p if case["array"] else p[0] for p in case["pix"]]
            if not all(_close(a, b) for a, b in zip(res["t"]["w2pv"]["v"], pix)):
                out.append(("roundtrip", "world_to_pixel_values(pixel_to_world_values(p)) = %s for p = %s" % (res["t"]["w2pv"]["v"], pix)))
        return out
    q, t = res["q"], res["t"]
    n = len(case["axes"])
    for nm in ("q", "t"):
        if "err" in res[nm]["p2wv"]:
            return [("values", "pixel_to_world_values failed on the %s WCS: %s" % ("unit-carrying" if nm == "q" else "unit-free", res[nm]["p2wv"]["msg"]))]
    pix = [p if case["array"] else p[0] for p in case["pix"]]
    tan = case["family"] == "tan"
    ptol = 1e-6 if tan else 1e-9     # pixel tolerance: the TAN inverse is iterative-free but ill-scaled in arcsec
    # 1. values interface: bare floats / arrays, twins agree
    for op in ("p2wv", "w2pv", "ai2wv", "w2aiv"):
        for nm in ("q", "t"):
            r = res[nm][op]
            if "err" in r:
                out.append(("values", "%s failed on the %s WCS: %s" % (op, nm, r["msg"])))
            elif "Quantity" in r["kinds"]:
                out.append(("values", "%s of the %s WCS returned a Quantity (%s), the values interface returns bare numbers" % (op, nm, r["units"])))
        if "err" not in q[op] and "err" not in t[op]:
            if not all(_close(a, b, absol=ptol if op in ("w2pv",) else 1e-9) for a, b in zip(q[op]["v"], t[op]["v"])) or len(q[op]["v"]) != len(t[op]["v"]):
                out.append(("twin", "%s: unit-carrying WCS gives %s, its unit-free twin %s" % (op, q[op]["v"], t[op]["v"])))
    if "err" not in t["w2pv"] and not all(_close(a, b, absol=ptol) for a, b in zip(t["w2pv"]["v"], pix)):
        out.append(("roundtrip", "world_to_pixel_values(pixel_to_world_values(p)) = %s for p = %s" % (t["w2pv"]["v"], pix)))
    # 2. objects agree and carry frame units
    for op in ("p2w", "call_units"):
        for nm in ("q", "t"):
            r = res[nm][op]
            if "err" in r:
                out.append(("objects", "%s failed on the %s WCS: %s" % (op, nm, r["msg"])))
            else:
                if not all(_close(a, b) for a, b in zip(r["v"], res[nm]["p2wv"]["v"])):
                    out.append(("objects", "%s on the %s WCS carries %s, the values interface gives %s (frame units)" % (op, nm, r["v"], res[nm]["p2wv"]["v"])))
                if any(":" in k for k in r["kinds"]):
                    out.append(("objects", "%s on the %s WCS returns objects not in the frame's declared units/frame: %s" % (op, nm, r["kinds"])))
        if "err" not in q[op] and "err" not in t[op] and [k for k in q[op]["kinds"]] != [k for k in t[op]["kinds"]]:
            out.append(("objects", "%s: twins build different kinds of objects %s vs %s" % (op, q[op]["kinds"], t[op]["kinds"])))
    for nm in ("q", "t"):
        ref = res[nm].get("ai2w_ref")
        for op in ("ai2w_bare", "ai2w_qty"):
            r = res[nm].get(op)
            if r is None or ref is None or "err" in ref:
                continue
            if "err" in r:
                out.append(("array_index", "%s failed on the %s WCS (pixel axis units %s): %s" % (op, nm, case.get("pixu", "pix"), r["msg"])))
            elif not all(_close(a, b) for a, b in zip(r["v"], ref["v"])):
                out.append(("array_index", "%s on the %s WCS gives %s, pixel_to_world of the same whole-number pixels %s" % (op, nm, r["v"], ref["v"])))
    # 3. every way of giving the world point inverts to the same pixels
    otol = max(ptol, 1e-5) if case.get("obj_sky", case.get("sky")) != case.get("sky") else ptol   # FK4 e-terms do not round-trip exactly
    for op in ("inv_alt", "inv_frame_q", "inv_bare", "inv_obj", "w2p_obj", "inv_units", "inv_equiv", "numinv_alt", "numinv_obj", "numinv_bare", "tr_name", "tr_obj", "tr_alt", "inv_spectral_other", "w2p_spectral_other"):
        for nm in ("q", "t"):
            r = res[nm].get(op)
            if r is None:
                continue
            if "err" in r and op.startswith("numinv") and nm == "q" and (r["msg"].startswith("UnitsError") or (case.get("noshift") and r["msg"].startswith("TypeError:only dimensionless"))):
                # finding D40: the iterative solver evaluates the forward transform on bare numbers
                out.insert(0, ("D40", "%s on the unit-carrying WCS: %s" % (op, r["msg"])))
            elif "err" in r:
                out.append(("invert", "%s failed on the %s WCS: %s" % (op, nm, r["msg"])))
            elif not all(_close(a, b, absol=max(1e-4, otol) if "numinv" in op else otol if ("obj" in op or op == "tr_name") else ptol) for a, b in zip(r["v"], pix)) or len(r["v"]) != n:
                out.append(("invert", "%s on the %s WCS (world in %s%s) gives pixels %s, expected %s" %
                            (op, nm, [a["alt"] for a in case["axes"]], ", objects in " + case.get("obj_sky", "-") if ("obj" in op or op == "tr_name") else "", r["v"], pix)))
    # 3b. array indices from world objects: the rounded pixels, last axis first, as bare integers
    want_idx = [np.floor(np.asarray(p) + 0.5).tolist() for p in pix][::-1]
    for nm in ("q", "t"):
        r = res[nm].get("w2ai_obj")
        if r is None:
            continue
        if "err" in r:
            out.append(("array_index", "world_to_array_index failed on the %s WCS: %s" % (nm, r["msg"])))
        elif "Quantity" in r["kinds"] or len(r["v"]) != n or not all(_close(a, b, absol=0.0) for a, b in zip(r["v"], want_idx)):
            out.append(("array_index", "world_to_array_index on the %s WCS (objects in %s, %s) gives %s %s, the rounded pixels are %s" %
                        (nm, case.get("obj_sky", "-"), [a["alt"] for a in case["axes"]], r["kinds"], r["v"], want_idx)))
    # 4. pixel quantities
    for nm in ("q", "t"):
        for tag in ("all", "first", "last"):
            r = res[nm]["pixq_" + tag]
            ref = res[nm].get("pixq_" + tag + "_ref")
            if ref is not None:
                if "err" not in r and ("err" in ref or not all(_close(a, b) for a, b in zip(r["v"], ref["v"]))):
                    out.append(("pixunit", "pixel_to_world took a pixel quantity in %s (%s argument(s)) on the %s WCS at face value: %s, the converted pixels give %s" %
                                (case["bad_pix_unit"], tag, nm, r["v"], ref.get("v", ref.get("msg")))))
                continue
            if "err" not in r:
                out.append(("pixunit", "pixel_to_world accepted a pixel quantity in %s (%s argument(s)) on the %s WCS and returned %s" %
                            (case["bad_pix_unit"], tag, nm, r["v"])))
        r = res[nm]["pixq_right"]
        if "err" in r:
            out.append(("pixunit", "pixel_to_world rejected pixel quantities in pix on the %s WCS: %s" % (nm, r["msg"])))
        elif not all(_close(a, b) for a, b in zip(r["v"], res[nm]["p2wv"]["v"])):
            out.append(("pixunit", "pixel quantities in pix give %s, bare pixels %s" % (r["v"], res[nm]["p2wv"]["v"])))
    return out[:6]


def _model_axes(case, twin):
    axes = []
    for ax in case["axes"]:
        if twin:
            k = UNITS[ax["tout"]][1] / UNITS[ax["world"]][1]
            axes.append({"a": C.q2w(Fraction(ax["a"]) * k), "b": C.q2w(Fraction(ax["b"]) * k), "tin": _wu("pix"), "tout": _wu(ax["world"]),
                         "pix": _wu("pix"), "world": _wu(ax["world"])})
        else:
            axes.append({"a": C.q2w(Fraction(ax["a"])), "b": C.q2w(Fraction(ax["b"])), "tin": _wu("pix"), "tout": _wu(ax["tout"]),
                         "pix": _wu("pix"), "world": _wu(ax["world"])})
    return axes


def request(case, res):
    if case["family"] in ("frames3", "tabq", "perm"):
        return None
    if case["family"] == "tan" or case["array"] or "err" in res["q"]["p2wv"] or case.get("pixu"):
        return None
    pix = [Fraction(p[0]) for p in case["pix"]]
    reqs = []
    for nm, twin in (("q", False), ("t", True)):
        axes = _model_axes(case, twin)
        world = [Fraction(ax["a"]) * p + Fraction(ax["b"]) for ax, p in zip(case["axes"], pix)]                  # in transform units
        wf = [w * UNITS[ax["tout"]][1] / UNITS[ax["world"]][1] for w, ax in zip(world, case["axes"])]              # in frame units
        walt = [["q", C.q2w(w * UNITS[ax["world"]][1] / UNITS[ax["alt"]][1]), _wu(ax["alt"])] for w, ax in zip(wf, case["axes"])]
        bad = _wu(case["bad_pix_unit"])
        base = {"usesQ": not twin, "axes": axes}
        if case.get("mixed") and not twin:
            base["bwd_plain"] = [[a["a"], a["b"]] for a in _model_axes(case, True)]
        if case.get("mixed_rev") and twin:
            base["bwd_units"] = [[a["a"], a["b"]] for a in _model_axes(case, True)]
        reqs.append(dict(base, tag=nm + ":p2wv", op="p2wv", args=[C.q2w(p) for p in pix]))
        reqs.append(dict(base, tag=nm + ":w2pv", op="w2pv", args=[C.q2w(w) for w in wf]))
        reqs.append(dict(base, tag=nm + ":inv_alt", op="invert", args=walt))
        reqs.append(dict(base, tag=nm + ":p2w", op="p2w", args=[C.q2w(p) for p in pix]))
        reqs.append(dict(base, tag=nm + ":pixq_all", op="p2w", args=[["q", C.q2w(p), bad] for p in pix]))
        reqs.append(dict(base, tag=nm + ":pixq_first", op="p2w", args=[["q", C.q2w(pix[0]), bad]] + [C.q2w(p) for p in pix[1:]]))
        reqs.append(dict(base, tag=nm + ":pixq_last", op="p2w", args=[C.q2w(p) for p in pix[:-1]] + [["q", C.q2w(pix[-1]), bad]]))
        reqs.append(dict(base, tag=nm + ":pixq_right", op="p2w", args=[["q", C.q2w(p), _wu("pix")] for p in pix]))
        if twin and not case.get("mixed_rev"):
            reqs.append(dict(base, tag=nm + ":inv_bare", op="invert", args=[C.q2w(w) for w in wf]))
        if case.get("noshift") and not twin and len(case["axes"]) == 1 and "w2ai_obj" in res[nm]:
            # world_to_array_index through the scale-only backward transform, the world value in the 'alt' unit
            reqs.append(dict(base, tag=nm + ":w2ai_obj", op="w2ai_scale", args=[walt[0]]))
    return {"multi": reqs}


def _mv(x):
    """model value -> (float value, unit or None)"""
    if isinstance(x, list):
        return float(C.w2q(x[1])), x[2]
    return float(C.w2q(x)), None


def compare(case, res, resp):
    if "ok" not in resp:
        return "model error %s" % resp
    for item in resp["ok"]:
        nm, op = item["tag"].split(":")
        r = res[nm][op]
        m = item["resp"]
        if "err" in m:
            if "err" not in r:
                return "%s on the %s WCS: model rejects (%s), implementation returns %s" % (op, nm, m["err"], r.get("v"))
            if r["err"] != m["err"]:
                return "%s on the %s WCS: model raises %s, implementation %s (%s)" % (op, nm, m["err"], r["err"], r["msg"])
            continue
        if "err" in r:
            return "%s on the %s WCS: implementation raises %s, model returns %s" % (op, nm, r["msg"], m["ok"])
        if op == "w2ai_obj":
            if [float(m["ok"])] != r["v"]:
                return "world_to_array_index on the %s WCS: implementation %s, model %s" % (nm, r["v"], m["ok"])
            continue
        mv = [_mv(x) for x in m["ok"]]
        if len(mv) != len(r["v"]) or not all(_close(a, b[0]) for a, b in zip(r["v"], mv)):
            return "%s on the %s WCS: implementation %s, model %s" % (op, nm, r["v"], [v for v, _ in mv])
        if op in ("p2wv", "w2pv") and any(uu is not None for _, uu in mv):
            return "model values interface returned a quantity"
        if op == "inv_alt":
            # invert on the unit-carrying WCS returns pixel quantities, on the twin bare numbers
            want_q = (nm == "q" and not case.get("mixed")) or (nm == "t" and bool(case.get("mixed_rev")))
            if ("Quantity" in r["kinds"]) != want_q or any((uu is not None) != want_q for _, uu in mv):
                return "invert on the %s WCS: implementation returns %s, model %s" % (nm, r["kinds"], ["qty" if uu else "bare" for _, uu in mv])
    return None


def nontrivial(case, res):
    if case["family"] == "tabq":
        return case["tunit"] != case["wunit"]
    if case["family"] == "frames3":
        return case["alt"] != "arcsec"
    return any(len({a["tout"], a["world"], a["alt"]}) > 1 for a in case["axes"])


def stats(case, res, st):
    st["family_" + case["family"]] += 1
    if case["family"] in ("frames3", "tabq", "perm"):
        return
    if case.get("mixed"):
        st["mixed_user_inverse"] += 1
    st["array" if case["array"] else "scalar"] += 1
    for a in case["axes"]:
        st["tout_" + a["tout"]] += 1
        st["world_" + a["world"]] += 1
        st["alt_" + a["alt"]] += 1
    if "obj_sky" in case:
        st["obj_sky_" + case["obj_sky"]] += 1
    for nm in ("q", "t"):
        for k, v in res[nm].items():
            if isinstance(v, dict) and "err" in v:
                st["err_%s_%s" % (k, v["err"])] += 1


def _axis(rng, dim, kind):
    names = BYDIM[dim]
    exact = [x for x in names if x != "rad"]
    tout = rng.choice(exact)
    world = rng.choice(exact) if rng.random() < 0.7 else tout
    alt = rng.choice(names)
    s = float(UNITS[tout][1])
    if kind == "lon":
        a_base, b_base = rng.choice([0.5, 0.25, 0.125]), float(rng.randint(10, 300))
    elif kind == "lat":
        a_base, b_base = rng.choice([0.5, 0.25, 0.125]), float(rng.randint(-40, 40))
    else:
        a_base, b_base = rng.choice([0.5, 2.0, 3.0]), float(rng.randint(1, 50))
    if dim == 1:   # a_base, b_base are in degrees
        a, b = a_base / s, b_base / s
    else:
        a, b = a_base, b_base
    return {"a": a, "b": b, "tout": tout, "world": world, "alt": alt}


def gen(rng, tier):
    for _ in range(12 if tier == "quick" else 200):
        yield {"family": "frames3", "p": [float(rng.randint(10, 500)), float(rng.randint(10, 500)), rng.choice([0.03125, 0.0625, 0.25]),
                                          float(rng.randint(10, 300)), float(rng.randint(-60, 60))],
               "focal": [rng.randint(-200, 200) / 4.0, rng.randint(-200, 200) / 4.0], "alt": rng.choice(["arcsec", "arcmin", "deg", "rad"])}
    yield from _gen_main(rng, tier)
    for _ in range(6 if tier == "quick" else 150):
        arr = rng.random() < 0.4
        axes = [_axis(rng, rng.choice([2, 3]), "x"), _axis(rng, 1, "lon"), _axis(rng, 1, "lat")]
        yield {"family": "perm", "axes": axes, "array": arr, "pix": [[rng.randint(0, 255) / 4.0 + 0.125 for _i in range(3 if arr else 1)] for _a in axes]}
    for _ in range(6 if tier == "quick" else 120):
        n = rng.randint(4, 9)
        start = float(rng.randint(400, 900))
        arr = rng.random() < 0.5
        yield {"family": "tabq", "tunit": rng.choice(["nm", "um", "AA"]), "wunit": rng.choice(["nm", "um", "AA", "m"]), "array": arr,
               "table": [start + 10.0 * i + (i * i) / 4.0 for i in range(n)], "pix": [rng.randint(0, 4 * (n - 1)) / 4.0 for _i in range(3 if arr else 1)],
               "two": _ % 2 == 1}


def _gen_main(rng, tier):
    q = tier == "quick"
    for _ in range(60 if q else 1500):
        fam = rng.choice(["spectral", "spectral", "temporal", "generic", "sky", "sky", "cube", "cube", "tan", "plane"])
        case = {"family": fam, "array": rng.random() < 0.35, "bad_pix_unit": rng.choice(["m", "deg", "arcsec", "s", "um", "mpix", "mpix"])}
        if fam == "spectral":
            case["axes"] = [_axis(rng, rng.choice([2, 3]), "x")]
        elif fam == "generic":
            case["axes"] = [_axis(rng, 2, "x")]
        elif fam == "temporal":
            case["axes"] = [_axis(rng, 4, "x")]
        elif fam in ("sky", "cube", "plane"):
            case["axes"] = [_axis(rng, 1, "lon"), _axis(rng, 1, "lat")]
            if fam == "cube":
                case["axes"].append(_axis(rng, rng.choice([2, 3]), "x"))
        else:
            a0, a1 = _axis(rng, 1, "lon"), _axis(rng, 1, "lat")
            for a in (a0, a1):
                a["a"] = rng.choice([0.0625, 0.03125]) / 3600.0 * 3600.0 * (1.0 / float(UNITS[a["tout"]][1])) / 36.0
                a["crpix"] = float(rng.randint(10, 40))
            a0["b"], a1["b"] = float(rng.randint(10, 300)), float(rng.randint(-60, 60))
            case["axes"] = [a0, a1]
        if fam in ("sky", "cube", "tan"):
            case["sky"] = rng.choice(["icrs", "fk5", "galactic"])
            case["obj_sky"] = rng.choice(["icrs", "fk5", "galactic", "fk4", "fk5_1975"])
        if fam in ("spectral", "temporal", "generic") and rng.random() < 0.3:
            case["mixed"] = True
        elif fam in ("spectral", "generic") and rng.random() < 0.25:
            case["mixed_rev"] = True
        if fam == "temporal":
            case["epoch"] = rng.choice([None, "2016-12-31T12:00:00", "1999-12-31T12:00:00"])
            case["tscale"] = rng.choice([None, "tai", "tt", "utc"])
        if fam in ("sky", "plane", "cube") and rng.random() < 0.3:
            # a linear field around longitude 0 written with negative longitudes (-20 .. +30 deg)
            a0 = case["axes"][0]
            a0["b"] = -float(rng.randint(5, 20)) / float(UNITS[a0["tout"]][1])
            case["neg_lon"] = True
        if fam in ("sky", "plane", "cube") and rng.random() < 0.3:
            case["pixu"] = ["pix", "adu", "pix"][:len(case["axes"])]       # pixel axes in different units
        if fam in ("spectral", "generic", "sky", "cube", "plane") and not case.get("mixed") and not case.get("mixed_rev") and rng.random() < 0.25:
            # scale-only transforms (world = a * pixel): nothing in the transform converts units on the way back
            for a_ in case["axes"]:
                a_["b"] = 0.0
            case["noshift"] = True
            case.pop("neg_lon", None)
        if rng.random() < 0.3:
            # the WCS reached through a history (built in stages and used in between) rather than in one go
            case["staged"] = rng.choice(["insert_frame", "insert_frame", "set_transform", "insert_transform"])
        npt = 3 if case["array"] else 1
        case["pix"] = [[rng.randint(0, 255) / 4.0 + 0.125 for _i in range(npt)] for _a in case["axes"]]
        yield case
