"""C10 — a FITS-SIP header produced from a WCS reproduces it to the accuracy it states (wcs.py: to_fits_sip, _fit_2D_poly, _reform_poly_coefficients, _store_2D_coefficients)."""
import math
import warnings
from fractions import Fraction

import numpy as np
import astropy.units as u
from astropy import coordinates as coord
from astropy import wcs as astwcs
from astropy.io import fits
from astropy.modeling import models
from astropy.modeling.models import Polynomial2D

import common as C
from gwcs import coordinate_frames as cf
from gwcs import wcs as gw

PROP = "C10"
LEAN_MODULE = "GwcsProofs.C10"
SOURCES = ["GwcsModel/Sip.lean", "GwcsProofs/C10.lean"]
THEOREMS = [
    "Gwcs.Sip.search_no_warning_minimal",
    "Gwcs.Sip.all_fail_warns",
    "Gwcs.Sip.degList_perm",
    "Gwcs.Sip.fit2D_no_warning_minimal",
    "Gwcs.Sip.no_warning_degree_permitted",
    "Gwcs.Sip.inverse_degree_from_inv_degree",
    "Gwcs.Sip.single_degree_ignores_max_error",
    "Gwcs.Sip.reported_ge_both",
    "Gwcs.Sip.reform_sound",
    "Gwcs.Sip.reference_pixel_maps_to_origin",
    "Gwcs.Sip.stored_iff",
]
RULE = ("three streams: (search) _fit_2D_poly with scripted per-degree fit outcomes (error, conditioning, LinAlgError, double-sampling "
        "residual) for degree None / iterable in any order / int; (reform) _reform_poly_coefficients and _store_2D_coefficients on random "
        "dyadic polynomials of degree 1..6; (export) to_fits_sip on generated celestial WCS: distortion order 1..5, amplitude 0..10 px, "
        "pointing incl. RA wrap and high Dec, scale, rotation/parity, offset/fractional box, crpix, zenithal projection, requested errors "
        "1e-4..0.5, degree spec, lon/lat order, celestial pair inside a 3-D WCS with permuted pixel axes; header read by astropy.wcs and by "
        "an independent SIP evaluator on a dense sample; non-trivial = distortion amplitude > 0 or scripted search with > 1 degree; "
        "distinct by the case description")
TRUSTED = ["harness/props/c10.py: independent SIP evaluator, dense sampling (60x60 + box corners), allowance factors stated in the oracle",
           "astropy.wcs/wcslib as the standard reader"]
ASSUMPTIONS = ["the least-squares solve _poly_fit_lu (long double normal equations) and wcslib's projection code are exercised, not modelled"]

PROJ = ["TAN", "TAN", "TAN", "STG", "ARC", "ZEA", "SIN"]


# ------------------------------------------------------------------ stream 1: scripted degree search
class _LinAlg(Exception):
    pass


def run_search(case):
    fits_tbl = {int(k): v for k, v in case["fits"]}
    dbl = {int(k): v for k, v in case["dbl"]}
    calls = []

    def fake_fit(xin, yin, xout, yout, degree, coord_pow=None):
        calls.append(degree)
        v = fits_tbl.get(degree)
        if v is None:
            raise np.linalg.LinAlgError("scripted")
        err, cond_finite = v
        return [float(degree)], [0.0], err, [(1, 0)], (1.0 if cond_finite else np.inf)

    def fake_resid(x, y, fx, fy):
        return dbl.get(int(round(float(np.asarray(fx).ravel()[0]))), 0.0)
    old_fit, old_res = gw._poly_fit_lu, gw._compute_distance_residual
    gw._poly_fit_lu, gw._compute_distance_residual = fake_fit, fake_resid
    res = {"calls": calls}
    try:
        one = np.array([1.0])
        zero = np.array([0.0])
        with warnings.catch_warnings(record=True) as wl:
            warnings.simplefilter("always")
            spec = case["spec"]
            px, py, err = gw._fit_2D_poly(None if spec is None else (tuple(spec) if isinstance(spec, list) else spec),
                                          case["max_err"], 1.0, one, zero, one, zero, one, zero, one, zero, verbose=False)
        msgs = [str(w.message) for w in wl]
        res.update(degree=int(px.degree), coeff_degree=int(round(px.c1_0.value)), reported=float(err),
                   warn_unmet=any("Failed to achieve" in m for m in msgs), warn_cond=any("poorly conditioned" in m for m in msgs),
                   warn_sampling=any("Double sampling check FAILED" in m for m in msgs))
    except np.linalg.LinAlgError:
        res["err"] = "linAlgErr"
    except ValueError as e:
        res["err"] = "valueErr"
    except (UnboundLocalError, NameError) as e:
        res["err"] = "noFit"
    finally:
        gw._poly_fit_lu, gw._compute_distance_residual = old_fit, old_res
    return res


# ------------------------------------------------------------------ stream 2: reform / store
def run_reform(case):
    deg = case["deg"]
    fx, fy = Polynomial2D(deg, c0_0=0.0), Polynomial2D(deg, c0_0=0.0)
    for i, j, c in case["fx"]:
        setattr(fx, "c%d_%d" % (i, j), c)
    for i, j, c in case["fy"]:
        setattr(fy, "c%d_%d" % (i, j), c)
    cd, sx, sy = gw._reform_poly_coefficients(fx, fy)
    res = {"cd": [float(cd[0][0]), float(cd[0][1]), float(cd[1][0]), float(cd[1][1])]}
    for nm, poly, keep in (("a", sx, False), ("b", sy, False), ("ap", sx, True)):
        hdr = fits.Header()
        gw._store_2D_coefficients(hdr, poly, "A", keeplinear=keep)
        res[nm] = [[int(k.split("_")[1]), int(k.split("_")[2]), float(v)] for k, v in hdr.items()]
    # the recombination, numerically, at a few points
    pts = case["points"]
    out = []
    for uu, vv in pts:
        f = uu + sum(c * uu ** i * vv ** j for i, j, c in res["a"])
        g = vv + sum(c * uu ** i * vv ** j for i, j, c in res["b"])
        out.append([cd[0][0] * f + cd[0][1] * g, cd[1][0] * f + cd[1][1] * g, float(fx(uu, vv)), float(fy(uu, vv))])
    res["recombined"] = out
    return res


# ------------------------------------------------------------------ stream 3: end to end
def build(case):
    half = case["half"]
    deg = case["order"]
    cx, cy = case["centre"]

    def dist(coefs, lin):
        p = Polynomial2D(max(deg, 1), c0_0=0.0)
        setattr(p, lin, 1.0)
        for i, j, c in coefs:
            setattr(p, "c%d_%d" % (i, j), c)
        return p
    d = models.Shift(-cx) & models.Shift(-cy) | models.Mapping((0, 1, 0, 1)) | dist(case["dx"], "c1_0") & dist(case["dy"], "c0_1")
    th = math.radians(case["rot"])
    s = case["scale"]
    par = -1.0 if case["parity"] else 1.0
    lin = models.AffineTransformation2D(matrix=[[par * s * math.cos(th), -s * math.sin(th)], [par * s * math.sin(th), s * math.cos(th)]])
    proj = getattr(models, "Pix2Sky_" + case["proj"])()
    sky = d | lin | proj | models.RotateNative2Celestial(case["lon"], case["lat"], 180.0)
    ref = {"icrs": coord.ICRS(), "fk5": coord.FK5(), "galactic": coord.Galactic()}[case["frame"]]
    if case["embed"] is None:
        if case["swap"]:
            t = sky | models.Mapping((1, 0))
            out = cf.CelestialFrame(reference_frame=ref, axes_order=(1, 0), name="sky")
        else:
            t, out = sky, cf.CelestialFrame(reference_frame=ref, name="sky")
        det = cf.Frame2D(name="detector")
        w = gw.WCS([(det, t), (out, None)])
        w.bounding_box = tuple(tuple(b) for b in case["bbox"])
        return w, (0, 1)
    # celestial pair inside a 3-D WCS: pixel order given by embed["pix"], e.g. [0, 2, 1] = (x, spectral, y)
    pixpos = case["embed"]["pix"]            # position of sky-x, sky-y, spectral pixel in the WCS pixel list
    spec = models.Polynomial1D(1, c0=1.0, c1=0.01)
    inv = [pixpos.index(i) for i in range(3)]
    t = models.Mapping(tuple(pixpos)) | sky & spec
    wpos = case["embed"]["world"]            # world axis of lon, lat, spectral
    worder = [wpos.index(i) for i in range(3)]
    if worder != [0, 1, 2]:
        t = t | models.Mapping(tuple(worder))
    out = cf.CompositeFrame([cf.CelestialFrame(reference_frame=ref, axes_order=(wpos[0], wpos[1]), name="sky"),
                             cf.SpectralFrame(unit=u.um, axes_order=(wpos[2],), name="spec")], name="world")
    det = cf.CoordinateFrame(3, ("SPATIAL",) * 3, (0, 1, 2), unit=(u.pix,) * 3, name="detector")
    w = gw.WCS([(det, t), (out, None)])
    bb = [None] * 3
    bb[pixpos[0]], bb[pixpos[1]], bb[pixpos[2]] = tuple(case["bbox"][0]), tuple(case["bbox"][1]), tuple(case["embed"]["specbox"])
    w.bounding_box = tuple(bb)
    return w, (pixpos[0], pixpos[1])


def _sip_terms(hdr, prefix):
    out = []
    for k, v in hdr.items():
        if k.startswith(prefix + "_") and k.split("_")[1].isdigit():
            out.append([int(k.split("_")[1]), int(k.split("_")[2]), float(v)])
    return out


def _poly(terms, uu, vv):
    r = np.zeros_like(uu, dtype=float)
    for i, j, c in terms:
        r = r + c * uu ** i * vv ** j
    return r


def _sep_deg(lon1, lat1, lon2, lat2):
    l1, b1, l2, b2 = map(np.radians, (lon1, lat1, lon2, lat2))
    s = np.sin((b2 - b1) / 2) ** 2 + np.cos(b1) * np.cos(b2) * np.sin((l2 - l1) / 2) ** 2
    return np.degrees(2 * np.arcsin(np.sqrt(np.clip(s, 0, 1))))


def run_export(case):
    w, (ix, iy) = build(case)
    res = {}
    kw = dict(max_pix_error=case["max_pix_error"], max_inv_pix_error=case["max_inv_pix_error"], npoints=case["npoints"], projection=case["proj"])
    if case["degree"] is not None:
        kw["degree"] = case["degree"] if isinstance(case["degree"], int) else tuple(case["degree"])
    if case.get("inv_degree") is not None:
        kw["inv_degree"] = case["inv_degree"]
    if case.get("bbox_as_arg") and case["embed"] is None:
        # the box handed to the export as an argument, the WCS itself carrying none
        own = w.bounding_box
        kw["bounding_box"] = tuple(tuple(float(v) for v in iv) for iv in own.bounding_box(order="F"))
        w.bounding_box = None
    # the header's image axes 1, 2 are the two celestial pixel axes in increasing order of their position in the WCS
    flip = ix > iy
    if flip:
        ix, iy = iy, ix
    hbox = [case["bbox"][1], case["bbox"][0]] if flip else case["bbox"]
    res["hbox"] = hbox
    crp = None if case["crpix"] is None else (list(case["crpix"])[::-1] if flip else list(case["crpix"]))
    res["crpix_req"] = crp
    if crp is not None:
        kw["crpix"] = crp
    with warnings.catch_warnings(record=True) as wl:
        warnings.simplefilter("always")
        try:
            hdr = w.to_fits_sip(**kw)
        except Exception as e:
            res["err"] = type(e).__name__ + ":" + str(e)[:120]
            return res
    msgs = [str(x.message) for x in wl if "isiterable" not in str(x.message)]
    res["warnings"] = msgs
    res["signalled"] = any(("Failed to achieve" in m) or ("Double sampling" in m) or ("poorly conditioned" in m) for m in msgs)
    cards = {k: (v.item() if isinstance(v, (np.floating, np.integer)) else v) for k, v in hdr.items() if k not in ("COMMENT", "HISTORY", "")}
    res["cards"] = {k: v for k, v in cards.items() if not (k.split("_")[0] in ("A", "B", "AP", "BP") and k.count("_") == 2)}
    a, b, ap, bp = (_sip_terms(hdr, p) for p in ("A", "B", "AP", "BP"))
    # a standard reader only uses the terms up to the declared order; cards beyond it are a header inconsistency
    res["beyond_order"] = []
    for nm, terms in (("A", a), ("B", b), ("AP", ap), ("BP", bp)):
        order = hdr.get(nm + "_ORDER")
        if terms and order is None:
            res["beyond_order"].append("%s_i_j cards without %s_ORDER" % (nm, nm))
        elif terms and any(i + j > order for i, j, _c in terms):
            res["beyond_order"].append("%s_ORDER = %d but cards up to degree %d are written" % (nm, order, max(i + j for i, j, _c in terms)))
    a, b, ap, bp = ([t for t in terms if t[0] + t[1] <= hdr.get(nm + "_ORDER", 0)] for nm, terms in (("A", a), ("B", b), ("AP", ap), ("BP", bp)))
    res["a"], res["b"], res["ap"], res["bp"] = a, b, ap, bp
    (xmin, xmax), (ymin, ymax) = hbox
    # dense sample of the box, corners included
    n = 60
    gx, gy = np.meshgrid(np.linspace(xmin, xmax, n), np.linspace(ymin, ymax, n))
    gx, gy = gx.ravel(), gy.ravel()
    nin = w.forward_transform.n_inputs
    centre = np.mean(np.array(kw["bounding_box"] if "bounding_box" in kw else (w.bounding_box.bounding_box(order="F") if nin > 1 else [w.bounding_box.bounding_box()])), axis=1)
    args = [np.full_like(gx, centre[k]) for k in range(nin)]
    args[ix], args[iy] = gx, gy
    world = w(*args, with_bounding_box=False)
    fr = w.output_frame.frames[0] if isinstance(w.output_frame, cf.CompositeFrame) else w.output_frame
    glon, glat = world[fr.axes_order[0]], world[fr.axes_order[1]]
    with warnings.catch_warnings():
        warnings.simplefilter("ignore")
        try:
            fw = astwcs.WCS(hdr)
        except Exception as e:
            res["reader_err"] = type(e).__name__ + ":" + str(e)[:120]
            return res
    r = fw.all_pix2world(gx, gy, 0)
    lonidx, latidx = fw.wcs.lng, fw.wcs.lat
    res["lng_lat"] = [int(lonidx), int(latidx)]
    flon, flat = r[lonidx], r[latidx]
    # plate scale at the reference pixel, as the method defines it (sqrt of the pixel area), from the WCS itself
    c0 = [hdr["CRPIX1"] - 1, hdr["CRPIX2"] - 1]
    ca = [np.array([centre[k]] * 3) for k in range(nin)]
    ca[ix] = np.array([c0[0], c0[0] + 1, c0[0]])
    ca[iy] = np.array([c0[1], c0[1], c0[1] + 1])
    cw = w(*ca, with_bounding_box=False)
    clon, clat = cw[fr.axes_order[0]], cw[fr.axes_order[1]]
    sx = _sep_deg(clon[0], clat[0], clon[1], clat[1])
    sy = _sep_deg(clon[0], clat[0], clon[2], clat[2])
    scale = float(np.sqrt(sx * sy))
    res["scale"] = scale
    sep = _sep_deg(glon, glat, flon, flat) / scale
    k = int(np.nanargmax(sep))
    res["fwd_err_px"] = float(sep[k])
    res["fwd_worst"] = [float(gx[k]), float(gy[k])]
    res["crval_err_deg"] = float(_sep_deg(clon[0], clat[0], hdr["CRVAL%d" % (lonidx + 1)], hdr["CRVAL%d" % (latidx + 1)]))
    # the inverse polynomials, evaluated independently: true sky position -> (wcslib's linear/projection part) -> focal-plane offset
    # (U, V) from the reference pixel -> u' = U + AP(U, V), compared with the true pixel offset
    uu, vv = gx - c0[0], gy - c0[1]
    U = uu + _poly(a, uu, vv)
    V = vv + _poly(b, uu, vv)
    if ap or bp:
        wargs = [glon, glat] if lonidx == 0 else [glat, glon]
        foc = fw.wcs_world2pix(*wargs, 0)
        Ut, Vt = foc[0] - c0[0], foc[1] - c0[1]
        ub = Ut + _poly(ap, Ut, Vt)
        vb = Vt + _poly(bp, Ut, Vt)
        inv = np.hypot(ub - uu, vb - vv)
        res["inv_err_px"] = float(np.nanmax(inv))
    # cross-check of the evaluator against astropy's own SIP code
    if a or b:
        f1 = fw.sip_pix2foc(np.array([gx, gy]).T, 0)
        # with origin=0 astropy reports the focal-plane offset from the 1-based CRPIX: U - 1
        res["evaluator_vs_astropy"] = float(np.nanmax(np.abs(f1[:, 0] + 1 - U) + np.abs(f1[:, 1] + 1 - V)))
    # is the chosen degree the lowest permitted one that meets the request?  (re-run with the next lower permitted degree)
    chosen = int(hdr.get("A_ORDER", 1))
    res["chosen"] = chosen
    permitted = list(range(1, 10)) if case["degree"] is None else ([case["degree"]] if isinstance(case["degree"], int) else sorted(case["degree"]))
    lower = [dd for dd in permitted if dd < chosen]
    if lower and not isinstance(case["degree"], int) and not res["signalled"]:
        kw2 = dict(kw, degree=lower[-1])
        with warnings.catch_warnings(record=True) as wl2:
            warnings.simplefilter("always")
            h2 = w.to_fits_sip(**kw2)
        res["lower_degree"] = lower[-1]
        res["lower_sipmxerr"] = float(h2["SIPMXERR"])
        res["lower_warned"] = any("Failed to achieve" in str(x.message) for x in wl2)
    # the same question for the inverse polynomials (default search: 1..9): would the next lower degree have met max_inv_pix_error?
    inv_chosen = hdr.get("AP_ORDER")
    if inv_chosen is not None and int(inv_chosen) > 1 and case.get("inv_degree") is None and not res["signalled"]:
        kw3 = dict(kw, degree=chosen, inv_degree=int(inv_chosen) - 1)
        with warnings.catch_warnings(record=True) as wl3:
            warnings.simplefilter("always")
            try:
                h3 = w.to_fits_sip(**kw3)
                res["inv_lower_degree"] = int(inv_chosen) - 1
                res["inv_lower_sipiverr"] = float(h3.get("SIPIVERR", float("nan")))
                res["inv_lower_warned"] = any("Failed to achieve" in str(x.message) for x in wl3)
            except Exception as e:
                res["inv_lower_err"] = type(e).__name__
    # sample points for the Lean evaluation of the header
    res["cd"] = [float(hdr.get("CD%d_%d" % (i, j), hdr.get("PC%d_%d" % (i, j), 1.0 if i == j else 0.0)) * (1.0 if ("CD%d_%d" % (i, j)) in hdr else hdr.get("CDELT%d" % i, 1.0)))
                 for i in (1, 2) for j in (1, 2)]
    pts = [[float(uu[i]), float(vv[i])] for i in (0, n - 1, n * n - 1, (n * n) // 2 + 7)]
    res["pts"] = pts
    cd = res["cd"]
    res["interm"] = [[cd[0] * (p[0] + float(_poly(a, np.array(p[0]), np.array(p[1])))) + cd[1] * (p[1] + float(_poly(b, np.array(p[0]), np.array(p[1])))),
                      cd[2] * (p[0] + float(_poly(a, np.array(p[0]), np.array(p[1])))) + cd[3] * (p[1] + float(_poly(b, np.array(p[0]), np.array(p[1]))))] for p in pts]
    return res


# ------------------------------------------------------------------ interface
def impl(case):
    return {"search": run_search, "reform": run_reform, "export": run_export}[case["stream"]](case)


def oracle(case, res):
    out = []
    if case["stream"] == "reform":
        for (x1, y1, x2, y2), p in zip(res["recombined"], case["points"]):
            if abs(x1 - x2) > 1e-9 * max(1, abs(x2)) or abs(y1 - y2) > 1e-9 * max(1, abs(y2)):
                out.append(("reform", "CD.(u+A, v+B) = (%r, %r) but the fitted polynomials give (%r, %r) at %s" % (x1, y1, x2, y2, p)))
        return out[:2]
    if case["stream"] == "search":
        if "err" in res:
            return out
        # the conditional guarantee: no warning => lowest permitted degree that meets the request
        spec = case["spec"]
        ds = list(range(1, 10)) if spec is None else (sorted(spec) if isinstance(spec, list) else [spec])
        tbl = {int(k): v for k, v in case["fits"]}
        if not res["warn_unmet"] and len(ds) > 1:
            d = res["degree"]
            if tbl.get(d) is None or tbl[d][0] > case["max_err"]:
                out.append(("degree", "no warning, but the returned degree %d does not meet the request (fit error %r > %r)" % (d, tbl.get(d), case["max_err"])))
            lower_ok = [x for x in ds if x < d and tbl.get(x) is not None and tbl[x][1] and tbl[x][0] <= case["max_err"]]
            if lower_ok:
                out.append(("degree", "no warning, returned degree %d, but the lower permitted degree %d already meets the request" % (d, lower_ok[0])))
        if all(tbl.get(x) is not None and tbl[x][0] > case["max_err"] for x in ds) and not res["warn_unmet"]:
            out.append(("unmet", "no permitted degree meets the request and no warning was issued"))
        return out
    # export
    if "err" in res:
        return out       # refusing is a signal
    if "reader_err" in res:
        return [("reader", "astropy.wcs.WCS rejects the header: %s" % res["reader_err"])]
    c = res["cards"]
    (xmin, xmax), (ymin, ymax) = res["hbox"]
    if c.get("NAXIS1") != int(xmax) + 1 or c.get("NAXIS2") != int(ymax) + 1 or c.get("NAXIS") != 2:
        out.append(("naxis", "NAXIS/NAXIS1/NAXIS2 = %r/%r/%r for the box %s" % (c.get("NAXIS"), c.get("NAXIS1"), c.get("NAXIS2"), res["hbox"])))
    if res["crpix_req"] is not None and (abs(c["CRPIX1"] - res["crpix_req"][0]) > 1e-12 or abs(c["CRPIX2"] - res["crpix_req"][1]) > 1e-12):
        out.append(("crpix", "CRPIX = (%r, %r) for the requested 1-based crpix %s" % (c["CRPIX1"], c["CRPIX2"], res["crpix_req"])))
    if res["crval_err_deg"] > 1e-9:
        out.append(("crval", "the WCS at the reference pixel is %.3g deg away from CRVAL" % res["crval_err_deg"]))
    # axis order and frame
    lon_first = (case["embed"]["world"][0] < case["embed"]["world"][1]) if case["embed"] else (not case["swap"])
    want = {"icrs": ("RA--", "DEC-"), "fk5": ("RA--", "DEC-"), "galactic": ("GLON", "GLAT")}[case["frame"]]
    ct = (c["CTYPE1"][:4], c["CTYPE2"][:4])
    if ct != (want if lon_first else want[::-1]):
        out.append(("ctype", "CTYPE1/2 = %s/%s for frame %s with %s first" % (c["CTYPE1"], c["CTYPE2"], case["frame"], "longitude" if lon_first else "latitude")))
    if case["frame"] in ("icrs", "fk5") and c.get("RADESYS", "").strip() != case["frame"].upper():
        out.append(("ctype", "RADESYS = %r for frame %s" % (c.get("RADESYS"), case["frame"])))
    if not c["CTYPE1"][5:8] == case["proj"]:
        out.append(("ctype", "CTYPE1 = %r for projection %s" % (c["CTYPE1"], case["proj"])))
    for msg in res.get("beyond_order", []):
        out.append(("order", "inconsistent SIP keywords: " + msg))
    if res.get("evaluator_vs_astropy", 0.0) > 1e-8:
        out.append(("evaluator", "independent SIP evaluator and astropy's sip_pix2foc differ by %.3g px" % res["evaluator_vs_astropy"]))
    if res["signalled"]:
        return out[:4]   # the accuracy clauses are conditional on a warning-free return
    mpe, mie = case["max_pix_error"], case["max_inv_pix_error"]
    noise = 1e-6
    if res["fwd_err_px"] > 2.0 * mpe + noise:
        out.append(("accuracy", "no warning, requested max_pix_error=%g, but the header is %.4g px off at pixel %s (dense sample of the box)" %
                    (mpe, res["fwd_err_px"], res["fwd_worst"])))
    smx = c.get("SIPMXERR")
    if smx is not None and res["fwd_err_px"] > 5.0 * smx + noise:
        out.append(("sipmxerr", "SIPMXERR=%.4g understates the observed forward error %.4g px" % (smx, res["fwd_err_px"])))
    if "inv_err_px" in res:
        if res["inv_err_px"] > 2.0 * mie + noise:
            out.append(("inverse", "no warning, requested max_inv_pix_error=%g, but AP/BP bring pixels back only to %.4g px" % (mie, res["inv_err_px"])))
        siv = c.get("SIPIVERR")
        if siv is not None and res["inv_err_px"] > 5.0 * siv + noise:
            out.append(("sipiverr", "SIPIVERR=%.4g understates the observed inverse error %.4g px" % (siv, res["inv_err_px"])))
    if "lower_degree" in res and res["lower_sipmxerr"] <= mpe and not res["lower_warned"]:
        out.append(("degree", "A_ORDER=%d chosen although the permitted lower degree %d meets the request (SIPMXERR %.4g <= %g)" %
                    (res["chosen"], res["lower_degree"], res["lower_sipmxerr"], mpe)))
    if "inv_lower_degree" in res and res["inv_lower_sipiverr"] <= mie and not res["inv_lower_warned"]:
        out.append(("inv_degree", "AP_ORDER=%d chosen although the lower degree %d meets the request (SIPIVERR %.4g <= %g)" %
                    (res["inv_lower_degree"] + 1, res["inv_lower_degree"], res["inv_lower_sipiverr"], mie)))
    return out[:5]


def _fr(x):
    return C.q2w(Fraction(x))


def request(case, res):
    if case["stream"] == "search":
        return {"op": "fit2d", "spec": case["spec"], "max_err": _fr(case["max_err"]),
                "fits": [[k, None] if v is None else [k, _fr(v[0]), bool(v[1])] for k, v in case["fits"]],
                "dbl": [[k, _fr(v)] for k, v in case["dbl"]]}
    if case["stream"] == "reform":
        return {"multi": [{"tag": "plain", "op": "reform", "deg": case["deg"], "keeplinear": False,
                           "fx": [[i, j, _fr(c)] for i, j, c in case["fx"]], "fy": [[i, j, _fr(c)] for i, j, c in case["fy"]]},
                          {"tag": "keep", "op": "reform", "deg": case["deg"], "keeplinear": True,
                           "fx": [[i, j, _fr(c)] for i, j, c in case["fx"]], "fy": [[i, j, _fr(c)] for i, j, c in case["fy"]]}]}
    if "cards" not in res or "pts" not in res:
        return None
    deg = int(res["cards"].get("A_ORDER", 1))
    return {"op": "sip_eval", "deg": deg, "cd": [_fr(x) for x in res["cd"]], "a": [[i, j, _fr(c)] for i, j, c in res["a"]],
            "b": [[i, j, _fr(c)] for i, j, c in res["b"]], "points": [[_fr(p[0]), _fr(p[1])] for p in res["pts"]]}


def compare(case, res, resp):
    if case["stream"] == "search":
        if "err" in resp:
            return None if res.get("err") == resp["err"] else "degree search: model %s, implementation %s" % (resp, {k: v for k, v in res.items() if k != "calls"})
        if "ok" not in resp:
            return "model error %s" % resp
        if "err" in res:
            return "degree search: implementation raises %s, model returns %s" % (res["err"], resp["ok"])
        m = resp["ok"]
        for k in ("degree", "coeff_degree", "warn_unmet", "warn_cond", "warn_sampling"):
            if m[k] != res[k]:
                return "degree search (%s): implementation %r, model %r; degrees fitted in order %s" % (k, res[k], m[k], res["calls"])
        if abs(float(C.w2q(m["reported"])) - res["reported"]) > 1e-12:
            return "reported error: implementation %r, model %s" % (res["reported"], m["reported"])
        return None
    if "ok" not in resp:
        return "model error %s" % resp
    if case["stream"] == "reform":
        for item in resp["ok"]:
            m = item["resp"]["ok"]
            if item["tag"] == "plain":
                if any(abs(float(C.w2q(x)) - y) > 1e-12 * max(1, abs(y)) for x, y in zip(m["cd"], res["cd"])):
                    return "CD matrix: implementation %s, model %s" % (res["cd"], m["cd"])
                for nm in ("a", "b"):
                    got = {(i, j): c for i, j, c in res[nm]}
                    want = {(i, j): float(C.w2q(c)) for i, j, c in m[nm]}
                    if set(got) != set(want):
                        return "%s keywords written: implementation %s, model %s" % (nm.upper(), sorted(got), sorted(want))
                    for k in got:
                        if abs(got[k] - want[k]) > 1e-9 * max(1.0, abs(want[k])):
                            return "%s_%d_%d: implementation %r, model %r" % (nm.upper(), k[0], k[1], got[k], want[k])
            else:
                got = {(i, j) for i, j, c in res["ap"]}
                want = {(i, j) for i, j, c in m["a"]}
                if got != want:
                    return "keywords written with keeplinear: implementation %s, model %s" % (sorted(got), sorted(want))
        return None
    for (mx, my), (ix_, iy_) in zip(resp["ok"], res["interm"]):
        mx, my = float(C.w2q(mx)), float(C.w2q(my))
        if abs(mx - ix_) > 1e-9 * max(1e-6, abs(mx)) + 1e-15 or abs(my - iy_) > 1e-9 * max(1e-6, abs(my)) + 1e-15:
            return "intermediate coordinates from the header: evaluator (%r, %r), Lean sipEval (%r, %r)" % (ix_, iy_, mx, my)
    return None


def nontrivial(case, res):
    if case["stream"] == "search":
        return case["spec"] is None or isinstance(case["spec"], list)
    if case["stream"] == "reform":
        return case["deg"] > 1
    return case["amp"] > 0


def stats(case, res, st):
    st["stream_" + case["stream"]] += 1
    if case["stream"] == "export":
        st["order_%d" % case["order"]] += 1
        st["proj_" + case["proj"]] += 1
        st["degree_" + ("none" if case["degree"] is None else "int" if isinstance(case["degree"], int) else "iter")] += 1
        st["embedded" if case["embed"] else "plain2d"] += 1
        if "err" in res:
            st["refused"] += 1
        elif res.get("signalled"):
            st["signalled"] += 1
        else:
            st["clean_return"] += 1
            st["chosen_%d" % res.get("chosen", 0)] += 1
    if case["stream"] == "search" and "err" in res:
        st["search_" + res["err"]] += 1


def gen_search(rng):
    kind = rng.random()
    if kind < 0.35:
        spec = None
    elif kind < 0.8:
        ds = rng.sample(range(1, 10), rng.randint(2, 5))
        if rng.random() < 0.1:
            ds.append(rng.choice([0, 10, 12]))
        spec = ds                     # any order: the search must not depend on it
    else:
        spec = rng.choice([1, 2, 3, 5, 9, 0, 11])
    fits_tbl, dbl = [], []
    e = rng.choice([4.0, 2.0, 1.0])
    for d in range(1, 10):
        r = rng.random()
        if r < 0.04:
            fits_tbl.append([d, None])
        else:
            e = e * rng.choice([0.5, 0.25, 0.125, 1.0, 2.0] if rng.random() < 0.25 else [0.5, 0.25, 0.125])
            fits_tbl.append([d, [e, rng.random() > 0.05]])
        dbl.append([d, rng.choice([0.5, 1.0, 2.0, 4.0, 8.0]) * (e if e else 1.0)])
    return {"stream": "search", "spec": spec, "max_err": rng.choice([0.5, 0.25, 0.0625, 0.015625, 0.001953125]), "fits": fits_tbl, "dbl": dbl}


def gen_reform(rng):
    deg = rng.randint(1, 6)

    def coefs(lin):
        cs = []
        for i in range(deg + 1):
            for j in range(deg + 1 - i):
                if i + j == 0:
                    continue
                if i + j == 1:
                    c = lin[(i, j)]
                else:
                    c = rng.randint(-8, 8) / 64.0
                cs.append([i, j, c])
        return cs
    a, b, c, d = rng.choice([(1.0, 0.25, -0.5, 2.0), (0.5, -1.0, 1.0, 0.75), (2.0, 0.0, 0.0, -1.0), (0.125, 0.5, -0.25, 0.375)])
    return {"stream": "reform", "deg": deg, "fx": coefs({(1, 0): a, (0, 1): b}), "fy": coefs({(1, 0): c, (0, 1): d}),
            "points": [[rng.randint(-8, 8) / 4.0, rng.randint(-8, 8) / 4.0] for _ in range(3)]}


def gen_export(rng):
    half = rng.choice([16.0, 32.0, 64.0, 100.0])
    xmin, ymin = rng.choice([0.0, -0.5, 10.0, 3.25]), rng.choice([0.0, -0.5, 20.0, 7.5])
    bbox = [[xmin, xmin + 2 * half], [ymin, ymin + 2 * half * rng.choice([1.0, 0.75])]]
    centre = [(bbox[0][0] + bbox[0][1]) / 2 + rng.choice([0.0, 3.0]), (bbox[1][0] + bbox[1][1]) / 2]
    order = rng.choice([1, 2, 2, 3, 3, 4, 5])
    amp = 0.0 if order == 1 else rng.choice([0.0, 0.1, 1.0, 3.0, 10.0])

    def dcoefs():
        cs = []
        for i in range(order + 1):
            for j in range(order + 1 - i):
                if i + j >= 2:
                    cs.append([i, j, amp * rng.uniform(-1, 1) / (half ** (i + j)) / max(1, order)])
        return cs
    embed = None
    if rng.random() < 0.3:
        pix = rng.choice([[0, 1, 2], [0, 2, 1], [1, 2, 0], [2, 0, 1]])
        world = rng.choice([[0, 1, 2], [1, 2, 0], [0, 2, 1], [1, 0, 2]])
        embed = {"pix": pix, "world": world, "specbox": rng.choice([[0.0, 7.0], [0.0, 200.0], [5.0, 11.0]])}
    deg = rng.choice([None, None, None, "iter", "iter", "int"])
    if deg == "iter":
        ds = rng.sample(range(1, 8), rng.randint(2, 5))
        deg = ds                          # any order
    elif deg == "int":
        deg = rng.choice([1, 2, 3, 4, 5])
    return {"stream": "export", "half": half, "bbox": bbox, "centre": centre, "order": order, "amp": amp, "dx": dcoefs(), "dy": dcoefs(),
            "rot": rng.choice([0.0, 30.0, 90.0, 137.0, -45.0]), "scale": rng.choice([1e-5, 3e-5, 1e-4, 1e-3]), "parity": rng.random() < 0.5,
            "proj": rng.choice(PROJ), "lon": rng.choice([0.01, 359.99, 120.0, 266.4, 45.0]), "lat": rng.choice([0.0, 30.0, -60.0, 85.0, -89.0]),
            "frame": rng.choice(["icrs", "icrs", "fk5", "galactic"]), "swap": embed is None and rng.random() < 0.25, "embed": embed,
            "max_pix_error": rng.choice([0.5, 0.25, 0.1, 0.01, 1e-3, 1e-4]), "max_inv_pix_error": rng.choice([0.5, 0.25, 0.1, 0.01, 1e-3]),
            "npoints": rng.choice([12, 16, 24, 32]), "degree": deg, "inv_degree": None,
            "crpix": None if rng.random() < 0.6 else [centre[0] + 1 + rng.choice([0.0, 5.5, -7.0]), centre[1] + 1 + rng.choice([0.0, -3.25])]}


def gen(rng, tier):
    q = tier == "quick"
    for _ in range(60 if q else 1500):
        yield gen_search(rng)
    for _ in range(25 if q else 400):
        yield gen_reform(rng)
    for k in range(45 if q else 600):
        c = gen_export(rng)
        if k % 4 == 1 and c["embed"] is None:
            c["bbox_as_arg"] = True
            if k % 8 == 1:
                c["bbox"] = [c["bbox"][0], [c["bbox"][1][0], c["bbox"][1][0] + 0.5 * (c["bbox"][0][1] - c["bbox"][0][0])]]     # clearly not square
                c["centre"] = [c["centre"][0], (c["bbox"][1][0] + c["bbox"][1][1]) / 2]
                if c["crpix"] is not None:
                    c["crpix"] = [c["crpix"][0], c["centre"][1] + 1]
        yield c
    # pointing exactly at a celestial pole (the FITS default pole longitude is not 180 there), reference pixel on the pole
    for k in range(4 if q else 40):
        c = gen_export(rng)
        half = c["half"]
        c["bbox"] = [[0.0, 2 * half], [0.0, 2 * half]]
        c.update(centre=[half, half], lat=90.0 if k % 4 != 3 else -90.0, crpix=None if k % 2 == 0 else [half + 1, half + 1], embed=None, swap=False,
                 proj="TAN" if k % 4 == 0 else c["proj"])
        yield c
