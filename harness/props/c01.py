"""C01 — pipeline evaluation is exactly the composition of its steps, for any frame pair (gwcs/wcs.py)."""
import copy
from fractions import Fraction

import numpy as np

import common as C
import pipegen as G
from gwcs import wcs as gw

PROP = "C01"
LEAN_MODULE = "GwcsProofs.C01"
SOURCES = ["GwcsModel/Basic.lean", "GwcsModel/TExpr.lean", "GwcsModel/Pipeline.lean", "GwcsProofs/C01.lean",
           "GwcsProofs/Lemmas/PipeLemmas.lean"]
THEOREMS = [
    "Gwcs.Pipe.forward_eq_fold",
    "Gwcs.Pipe.getTransform_down",
    "Gwcs.Pipe.getTransform_up",
    "Gwcs.Pipe.getTransform_self",
    "Gwcs.Pipe.getTransform_missing_from",
    "Gwcs.Pipe.getTransform_missing_to",
    "Gwcs.Pipe.getTransform_split",
    "Gwcs.Pipe.forward_eq_getTransform_ends",
    "Gwcs.Pipe.fixInputs_eval",
    "Gwcs.Pipe.texpr_lawful",
]
RULE = ("case = (pipeline of 1..6 steps with arities 1..4, queries over every ordered frame pair by name and by object, "
        "forward calls scalar+array, fix_inputs); non-trivial = a query spanning >= 2 steps or an arity change whose result is "
        "not the identity; distinct by hash of (TExpr list, frames, queries)")
TRUSTED = ["harness/props/c01.py correspondence: real gwcs WCS vs Lean driver on the same pipelines, exact (dyadic) values",
           "astropy CompoundModel evaluation = function composition (exercised, not proved)"]
ASSUMPTIONS = ["astropy models evaluate `a | b` as b after a and `a & b` on split inputs; fix_inputs holds inputs at constants"]


def _build_wcs(case):
    frames = []
    objs = {}
    for f in case["frames"]:
        if f["obj"] is not None:
            o = G.frame_obj(f["name"], f["naxes"], None, case.get("frame_unit"))      # (some cases: frames that declare a unit)
            objs[f["name"]] = o
            frames.append(o)
        else:
            frames.append(f["name"])
    pipeline = [(fr_, None if t is None else G.build(t)) for fr_, t in zip(frames, case["trs"])]
    return gw.WCS(pipeline), objs


def _eval_model(m, pts):
    """evaluate astropy model on each point separately; canonical per-point answers"""
    out = []
    for p in pts:
        try:
            r = m(*G.to_float_pt(p))
            out.append({"ok": G.canon_vals(r, m.n_outputs)})
        except Exception as e:
            out.append({"err": C.exc_enum(e)})
    return out


def _get(w, a, b, pts):
    try:
        t = w.get_transform(a, b)
    except Exception as e:
        return {"err": C.exc_enum(e)}
    if t is None:
        return {"none": True}
    return {"v": _eval_model(t, pts)}


def impl(case):
    w, objs = _build_wcs(case)
    snap_names = list(w.available_frames)
    answers = []
    extra = []
    for q in case["queries"]:
        if q["k"] == "get":
            a, b = q["from"], q["to"]
            ans = _get(w, a, b, q["pts"])
            answers.append(ans)
            ex = {}
            # by object where the frame is an object (or an unknown object for the malformed stream)
            ao = objs.get(a, G.frame_obj(a, 1) if q.get("unknown_obj") else a)
            bo = objs.get(b, b)
            ex["by_obj"] = _get(w, ao, bo, q["pts"])
            # WCS.transform on the same points
            tv = []
            for p in q["pts"]:
                try:
                    r = w.transform(ao, b, *G.to_float_pt(p), with_bounding_box=False)
                    no = len(r) if isinstance(r, tuple) else 1
                    if any(hasattr(x, "unit") for x in (r if isinstance(r, tuple) else (r,))):
                        tv.append({"quantity": str([getattr(x, "unit", None) for x in (r if isinstance(r, tuple) else (r,))])})   # numbers in, numbers out
                    else:
                        tv.append({"ok": G.canon_vals(r, no)})
                except Exception as e:
                    tv.append({"err": C.exc_enum(e)})
            ex["transform"] = tv
            # with a bounding box on the WCS (a box that holds none of the points): between frames other than from the input frame the
            # default call is still the plain composition - the box belongs to the pixel inputs of the first step
            # (pairs that do not cross the first step: astropy gives the inverse of a boxed model a box of its own)
            if a in snap_names and b in snap_names and a != b and snap_names.index(a) >= 1 and snap_names.index(b) >= 1:
                tb = []
                try:
                    n0 = w.pipeline[0].transform.n_inputs
                    old_box = w.bounding_box
                    w.bounding_box = tuple((-1e-3, 1e-3) for _i in range(n0)) if n0 > 1 else (-1e-3, 1e-3)
                    try:
                        for p in q["pts"]:
                            try:
                                r = w.transform(ao, b, *G.to_float_pt(p))
                                tb.append({"ok": G.canon_vals(r, len(r) if isinstance(r, tuple) else 1)})
                            except Exception as e:
                                tb.append({"err": C.exc_enum(e)})
                    finally:
                        w.bounding_box = old_box
                    ex["transform_boxed"] = tb
                except Exception:
                    pass
            # the same whole-number points as arrays of every numeric dtype: one answer
            dts = {}
            ipts = [[float(abs(round(v))) for v in G.to_float_pt(p)] for p in q["pts"]]
            if ipts and ipts[0]:
                for dt in ("float64", "float32", "int64", "int16", "uint8", "uint32"):
                    try:
                        cols = [np.array([p[i] for p in ipts]).astype(dt) for i in range(len(ipts[0]))]
                        r = w.transform(ao, b, *cols, with_bounding_box=False)
                        r = r if isinstance(r, tuple) else (r,)
                        dts[dt] = [[float(v) for v in np.asarray(c, dtype=float).ravel()] for c in r]
                    except Exception as e:
                        dts[dt] = "err:" + C.exc_enum(e)
            ex["dtypes"] = dts
            extra.append(ex)
        elif q["k"] == "call":
            vals = []
            for p in q["pts"]:
                try:
                    r = w(*G.to_float_pt(p), with_bounding_box=False)
                    no = len(r) if isinstance(r, tuple) else 1
                    vals.append({"ok": G.canon_vals(r, no)})
                except Exception as e:
                    vals.append({"err": C.exc_enum(e)})
            ans = {"v": vals}
            answers.append(ans)
            ex = {}
            try:  # the same points as one array call
                cols = list(zip(*[G.to_float_pt(p) for p in q["pts"]]))
                r = w(*[np.array(c) for c in cols])
                if not isinstance(r, tuple):
                    r = (r,)
                ex["array"] = [[C.q2w(Fraction(float(v))) for v in col] for col in np.array(r).T.tolist()]
            except Exception as e:
                ex["array_err"] = C.exc_enum(e)
            extra.append(ex)
        elif q["k"] == "fix":
            before = copy.deepcopy([None if s.transform is None else s.transform.parameters.tolist() for s in w.pipeline])
            try:
                nw = w.fix_inputs({int(k): float(G.fr(v)) for k, v in q["fixed"]})
                vals = []
                for p in q["pts"]:
                    try:
                        r = nw(*G.to_float_pt(p), with_bounding_box=False)
                        no = len(r) if isinstance(r, tuple) else 1
                        vals.append({"ok": G.canon_vals(r, no)})
                    except Exception as e:
                        vals.append({"err": C.exc_enum(e)})
                ans = {"new": {"v": vals}, "orig_names": list(w.available_frames), "new_names": list(nw.available_frames)}
            except Exception as e:
                ans = {"err": C.exc_enum(e)}
            after = [None if s.transform is None else s.transform.parameters.tolist() for s in w.pipeline]
            # a second derivation from the derived WCS (integer keys are positions among the inputs still free)
            nested = None
            try:
                fixed1 = {int(k): float(G.fr(v)) for k, v in q["fixed"]}
                nin0 = w.forward_transform.n_inputs
                free1 = [i for i in range(nin0) if i not in fixed1]
                if len(free1) >= 2:
                    nw1 = w.fix_inputs(dict(fixed1))
                    pos = len(free1) - 1                       # hold the last free input
                    c2 = 1.75
                    nw2 = nw1.fix_inputs({pos: c2})
                    free2 = free1[:-1]
                    pt2 = [2.5 + j for j in range(len(free2))]
                    full = [0.0] * nin0
                    for i, v in fixed1.items():
                        full[i] = v
                    full[free1[-1]] = c2
                    for i, v in zip(free2, pt2):
                        full[i] = v
                    a2 = nw2(*pt2, with_bounding_box=False)
                    b2 = w(*full, with_bounding_box=False)
                    no2 = len(b2) if isinstance(b2, tuple) else 1
                    nested = [G.canon_vals(a2, no2), G.canon_vals(b2, no2), nw2.forward_transform.n_inputs, len(free2)]
            except Exception as e:
                nested = "err:" + C.exc_enum(e) + ":" + str(e)[:60]
            # the same with a bounding box on the original: the derived WCS must mask exactly where the original does
            try:
                wb, _ = _build_wcs(case)
                nin = wb.forward_transform.n_inputs
                wb.bounding_box = tuple((-50.0, 50.0) for _ in range(nin)) if nin > 1 else (-50.0, 50.0)
                fixed = {int(k): float(G.fr(v)) for k, v in q["fixed"]}
                nb = wb.fix_inputs(dict(fixed))
                free = [i for i in range(nin) if i not in fixed]
                box_cmp = []
                for base in (7.0, 1000.0):            # a point inside the box and one outside it on the free axes
                    pt = [base + 3 * j for j in range(len(free))]
                    full = [0.0] * nin
                    for i, v in fixed.items():
                        full[i] = v
                    for i, v in zip(free, pt):
                        full[i] = v
                    a = nb(*pt)
                    b = wb(*full)
                    na = len(a) if isinstance(a, tuple) else 1
                    box_cmp.append([G.canon_vals(a, na), G.canon_vals(b, na)])
                box_res = {"box": box_cmp}
            except Exception as e:
                box_res = {"box_err": C.exc_enum(e) + ":" + str(e)[:80]}
            answers.append(ans)
            extra.append(dict({"orig_unchanged": before == after and list(w.available_frames) == snap_names,
                               "orig_nin": w.forward_transform.n_inputs, "nested": nested}, **box_res))
    # independent hand composition of the step transforms, for the oracle
    hand = []
    steps = [s.transform for s in w.pipeline]
    names = case_names(case)
    for q in case["queries"]:
        if q["k"] == "get" and q["from"] in names and q["to"] in names:
            i, j = names.index(q["from"]), names.index(q["to"])
            vals = []
            for p in q["pts"]:
                try:
                    x = tuple(G.to_float_pt(p))
                    if i < j:
                        for k in range(i, j):
                            x = steps[k](*x)
                            x = x if isinstance(x, tuple) else (x,)
                    else:
                        for k in range(i - 1, j - 1, -1):
                            x = steps[k].inverse(*x)
                            x = x if isinstance(x, tuple) else (x,)
                    vals.append({"ok": G.canon_vals(x, len(x))})
                except Exception as e:
                    vals.append({"err": C.exc_enum(e)})
            hand.append(vals)
        elif q["k"] in ("call", "fix"):
            vals = []
            for p in q["pts"]:
                try:
                    x = G.to_float_pt(p)
                    if q["k"] == "fix":
                        fixed = {int(k): float(G.fr(v)) for k, v in q["fixed"]}
                        full, it = [], iter(x)
                        for idx in range(steps[0].n_inputs):
                            full.append(fixed[idx] if idx in fixed else next(it))
                        x = full
                    x = tuple(x)
                    for k in range(len(steps) - 1):
                        x = steps[k](*x)
                        x = x if isinstance(x, tuple) else (x,)
                    vals.append({"ok": G.canon_vals(x, len(x))})
                except Exception as e:
                    vals.append({"err": C.exc_enum(e)})
            hand.append(vals)
        else:
            hand.append(None)
    return {"names": snap_names, "answers": answers, "extra": extra, "hand": hand}


def case_names(case):
    return [f["name"] for f in case["frames"]]


def oracle(case, res):
    out = []
    names = case_names(case)
    if res["names"] != names:
        out.append(("frames", "available_frames %s != pipeline frames %s" % (res["names"], names)))
    for q, ans, ex, hand in zip(case["queries"], res["answers"], res["extra"], res["hand"]):
        if q["k"] == "get":
            a, b = q["from"], q["to"]
            if a not in names or b not in names:
                if ans.get("err") != "frameErr":
                    out.append(("missing", "get_transform(%s,%s) with a frame not in the pipeline answered %s" % (a, b, ans)))
                continue
            if a == b:
                if not ans.get("none"):
                    out.append(("self", "get_transform(%s,%s) is not None: %s" % (a, b, ans)))
                continue
            if "v" in ans:
                if ans["v"] != hand:
                    out.append(("compose", "get_transform(%s,%s) evaluates to %s but composing the step transforms by hand gives %s" % (a, b, ans["v"], hand)))
            elif "err" in ans:
                # allowed only when the hand composition also fails (missing inverse)
                if hand and all("ok" in h for h in hand):
                    out.append(("compose", "get_transform(%s,%s) raised %s but every step transform/inverse evaluates" % (a, b, ans["err"])))
            if ex["by_obj"] != ans:
                out.append(("name_or_object", "lookup by object differs from lookup by name for (%s,%s): %s vs %s" % (a, b, ex["by_obj"], ans)))
            d0 = ex.get("dtypes", {}).get("float64")
            if d0 is not None and not isinstance(d0, str):
                for dt, dv in ex["dtypes"].items():
                    same = (not isinstance(dv, str)) and len(dv) == len(d0) and all(
                        len(x) == len(y) and all((u_ == v_) or (u_ != u_ and v_ != v_) or abs(u_ - v_) <= 1e-6 * max(1.0, abs(u_)) for u_, v_ in zip(x, y))
                        for x, y in zip(dv, d0))
                    if not same:
                        out.append(("dtype", "WCS.transform(%s,%s) on %s arrays of whole numbers gives %s, on float64 arrays %s" % (a, b, dt, dv, d0)))
                        break
            if "v" in ans and ex["transform"] != ans["v"]:
                out.append(("transform", "WCS.transform(%s,%s) %s != get_transform evaluation %s" % (a, b, ex["transform"], ans["v"])))
            if "transform_boxed" in ex and "v" in ans and ex["transform_boxed"] != ex["transform"]:
                out.append(("transform", "WCS.transform(%s,%s) on a WCS that has a bounding box gives %s, without one %s (the box is the input frame's)" %
                            (a, b, ex["transform_boxed"], ex["transform"])))
        elif q["k"] == "call":
            if ans["v"] != hand:
                out.append(("call", "WCS.__call__ gives %s, composing the steps in order gives %s" % (ans["v"], hand)))
            if "array" in ex and all("ok" in v for v in ans["v"]) and ex["array"] != [v["ok"] for v in ans["v"]]:
                out.append(("call_array", "array evaluation %s differs from pointwise %s" % (ex["array"], ans["v"])))
        elif q["k"] == "fix":
            if "err" in ans:
                out.append(("fix", "fix_inputs raised %s" % ans["err"]))
                continue
            if ans["new"]["v"] != hand:
                out.append(("fix", "fixed WCS gives %s, original with inputs held gives %s" % (ans["new"]["v"], hand)))
            if not ex["orig_unchanged"]:
                out.append(("fix_pure", "fix_inputs changed the original WCS"))
            nst = ex.get("nested")
            if isinstance(nst, str):
                out.append(("fix_nested", "a second fix_inputs on the derived WCS failed: %s" % nst))
            elif nst is not None and (nst[0] != nst[1] or nst[2] != nst[3]):
                out.append(("fix_nested", "fixing a further input of the derived WCS gives %s with %d free inputs, the original with all of them held gives %s (%d free)" %
                            (nst[0], nst[2], nst[1], nst[3])))
            for a, b in ex.get("box", []):
                if a != b:
                    out.append(("fix_box", "with a bounding box: fixed WCS gives %s, original with inputs held gives %s" % (a, b)))
    return out


def request(case, res):
    return {"op": "eval", "frames": [{"name": f["name"], "obj": f["obj"]} for f in case["frames"]], "trs": case["trs"],
            "queries": case["queries"]}


def compare(case, res, resp):
    if "ok" not in resp:
        return "model error %s" % resp
    m = resp["ok"]
    if m["names"] != res["names"]:
        return "frame names differ: impl %s model %s" % (res["names"], m["names"])
    for q, a, b in zip(case["queries"], res["answers"], m["answers"]):
        if a != b:
            return "query %s: impl %s model %s" % ({k: v for k, v in q.items() if k != "pts"}, a, b)
    return None


def nontrivial(case, res):
    names = case_names(case)
    for q, ans in zip(case["queries"], res["answers"]):
        if q["k"] == "get" and q["from"] in names and q["to"] in names and "v" in ans:
            i, j = names.index(q["from"]), names.index(q["to"])
            if abs(i - j) >= 2 and any("ok" in v and v["ok"] != p for v, p in zip(ans["v"], q["pts"])):
                return True
    return False


def stats(case, res, st):
    st["steps_%d" % (len(case["frames"]) - 1)] += 1
    st["dims_%s" % "".join(map(str, sorted(set(case["dims"]))))] += 1
    for q, ans in zip(case["queries"], res["answers"]):
        st["q_" + q["k"]] += 1
        if "err" in ans:
            st["err_" + ans["err"]] += 1
        if ans.get("none"):
            st["none"] += 1
        if q["k"] == "get" and "v" in ans:
            names = case_names(case)
            st["down" if names.index(q["from"]) < names.index(q["to"]) else "up"] += 1
    st["frames_obj"] += sum(1 for f in case["frames"] if f["obj"] is not None)
    st["frames_str"] += sum(1 for f in case["frames"] if f["obj"] is None)


def gen(rng, tier):
    n = 250 if tier == "quick" else 6000
    for _ in range(n):
        nsteps = rng.randint(1, 6)
        invertible = rng.random() < 0.5
        frames, trs, dims = G.gen_pipeline(rng, nsteps, invertible=invertible)
        names = [f["name"] for f in frames]
        queries = []
        pairs = [(i, j) for i in range(nsteps + 1) for j in range(nsteps + 1)]
        if tier == "quick" and len(pairs) > 16:
            pairs = rng.sample(pairs, 16)
        for i, j in pairs:
            queries.append({"k": "get", "from": names[i], "to": names[j], "pts": [G.point(rng, dims[i]) for _ in range(2)]})
        queries.append({"k": "call", "pts": [G.point(rng, dims[0]) for _ in range(3)]})
        if rng.random() < 0.3:
            queries.append({"k": "get", "from": rng.choice(names + ["nosuch"]), "to": "nosuch", "pts": [G.point(rng, 1)]})
            # near misses: a proper prefix of a real frame name, the empty string
            near = [n_[:3] for n_ in names if n_[:3] not in names] + [""]
            queries.append({"k": "get", "from": names[0], "to": rng.choice(near), "pts": [G.point(rng, 1)]})
            queries.append({"k": "get", "from": "ghost", "to": rng.choice(names), "pts": [G.point(rng, 1)], "unknown_obj": True})
        if dims[0] >= 2 and rng.random() < 0.5:
            k = rng.randint(1, dims[0] - 1)
            idxs = sorted(rng.sample(range(dims[0]), k))
            queries.append({"k": "fix", "fixed": [[i, C.q2w(G.dyadic(rng, -4, 4, 2))] for i in idxs],
                            "pts": [G.point(rng, dims[0] - k) for _ in range(2)]})
        case = {"frames": frames, "trs": trs, "dims": dims, "queries": queries}
        if rng.random() < 0.3:
            case["frame_unit"] = "pix"      # frames that declare a unit; the transforms carry none, the numbers go through untouched
        yield case
