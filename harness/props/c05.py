"""C05 — iterative inversion reports every non-solution and converges where designed to (gwcs/wcs.py)."""
import contextlib
import inspect
import io
import os
import sys

import numpy as np

import common as C
import skygen as S
from gwcs import wcs as gw

PROP = "C05"
LEAN_MODULE = "GwcsProofs.C05"
SOURCES = ["GwcsModel/Solver.lean", "GwcsModel/Wrap.lean", "GwcsProofs/C05.lean", "GwcsProofs/C05b.lean"]


def prepare(tier):
    """source tie of GwcsModel/Wrap.lean: every `np.mod` in the solver (gwcs/wcs.py, WCS._vectorized_fixed_point) must be a wrap of the
    modelled form  mod(E +- H, P) - H  with P = 2 H, and the pixel-scale estimate must not use a raw difference of two longitudes"""
    import ast
    src = open(os.path.join(C.REPO, "gwcs", "wcs.py")).read()
    fn = None
    for node in ast.walk(ast.parse(src)):
        if isinstance(node, ast.FunctionDef) and node.name == "_vectorized_fixed_point":
            fn = node
    if fn is None:
        return False, "gwcs/wcs.py: WCS._vectorized_fixed_point not found"
    if _L_PRE is None:
        return False, ("the line at which the solver's classification state is read (`if detect_divergence and inddiv is not None and "
                       "inddiv.size ...`) is no longer in WCS._vectorized_fixed_point: the traced correspondence cannot be set up")

    def half(e):
        """the half-period an expression denotes: 180.0 / np.pi -> ('deg'|'rad'); 360.0 / 2*np.pi -> full period"""
        t = ast.unparse(e).replace(" ", "")
        return {"180.0": ("deg", 1), "180": ("deg", 1), "360.0": ("deg", 2), "360": ("deg", 2), "np.pi": ("rad", 1),
                "2.0*np.pi": ("rad", 2), "2*np.pi": ("rad", 2), "np.pi*2": ("rad", 2), "np.pi*2.0": ("rad", 2)}.get(t)
    # the solver and the private helpers of the class it calls (a pixel-scale estimate extracted into a method is still the solver's)
    defs = {n.name: n for n in ast.walk(ast.parse(src)) if isinstance(n, ast.FunctionDef)}
    fns, todo = [], [fn]
    while todo:
        f_ = todo.pop()
        if f_ in fns:
            continue
        fns.append(f_)
        for n in ast.walk(f_):
            if isinstance(n, ast.Call) and isinstance(n.func, ast.Attribute) and isinstance(n.func.value, ast.Name) and n.func.value.id == "self" \
                    and n.func.attr.startswith("_") and n.func.attr in defs and n.func.attr not in ("__call__",):
                todo.append(defs[n.func.attr])
    nodes = [n for f_ in fns for n in ast.walk(f_)]
    parents = {}
    for n in nodes:
        for c in ast.iter_child_nodes(n):
            parents[c] = n
    sites, bad = [], []
    for n in nodes:
        if isinstance(n, ast.Call) and ast.unparse(n.func) == "np.mod":
            ok = False
            par = parents.get(n)
            if len(n.args) == 2 and isinstance(n.args[0], ast.BinOp) and isinstance(n.args[0].op, (ast.Add, ast.Sub)) and \
                    isinstance(par, ast.BinOp) and isinstance(par.op, ast.Sub) and par.left is n:
                h_in, per, h_out = half(n.args[0].right), half(n.args[1]), half(par.right)
                if h_in and per and h_out and h_in[0] == per[0] == h_out[0] and h_in[1] == 1 and per[1] == 2 and h_out[1] == 1:
                    ok = True
                    sites.append("%s:%d %s" % (per[0], n.lineno, "plus" if isinstance(n.args[0].op, ast.Add) else "minus"))
            if not ok:
                bad.append("line %d: %s" % (n.lineno, ast.unparse(parents.get(n, n))[:100]))
    # the area of the pixel-scale estimate: differences of the sampled longitudes l1..l4 only inside a wrap
    import re as _re
    for n in nodes:
        if isinstance(n, ast.BinOp) and isinstance(n.op, ast.Sub) and isinstance(n.left, ast.Name) and isinstance(n.right, ast.Name) \
                and _re.fullmatch(r"l\d", n.left.id) and _re.fullmatch(r"l\d", n.right.id):
            q, inside = n, False
            while q in parents:
                q = parents[q]
                if isinstance(q, ast.Call) and ast.unparse(q.func) == "np.mod":
                    inside = True
            if not inside:
                bad.append("line %d: raw longitude difference %s" % (n.lineno, ast.unparse(n)))
    if bad or len(sites) < 3:
        return False, "the solver's angle wraps are not of the modelled form mod(E +- H, 2H) - H: %s (recognised: %s)" % (bad, sites)
    return True, "solver wraps recognised in the source: " + ", ".join(sites)


THEOREMS = [
    "Gwcs.Wrap.wrap_range",
    "Gwcs.Wrap.wrap_periodic",
    "Gwcs.Wrap.wrap_id",
    "Gwcs.Wrap.wrap_recovers",
    "Gwcs.Wrap.wrapMinus_eq",
    "Gwcs.Sol.inv_enterAdaptive",
    "Gwcs.Sol.inv_switchToAdaptive",
    "Gwcs.Sol.inv_adaptiveStep",
    "Gwcs.Sol.adaptive_row_local",
    "Gwcs.Sol.coverage",
    "Gwcs.Sol.raises_iff",
    "Gwcs.Sol.aitken_exact_affine",
    "Gwcs.Sol.aitken_fixed_point",
]
RULE = ("case = (2-D celestial WCS without analytic inverse from the family pointing x scale 1e-6..1e-3 x parity x small rotation x distortion "
        "order/amplitude x box, batch of world points inside / far outside / NaN, mode adaptive x detect_divergence x maxiter x tolerance, quiet "
        "off): the solver's internal state at the classification block is read with a line tracer and fed to the Lean `classify`; returned "
        "pixels are forward-mapped and compared in pixels; non-trivial = >= 2 solver iterations or a non-empty divergent/slow list; distinct by "
        "(WCS params, mode)")
TRUSTED = ["harness/props/c05.py: sys.settrace on WCS._vectorized_fixed_point (no change to /repo) exposing (k, ind, dn, dnprev, invalid, inddiv)",
           "forward-mapping oracle on the real WCS"]
ASSUMPTIONS = ["`dn < tol^2` bounding the forward residual for distorted WCSs, contraction of the iteration and scipy's hybr fallback are numerical "
               "facts exercised by the oracle, not theorems", "finite pixel rows have finite dn (no overflow to inf)"]
SERIAL = False

_FN = gw.WCS._vectorized_fixed_point
_CODE = getattr(_FN, "__wrapped__", _FN).__code__
_SRC, _L0 = inspect.getsourcelines(getattr(_FN, "__wrapped__", _FN))
# the line at which the solver's state is read (just before the fallback that rescues divergent points); when the source no longer has it
# the tie is reported broken by `prepare` and the check goes on with the forward-mapping oracle alone
_L_PRE = next((_L0 + i for i, l in enumerate(_SRC) if "if detect_divergence and inddiv is not None and inddiv.size" in l), None)
_SNAP = {}


def _local_trace(frame, event, arg):
    if event == "line" and frame.f_lineno == _L_PRE:
        loc = frame.f_locals
        _SNAP["pre"] = {"dn": np.array(loc["dn"], dtype=float).copy(), "dnprev": np.array(loc["dnprev"], dtype=float).copy(),
                        "invalid": np.array(loc["invalid"]).copy(), "inddiv": None if loc["inddiv"] is None else np.array(loc["inddiv"]).copy(),
                        "ind": None if loc["ind"] is None else np.array(loc["ind"]).copy(), "k": int(loc["k"]),
                        "pixfin": np.all(np.isfinite(loc["pix"]), axis=1).copy(), "worldfin": np.all(np.isfinite(loc["world0"]), axis=1).copy(),
                        "tol2": float(loc["tol2"]), "adaptive": bool(loc["adaptive"])}
    elif event == "return":
        loc = frame.f_locals
        if "pre" in _SNAP:
            _SNAP["post"] = {"ind": None if loc.get("ind") is None else [int(v) for v in np.atleast_1d(loc["ind"])],
                             "inddiv": None if loc.get("inddiv") is None else [int(v) for v in np.atleast_1d(loc["inddiv"])]}
    return _local_trace


def _trace(frame, event, arg):
    if event == "call" and frame.f_code is _CODE:
        return _local_trace
    return None


def _residual_px(w, p, pix, world):
    """forward residual of every row, in pixels"""
    with np.errstate(all="ignore"):
        ra, dec = w(pix[:, 0], pix[:, 1], with_bounding_box=False)
        dra = (np.asarray(ra) - world[:, 0] + 180.0) % 360.0 - 180.0
        dd = np.asarray(dec) - world[:, 1]
        return np.hypot(dra * np.cos(np.radians(world[:, 1])), dd) / p["scale"]


_NIRCAM = {}


def _nircam():
    if "w" not in _NIRCAM:
        import asdf
        path = os.path.join(C.REPO, "gwcs", "tests", "data", "nircamwcs.asdf")
        with asdf.open(path, lazy_load=False, memmap=False) as af:
            _NIRCAM["w"] = af.tree["wcs"]
    return _NIRCAM["w"]


def _impl_nircam(case):
    w = _nircam()
    (x0, x1), (y0, y1) = [tuple(map(float, iv)) for iv in w.bounding_box.bounding_box(order="F")]
    n = case["n"]
    xs, ys = np.meshgrid(np.linspace(x0, x1, n), np.linspace(y0, y1, n))
    xs, ys = xs.ravel(), ys.ravel()
    m = case["mode"]
    with contextlib.redirect_stdout(io.StringIO()):
        ra, dec = w(xs, ys, with_bounding_box=False)
        try:
            r = w.numerical_inverse(ra, dec, tolerance=m["tolerance"], maxiter=m["maxiter"], adaptive=m["adaptive"],
                                    detect_divergence=m["detect_divergence"], quiet=False, with_bounding_box=False)
            err = np.hypot(np.asarray(r[0]) - xs, np.asarray(r[1]) - ys)
            return {"raised": False, "maxerr": float(np.nanmax(err)), "nbad": int((~(err <= 4 * m["tolerance"] + 1e-6)).sum()), "npts": len(xs)}
        except gw.NoConvergence as e:
            return {"raised": True, "divergent": None if e.divergent is None else len(e.divergent),
                    "slow_conv": None if e.slow_conv is None else len(e.slow_conv), "npts": len(xs)}


def impl(case):
    if case.get("kind") == "nircam":
        return _impl_nircam(case)
    p = case["params"]
    w = S.build(p)
    pts = np.array(case["pix"], dtype=float)
    with contextlib.redirect_stdout(io.StringIO()):
        ra, dec = w(pts[:, 0], pts[:, 1], with_bounding_box=False)
    world = np.array([ra, dec], dtype=float).T
    for i in case.get("nan_at", []):
        world[i, 0] = np.nan
    for i in case.get("antipode_at", []):
        # a finite world point in the opposite hemisphere: the fitted initial guess is NaN there
        world[i] = [(p["crval"][0] + 180.0) % 360.0, -p["crval"][1]]
    m = case["mode"]
    _SNAP.clear()
    res = {}
    old = sys.gettrace()
    sys.settrace(_trace)
    try:
        with contextlib.redirect_stdout(io.StringIO()):
            try:
                r = w.numerical_inverse(world[:, 0], world[:, 1], tolerance=m["tolerance"], maxiter=m["maxiter"], adaptive=m["adaptive"],
                                        detect_divergence=m["detect_divergence"], quiet=False, with_bounding_box=False)
                sol = np.array(r, dtype=float).T
                res["raised"] = False
            except gw.NoConvergence as e:
                sol = np.array(e.best_solution, dtype=float)
                res["raised"] = True
                res["divergent"] = None if e.divergent is None else sorted(int(v) for v in e.divergent)
                res["slow_conv"] = None if e.slow_conv is None else sorted(int(v) for v in e.slow_conv)
                res["niter"] = int(e.niter)
    finally:
        sys.settrace(old)
    res["resid"] = [float(v) if v == v else None for v in _residual_px(w, p, sol, world)]
    # the same points one at a time as scalars: reporting must not depend on the form of the input
    sc = []
    for i in list(range(min(2, len(world)))) + list(case.get("antipode_at", []))[:2]:
        if not np.all(np.isfinite(world[i])):
            continue
        try:
            with contextlib.redirect_stdout(io.StringIO()):
                r = w.numerical_inverse(float(world[i, 0]), float(world[i, 1]), tolerance=m["tolerance"], maxiter=m["maxiter"], adaptive=m["adaptive"],
                                        detect_divergence=m["detect_divergence"], quiet=False, with_bounding_box=False)
            s1 = np.array([[float(np.asarray(v)) for v in r]])
            rr = _residual_px(w, p, s1, world[i:i + 1])[0]
            sc.append({"i": i, "raised": False, "resid": float(rr) if rr == rr else None, "type": type(r).__name__})
        except gw.NoConvergence:
            sc.append({"i": i, "raised": True})
        except Exception as e:
            sc.append({"i": i, "err": C.exc_enum(e)})
    res["scalar"] = sc
    # the public entry point: invert() hands the solver's options on (this WCS has no analytic inverse)
    try:
        with contextlib.redirect_stdout(io.StringIO()):
            w.invert(world[:, 0], world[:, 1], tolerance=m["tolerance"], maxiter=m["maxiter"], adaptive=m["adaptive"],
                     detect_divergence=m["detect_divergence"], quiet=False, with_bounding_box=False)
        res["invert_raised"] = False
    except gw.NoConvergence as e:
        res["invert_raised"] = True
        res["invert_listed"] = sorted(int(v) for v in (list(e.divergent) if e.divergent is not None else []) + (list(e.slow_conv) if e.slow_conv is not None else []))
    except Exception as e:
        res["invert_err"] = C.exc_enum(e)
    res["sol_nan"] = [bool(not np.all(np.isfinite(s))) for s in sol]
    res["world_nan"] = [bool(not np.all(np.isfinite(x))) for x in world]
    if "pre" in _SNAP:
        pre, post = _SNAP["pre"], _SNAP.get("post", {"ind": None, "inddiv": None})
        n = len(pre["dn"])
        pre_div = set() if pre["inddiv"] is None else {int(v) for v in pre["inddiv"]}
        post_div = set() if post["inddiv"] is None else set(post["inddiv"])
        sel = None if pre["ind"] is None else {int(v) for v in pre["ind"]}
        rows = []
        for i in range(n):
            dn, dp = float(pre["dn"][i]), float(pre["dnprev"][i])
            pf = bool(bool(pre["pixfin"][i]) and np.isfinite(dn) and np.isfinite(dp))
            if sel is None:
                ii = bool(pf and dn >= pre["tol2"])       # plain non-adaptive loop: every unconverged row is still being iterated
            else:
                ii = i in sel
            fb = bool(m["detect_divergence"] and i in pre_div and i not in post_div)
            rows.append([C.f2w(dn if np.isfinite(dn) else 0.0), C.f2w(dp if np.isfinite(dp) else 0.0), pf, bool(pre["worldfin"][i]), ii, fb])
        res["trace"] = {"tol2": C.f2w(pre["tol2"]), "kGeMax": bool(pre["k"] >= m["maxiter"]), "k": pre["k"], "rows": rows,
                        "final_div": sorted(post_div), "final_slow": sorted(post["ind"] or [])}
    # the same batch without the NaN rows: other rows must not be affected
    if case.get("nan_at"):
        keep = [i for i in range(len(world)) if i not in case["nan_at"]]
        with contextlib.redirect_stdout(io.StringIO()):
            try:
                r2 = w.numerical_inverse(world[keep, 0], world[keep, 1], tolerance=m["tolerance"], maxiter=m["maxiter"], adaptive=m["adaptive"],
                                         detect_divergence=m["detect_divergence"], quiet=True, with_bounding_box=False)
                sol2 = np.array(r2, dtype=float).T
                d = np.hypot(*(sol[keep] - sol2).T)
                res["nan_shift"] = [float(v) if v == v else None for v in d]
            except Exception as e:
                res["nan_shift_err"] = C.exc_enum(e)
    return res


def oracle(case, res):
    out = []
    if case.get("kind") == "nircam":
        if res["raised"]:
            out.append(("nircam", "the NIRCam reference WCS does not converge on a %dx%d grid of its bounding box in mode %s: %s" % (case["n"], case["n"], case["mode"], res)))
        elif res["nbad"]:
            out.append(("nircam", "NIRCam reference WCS: %d of %d grid points inverted more than tolerance away (max %g px), quiet off, no exception" %
                        (res["nbad"], res["npts"], res["maxerr"])))
        return out
    m = case["mode"]
    tol = m["tolerance"]
    lim = 4 * tol + 1e-7
    listed = set(res.get("divergent") or []) | set(res.get("slow_conv") or [])
    bad_rows = []
    for i, (r, wn, sn) in enumerate(zip(res["resid"], res["world_nan"], res["sol_nan"])):
        if wn:
            if not sn:
                out.append(("nan_world", "NaN world input %d inverted to finite pixels" % i))
            continue
        notsol = r is None or r > lim
        if notsol:
            bad_rows.append(i)
            if not res["raised"]:
                out.append(("unreported", "quiet off, no exception, but row %d (pixel %s) maps forward %s px away from the requested world point (tolerance %g)" %
                            (i, case["pix"][i], r, tol)))
            elif i not in listed:
                out.append(("uncovered", "NoConvergence raised but row %d (residual %s px, tolerance %g) is in neither divergent %s nor slow_conv %s" %
                            (i, r, tol, res.get("divergent"), res.get("slow_conv"))))
    if "invert_err" in res:
        out.append(("invert_entry", "invert(..., quiet=False) raised %s" % res["invert_err"]))
    elif "invert_raised" in res and res["invert_raised"] != res["raised"]:
        out.append(("invert_entry", "numerical_inverse(quiet=False) %s NoConvergence but invert(..., quiet=False) with the same options %s" %
                    ("raises" if res["raised"] else "does not raise", "raises" if res["invert_raised"] else "does not")))
    for sc in res.get("scalar", []):
        if "err" in sc:
            out.append(("scalar", "scalar call for row %d raised %s" % (sc["i"], sc["err"])))
        elif not sc["raised"] and (sc["resid"] is None or sc["resid"] > lim):
            out.append(("scalar_unreported", "scalar input, quiet off, no exception, but the result for row %d (world given as two floats) maps forward %s px away (tolerance %g)" %
                        (sc["i"], sc["resid"], tol)))
        elif not sc["raised"] and sc.get("type") != "tuple":
            out.append(("scalar_type", "scalar call returned a %s, not a tuple" % sc.get("type")))
    # convergence where designed to: aligned WCS, points inside the box, default or coarser tolerance, generous budget
    if case.get("designed") and res["raised"]:
        inside_bad = [i for i in (listed | set(bad_rows)) if case["where"][i] == "in"]
        if inside_bad:
            frac = len(inside_bad) / max(1, sum(1 for x in case["where"] if x == "in"))
            key = "D25" if abs(case["params"]["crval"][1]) >= 60 and frac <= 0.05 else "converge"
            out.append((key, "mode %s: no convergence for %d in-image point(s) %s of an axis-aligned WCS (Dec %.1f, scale %.1e, distortion order %s): divergent %s slow %s after %s iterations" %
                        (m, len(inside_bad), [case["pix"][i] for i in inside_bad[:2]], case["params"]["crval"][1], case["params"]["scale"],
                         case["params"]["dist"] and case["params"]["dist"]["order"], res.get("divergent"), res.get("slow_conv"), res.get("niter"))))
    if "nan_shift" in res and any(v is None or v > max(10 * tol, 2e-4) for v in res["nan_shift"]) and case.get("designed"):
        out.append(("nan_poison", "removing the NaN rows from the batch changes other rows' solutions by %s px" % max((v for v in res["nan_shift"] if v is not None), default=None)))
    return out[:4]


def request(case, res):
    if case.get("kind") == "nircam" or "trace" not in res:
        return None
    t = res["trace"]
    return {"tol2": t["tol2"], "kGeMax": t["kGeMax"], "detect": case["mode"]["detect_divergence"], "quiet": False, "rows": t["rows"]}


def compare(case, res, resp):
    if "ok" not in resp:
        return "model error %s" % resp
    o = resp["ok"]
    t = res["trace"]
    if not o["invariant"]:
        return "the solver's state at exit violates the loop invariant (a de-selected row that is neither converged, nor divergent, nor non-finite): k=%s" % t["k"]
    if not o["exit"]:
        return "the solver left its loops with rows still selected and iterations to spare (k=%s < maxiter=%s)" % (t["k"], case["mode"]["maxiter"])
    if o["divergent"] != t["final_div"] or o["slow"] != t["final_slow"]:
        return "classification differs: implementation divergent %s slow %s, model divergent %s slow %s (k=%s)" % (t["final_div"], t["final_slow"], o["divergent"], o["slow"], t["k"])
    if o["raises"] != res["raised"]:
        return "raise decision differs: implementation raised=%s, model %s (divergent %s, slow %s)" % (res["raised"], o["raises"], o["divergent"], o["slow"])
    return None


def nontrivial(case, res):
    if case.get("kind") == "nircam":
        return True
    return ("trace" in res and res["trace"]["k"] >= 2) or res["raised"]


def stats(case, res, st):
    if case.get("kind") == "nircam":
        st["nircam_points"] += res["npts"]
        return
    m = case["mode"]
    st["mode_a%d_d%d" % (m["adaptive"], m["detect_divergence"])] += 1
    st["maxiter_%d" % m["maxiter"]] += 1
    st["raised"] += bool(res["raised"])
    st["designed"] += bool(case.get("designed"))
    st["rows"] += len(case["pix"])
    st["rows_nan"] += len(case.get("nan_at", []))
    if "trace" in res:
        st["k_total"] += res["trace"]["k"]
        st["fallback_rescues"] += sum(1 for r in res["trace"]["rows"] if r[5])


def gen(rng, tier):
    q = tier == "quick"
    for a in (True, False):
        for d in (True, False):
            for tolr in ((1e-5,) if q else (1e-5, 1e-4, 1e-3)):
                yield {"kind": "nircam", "n": 9 if q else 45, "mode": {"adaptive": a, "detect_divergence": d, "maxiter": 50, "tolerance": tolr}}
    for _ in range(40 if q else 1500):
        p = S.gen_params(rng, distortion=True, aligned=True)
        if rng.random() < 0.8:
            p["crval"][1] = round(rng.uniform(-55, 55), 6)
        (x0, x1), (y0, y1) = p["bbox"]
        designed = rng.random() < 0.6
        if designed:
            # "pixel axes aligned with the sky axes": the convergence claim is made for |rotation| <= 0.5 deg only (at 1.5 deg the
            # plain fixed-point iteration already fails for a few points in the column through the reference pixel)
            p["rot"] = round(rng.choice([0.0, rng.uniform(-0.5, 0.5)]), 3)
        pix, where = [], []
        for _p in range(rng.randint(3, 12)):
            r = rng.random()
            if designed or r < 0.6:
                pix.append([rng.uniform(x0 + 1, x1 - 1), rng.uniform(y0 + 1, y1 - 1)])
                where.append("in")
            else:
                pix.append([rng.uniform(x0, x1) + rng.choice([-1, 1]) * rng.uniform(2000, 60000), rng.uniform(y0, y1) + rng.choice([-1, 1]) * rng.uniform(2000, 60000)])
                where.append("far")
        if rng.random() < 0.25 or _ % 10 == 7:
            # field straddling the RA = 0/360 meridian: points within about a pixel of it (the longitude difference must be wrapped
            # symmetrically on both sides)
            p["crval"][0] = 0.0
            if rng.random() < 0.5 or _ % 10 == 7:
                # ... and the meridian through the centre of the bounding box (where the solver samples the pixel scale)
                p["crpix"] = [(x0 + x1) / 2 + rng.choice([0.0, 0.25, -0.25]), (y0 + y1) / 2 + rng.choice([0.0, 3.0])]
            for _m in range(80):
                xm = p["crpix"][0] + rng.uniform(-3.0, 3.0)
                ym = rng.uniform(y0 + 1, y1 - 1)
                pix.append([xm, ym])
                where.append("in" if x0 + 1 <= xm <= x1 - 1 else "far")
        nan_at = [rng.randrange(len(pix))] if rng.random() < 0.35 else []
        for i in nan_at:
            where[i] = "nan"
        anti = [i for i in range(len(pix)) if i not in nan_at and rng.random() < 0.08] if not designed else []
        for i in anti:
            where[i] = "far"
        if designed:
            mode = {"adaptive": rng.random() < 0.5, "detect_divergence": rng.random() < 0.5, "maxiter": 50, "tolerance": rng.choice([1e-5, 1e-5, 1e-4, 1e-3])}
        else:
            mode = {"adaptive": rng.random() < 0.5, "detect_divergence": rng.random() < 0.5, "maxiter": rng.choice([1, 2, 3, 5, 20, 50]),
                    "tolerance": rng.choice([1e-5, 1e-7, 1e-3, 1e-9])}
        yield {"params": p, "pix": pix, "where": where, "nan_at": nan_at, "antipode_at": anti, "mode": mode, "designed": designed}
