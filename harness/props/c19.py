"""C19 — the package's analytic models satisfy their defining identities (gwcs/geometry.py, gwcs/spectroscopy.py)."""
import math
import os
import subprocess
import sys

import numpy as np
import astropy.units as u

import common as C
from gwcs import geometry, spectroscopy

PROP = "C19"
LEAN_MODULE = "GwcsProofs.C19b"
SOURCES = ["GwcsModel/ANum.lean", "GwcsModel/Analytic.lean", "GwcsModel/Generated/Analytic.lean", "GwcsProofs/C19.lean", "GwcsProofs/C19b.lean"]
THEOREMS = [
    "Gwcs.C19.s2c_unit_norm",
    "Gwcs.C19.dircos_normalised",
    "Gwcs.C19.dircos_inverse_pair",
    "Gwcs.C19.dircos_from_to",
    "Gwcs.C19.grating_wavelength_eq",
    "Gwcs.C19.grating_angles_eq",
    "Gwcs.C19.grating_unit_triple",
    "Gwcs.C19.snell_eq",
    "Gwcs.C19.snell_unit_triple",
    "Gwcs.C19.sellmeier_glass_formula",
    "Gwcs.C19.zemax_reduces_to_glass",
    "Gwcs.C19.sellmeier_zemax_formula",
    "Gwcs.C19.c2s_lat_range",
    "Gwcs.C19.c2s_pole_lon_zero",
    "Gwcs.C19.c2s_lon_range_180",
    "Gwcs.C19.c2s_lon_range_360",
    "Gwcs.C19.s2c_periodic",
    "Gwcs.C19.c2s_inverse",
]
RULE = ("case = (model, inputs): lon/lat incl. poles, wrap boundaries, beyond one turn; cartesian vectors incl. axis-aligned, zero-length, "
        "negative zeros; both wrap settings; grating/Snell inputs incl. orders != +-1; Sellmeier coefficient sets x temperatures/pressures; each "
        "evaluated as scalar, as array and with quantity inputs; non-trivial = inputs off the axes/poles (poles/wraps counted separately); "
        "distinct by parameter tuple")
TRUSTED = ["harness/translate.py (Python AST -> Lean, whitelist, fails closed) regenerating GwcsModel/Generated/Analytic.lean on every run",
           "generated definitions executed at Float against the Python functions (<= 4 ulp); libm rounding named, not proved"]
ASSUMPTIONS = ["real-number semantics for the identities; IEEE rounding of sin/cos/sqrt/atan2 outside the theorems"]


def prepare(tier):
    p = subprocess.run([sys.executable, os.path.join(C.VERIF, "harness", "translate.py")], capture_output=True, text=True)
    return p.returncode == 0, (p.stdout + p.stderr).strip()


def _f(v):
    v = float(v)
    return "nan" if v != v else C.f2w(v)


def _unf(s):
    return float("nan") if s == "nan" else C.w2f(s)


def _vals(r):
    r = r if isinstance(r, tuple) else (r,)
    return [_f(getattr(x, "value", x)) for x in r]


B0 = [0.58339748, 0.46085267, 3.8915394]
C0 = [0.00252643, 0.010078333, 1200.556]


def _model(case):
    k = case["fn"]
    if k == "toDirectionCosines":
        return geometry.ToDirectionCosines()
    if k == "fromDirectionCosines":
        return geometry.FromDirectionCosines()
    if k == "sphericalToCartesian":
        return geometry.SphericalToCartesian(wrap_lon_at=360 if case.get("wrap360", True) else 180)
    if k == "cartesianToSpherical":
        return geometry.CartesianToSpherical(wrap_lon_at=360 if case.get("wrap360", True) else 180)
    if k == "wavelengthFromGrating":
        return spectroscopy.WavelengthFromGratingEquation(groove_density=case["d"], spectral_order=case["m"])
    if k == "anglesFromGrating3D":
        return spectroscopy.AnglesFromGratingEquation3D(groove_density=case["d"], spectral_order=case["m"])
    if k == "snell3D":
        return spectroscopy.Snell3D()
    if k == "sellmeierGlass":
        return spectroscopy.SellmeierGlass(B_coef=case["B"], C_coef=case["C"])
    if k == "sellmeierZemax":
        return spectroscopy.SellmeierZemax(case["T"], case["Tr"], case["Pr"], case["P"], case["B"], case["C"], case["D"], case["E"])


UNITS = {"sphericalToCartesian": [u.deg, u.deg], "cartesianToSpherical": [u.one, u.one, u.one]}


def impl(case):
    m = _model(case)
    args = case["args"]
    res = {}
    try:
        res["scalar"] = _vals(m(*[float(a) for a in args]))
    except Exception as e:
        res["scalar_err"] = C.exc_enum(e) + ":" + str(e)[:80]
    # the same point inside an array batch (position 1 of 3, other points different)
    others = case["batch"]
    try:
        cols = [np.array([o[i] for o in others[:1]] + [args[i]] + [o[i] for o in others[1:]], dtype=float) for i in range(len(args))]
        keep = [c.copy() for c in cols]
        r = m(*cols)
        r = r if isinstance(r, tuple) else (r,)
        res["array_elem"] = [_f(np.asarray(getattr(x, "value", x))[1]) for x in r]
        res["array_shape_ok"] = all(np.shape(x) == (3,) for x in r)
        res["args_intact"] = all(np.array_equal(a, b, equal_nan=True) for a, b in zip(cols, keep))
        res["array_all"] = [[_f(np.asarray(getattr(x, "value", x))[k]) for x in r] for k in range(3)]
        # point-by-point answers of the other batch members
        res["others_scalar"] = [_vals(m(*[float(a) for a in o])) for o in others]
        # the same three points laid out in 2-D / 3-D arrays: same shape out, same value per element
        nd = []
        for sh in ((3, 2), (2, 3), (1, 3), (3, 3), (2, 3, 2)):
            idx = np.arange(int(np.prod(sh))).reshape(sh) % 3
            try:
                rn = m(*[c[idx] for c in cols])
                rn = rn if isinstance(rn, tuple) else (rn,)
                ok = all(np.shape(x) == sh for x in rn) and all(
                    np.array_equal(np.asarray(getattr(x, "value", x)), np.asarray(getattr(y, "value", y))[idx], equal_nan=True) for x, y in zip(rn, r))
                nd.append([list(sh), "ok" if ok else "differs:" + str([list(np.shape(x)) for x in rn])])
            except Exception as e:
                nd.append([list(sh), "raised " + type(e).__name__ + ": " + str(e)[:60]])
        res["nd"] = nd
        # a broadcastable mix whose sizes happen to coincide: the first input as a column (3, 1), the others as rows (3,): every pairing,
        # i.e. the same values and shapes as for the inputs broadcast beforehand
        if len(cols) >= 2:
            try:
                mix = [cols[0].reshape(3, 1)] + [c.copy() for c in cols[1:]]
                if len(cols) >= 3 and (case.get("mix_last") or case.get("_mix_alt")):
                    mix = [c.copy() for c in cols[:-1]] + [cols[-1].reshape(3, 1)]     # (the column is the LAST input this time)
                rm = m(*mix)
                rm = rm if isinstance(rm, tuple) else (rm,)
                rf = m(*[np.array(x) for x in np.broadcast_arrays(*mix)])
                rf = rf if isinstance(rf, tuple) else (rf,)
                # (every output in the common shape: one that depends on a single input is broadcast too)
                okm = all(np.shape(x) == (3, 3) and np.array_equal(np.asarray(getattr(x, "value", x)), np.asarray(getattr(y, "value", y)), equal_nan=True)
                          for x, y in zip(rm, rf))
                res["mix"] = "ok" if okm else "differs: shapes %s" % [list(np.shape(x)) for x in rm]
            except Exception as e:
                res["mix"] = "raised " + type(e).__name__ + ": " + str(e)[:60]
    except Exception as e:
        res["array_err"] = C.exc_enum(e) + ":" + str(e)[:80]
    if case["fn"] in UNITS:
        try:
            q = m(*[float(a) * un for a, un in zip(args, UNITS[case["fn"]])])
            q = q if isinstance(q, tuple) else (q,)
            res["quantity"] = [_f(x.to_value(u.deg) if case["fn"] == "cartesianToSpherical" else getattr(x, "value", x)) for x in q]
        except Exception as e:
            res["quantity_err"] = C.exc_enum(e) + ":" + str(e)[:80]
    if case["fn"] == "cartesianToSpherical":
        # the components of a vector given in different (convertible) units
        try:
            x, y, z = [float(a) for a in args]
            q = m(x * u.m, (y * 100.0) * u.cm, (z / 1000.0) * u.km)
            res["quantity_mixed"] = [_f(v.to_value(u.deg)) for v in q]
        except Exception as e:
            res["quantity_mixed_err"] = C.exc_enum(e) + ":" + str(e)[:80]
    if case["fn"] in ("sphericalToCartesian", "cartesianToSpherical"):
        # the wrap convention is a public attribute: after changing it, the declared inverse follows
        try:
            m2 = _model(case)
            _first = m2.inverse
            new_wrap = 180 if m2.wrap_lon_at == 360 else 360
            m2.wrap_lon_at = new_wrap
            res["rewrap_inverse"] = int(m2.inverse.wrap_lon_at) == new_wrap
        except Exception as e:
            res["rewrap_err"] = C.exc_enum(e) + ":" + str(e)[:80]
    if case["fn"] in ("sphericalToCartesian", "cartesianToSpherical"):
        # an assignment that is refused leaves the model as configured: same answer, same declared inverse
        try:
            m3 = _model(case)
            before = _vals(m3(*[float(a) for a in args]))
            refused = []
            for bad in (180.0, 360.0, True, "180", 90):
                try:
                    m3.wrap_lon_at = bad
                    refused.append(False)
                except ValueError:
                    refused.append(True)
            after = _vals(m3(*[float(a) for a in args]))
            res["refused_wrap"] = {"all_refused": all(refused), "same": before == after, "attr": m3.wrap_lon_at == (360 if case.get("wrap360", True) else 180),
                                   "inverse_ok": int(m3.inverse.wrap_lon_at) == (360 if case.get("wrap360", True) else 180)}
        except Exception as e:
            res["refused_wrap"] = {"err": C.exc_enum(e) + ":" + str(e)[:80]}
    # declared inverse
    try:
        inv = m.inverse
        if "scalar" in res:
            back = inv(*[_unf(v) for v in res["scalar"]])
            res["inverse"] = _vals(back)
    except NotImplementedError:
        pass
    except Exception as e:
        res["inverse_err"] = C.exc_enum(e)
    return res


def _close(a, b, rel=1e-12, ab=1e-13):
    if a != a or b != b:
        return (a != a) and (b != b)
    return abs(a - b) <= ab + rel * max(abs(a), abs(b))


def _glass(lam, B, Cc):
    return math.sqrt(1.0 + sum(b * lam ** 2 / (lam ** 2 - c) for b, c in zip(B, Cc)))


def _zemax(lam, T, Tr, Pr, P, B, Cc, D, E):
    t, tr = T - 273.15, Tr - 273.15
    dt = t - tr
    nref = 1.0 + (6432.8 + 2949810.0 * lam ** 2 / (146.0 * lam ** 2 - 1.0) + 5540.0 * lam ** 2 / (41.0 * lam ** 2 - 1.0)) * 1e-8
    nobs = 1.0 + (nref - 1.0) * P / (1.0 + (t - 15.0) * 3.4785e-3)
    nrf = 1.0 + (nref - 1.0) * Pr / (1.0 + (tr - 15.0) * 3.4785e-3)
    lrel = lam * nobs / nrf
    nrel = _glass(lrel, B, Cc)
    dn = 0.5 * (nrel ** 2 - 1.0) / nrel * (D[0] * dt + D[1] * dt ** 2 + D[2] * dt ** 3 + (E[0] * dt + E[1] * dt ** 2) / (lrel ** 2 - E[2] ** 2))
    return (nrel * nrf + dn) / nobs


def oracle(case, res):
    out = []
    fn, a = case["fn"], [float(v) for v in case["args"]]
    if "scalar_err" in res:
        return [("raise", "%s(%s) raised %s" % (fn, a, res["scalar_err"]))]
    s = [_unf(v) for v in res["scalar"]]
    if "array_err" in res:
        out.append(("array", "%s raised on an array batch: %s" % (fn, res["array_err"])))
    else:
        if res["array_elem"] != res["scalar"]:
            out.append(("batch", "%s%s: element inside an array batch gives %s, alone gives %s" % (fn, a, [_unf(v) for v in res["array_elem"]], s)))
        if res["array_all"][0] != res["others_scalar"][0] or res["array_all"][2] != res["others_scalar"][1]:
            out.append(("batch", "%s: array answers differ from point-by-point answers for batch %s" % (fn, case["batch"])))
        if not res["array_shape_ok"]:
            out.append(("shape", "%s: output shape differs from input shape" % fn))
        if not res["args_intact"]:
            out.append(("args", "%s modified its input arrays" % fn))
        for sh, verdict in res.get("nd", []):
            if verdict != "ok":
                out.append(("shape_nd", "%s on inputs of shape %s: %s (element-wise values / shape must match the 1-D evaluation)" % (fn, sh, verdict)))
                break
    rw = res.get("refused_wrap")
    if rw is not None and ("err" in rw or not (rw["all_refused"] and rw["same"] and rw["attr"] and rw["inverse_ok"])):
        out.append(("refused_wrap", "%s: after refused assignments to wrap_lon_at (180.0, 360.0, True, '180', 90) the model is not as configured: %s" % (fn, rw)))
    if res.get("mix", "ok") != "ok":
        out.append(("broadcast", "%s with the first input as a (3, 1) column and the others as (3,) rows: %s (every pairing must come out as for inputs "
                                 "broadcast beforehand)" % (fn, res["mix"])))
    if "quantity" in res and not all(_close(_unf(x), y, 1e-13, 1e-13) for x, y in zip(res["quantity"], s)):
        out.append(("quantity", "%s%s: quantity inputs give %s, plain inputs %s" % (fn, a, [_unf(v) for v in res["quantity"]], s)))
    if "quantity_mixed" in res and not all(_close(_unf(x), y, 1e-12, 1e-10) for x, y in zip(res["quantity_mixed"], s)):
        out.append(("quantity", "%s%s: components given in m / cm / km give %s, plain inputs %s" % (fn, a, [_unf(v) for v in res["quantity_mixed"]], s)))
    if "quantity_mixed_err" in res:
        out.append(("quantity", "%s raised on components in mixed units: %s" % (fn, res["quantity_mixed_err"])))
    if res.get("rewrap_inverse") is False or "rewrap_err" in res:
        out.append(("inverse_wrap", "%s: after changing wrap_lon_at the declared inverse keeps the old convention (%s)" % (fn, res.get("rewrap_err", "stale"))))
    if "quantity_err" in res:
        out.append(("quantity", "%s raised on quantity inputs: %s" % (fn, res["quantity_err"])))
    if fn == "sphericalToCartesian":
        if not _close(sum(v * v for v in s), 1.0):
            out.append(("unit_norm", "s2c%s = %s is not on the unit sphere" % (a, s)))
        if "inverse" in res:
            lon, lat = [_unf(v) for v in res["inverse"]]
            w = 360.0 if case.get("wrap360", True) else 180.0
            ok_lat = _close(lat, a[1], 1e-10, 1e-9) if abs(a[1]) <= 90 else True
            if abs(a[1]) <= 90 and abs(abs(a[1]) - 90) > 1e-6:
                d = (lon - a[0]) % 360.0
                if not (min(d, 360 - d) < 1e-8 and ok_lat):
                    out.append(("inverse", "c2s(s2c(%s)) = %s" % (a, [lon, lat])))
    if fn == "cartesianToSpherical":
        lon, lat = s
        if all(math.isfinite(v) for v in a):
            if not (-90 <= lat <= 90):
                out.append(("lat_range", "c2s%s latitude %r outside [-90, 90]" % (a, lat)))
            if case.get("wrap360", True):
                if lon == 360.0 and a[0] > 0 and -1e-9 * a[0] < a[1] < 0:
                    # finding D43: a longitude a hair below zero is rounded up to the period itself by np.mod
                    out.append(("D43", "c2s%s longitude is 360.0, outside [0, 360)" % (a,)))
                elif not (0 <= lon < 360):
                    out.append(("lon_range", "c2s%s longitude %r outside [0, 360)" % (a, lon)))
            elif not (-180 <= lon <= 180):
                out.append(("lon_range", "c2s%s longitude %r outside [-180, 180]" % (a, lon)))
            if a[0] == 0 and a[1] == 0 and not (lon == 0):
                out.append(("pole", "c2s%s: pole/zero vector must map to longitude 0, got %r" % (a, lon)))
            mx = max(abs(v) for v in a)
            r = mx * math.sqrt(sum((v / mx) * (v / mx) for v in a)) if mx > 0 else 0.0      # (no under/overflow for very short / long vectors)
            if mx > 0 and case.get("special") == "scaled":
                # direction is independent of length: compare with the answer for the same vector at unit scale
                u_ = [v / mx for v in a]
                lon_u = math.degrees(math.atan2(u_[1], u_[0]))
                lat_u = math.degrees(math.atan2(u_[2], math.hypot(u_[0], u_[1])))
                if case.get("wrap360", True):
                    lon_u %= 360.0
                dl = abs(lon - lon_u) % 360.0
                if not (min(dl, 360.0 - dl) < 1e-9 and abs(lat - lat_u) < 1e-9):
                    out.append(("scale", "c2s%s = %s, the same direction at unit length gives %s" % (a, [lon, lat], [lon_u, lat_u])))
            if r > 0 and "inverse" in res:
                back = [_unf(v) for v in res["inverse"]]
                if not all(_close(b, v / r, 1e-12, 1e-12) for b, v in zip(back, a)):
                    out.append(("inverse", "s2c(c2s(%s)) = %s, expected the normalised vector %s" % (a, back, [v / r for v in a])))
    if fn == "toDirectionCosines":
        if not _close(s[0] ** 2 + s[1] ** 2 + s[2] ** 2, 1.0):
            out.append(("dircos_norm", "direction cosines %s of %s are not normalised" % (s[:3], a)))
        if "inverse" in res and a[2] == 1.0:
            back = [_unf(v) for v in res["inverse"]]
            if not all(_close(b, v) for b, v in zip(back, a)):
                out.append(("inverse", "FromDirectionCosines(ToDirectionCosines(%s)) = %s" % (a, back)))
    if fn == "wavelengthFromGrating":
        if not _close(s[0] * case["d"] * case["m"], a[0] + a[1], 1e-12, 1e-15):
            out.append(("grating", "wavelength %r * d %r * m %r != alpha_in + alpha_out = %r" % (s[0], case["d"], case["m"], a[0] + a[1])))
    if fn == "anglesFromGrating3D":
        ao = a[1] - case["d"] * case["m"] * a[0]
        if not (_close(s[0], ao, 1e-12, 1e-15) and _close(s[1], -a[2])):
            out.append(("grating", "angles %s do not obey the grating law (alpha_out should be %r, beta_out %r)" % (s, ao, -a[2])))
        if 1 - s[0] ** 2 - s[1] ** 2 >= 0 and not _close(sum(v * v for v in s), 1.0):
            out.append(("unit_triple", "grating output %s is not a unit triple" % s))
    if fn == "snell3D":
        if not (_close(s[0] * a[0], a[1]) and _close(s[1] * a[0], a[2])):
            out.append(("snell", "n*alpha_out, n*beta_out = %r, %r vs inputs %r, %r" % (s[0] * a[0], s[1] * a[0], a[1], a[2])))
        if 1 - s[0] ** 2 - s[1] ** 2 >= 0 and not _close(sum(v * v for v in s), 1.0):
            out.append(("unit_triple", "Snell output %s is not a unit triple" % s))
    if fn == "sellmeierGlass":
        want = _glass(a[0], case["B"], case["C"])
        if not _close(s[0], want):
            out.append(("sellmeier", "SellmeierGlass(%r) = %r, formula gives %r" % (a[0], s[0], want)))
    if fn == "sellmeierZemax":
        want = _zemax(a[0], case["T"], case["Tr"], case["Pr"], case["P"], case["B"], case["C"], case["D"], case["E"])
        if not _close(s[0], want, 1e-11):
            out.append(("sellmeier", "SellmeierZemax(%r; T=%s Tr=%s Pr=%s P=%s) = %r, published chain gives %r" %
                        (a[0], case["T"], case["Tr"], case["Pr"], case["P"], s[0], want)))
    return out[:4]


def request(case, res):
    r = {"fn": case["fn"], "args": [C.f2w(float(v)) for v in case["args"]]}
    if "wrap360" in case:
        r["wrap360"] = case["wrap360"]
    for k in "BCDE":
        if k in case:
            r[k] = [C.f2w(float(v)) for v in case[k]]
    if case["fn"] in ("wavelengthFromGrating", "anglesFromGrating3D"):
        r["args"] = r["args"] + [C.f2w(float(case["d"])), C.f2w(float(case["m"]))]
    if case["fn"] == "sellmeierZemax":
        r["args"] = r["args"] + [C.f2w(float(case[k])) for k in ("T", "Tr", "Pr", "P")]
    return r


def compare(case, res, resp):
    if "scalar" not in res:
        return None
    if "ok" not in resp:
        return "model error %s" % resp
    mv = [_unf(v) for v in resp["ok"]]
    sv = [_unf(v) for v in res["scalar"]]
    for x, y in zip(sv, mv):
        if not _close(x, y, 8e-16, 1e-15 if case["fn"] != "cartesianToSpherical" else 1e-13):
            # sin/cos near multiples of pi: absolute error of the argument reduction dominates
            if case["fn"] == "sphericalToCartesian" and abs(x - y) < 1e-15 * max(1.0, abs(case["args"][0]), abs(case["args"][1])):
                continue
            return "%s%s: implementation %s, generated/hand model at Float %s" % (case["fn"], case["args"], sv, mv)
    return None


def nontrivial(case, res):
    a = [float(v) for v in case["args"]]
    return all(v != 0 and math.isfinite(v) for v in a) and not case.get("special")


def stats(case, res, st):
    st["fn_" + case["fn"]] += 1
    if case.get("special"):
        st["special_" + case["special"]] += 1


def _gen_cases(rng, tier):
    n = 60 if tier == "quick" else 3000

    def batch(k, lo=-3.0, hi=3.0):
        b = [[rng.uniform(lo, hi) for _ in range(k)] for _b in range(2)]
        if rng.random() < 0.2:
            # a companion with a NaN component: it answers NaN, the others answer as they do alone
            b[rng.randrange(2)][rng.randrange(k)] = float("nan")
        return b
    for _ in range(n):
        w = rng.random() < 0.5
        sp = rng.choice([None, None, "pole", "wrap", "turns"])
        lon, lat = rng.uniform(-180, 360), rng.uniform(-90, 90)
        if sp == "pole":
            lat = rng.choice([90.0, -90.0])
        elif sp == "wrap":
            lon = rng.choice([0.0, 360.0, 180.0, -180.0, 359.99999999999994, 1e-300])
        elif sp == "turns":
            lon = rng.uniform(-2000, 2000)
        yield {"fn": "sphericalToCartesian", "args": [lon, lat], "wrap360": w, "batch": [[rng.uniform(0, 360), rng.uniform(-90, 90)] for _b in range(2)], "special": sp}
        sp = rng.choice([None, None, "axis", "zero", "negzero", "pole"])
        v = [rng.uniform(-5, 5) for _i in range(3)]
        if sp == "axis":
            i = rng.randrange(3)
            v = [0.0, 0.0, 0.0]
            v[i] = rng.choice([1.0, -2.5])
        elif sp == "zero":
            v = [0.0, 0.0, 0.0]
        elif sp == "negzero":
            v = [rng.choice([-0.0, 0.0]), rng.choice([-0.0, 0.0]), rng.choice([1.0, -1.0, 0.0])]
        elif sp == "pole":
            v = [0.0, 0.0, rng.choice([3.0, -0.5])]
        yield {"fn": "cartesianToSpherical", "args": v, "wrap360": rng.random() < 0.5, "batch": batch(3), "special": sp}
        if rng.random() < 0.3:
            # next to a pole: the latitude must keep its absolute accuracy there (atan2 does, asin of a ratio close to 1 does not)
            e_ = 10.0 ** rng.uniform(-7, -3)
            yield {"fn": "cartesianToSpherical", "args": [rng.choice([-1, 1]) * e_, rng.choice([-1, 1]) * e_ * rng.uniform(0.1, 1), rng.choice([-1.0, 1.0])],
                   "wrap360": rng.random() < 0.5, "batch": batch(3), "special": "near_pole"}
        if rng.random() < 0.15:
            # a hair below the positive x axis: the longitude is a tiny negative angle before it is wrapped
            yield {"fn": "cartesianToSpherical", "args": [rng.uniform(0.5, 5), -10.0 ** rng.uniform(-300, -17), rng.uniform(-2, 2)], "wrap360": True,
                   "batch": batch(3), "special": "hair_below_x"}
        # very short and very long vectors: the direction does not depend on the length
        k2 = rng.choice([-1, 1]) * rng.randint(300, 680)
        vs = [math.ldexp(rng.uniform(-5, 5), k2) for _i in range(3)]
        yield {"fn": "cartesianToSpherical", "args": vs, "wrap360": rng.random() < 0.5, "batch": [[math.ldexp(rng.uniform(-3, 3), k2) for _ in range(3)] for _b in range(2)],
               "special": "scaled"}
        yield {"fn": "toDirectionCosines", "args": [rng.uniform(-3, 3), rng.uniform(-3, 3), rng.choice([1.0, 1.0, rng.uniform(-2, 2)])], "batch": batch(3)}
        # near-grazing directions: |x|, |y| large against the unit third component
        steep = [rng.choice([-1, 1]) * 10 ** rng.uniform(2, 7), rng.choice([-1, 1]) * 10 ** rng.uniform(-2, 7), 1.0]
        rng.shuffle(steep[:2])
        yield {"fn": "toDirectionCosines", "args": steep, "batch": batch(3), "special": "steep", "mix_last": True}
        yield {"fn": "fromDirectionCosines", "args": [rng.uniform(-1, 1), rng.uniform(-1, 1), rng.uniform(0.1, 1), rng.uniform(0.5, 4)], "batch": batch(4, 0.1, 1.0)}
        d, m = rng.choice([20000.0, 95000.0, 3.0e5]), float(rng.choice([1, -1, 2, -2, 3]))
        yield {"fn": "wavelengthFromGrating", "args": [rng.uniform(-0.5, 0.5), rng.uniform(-0.5, 0.5)], "d": d, "m": m, "batch": batch(2, -0.5, 0.5)}
        yield {"fn": "anglesFromGrating3D", "args": [rng.uniform(0.5e-6, 5e-6), rng.uniform(-0.3, 0.3), rng.uniform(-0.3, 0.3)], "d": d, "m": m,
               "batch": [[rng.uniform(0.5e-6, 5e-6), rng.uniform(-0.3, 0.3), rng.uniform(-0.3, 0.3)] for _b in range(2)]}
        yield {"fn": "snell3D", "args": [rng.uniform(1.0, 2.5), rng.uniform(-0.6, 0.6), rng.uniform(-0.6, 0.6), rng.uniform(0.1, 1)],
               "batch": [[rng.uniform(1.0, 2.5), rng.uniform(-0.6, 0.6), rng.uniform(-0.6, 0.6), rng.uniform(0.1, 1)] for _b in range(2)]}
        B = [b * rng.uniform(0.8, 1.2) for b in B0]
        Cc = [c * rng.uniform(0.8, 1.2) for c in C0]
        yield {"fn": "sellmeierGlass", "args": [rng.uniform(0.6, 5.3)], "B": B, "C": Cc, "batch": batch(1, 0.6, 5.3)}
        yield {"fn": "sellmeierZemax", "args": [rng.uniform(0.6, 5.3)], "B": B, "C": Cc,
               "D": [-2.66e-05 * rng.uniform(0.5, 2), rng.choice([0.0, 1e-8]), rng.choice([0.0, -1e-11])],
               "E": [rng.choice([0.0, 4.5e-7]), rng.choice([0.0, 3e-10]), 0.26], "T": rng.choice([35.0, 65.0, 293.15, 310.0]),
               "Tr": rng.choice([35.0, 293.15]), "Pr": rng.choice([0.0, 1.0, 0.9]), "P": rng.choice([0.0, 1.0, 0.5]), "batch": batch(1, 0.6, 5.3)}


def gen(rng, tier):
    # every second case with three or more inputs: the broadcast probe puts the column LAST instead of first
    for i, c in enumerate(_gen_cases(rng, tier)):
        # (the grating model asks for alpha_in and beta_in of one shape and says so: its column stays the wavelength)
        if i % 2 == 1 and len(c.get("args", [])) >= 3 and c.get("fn") != "anglesFromGrating3D":
            c["_mix_alt"] = True
        yield c
