"""C15 — region selection applies to each point the transform of its own region (gwcs/selector.py, gwcs/utils.py)."""
import math
from fractions import Fraction

import numpy as np
from astropy.modeling import models

import common as C
from gwcs import selector

PROP = "C15"
LEAN_MODULE = "GwcsProofs.C15"
SOURCES = ["GwcsModel/Basic.lean", "GwcsModel/Api.lean", "GwcsModel/Selector.lean", "GwcsProofs/C15.lean"]
THEOREMS = [
    "Gwcs.Sel.array_cell",
    "Gwcs.Sel.array_far_edge_x",
    "Gwcs.Sel.array_far_edge_y",
    "Gwcs.Sel.disjoint_of_not_overlapping",
    "Gwcs.Sel.range_unique",
    "Gwcs.Sel.range_outside",
    "Gwcs.Sel.range_nan",
    "Gwcs.Sel.overlap_refused",
    "Gwcs.Sel.dict_within_tol",
    "Gwcs.Sel.dict_none_within",
    "Gwcs.Sel.dict_nan",
    "Gwcs.Sel.scatter_gather_eq",
    "Gwcs.Sel.selector_pointwise",
    "Gwcs.Sel.selectorEvalBy_eq",
    "Gwcs.Sel.set_input_lookup",
]
RULE = ("cases: label arrays up to 9x11 (int and str labels) with points at cell centres, on cell boundaries, one ulp either side, beyond the far "
        "edges; range tables (disjoint, touching, overlapping, shared starts, reversed) with keys inside/at end points/between/beyond/NaN; dict "
        "tables with keys within/just outside tolerance/NaN; region selectors (array- and NaN-no-label mappers) with labels lacking transforms, "
        "finite and NaN undefined values, scalar/1-D/2-D batches, set_input; non-trivial = batch hits >= 2 labels and >= 1 unlabelled point, or a "
        "boundary point; distinct by case hash")
TRUSTED = ["harness/props/c15.py correspondence (exact labels / exact dyadic outputs)", "numpy fancy indexing semantics (modelled: negative wrap, IndexError)"]
ASSUMPTIONS = ["registered region transforms are pointwise maps (astropy models)"]


def _lab2int(mask_labels):
    uniq = []
    for v in mask_labels:
        if v not in uniq:
            uniq.append(v)
    return uniq


def _err(e):
    if type(e).__name__ == "LabelMapperArrayIndexingError":
        return "indexErr"
    if type(e).__name__ == "RegionError":
        return "valueErr"
    return C.exc_enum(e)


def _mk_mask(case):
    m = np.array(case["mask"])
    if case.get("strlabels"):
        m = np.array([["" if v == 0 else "R%d" % v for v in row] for row in case["mask"]])
    return m


def _unlab(v):
    if isinstance(v, (str, np.str_)):
        return 0 if v == "" else int(str(v)[1:])
    return int(v)


def impl(case):
    k = case["kind"]
    if k == "array":
        lm = selector.LabelMapperArray(_mk_mask(case))
        per = []
        for x, y in case["pts"]:
            try:
                per.append({"ok": _unlab(lm(x, y))})
            except Exception as e:
                per.append({"err": _err(e)})
        res = {"per": per}
        good = [p for p, r in zip(case["pts"], per) if "ok" in r]
        if good:
            xs, ys = np.array([p[0] for p in good]), np.array([p[1] for p in good])
            try:
                r = lm(xs, ys)
                res["batch"] = [_unlab(v) for v in np.asarray(r).ravel()]
                res["batch_shape"] = list(np.shape(r))
            except Exception as e:
                res["batch_err"] = _err(e)
        return res
    if k == "range":
        try:
            vary = case.get("vary")
            # vary: the label transform depends on the input (label = 1000 * lab + 8 * key: whole numbers for the dyadic keys used), as a
            # mapper that computes slit numbers from positions does; decoded back to `lab` below, anything else shows as -999
            mp = {(float(C.w2q(lo)), float(C.w2q(hi))): (models.Polynomial1D(1, c0=1000.0 * lab, c1=8.0) if vary else models.Const1D(lab))
                  for lo, hi, lab in case["ranges"]}
            lm = selector.LabelMapperRange(("x",), mp, inputs_mapping=models.Mapping((0,)))
        except Exception as e:
            return {"err": _err(e)}
        keys = np.array([float("nan") if kk == "nan" else float(C.w2q(kk)) for kk in case["keys"]])

        def dec(v, key):
            v = float(v)
            if not vary or v == 0:
                return int(v)
            for _lo, _hi, lab in case["ranges"]:
                if v == 1000.0 * lab + 8.0 * key:
                    return int(lab)
            return -999
        try:
            r = lm(keys)
            out = {"labels": [dec(v, kf) for v, kf in zip(np.asarray(r).ravel(), keys)], "shape": list(np.shape(r))}
            out["scalar"] = [dec(lm(float(v)), float(v)) for v in keys]
            return out
        except Exception as e:
            return {"eval_err": _err(e)}
    if k == "dict":
        mp = {float(C.w2q(kk)): models.Const1D(lab) for kk, lab in case["keys"]}
        lm = selector.LabelMapperDict(("x",), mp, inputs_mapping=models.Mapping((0,)), atol=float(C.w2q(case["atol"])))
        xs = np.array([float("nan") if v == "nan" else float(C.w2q(v)) for v in case["xs"]])
        try:
            r = lm(xs)
            out = {"labels": [int(v) for v in np.asarray(r).ravel()], "shape": list(np.shape(r))}
            # the same eight inputs as a 2-D batch in C order, Fortran order and as a transposed view: same labels, element by element
            lay = []
            for nm_, arr in (("C", xs.reshape(2, 4)), ("F", np.asfortranarray(xs.reshape(2, 4))), ("T", xs.reshape(4, 2).T)):
                r2 = np.asarray(lm(arr))
                want = np.asarray(r).reshape(2, 4) if nm_ != "T" else np.asarray(r).reshape(4, 2).T
                lay.append([nm_, bool(r2.shape == (2, 4) and np.array_equal(r2, want))])
            out["layouts"] = lay
            return out
        except Exception as e:
            return {"eval_err": _err(e)}
    # selector
    sel = {}
    nout = case.get("nout", 2)
    off = case.get("label_offset", 0) if case["mapper"] != "array" else 0      # large, close-valued float labels (slice ids like 301002)
    for lab0, ax, bx, ay, by in case["sel"]:
        lab = lab0 + off
        if nout == 3:   # more outputs than inputs (x, y) -> (a, b, a): the IFU case (x, y) -> (ra, dec, lambda)
            sel[lab] = ((models.Scale(float(C.w2q(ax))) | models.Shift(float(C.w2q(bx)))) & (models.Scale(float(C.w2q(ay))) | models.Shift(float(C.w2q(by))))) | models.Mapping((0, 1, 0))
        elif nout == 1:   # transforms with a single output
            sel[lab] = models.Mapping((0,), n_inputs=2) | models.Scale(float(C.w2q(ax))) | models.Shift(float(C.w2q(bx)))
        else:
            sel[lab] = (models.Scale(float(C.w2q(ax))) | models.Shift(float(C.w2q(bx)))) & (models.Scale(float(C.w2q(ay))) | models.Shift(float(C.w2q(by))))
    undef = float("nan") if case["undef"] == "nan" else float(case["undef"])
    undef_arg = int(undef) if case.get("undef_int") else undef     # an integer undefined value must not make the outputs integer
    if case["mapper"] == "array":
        lm = selector.LabelMapperArray(np.array(case["mask"]))
    else:
        # a generic LabelMapper whose "no label" is NaN: label looked up from a table along x, NaN outside of it
        tab = models.Tabular1D(points=np.arange(len(case["xlabels"]), dtype=float), lookup_table=np.array(case["xlabels"], dtype=float) + off,
                               method="nearest", bounds_error=False, fill_value=np.nan)
        lm = selector.LabelMapper(("x", "y"), tab, inputs_mapping=models.Mapping((0,), n_inputs=2))
    rs = selector.RegionsSelector(("x", "y"), ("a", "b", "c")[:nout], selector=sel, label_mapper=lm, undefined_transform_value=undef_arg)
    pts = case["pts"]
    shape = tuple(case["shape"])
    xs = np.array([p[0] for p in pts], dtype=float).reshape(shape)
    ys = np.array([p[1] for p in pts], dtype=float).reshape(shape)
    if case.get("layout") == "F" and len(shape) >= 2:
        xs, ys = np.asfortranarray(xs), np.asfortranarray(ys)          # same values, column-major memory
    elif case.get("layout") == "T" and len(shape) == 2:
        xs, ys = np.ascontiguousarray(xs.T).T, np.ascontiguousarray(ys.T).T   # a transposed view of a C array
    res = {}
    try:
        r = rs(xs, ys)
        r = r if isinstance(r, (tuple, list)) else (r,)
        res["out_shape"] = [list(np.shape(v)) for v in r]
        res["out"] = [[_c(v, undef) for v in row] for row in zip(*[np.asarray(v).ravel() for v in r])]
    except Exception as e:
        res["err"] = _err(e)
    per = []
    for x, y in pts:
        try:
            r = rs(float(x), float(y))
            r = r if isinstance(r, (tuple, list)) else (r,)
            per.append([_c(v, undef) for v in r])
        except Exception as e:
            per.append({"err": _err(e)})
    res["per"] = per
    try:
        res["labels"] = [0 if (v != v) else (int(v) - off if int(v) != 0 else 0) for v in np.asarray(lm(xs, ys), dtype=float).ravel()]
    except Exception as e:
        res["labels_err"] = _err(e)
    si = []
    for lab in case["set_input"]:
        try:
            t = rs.set_input(lab + off if lab != 0 else lab)
            si.append("same" if t is sel.get(lab + off if lab != 0 else lab) else "other")
        except Exception as e:
            si.append(_err(e))
    res["set_input"] = si
    # labels that are not whole numbers are nobody's: never the neighbouring region's transform
    sf = []
    for lab in (1.5, 2.5, 2.999, 3.7, float("nan")):
        try:
            t = rs.set_input(lab + off)
            sf.append("returned the transform of %s" % [k for k, v in sel.items() if v is t])
        except Exception as e:
            sf.append(_err(e))
    res["set_input_frac"] = sf
    return res


def _expand(v, nout):
    """the model's / the expectation's two outputs as the case's 1, 2 or 3 (the third repeats the first)"""
    return list(v[:1]) if nout == 1 else (list(v) if nout == 2 else list(v) + [v[0]])


def _c(v, undef):
    v = float(v)
    if v != v:
        return "undef" if undef != undef else "nan"
    if v == undef:
        return "undef"
    return C.q2w(Fraction(v))


def oracle(case, res):
    out = []
    k = case["kind"]
    if k == "array":
        m = case["mask"]
        ny, nx = len(m), len(m[0])
        for (x, y), r in zip(case["pts"], res["per"]):
            fx, fy = Fraction(x), Fraction(y)
            half = Fraction(1, 2)
            if -half <= fx < nx - half and -half <= fy < ny - half:
                want = m[math.floor(fy + half)][math.floor(fx + half)]
                ok_answers = [{"ok": want}]
                # doubles: v + 0.5 rounds up to the next integer one ulp below a cell boundary (float/Q divergence, accepted)
                jf, if_ = math.floor(x + 0.5), math.floor(y + 0.5)
                if (jf, if_) != (math.floor(fx + half), math.floor(fy + half)):
                    ok_answers.append({"ok": m[if_][jf]} if (0 <= if_ < ny and 0 <= jf < nx) else {"err": "indexErr"})
                if {kk: vv for kk, vv in r.items()} not in ok_answers:
                    out.append(("array_cell", "point (%r, %r) lies in cell [%d][%d] labelled %s but got %s" %
                                (x, y, math.floor(fy + half), math.floor(fx + half), want, r)))
            elif (fx >= nx - half + Fraction(1, 10**6) or fy >= ny - half + Fraction(1, 10**6)) and fx >= -half and fy >= -half:
                if r.get("err") != "indexErr":
                    out.append(("far_edge", "point (%r, %r) beyond the far edge of a %dx%d array answered %s" % (x, y, ny, nx, r)))
        if "batch" in res:
            good = [r["ok"] for r in res["per"] if "ok" in r]
            if res["batch"] != good:
                out.append(("batch", "array evaluation %s differs from point-by-point %s" % (res["batch"], good)))
        elif "batch_err" in res:
            out.append(("batch", "array evaluation of valid points raised %s" % res["batch_err"]))
        return out[:3]
    if k == "range":
        rs = [(C.w2q(lo), C.w2q(hi), lab) for lo, hi, lab in case["ranges"]]
        overlap = any(max(a[0], b[0]) < min(a[1], b[1]) for i, a in enumerate(rs) for b in rs[i + 1:])
        if "err" in res:
            if not overlap and all(a[0] <= a[1] for a in rs) and not _touching_problem(rs):
                out.append(("range_refused", "disjoint ranges %s were refused (%s)" % (case["ranges"], res["err"])))
            return out
        if overlap:
            out.append(("overlap_accepted", "overlapping ranges %s were accepted" % case["ranges"]))
            return out
        if "eval_err" in res:
            out.append(("range_eval", "evaluation raised %s" % res["eval_err"]))
            return out
        for kk, lab, sc in zip(case["keys"], res["labels"], res["scalar"]):
            want = 0
            if kk != "nan":
                v = C.w2q(kk)
                for lo, hi, l in rs:
                    if lo < v < hi:
                        want = l
            if lab != want or sc != want:
                out.append(("range_label", "key %s with ranges %s got label %s (scalar call %s), expected %s" % (kk, case["ranges"], lab, sc, want)))
        return out[:3]
    if k == "dict":
        if "eval_err" in res:
            return [("dict_eval", "evaluation raised %s" % res["eval_err"])]
        atol = C.w2q(case["atol"])
        for v, lab in zip(case["xs"], res["labels"]):
            want = 0
            if v != "nan":
                x = C.w2q(v)
                for kk, l in case["keys"]:
                    if abs(C.w2q(kk) - x) <= atol + abs(x) / 100000:
                        want = l
            if lab != want:
                out.append(("dict_label", "input %s with keys %s atol %s got label %s, expected %s" % (v, case["keys"], case["atol"], lab, want)))
        if any(not ok for _n, ok in res.get("layouts", [])):
            out.append(("dict_layout", "the same inputs as a 2-D batch give other labels than as a flat one, by memory layout: %s" % res["layouts"]))
        return out[:3]
    # selector
    if "err" in res:
        return [("selector_eval", "selector evaluation raised %s" % res["err"])]
    table = {r[0]: r[1:] for r in case["sel"]}
    labels = _expected_labels(case)
    for (x, y), lab, o, p in zip(case["pts"], labels, res["out"], res["per"]):
        if lab != 0 and lab in table:
            ax, bx, ay, by = [C.w2q(v) for v in table[lab]]
            want = _expand([C.q2w(ax * Fraction(x) + bx), C.q2w(ay * Fraction(y) + by)], case.get("nout", 2))
        else:
            want = _expand(["undef", "undef"], case.get("nout", 2))
        if o != want:
            out.append(("selector", "point (%s,%s) has label %s: expected outputs %s, array call gives %s" % (x, y, lab, want, o)))
        if p != want:
            out.append(("selector_scalar", "point (%s,%s) has label %s: expected outputs %s, scalar call gives %s" % (x, y, lab, want, p)))
    if res["out_shape"] != [list(case["shape"])] * case.get("nout", 2):
        out.append(("selector_shape", "input shape %s, output shapes %s" % (case["shape"], res["out_shape"])))
    for lab, r in zip((1.5, 2.5, 2.999, 3.7, "nan"), res.get("set_input_frac", [])):
        if r != "valueErr":
            out.append(("set_input", "set_input(%s): %s (no region has that label; registered: %s)" % (lab, r, sorted(table))))
    for lab, r in zip(case["set_input"], res["set_input"]):
        if (lab in table) != (r == "same") or (lab not in table and r != "valueErr"):
            out.append(("set_input", "set_input(%s) -> %s (registered: %s)" % (lab, r, lab in table)))
    return out[:4]


def _touching_problem(rs):
    return False


def _expected_labels(case):
    if case["mapper"] == "array":
        return [case["mask"][int(y)][int(x)] for x, y in case["pts"]]
    xl = case["xlabels"]
    return [xl[int(x)] if 0 <= x <= len(xl) - 1 else 0 for x, y in case["pts"]]


def request(case, res):
    k = case["kind"]
    if k == "array":
        return {"op": "array", "mask": case["mask"], "pts": [[C.f2w(x), C.f2w(y)] for x, y in case["pts"]]}
    if k == "range":
        return {"op": "range", "ranges": case["ranges"], "keys": case["keys"]}
    if k == "dict":
        return {"op": "dict", "keys": case["keys"], "atol": case["atol"], "xs": case["xs"]}
    if "err" in res:
        return None
    return {"op": "selector", "labels": _expected_labels(case), "xs": [[C.q2w(Fraction(x)), C.q2w(Fraction(y))] for x, y in case["pts"]],
            "sel": case["sel"]}


def compare(case, res, resp):
    k = case["kind"]
    if k == "array":
        if resp.get("ok") != res["per"]:
            for p, a, b in zip(case["pts"], res["per"], resp.get("ok", [])):
                if a != b:
                    return "point %s: impl %s model %s" % (p, a, b)
            return "array answers differ"
        return None
    if k == "range":
        if "err" in res or "err" in resp:
            if res.get("err") != resp.get("err"):
                return "ranges %s: impl %s model %s" % (case["ranges"], res.get("err", "accepted"), resp.get("err", "accepted"))
            return None
        if res.get("labels") != resp["ok"]:
            return "range labels impl %s model %s" % (res.get("labels"), resp["ok"])
        return None
    if k == "dict":
        if res.get("labels") != resp["ok"]:
            return "dict labels impl %s model %s (keys %s xs %s)" % (res.get("labels"), resp["ok"], case["keys"], case["xs"])
        return None
    mo = [_expand(["undef", "undef"] if v == "undef" else v, case.get("nout", 2)) for v in resp["ok"]]
    if res["out"] != mo:
        return "selector outputs impl %s model %s" % (res["out"], mo)
    if res.get("labels") != _expected_labels(case):
        return "label mapper gave %s, expected %s" % (res.get("labels"), _expected_labels(case))
    return None


def nontrivial(case, res):
    k = case["kind"]
    if k == "array":
        oks = {r["ok"] for r in res["per"] if "ok" in r}
        return len(oks) >= 2 or any("err" in r for r in res["per"])
    if k == "range":
        return "labels" in res and len(set(res["labels"])) >= 2 or "err" in res
    if k == "dict":
        return "labels" in res and len(set(res["labels"])) >= 2
    labs = set(_expected_labels(case))
    return len(labs) >= 3 and 0 in labs


def stats(case, res, st):
    st["kind_" + case["kind"]] += 1
    if case["kind"] == "array":
        st["str_labels"] += bool(case.get("strlabels"))
        st["pts"] += len(case["pts"])
        st["indexErr"] += sum(1 for r in res["per"] if r.get("err") == "indexErr")
    if case["kind"] == "range":
        st["range_refused" if "err" in res else "range_accepted"] += 1
    if case["kind"] == "selector":
        st["mapper_" + case["mapper"]] += 1
        st["undef_" + str(case["undef"])] += 1
        st["nout_%d" % case.get("nout", 2)] += 1
        if case.get("undef_int"):
            st["undef_given_as_int"] += 1
        st["shape_%dd" % len(case["shape"])] += 1


def gen(rng, tier):
    q = tier == "quick"
    for _ in range(70 if q else 3000):   # label arrays
        ny, nx = rng.randint(1, 9), rng.randint(1, 11)
        mask = [[rng.choice([0, 0, 1, 2, 3, 4, 5]) for _x in range(nx)] for _y in range(ny)]
        pts = []
        for _p in range(10):
            def coord(n):
                c = rng.randrange(n)
                r = rng.random()
                if r < 0.3:
                    return float(c)
                if r < 0.55:
                    b = c + rng.choice([-0.5, 0.5])
                    return rng.choice([b, math.nextafter(b, -math.inf), math.nextafter(b, math.inf)])
                if r < 0.8:
                    return c + round(rng.uniform(-0.49, 0.49), 3)
                if r < 0.92:
                    return n - 0.5 + rng.choice([0.0, 0.25, 1.0, 7.5])
                return rng.choice([-0.5, -0.25, -0.75, -1.0])
            pts.append([coord(nx), coord(ny)])
        yield {"kind": "array", "mask": mask, "pts": pts, "strlabels": rng.random() < 0.4}
    for _ in range(60 if q else 3000):   # ranges
        n = rng.randint(1, 5)
        style = rng.choice(["disjoint", "disjoint", "touching", "overlap", "shared_start", "reversed", "shared_start_empty_last"])
        edges = sorted(rng.sample(range(-20, 40), 2 * n))
        rs = [[edges[2 * i], edges[2 * i + 1], i + 1] for i in range(n)]
        if style == "touching" and n > 1:
            for i in range(n - 1):
                rs[i][1] = rs[i + 1][0]
        elif style == "overlap" and n > 1:
            i = rng.randrange(n - 1)
            rs[i][1] = rs[i + 1][0] + rng.choice([1, 2]) if rs[i + 1][1] - rs[i + 1][0] > 2 else rs[i + 1][1]
        elif style == "shared_start" and n > 1:
            i = rng.randrange(n - 1)
            rs[i + 1][0] = rs[i][0]
        elif style == "shared_start_empty_last":
            s = rs[0][0]
            rs = [[s, s + 4, 1], [s, s + 3, 2], [s, s, 3]]
        elif style == "reversed":
            i = rng.randrange(n)
            rs[i][0], rs[i][1] = rs[i][1], rs[i][0]
        rng.shuffle(rs) if style != "shared_start_empty_last" else None
        rs = [[C.q2w(Fraction(lo) + rng.choice([0, Fraction(1, 2)])), C.q2w(Fraction(hi) + rng.choice([0, Fraction(1, 2)])), lab] for lo, hi, lab in rs]
        keys = []
        for _k in range(10):
            lo, hi, _l = rng.choice(rs)
            lo, hi = C.w2q(lo), C.w2q(hi)
            keys.append(rng.choice([C.q2w((lo + hi) / 2), C.q2w(lo), C.q2w(hi), C.q2w(lo - 1), C.q2w(hi + Fraction(1, 4)), "nan", C.q2w(lo + Fraction(1, 8))]))
        yield {"kind": "range", "ranges": rs, "keys": keys, "style": style, "vary": rng.random() < 0.4}
    for _ in range(30 if q else 1500):   # dict
        n = rng.randint(1, 5)
        ks = sorted(rng.sample(range(-40, 40), n))
        keys = [[C.q2w(Fraction(k_, 2)), i + 1] for i, k_ in enumerate(ks)]
        atol = rng.choice([Fraction(1, 8), Fraction(1, 1024), Fraction(1, 2 ** 20)])
        if rng.random() < 0.3:
            # two keys closer than the tolerance: an input near both must get the same label alone and in any batch
            k0 = C.w2q(keys[0][0])
            keys.append([C.q2w(k0 + atol / 2), len(keys) + 1])
        rng.shuffle(keys)
        xs = []
        for _x in range(8):
            kk = C.w2q(rng.choice(keys)[0])
            xs.append(rng.choice([C.q2w(kk), C.q2w(kk + atol / 2), C.q2w(kk - atol / 2), C.q2w(kk + 4 * atol + Fraction(1, 64)), C.q2w(kk - 4 * atol - Fraction(1, 64)),
                                  "nan", C.q2w(kk + Fraction(1, 4))]))
        yield {"kind": "dict", "keys": keys, "atol": C.q2w(atol), "xs": xs}
    for _ in range(70 if q else 3000):   # region selector
        mapper = rng.choice(["array", "array", "nan_nolabel"])
        labs = [1, 2, 3, 4]
        have = rng.sample(labs, rng.randint(1, 4))
        sel = [[l, C.q2w(rng.choice([1, 2, -1, Fraction(1, 2)])), rng.randint(-9, 9), C.q2w(rng.choice([1, 2, 4, -2])), rng.randint(-9, 9)] for l in have]
        case = {"kind": "selector", "mapper": mapper, "sel": sel, "undef": rng.choice(["nan", "nan", -9999.25, 12345.0625]),
                "set_input": rng.sample([0, 1, 2, 3, 4, 9], 3)}
        case["layout"] = rng.choice(["C", "C", "F", "T"])
        if rng.random() < 0.25:
            case["nout"] = 1
        elif _ % 5 == 3:
            case["nout"] = 3
        if rng.random() < 0.25:
            case["undef"], case["undef_int"] = -100.0, True
            # ... which only shows when the region transforms return fractional values
            case["sel"] = [[e[0], C.q2w(Fraction(1, 2)), e[2], e[3], e[4]] for e in sel]
        npts = rng.choice([1, 4, 6, 8])
        if mapper == "array":
            ny, nx = rng.randint(2, 7), rng.randint(2, 8)
            case["mask"] = [[rng.choice([0, 0, 1, 2, 3, 4]) for _x in range(nx)] for _y in range(ny)]
            case["pts"] = [[rng.randrange(nx), rng.randrange(ny)] for _p in range(npts)]
        else:
            case["xlabels"] = [rng.choice([1, 2, 3, 4]) for _x in range(rng.randint(2, 6))]
            if rng.random() < 0.5:
                case["label_offset"] = 301000
            case["pts"] = [[rng.randint(-2, len(case["xlabels"]) + 1), rng.randint(0, 5)] for _p in range(npts)]
        case["shape"] = rng.choice({1: [[1]], 4: [[4], [2, 2]], 6: [[6], [2, 3]], 8: [[8], [2, 2, 2]]}[npts])
        if _ % 4 == 2:
            # a negative region label (any number but 0 is a label)
            sw = lambda v: -2 if v == 4 else v
            case["sel"] = [[sw(e[0])] + e[1:] for e in case["sel"]]
            case["set_input"] = [sw(v) for v in case["set_input"]]
            if "mask" in case:
                case["mask"] = [[sw(v) for v in row] for row in case["mask"]]
            if "xlabels" in case:
                case["xlabels"] = [sw(v) for v in case["xlabels"]]
        yield case
