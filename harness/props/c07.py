"""C07 — any sequence of pipeline edits leaves the WCS equal to the edited reference (gwcs/wcs.py)."""
import copy
from fractions import Fraction

import numpy as np

import common as C
import pipegen as G
from gwcs import wcs as gw

PROP = "C07"
LEAN_MODULE = "GwcsProofs.C07"
SOURCES = ["GwcsModel/Basic.lean", "GwcsModel/TExpr.lean", "GwcsModel/Pipeline.lean", "GwcsProofs/C07.lean",
           "GwcsProofs/Lemmas/PipeLemmas.lean"]
THEOREMS = [
    "Gwcs.Pipe.setTransform_spec",
    "Gwcs.Pipe.setTransform_ok_iff",
    "Gwcs.Pipe.setTransform_error_iff",
    "Gwcs.Pipe.insertTransform_before_spec",
    "Gwcs.Pipe.insertTransform_after_spec",
    "Gwcs.Pipe.insertTransform_at_first_frame_rejected",
    "Gwcs.Pipe.insertFrame_new_input_spec",
    "Gwcs.Pipe.insertFrame_new_output_spec",
    "Gwcs.Pipe.insertFrame_ok_iff",
    "Gwcs.Pipe.insertFrame_error_iff",
    "Gwcs.Pipe.insertFrame_preserves_composition",
    "Gwcs.Pipe.setBBox_spec",
    "Gwcs.Pipe.setBBox_wrong_dim_rejected",
    "Gwcs.Pipe.bbox_kept_while_step0_untouched",
    "Gwcs.Pipe.step_error_state_unchanged",
    "Gwcs.Pipe.names_nodup_invariant",
    "Gwcs.Pipe.run_names_nodup",
]
RULE = ("case = history of 1..12 edits (set_transform / insert_transform before+after / insert_frame either side / bounding_box) over a pool of "
        "7 frames and exact transforms, ~30% invalid (unknown/duplicate frame, non-adjacent, wrong box shape, arity-incompatible, non-Model), "
        "starting from pipelines of 1..4 steps; after every op the whole observable state (frames, attributes, box, every frame pair on two "
        "probes, forward) is compared; non-trivial = >= 3 ops with >= 1 successful and >= 1 rejected edit; distinct by hash of history")
TRUSTED = ["harness/props/c07.py: observation of the real WCS after every op vs Lean driver, exact",
           "independent Python reference list (obvious list edits) as oracle"]
ASSUMPTIONS = ["astropy compound model composition and ModelBoundingBox.validate (modelled, exercised)"]
MISSING = "<missing>"
POOL = ["detector", "focal", "sky", "v2v3", "world", "inter", "slit", "det", "focal_undistorted", "sky_rot"]


def _mk_frame(name, naxes, objs, as_obj):
    if not as_obj:
        return name
    if name not in objs["by_name"]:
        o = G.frame_obj(name, max(1, naxes))
        objs["by_name"][name] = o
        objs["ids"][id(o)] = objs["next"]
        objs["next"] += 1
    return objs["by_name"][name]


def _probe(n, k):
    return ([3, -5, 7, 2, 9, -4] if k == 0 else [0.5, 4, -1, 8, -3, 6])[:n]


def _probe_obs(getter):
    try:
        t = getter()
    except Exception as e:
        return {"err": C.exc_enum(e)}
    if t is None:
        return {"none": True}
    n = t.n_inputs
    vals = []
    for k in (0, 1):
        try:
            r = t(*_probe(n, k))
            vals.append({"ok": G.canon_vals(r, t.n_outputs)})
        except Exception as e:
            vals.append({"err": C.exc_enum(e)})
    return {"nin": n, "v": vals}


def _observe(w, objs):
    names = list(w.available_frames)
    attrs = {}
    for nm in POOL + ["ghost"]:
        v = w.__dict__.get(nm, MISSING)
        if v is MISSING:
            continue
        attrs[nm] = None if v is None else objs["ids"].get(id(v), -1)
    try:
        bb = w.bounding_box
        if bb is None:
            box = None
        else:
            t = bb.bounding_box(order="F")
            if len(bb.intervals) == 1:
                t = (t,)
            box = [[C.q2w(Fraction(float(a))), C.q2w(Fraction(float(b)))] for a, b in t]
    except Exception as e:
        box = {"err": C.exc_enum(e)}
    pairs = []
    for a in names:
        for b in names:
            pairs.append([a, b, _probe_obs(lambda: w.get_transform(a, b))])
    fwd = _probe_obs(lambda: w.forward_transform)
    # which object each pipeline step holds: "str" for a bare name, else the id of the frame object
    steps = [["str" if isinstance(s.frame, str) else objs["ids"].get(id(s.frame), -1)] for s in w.pipeline]
    return {"names": names, "attrs": attrs, "bbox": box, "pairs": pairs, "fwd": fwd, "step_frames": steps}


def _apply(w, op, objs):
    tr = None if op.get("tr") is None else G.build(op["tr"])
    if op.get("bad_tr"):
        tr = 5  # not a Model (an int: astropy raises TypeError for it whatever the operand order)
    k = op["k"]
    if k == "set":
        w.set_transform(_mk_frame(op["from"], 1, objs, op.get("from_obj")), _mk_frame(op["to"], 1, objs, op.get("to_obj")), tr)
    elif k == "instr":
        w.insert_transform(_mk_frame(op["frame"], 1, objs, op.get("frame_obj")), tr, after=op["after"])
    elif k == "insfr":
        fi = _mk_frame(op["in"]["name"], op.get("naxes", 1), objs, op["in"]["obj"] is not None)
        fo = _mk_frame(op["out"]["name"], op.get("naxes", 1), objs, op["out"]["obj"] is not None)
        w.insert_frame(fi, tr, fo)
    elif k == "bbox":
        v = op["v"]
        if v is None:
            w.bounding_box = None
        else:
            t = tuple((float(G.fr(a)), float(G.fr(b))) for a, b in v)
            w.bounding_box = t[0] if (len(t) == 1 and op.get("bare", True)) else t


def impl(case):
    objs = {"by_name": {}, "ids": {}, "next": 0}
    frames = []
    for f in case["frames"]:
        if f["obj"] is not None:
            o = G.frame_obj(f["name"], f["naxes"])
            objs["by_name"][f["name"]] = o
            objs["ids"][id(o)] = f["obj"]
            objs["next"] = max(objs["next"], f["obj"] + 1)
            frames.append(o)
        else:
            frames.append(f["name"])
    # ids for frame objects created by ops are assigned from the op itself
    for op in case["ops"]:
        if op["k"] == "insfr":
            for key in ("in", "out"):
                fr_ = op[key]
                if fr_["obj"] is not None and fr_["name"] not in objs["by_name"]:
                    o = G.frame_obj(fr_["name"], max(1, op.get("naxes", 1)))
                    objs["by_name"][fr_["name"]] = o
                    objs["ids"][id(o)] = fr_["obj"]
    w = gw.WCS([(fr_, None if t is None else G.build(t)) for fr_, t in zip(frames, case["trs"])])
    init = _observe(w, objs)
    steps = []
    for op in case["ops"]:
        try:
            _apply(w, op, objs)
            res = "ok"
        except Exception as e:
            res = C.exc_enum(e)
        steps.append({"res": res, "obs": _observe(w, objs)})
    return {"init": init, "steps": steps}


# ---------------------------------------------------------------- reference (the oracle): obvious list edits
class _Ref:
    def __init__(self, case):
        self.items = [[f["name"], f["obj"], t] for f, t in zip(case["frames"], case["trs"])]  # [name, obj, texpr|None]
        self.attrs = {}
        for f in case["frames"]:
            self.attrs[f["name"]] = f["obj"]
        self.box = None

    def names(self):
        return [i[0] for i in self.items]

    def edit(self, op):
        """Return None if the edit is valid (and perform it) else a reason string."""
        names = self.names()
        k = op["k"]
        bad_tr = op.get("bad_tr") or op.get("tr") is None
        if k == "set":
            if op["from"] not in names or op["to"] not in names:
                return "unknown frame"
            i = names.index(op["from"])
            if names.index(op["to"]) != i + 1:
                return "frames not adjacent"
            if bad_tr:
                return "not a model"
            self.items[i][2] = op["tr"]
            if i == 0:
                self.box = None
            return None
        if k == "instr":
            if op["frame"] not in names:
                return "unknown frame"
            i = names.index(op["frame"])
            j = i if op["after"] else i - 1
            if j < 0 or j >= len(self.items) - 1 or self.items[j][2] is None:
                return "no transform on that side"
            if bad_tr:
                return "not a model"
            cur = self.items[j][2]
            if op["after"]:
                if G.nout(op["tr"]) != G.nin(cur):
                    return "incompatible transform"
                self.items[j][2] = ["comp", op["tr"], cur]
            else:
                if G.nout(cur) != G.nin(op["tr"]):
                    return "incompatible transform"
                self.items[j][2] = ["comp", cur, op["tr"]]
            if j == 0:
                self.box = None
            return None
        if k == "insfr":
            a, b = op["in"], op["out"]
            ka, kb = a["name"] in names, b["name"] in names
            if ka and kb:
                return "duplicate frame"
            if not ka and not kb:
                return "neither frame known"
            if (not ka and a["obj"] is None) or (not kb and b["obj"] is None):
                return "new frame must be a frame object"
            if bad_tr:
                return "not a model"
            if not ka:  # new input frame just before b
                i = names.index(b["name"])
                self.items.insert(i, [a["name"], a["obj"], op["tr"]])
                self.attrs[a["name"]] = a["obj"]
                if i == 0:
                    self.box = None
            else:       # new output frame just after a
                i = names.index(a["name"])
                old = self.items[i][2]
                self.items[i][2] = op["tr"]
                self.items.insert(i + 1, [b["name"], b["obj"], old])
                self.attrs[b["name"]] = b["obj"]
                if i == 0:
                    self.box = None
            return None
        if k == "bbox":
            t0 = self.items[0][2]
            if t0 is None:
                return "no transform"
            if op["v"] is not None and len(op["v"]) != G.nin(t0):
                return "wrong box shape"
            self.box = op["v"]
            return None

    def expected_pair(self, a, b):
        names = self.names()
        i, j = names.index(a), names.index(b)
        if i == j:
            return {"none": True}
        lo, hi = min(i, j), max(i, j)
        trs = [self.items[k][2] for k in range(lo, hi)]
        if any(t is None for t in trs):
            return None  # not judged
        # arity consistency along the chain
        for t1, t2 in zip(trs, trs[1:]):
            if G.nout(t1) != G.nin(t2):
                return None
        try:
            models = [G.build(t) for t in trs]
            if i > j:
                models = [m.inverse for m in models[::-1]]
        except NotImplementedError:
            return {"err": "notImpl"}
        n = models[0].n_inputs
        vals = []
        for k in (0, 1):
            x = tuple(_probe(n, k))
            try:
                for m in models:
                    x = m(*x)
                    x = x if isinstance(x, tuple) else (x,)
                vals.append({"ok": G.canon_vals(x, len(x))})
            except Exception as e:
                vals.append({"err": C.exc_enum(e)})
        return {"nin": n, "v": vals}


def oracle(case, res):
    out = []
    ref = _Ref(case)
    prev = res["init"]
    for n, (op, st) in enumerate(zip(case["ops"], res["steps"])):
        obs = st["obs"]
        before = copy.deepcopy(ref)
        reason = ref.edit(op)
        if st["res"] != "ok":
            if obs != prev:
                diff = [k for k in obs if obs[k] != prev[k]]
                out.append(("atomic", "op %d %s was rejected (%s) but changed %s" % (n, _short(op), st["res"], diff)))
            if reason is None:
                out.append(("rejected_valid", "op %d %s is a valid edit but raised %s" % (n, _short(op), st["res"])))
            ref = before
        else:
            if reason is not None:
                out.append(("accepted_invalid", "op %d %s should be rejected (%s) but was accepted" % (n, _short(op), reason)))
                ref = before
                # resynchronise the reference with what the implementation did is impossible: stop judging this history
                break
            if obs["names"] != ref.names():
                out.append(("frames", "after op %d %s frames are %s, reference list has %s" % (n, _short(op), obs["names"], ref.names())))
                break
            # every frame object in the pipeline is the object exposed under its name, and an edit never swaps the object (or turns
            # it into a bare name) of a frame that was already in the pipeline
            for nm_, (sf,) in zip(obs["names"], obs["step_frames"]):
                if sf != "str" and obs["attrs"].get(nm_) != sf:
                    out.append(("identity", "after op %d %s the pipeline holds frame object %s for '%s' but the WCS exposes %s under that name" %
                                (n, _short(op), sf, nm_, obs["attrs"].get(nm_))))
                if nm_ in prev["names"]:
                    was = prev["step_frames"][prev["names"].index(nm_)][0]
                    if was != sf:
                        out.append(("identity", "op %d %s replaced the pipeline's frame '%s' (%s) by %s" % (n, _short(op), nm_, was, sf)))
            exp_attrs = dict(ref.attrs)
            if obs["attrs"] != exp_attrs:
                out.append(("attrs", "after op %d %s frame attributes are %s, expected %s" % (n, _short(op), obs["attrs"], exp_attrs)))
            if not isinstance(obs["bbox"], dict) and obs["bbox"] != ref.box:
                out.append(("bbox", "after op %d %s bounding box is %s, reference keeps %s" % (n, _short(op), obs["bbox"], ref.box)))
            for a, b, o in obs["pairs"]:
                e = ref.expected_pair(a, b)
                if e is not None and o != e:
                    out.append(("eval", "after op %d %s transform %s->%s gives %s, reference composition gives %s" % (n, _short(op), a, b, o, e)))
                    break
            nm = ref.names()
            e = ref.expected_pair(nm[0], nm[-1]) if len(nm) > 1 else None
            if e is not None and obs["fwd"] != e:
                out.append(("eval", "after op %d %s forward transform gives %s, reference gives %s" % (n, _short(op), obs["fwd"], e)))
        prev = obs
        if len(out) > 2:
            break
    return out


def _short(op):
    return {k: v for k, v in op.items() if k not in ("tr",)}


def request(case, res):
    ops = []
    for op in case["ops"]:
        o = {k: v for k, v in op.items() if k in ("k", "from", "to", "frame", "after", "in", "out", "v")}
        o["tr"] = None if (op.get("bad_tr") or op.get("tr") is None) else op["tr"]
        ops.append(o)
    return {"op": "history", "frames": [{"name": f["name"], "obj": f["obj"]} for f in case["frames"]], "trs": case["trs"], "ops": ops}


def _cmp_obs(a, m):
    if a["names"] != m["names"]:
        return "names impl %s model %s" % (a["names"], m["names"])
    if a["attrs"] != {k: v for k, v in m["attrs"]}:
        return "attrs impl %s model %s" % (a["attrs"], m["attrs"])
    if a["bbox"] != m["bbox"]:
        return "bbox impl %s model %s" % (a["bbox"], m["bbox"])
    if a["fwd"] != m["fwd"]:
        return "forward impl %s model %s" % (a["fwd"], m["fwd"])
    for x, y in zip(a["pairs"], m["pairs"]):
        if x != y:
            return "pair impl %s model %s" % (x, y)
    return None


def compare(case, res, resp):
    if "ok" not in resp:
        return "model error %s" % resp
    m = resp["ok"]
    d = _cmp_obs(res["init"], m["init"])
    if d:
        return "initial state: " + d
    for n, (a, b) in enumerate(zip(res["steps"], m["steps"])):
        if a["res"] != b["res"]:
            return "op %d %s: impl %s model %s" % (n, _short(case["ops"][n]), a["res"], b["res"])
        d = _cmp_obs(a["obs"], b["obs"])
        if d:
            return "after op %d %s: %s" % (n, _short(case["ops"][n]), d)
    return None


def nontrivial(case, res):
    rs = [s["res"] for s in res["steps"]]
    return len(rs) >= 3 and "ok" in rs and any(r != "ok" for r in rs)


def stats(case, res, st):
    st["len_%02d" % len(case["ops"])] += 1
    for op, s in zip(case["ops"], res["steps"]):
        st["op_" + op["k"]] += 1
        st["res_" + s["res"]] += 1
        if op.get("why"):
            st["invalid_" + op["why"]] += 1


def gen(rng, tier):
    n = 60 if tier == "quick" else 3000
    for _ in range(n):
        yield gen_history(rng, rng.randint(1, 12))


def _oid(name):
    return 10 + (POOL + ["ghost"]).index(name)


def gen_history(rng, nops, with_queries=False):
    nsteps = rng.randint(1, 4)
    frames, trs, dims = G.gen_pipeline(rng, nsteps, invertible=rng.random() < 0.5, same_arity=rng.random() < 0.7, max_dim=3)
    # shadow bookkeeping so that most ops are valid
    for f in frames:   # object identity is a function of the frame name, in the whole history
        if f["obj"] is not None:
            f["obj"] = _oid(f["name"])
    if trs[0] is not None and trs[0][0] == "identity":
        # astropy quirk (recorded as finding D19 under C08): Identity.inverse returns self and Model.inverse clears
        # its bounding box, so merely *observing* an upstream transform would drop the box of a bare Identity step
        trs[0] = ["comp", trs[0], ["identity", trs[0][1]]]
    cur = [[f["name"], d] for f, d in zip(frames, dims)]   # [name, arity of that frame]
    ops = []
    for _ in range(nops):
        names = [c[0] for c in cur]
        free = [p for p in POOL if p not in names]
        invalid = rng.random() < 0.3
        k = rng.choice(["set", "instr", "instr", "insfr", "insfr", "bbox"])
        op = None
        if k == "set":
            i = rng.randrange(len(cur) - 1)
            a, b = names[i], names[i + 1]
            tr = G.gen_tr(rng, cur[i][1], cur[i + 1][1], invertible=rng.random() < 0.5)
            if i == 0 and tr[0] == "identity":
                tr = ["comp", tr, ["identity", tr[1]]]
            op = {"k": "set", "from": a, "to": b, "tr": tr, "from_obj": rng.random() < 0.3, "to_obj": rng.random() < 0.3}
            if invalid:
                why = rng.choice(["unknown", "nonadjacent", "reversed", "same", "bad_tr", "arity"])
                op["why"] = why
                if why == "unknown":
                    op[rng.choice(["from", "to"])] = "ghost"
                elif why == "nonadjacent" and len(cur) > 2:
                    j = rng.choice([x for x in range(len(cur)) if x not in (i, i + 1)])
                    op["to"] = names[j]
                elif why == "reversed":
                    op["from"], op["to"] = b, a
                elif why == "same":
                    op["to"] = a
                elif why == "bad_tr":
                    op["bad_tr"] = True
                elif why == "arity":
                    op["tr"] = G.gen_tr(rng, cur[i][1] + 1, cur[i + 1][1])
        elif k == "instr":
            after = rng.random() < 0.5
            i = rng.randrange(0, len(cur) - 1) if after else rng.randrange(1, len(cur))
            d = cur[i][1]
            tr = G.gen_same(rng, d, invertible=rng.random() < 0.5)
            op = {"k": "instr", "frame": names[i], "tr": tr, "after": after, "frame_obj": rng.random() < 0.3}
            if invalid:
                why = rng.choice(["unknown", "edge", "bad_tr", "arity"])
                op["why"] = why
                if why == "unknown":
                    op["frame"] = "ghost"
                elif why == "edge":
                    op["frame"] = names[-1] if after else names[0]
                elif why == "bad_tr":
                    op["bad_tr"] = True
                elif why == "arity":
                    op["tr"] = G.gen_same(rng, d + 1)
        elif k == "insfr" and free:
            new = rng.choice(free)
            side_in = rng.random() < 0.5    # new frame is the input side of the new transform
            if side_in:
                i = rng.randrange(len(cur))
                d = cur[i][1]
                nd = d if rng.random() < 0.7 else rng.randint(1, 3)
                tr = G.gen_tr(rng, nd, d, invertible=rng.random() < 0.5)
                op = {"k": "insfr", "in": {"name": new, "obj": _oid(new)}, "tr": tr, "out": {"name": names[i], "obj": None if rng.random() < 0.5 else _oid(names[i])},
                      "naxes": nd}
            else:
                i = rng.randrange(len(cur))
                d = cur[i][1]
                nd = d if rng.random() < 0.7 else rng.randint(1, 3)
                tr = G.gen_tr(rng, d, nd, invertible=rng.random() < 0.5)
                op = {"k": "insfr", "in": {"name": names[i], "obj": None if rng.random() < 0.5 else _oid(names[i])}, "tr": tr, "out": {"name": new, "obj": _oid(new)},
                      "naxes": nd}
            if op["tr"][0] == "identity":
                # a bare Identity may become the first transform of the pipeline: same wrapping as above (D19)
                op["tr"] = ["comp", op["tr"], ["identity", op["tr"][1]]]
            if invalid:
                why = rng.choice(["both_known", "both_new", "new_is_str", "bad_tr"])
                op["why"] = why
                if why == "both_known":
                    other = rng.choice(names)
                    op["in" if side_in else "out"] = {"name": other, "obj": None}
                elif why == "both_new":
                    op["out" if side_in else "in"] = {"name": "ghost", "obj": _oid("ghost")}
                elif why == "new_is_str":
                    op["in" if side_in else "out"] = {"name": new, "obj": None}
                elif why == "bad_tr":
                    op["bad_tr"] = True
        if op is None or k == "bbox":
            d = cur[0][1]
            nd = d
            op = {"k": "bbox", "v": None if rng.random() < 0.15 else None}
            if invalid:
                nd = d + rng.choice([-1, 1]) if d > 1 else d + 1
                op["why"] = "box_shape"
            los = [G.dyadic(rng, -4, 4, 2) for _ in range(nd)]
            op["v"] = None if (not invalid and rng.random() < 0.15) else [[C.q2w(lo), C.q2w(lo + abs(G.dyadic(rng, 0, 6, 2)))] for lo in los]
            if op["v"] is not None and len(op["v"]) == 1:
                op["bare"] = rng.random() < 0.7
        ops.append(op)
        # update shadow state optimistically for valid structural ops
        if not invalid:
            if op["k"] == "insfr":
                nm = [c[0] for c in cur]
                if op["in"]["name"] not in nm:
                    cur.insert(nm.index(op["out"]["name"]), [op["in"]["name"], op["naxes"]])
                else:
                    cur.insert(nm.index(op["in"]["name"]) + 1, [op["out"]["name"], op["naxes"]])
    return {"frames": frames, "trs": trs, "dims": dims, "ops": ops}
