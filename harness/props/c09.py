"""C09 — ASDF write/read (and copying) yields an equivalent, independent WCS (gwcs/converters/*, extension.py)."""
import copy
import io
import os
import pickle
import tempfile

import numpy as np
import asdf
import astropy.units as u
from astropy import coordinates as coord
from astropy import time
from astropy.modeling import models

import common as C
from gwcs import coordinate_frames as cf
from gwcs import wcs as gw
from gwcs import selector, spectroscopy, geometry
from gwcs.converters import wcs as cw

PROP = "C09"
LEAN_MODULE = "GwcsProofs.C09"
SOURCES = ["GwcsModel/Asdf.lean", "GwcsProofs/C09.lean"]
THEOREMS = [
    "Gwcs.Asdf.upper_lower_standard",
    "Gwcs.Asdf.leaf_roundtrip",
    "Gwcs.Asdf.stokes_roundtrip_partial",
    "Gwcs.Asdf.stokes_full_fails",
    "Gwcs.Asdf.tree_roundtrip",
    "Gwcs.Asdf.tree_idempotent",
    "Gwcs.Asdf.stokes_tree_idempotent",
    "Gwcs.Asdf.wcs_roundtrip",
    "Gwcs.Asdf.selector_roundtrip",
    "Gwcs.Asdf.positional_binding",
    "Gwcs.Asdf.positional_swap_detected",
]
RULE = ("case = frame (each kind with custom names/units/physical types/axes order/reference frame with attributes/reference position), "
        "package model (label mappers, selector, spectroscopy, geometry) or whole WCS (generated pipeline, bbox, pixel shape, user inverse, "
        "composite/nested frames) x way of writing/opening (buffer/file, lazy_load, memmap, asdf standard 1.5/1.6, gwcs manifest version) "
        "x copy form (asdf, second write, deepcopy, pickle); non-trivial = a field differs from the constructor default or the pipeline "
        "has more than one transform; distinct by the case description")
TRUSTED = ["harness/props/c09.py: field extraction (_fields) and numeric comparison on fixed sample points"]
ASSUMPTIONS = ["asdf, asdf-astropy, YAML, schema validation and block storage (runtime; exercised, not modelled)"]

SKY = {
    "icrs": lambda: coord.ICRS(),
    "fk5": lambda: coord.FK5(),
    "fk5_1975": lambda: coord.FK5(equinox="J1975"),
    "fk4": lambda: coord.FK4(equinox="B1950", obstime="B1960"),
    "galactic": lambda: coord.Galactic(),
    "gcrs": lambda: coord.GCRS(obstime="2021-03-04T00:00:00"),
    "ecl": lambda: coord.GeocentricTrueEcliptic(equinox="J2010"),
}
REFPOS = list(cf.STANDARD_REFERENCE_POSITION)
CONV = {"generic": cw.FrameConverter(), "frame2d": cw.Frame2DConverter(), "celestial": cw.CelestialFrameConverter(),
        "spectral": cw.SpectralFrameConverter(), "temporal": cw.TemporalFrameConverter(), "stokes": cw.StokesFrameConverter(),
        "composite": cw.CompositeFrameConverter()}


# ------------------------------------------------------------------ frames
def mk_frame(s):
    k = s["kind"]
    kw = {"name": s["name"]}
    if "axes_order" in s:
        kw["axes_order"] = tuple(s["axes_order"])
    if "axes_names" in s:
        kw["axes_names"] = tuple(s["axes_names"])
    if "unit" in s and k != "stokes":
        kw["unit"] = tuple(u.Unit(x) for x in s["unit"])
    if "phys" in s:
        kw["axis_physical_types"] = tuple(s["phys"])
    if k == "generic":
        return cf.CoordinateFrame(naxes=s["naxes"], axes_type=tuple(s["axes_type"]), **dict({"axes_order": tuple(range(s["naxes"]))}, **kw))
    if k == "frame2d":
        return cf.Frame2D(**kw)
    if k == "celestial":
        return cf.CelestialFrame(reference_frame=SKY[s["ref"]](), **kw)
    if k == "spectral":
        if s.get("ref_pos"):
            kw["reference_position"] = s["ref_pos"]
        return cf.SpectralFrame(**kw)
    if k == "temporal":
        return cf.TemporalFrame(time.Time(s.get("epoch", "2020-01-01T00:00:00"), scale=s.get("scale", "utc")), **kw)
    if k == "stokes":
        return cf.StokesFrame(**kw)
    if k == "composite":
        return cf.CompositeFrame([mk_frame(x) for x in s["frames"]], name=s["name"])
    raise ValueError(k)


def _ref_repr(r):
    if r is None:
        return None
    if isinstance(r, time.Time):
        return "Time:%s:%s:%s" % (r.scale, r.format, r.isot if r.shape == () else str(r))
    if isinstance(r, coord.BaseCoordinateFrame):
        return type(r).__name__ + ":" + ",".join("%s=%s" % (a, getattr(r, a)) for a in sorted(r.frame_attributes))
    return repr(r)


def fields(f):
    if isinstance(f, str) or f is None:
        return {"type": "str", "name": f}
    d = {"type": type(f).__name__, "name": f.name, "naxes": f.naxes, "axes_type": list(f.axes_type), "axes_order": list(f.axes_order),
         "axes_names": [x if x is not None else None for x in f.axes_names], "unit": [x.to_string() for x in f.unit],
         "phys": list(f.axis_physical_types), "ref": _ref_repr(f.reference_frame), "ref_pos": f.reference_position}
    if isinstance(f, cf.CompositeFrame):
        d["frames"] = [fields(x) for x in f.frames]
    return d


def _diff(a, b, path=""):
    """first differing field between two `fields` dicts"""
    if isinstance(a, dict) and isinstance(b, dict):
        for k in a:
            if k not in b:
                return "%s.%s missing" % (path, k)
            r = _diff(a[k], b[k], path + "." + k)
            if r:
                return r
        return None
    if isinstance(a, list) and isinstance(b, list):
        if len(a) != len(b):
            return "%s: %r vs %r" % (path, a, b)
        for i, (x, y) in enumerate(zip(a, b)):
            r = _diff(x, y, "%s[%d]" % (path, i))
            if r:
                return r
        return None
    if isinstance(a, float) and isinstance(b, float):
        if a != a and b != b:
            return None
        # numbers computed by transforms: astropy's rotation models keep radians internally and are written in degrees, so a
        # re-read parameter may differ in its last bit; iterative inverses amplify that to ~1e-12 px
        tol = 1e-7 if ".backward" in path else 1e-12 * max(abs(a), abs(b)) + 1e-12
        if (".forward" in path or ".backward" in path or ".pairs" in path or ".values" in path) and abs(a - b) <= tol:
            return None
    return None if a == b else "%s: %r became %r" % (path, a, b)


# ------------------------------------------------------------------ asdf plumbing
MODES = [{"buffer": b, "lazy_load": l, "memmap": m, "version": v, "manifest": g}
         for b in (True, False) for l in (True, False) for m in (True, False) for v in ("1.6.0", "1.5.0") for g in ("1.4.0", "1.3.0", "1.2.0", "1.1.0", "1.0.1")]


class _Ctx:
    """asdf config in which gwcs manifests newer than `manifest` are not registered, so that writing uses `manifest`"""
    def __init__(self, manifest):
        self.manifest = manifest

    def __enter__(self):
        self.cm = asdf.config_context()
        cfg = self.cm.__enter__()
        allv = ["1.4.0", "1.3.0", "1.2.0", "1.1.0", "1.0.1"]
        for v in allv[:allv.index(self.manifest)]:
            cfg.remove_extension("asdf://asdf-format.org/astronomy/gwcs/extensions/gwcs-" + v)
        return cfg

    def __exit__(self, *a):
        return self.cm.__exit__(*a)


def write_bytes(obj, mode):
    with _Ctx(mode["manifest"]):
        af = asdf.AsdfFile({"obj": obj}, version=mode["version"])
        buf = io.BytesIO()
        af.write_to(buf)
        return buf.getvalue()


def _and_pickle(use):
    """apply `use` to the re-read object and to a pickle round trip of it (the re-read object must be as independent of the file as the
    original: lazily loaded blocks included)"""
    def f(o):
        r = use(o)
        try:
            r2 = use(pickle.loads(pickle.dumps(o)))
        except Exception as e:
            raise _ReadFailed("pickling the re-read object failed: %s: %s" % (type(e).__name__, str(e)[:120]))
        if r2 != r and not (isinstance(r, dict) and _diff(r, r2) is None):
            raise _ReadFailed("the pickle of the re-read object differs: %s" % (_diff(r, r2) if isinstance(r, dict) else "value"))
        return r
    return f


def read_back(data, mode, use):
    """open the bytes the way `mode` says and apply `use` to the object while the file is open; a file that was written but cannot
    be read back is a violation, not a harness problem"""
    try:
        return _read_back(data, mode, use)
    except Exception as e:
        raise _ReadFailed("%s: %s" % (type(e).__name__, str(e)[:160]))


def _read_back(data, mode, use):
    if mode["buffer"]:
        with asdf.open(io.BytesIO(data), lazy_load=mode["lazy_load"], memmap=False) as af:
            return use(af["obj"])
    with tempfile.TemporaryDirectory(prefix="c09-") as d:
        p = os.path.join(d, "t.asdf")
        with open(p, "wb") as fh:
            fh.write(data)
        with asdf.open(p, lazy_load=mode["lazy_load"], memmap=mode["memmap"]) as af:
            return use(af["obj"])


def _yaml_part(data):
    """the 'obj' subtree of an asdf file in a canonical text form: tags kept, anchors renumbered by first appearance
    (the tree may be recursive: a transform and its custom inverse refer to each other), software/history block dropped"""
    import yaml
    end = data.find(b"\n...\n")
    root = yaml.compose(data[:end].decode("utf8", "replace"), Loader=yaml.SafeLoader)
    obj = None
    for k, v in root.value:
        if k.value == "obj":
            obj = v
    out = []
    stack = []

    def walk(n):
        # shared sub-objects are unfolded (sharing of equal lists is not part of the tree's meaning); only a reference to an
        # enclosing node (a real cycle) is kept, as the distance to that ancestor
        if isinstance(n, yaml.ScalarNode):
            out.append("%s:%s" % (n.tag, n.value))
            return
        if id(n) in stack:
            out.append("^%d" % (len(stack) - stack.index(id(n))))
            return
        stack.append(id(n))
        out.append(n.tag)
        if isinstance(n, yaml.MappingNode):
            out.append("{")
            for k, v in n.value:
                walk(k)
                out.append("=")
                walk(v)
                out.append(",")
            out.append("}")
        else:
            out.append("[")
            for v in n.value:
                walk(v)
                out.append(",")
            out.append("]")
        stack.pop()
    if obj is not None:
        walk(obj)
    return " ".join(out)


# ------------------------------------------------------------------ models
def mk_model(s):
    k = s["model"]
    if k == "lm_array":
        return selector.LabelMapperArray(np.array(s["mask"]))
    if k == "lm_dict":
        return selector.LabelMapperDict(("x", "y"), {float(key): _leaf(v) for key, v in s["mapper"]}, inputs_mapping=models.Mapping((0,), n_inputs=2),
                                        atol=s["atol"])
    if k == "lm_range":
        return selector.LabelMapperRange(("x", "y"), {tuple(key): _leaf(v) for key, v in s["mapper"]}, inputs_mapping=models.Mapping((0,), n_inputs=2))
    if k == "lm":
        return selector.LabelMapper(("x", "y"), models.Mapping((0,), n_inputs=2) | _leaf(s["leaf"]), no_label=s["no_label"])
    if k == "regions":
        mask = selector.LabelMapperArray(np.array(s["mask"]))
        sel = {int(lab): (_leaf(a) & _leaf(b)) for lab, a, b in s["sel"]}
        return selector.RegionsSelector(("x", "y"), ("a", "b"), sel, mask, undefined_transform_value=s["undef"])
    if k == "sellmeier_glass":
        if s.get("c_unit"):
            # coefficients that carry their unit: the file format has no place for it - the write is refused, or the unit must survive
            return spectroscopy.SellmeierGlass(B_coef=s["B"], C_coef=s["C"] * u.Unit(s["c_unit"]))
        return spectroscopy.SellmeierGlass(B_coef=s["B"], C_coef=s["C"])
    if k == "sellmeier_zemax":
        return spectroscopy.SellmeierZemax(temperature=s["T"], ref_temperature=s["T0"], ref_pressure=s["P0"], pressure=s["P"],
                                           B_coef=s["B"], C_coef=s["C"], D_coef=s["D"], E_coef=s["E"])
    if k == "snell":
        return spectroscopy.Snell3D()
    gd = s.get("gd")
    if k in ("grating_w", "grating_a") and int(gd) % 3 == 0:
        gd = gd * u.Unit("1/mm")          # a ruling density with its unit, as instrument teams quote it (lines per mm)
    if k == "grating_w":
        return spectroscopy.WavelengthFromGratingEquation(groove_density=gd, spectral_order=s["order"])
    if k == "grating_a":
        return spectroscopy.AnglesFromGratingEquation3D(groove_density=gd, spectral_order=s["order"])
    if k == "dircos":
        return geometry.ToDirectionCosines() if s["to"] else geometry.FromDirectionCosines()
    if k == "sphcart":
        return geometry.SphericalToCartesian(wrap_lon_at=s["wrap"]) if s["to"] else geometry.CartesianToSpherical(wrap_lon_at=s["wrap"])
    raise ValueError(k)


def _leaf(v):
    a, b = v
    return models.Scale(a) | models.Shift(b)


MODEL_ARGS = {"lm_array": [(0, 0), (1, 2), (2, 1)], "lm_dict": [(1.0, 5.0), (2.0, 7.0), (9.0, 1.0)], "lm_range": [(1.5, 2.0), (6.5, 3.0), (20.0, 1.0)],
              "lm": [(1.0, 2.0), (3.5, 1.0)], "regions": [(0, 0), (1, 2), (2, 1), (2, 2)],
              "sellmeier_glass": [(1.5,), (2.25,)], "sellmeier_zemax": [(1.5,), (2.25,)],
              "snell": [(1.5, 0.1, 0.2, 0.97), (1.3, -0.2, 0.1, 0.97)], "grating_w": [(0.1, 0.2), (0.3, -0.1)],
              "grating_a": [(1.5e-6, 0.1, 0.2, 0.9)], "dircos": None, "sphcart": None}


def model_obs(m, s):
    """parameters, attributes and values on sample inputs"""
    out = {"type": type(m).__name__, "params": {p: np.asarray(getattr(m, p).value, dtype=float).tolist() for p in m.param_names},
           "param_units": {p: (None if getattr(m, p).unit is None else str(getattr(m, p).unit)) for p in m.param_names},
           "inputs": list(m.inputs), "outputs": list(m.outputs)}
    for attr in ("atol", "no_label", "undefined_transform_value", "wrap_lon_at"):
        if hasattr(m, attr):
            v = getattr(m, attr)
            out[attr] = "nan" if isinstance(v, float) and np.isnan(v) else v
    if hasattr(m, "inputs_mapping") and m.inputs_mapping is not None:
        out["inputs_mapping"] = list(m.inputs_mapping.mapping)
    if isinstance(getattr(m, "mapper", None), dict):
        out["mapper_keys"] = [list(k) if isinstance(k, tuple) else k for k in m.mapper]
    if isinstance(getattr(m, "selector", None), dict):
        out["selector_keys"] = list(m.selector)
    args = MODEL_ARGS[s["model"]]
    if args is None:
        if s["model"] == "dircos":
            args = [(1.0, 2.0, 2.0)] if s["to"] else [(1 / 3, 2 / 3, 2 / 3, 3.0)]
        else:
            args = [(30.0, 40.0), (200.0, -10.0)] if s["to"] else [(0.5, 0.5, 0.70710678), (-0.3, 0.2, 0.9)]
    vals = []
    for a in args:
        try:
            r = m(*a)
            vals.append([np.asarray(x, dtype=float).tolist() for x in (r if isinstance(r, tuple) else (r,))])
        except Exception as e:
            vals.append("err:" + C.exc_enum(e))
    out["values"] = vals
    return out


# ------------------------------------------------------------------ WCS
def mk_tr(t):
    k = t[0]
    if k == "affine":
        m = None
        for a, b in t[1]:
            s = models.Scale(a) | models.Shift(b)
            m = s if m is None else m & s
        return m
    if k == "poly":      # 2 -> 2, no analytic inverse
        return models.Mapping((0, 1, 0, 1)) | (models.Polynomial2D(1, c0_0=t[1], c1_0=1.0, c0_1=0.25) & models.Polynomial2D(1, c0_0=t[2], c1_0=-0.25, c0_1=1.0))
    if k == "user_inverse":
        m = models.Mapping((0, 1, 0, 1)) | (models.Polynomial2D(1, c0_0=t[1], c1_0=2.0, c0_1=0.0) & models.Polynomial2D(1, c0_0=t[2], c1_0=0.0, c0_1=4.0))
        m.inverse = models.Mapping((0, 1, 0, 1)) | (models.Polynomial2D(1, c0_0=-t[1] / 2.0, c1_0=0.5, c0_1=0.0) & models.Polynomial2D(1, c0_0=-t[2] / 4.0, c1_0=0.0, c0_1=0.25))
        return m
    if k == "tan":
        return (models.Shift(-t[1]) & models.Shift(-t[2]) | models.Scale(0.01) & models.Scale(0.01) | models.Pix2Sky_TAN() |
                models.RotateNative2Celestial(t[3], t[4], 180.0))
    if k == "model":
        return mk_model(t[1])
    if k == "dircos_chain":
        return geometry.SphericalToCartesian(wrap_lon_at=t[1]) | geometry.CartesianToSpherical(wrap_lon_at=t[1])
    if k == "regions2":
        return mk_model(t[1])
    raise ValueError(k)


def mk_wcs(s):
    steps = []
    for st in s["steps"]:
        fr = st["frame"] if isinstance(st["frame"], str) else mk_frame(st["frame"])
        steps.append((fr, mk_tr(st["tr"]) if st.get("tr") else None))
    if s.get("staged") and len(steps) >= 3 and not isinstance(steps[-1][0], str):
        # the last frame attached afterwards with insert_frame (existing frame by name, new frame as an object)
        w = gw.WCS(steps[:-2] + [(steps[-2][0], None)], name=s.get("name", ""))
        prev = steps[-2][0]
        w.insert_frame(prev if isinstance(prev, str) else prev.name, steps[-2][1], steps[-1][0])
    else:
        w = gw.WCS(steps, name=s.get("name", ""))
    if s.get("bbox"):
        w.bounding_box = tuple(tuple(b) for b in s["bbox"]) if len(s["bbox"]) > 1 else tuple(s["bbox"][0])
    if s.get("pixel_shape"):
        w.pixel_shape = tuple(s["pixel_shape"])
    if s.get("array_shape"):
        w.array_shape = tuple(s["array_shape"])      # (the route that works when the input frame is only a name)
    return w


def _num(r):
    seq = r if isinstance(r, tuple) else (r,)
    return [np.asarray(x, dtype=float).tolist() for x in seq]


def wcs_obs(w, s):
    n = w.forward_transform.n_inputs
    pts = [[3.25 + 2 * i, 7.5 - i, 1.75 + i][:n] for i in range(3)] + [[1e4] * n]
    out = {"name": w.name, "pixel_shape": list(w.pixel_shape) if w.pixel_shape is not None else None,
           "frames": [fields(st.frame) for st in w.pipeline], "nsteps": len(w.pipeline),
           # the frames as they are reached through the WCS (not only as the pipeline lists them)
           "input_frame": fields(w.input_frame) if w.input_frame is not None else None,
           "output_frame": fields(w.output_frame) if w.output_frame is not None else None}
    try:
        bb = w.bounding_box
        out["bbox"] = None if bb is None else [list(map(float, iv)) for iv in (bb.bounding_box() if n > 1 else [bb.bounding_box()])]
        out["bbox_order"] = None if bb is None else str(bb.order)
    except Exception as e:
        out["bbox"] = "err:" + C.exc_enum(e)
    fw, bw, pairs = [], [], []
    names = [st.frame if isinstance(st.frame, str) else st.frame.name for st in w.pipeline]
    try:
        w.forward_transform.inverse
        analytic = True
    except Exception:
        analytic = False
    for ip, p in enumerate(pts):
        try:
            r = w(*p)
            fw.append(_num(r))
            if ip == 3 and not analytic:
                # far outside any field the iterative inverse need not converge, and where it does not its answer hangs on the last bit
                # of the parameters: not a statement about the round trip
                bw.append("iterative inverse, far point: not compared")
                continue
            try:
                bw.append(_num(w.invert(*(r if isinstance(r, tuple) else (r,)))))
            except Exception as e:
                bw.append("err:" + C.exc_enum(e))
        except Exception as e:
            fw.append("err:" + C.exc_enum(e))
    for i, a in enumerate(names):
        for j, b in enumerate(names):
            if i == j:
                continue
            try:
                t = w.get_transform(a, b)
                pairs.append([a, b, _num(t(*([2.5, 3.25, 1.5, 0.75][:t.n_inputs])))])
            except Exception as e:
                pairs.append([a, b, "err:" + C.exc_enum(e)])
    out["forward"], out["backward"], out["pairs"] = fw, bw, pairs
    try:
        inv = w.forward_transform.inverse
        out["has_inverse"] = True
    except NotImplementedError:
        out["has_inverse"] = False
    return out


# ------------------------------------------------------------------ the case
def _frame_node_json(node):
    out = []
    for k, v in node.items():
        if k == "name":
            out.append([k, ["str", v]])
        elif k == "naxes":
            out.append([k, ["nat", int(v)]])
        elif k == "axes_order":
            out.append([k, ["nats", [int(x) for x in v]]])
        elif k in ("axes_type", "axes_names", "axis_physical_types"):
            out.append([k, ["strs", [("" if x is None else str(x)) for x in v]]])
        elif k == "unit":
            out.append([k, ["strs", [x.to_string() for x in v]]])
        elif k == "reference_frame":
            out.append([k, ["atom", 1]])
        elif k == "reference_position":
            out.append([k, ["str", v]])
        else:
            out.append([k, ["str", "?" + repr(v)]])
    return out


def _frame_json(f, kind):
    return {"kind": kind, "name": f.name, "naxes": f.naxes, "axes_type": [str(x) for x in f.axes_type], "axes_order": list(f.axes_order),
            "axes_names": [("" if x is None else x) for x in f.axes_names], "ref": None if f.reference_frame is None else 1,
            "unit": [x.to_string() for x in f.unit], "phys": list(f.axis_physical_types), "ref_pos": f.reference_position}


def _defaults(s):
    k = s["kind"]
    d = {"generic": None, "frame2d": lambda: cf.Frame2D(), "celestial": lambda: cf.CelestialFrame(reference_frame=SKY[s["ref"]]()),
         "spectral": lambda: cf.SpectralFrame(), "temporal": lambda: cf.TemporalFrame(time.Time("2020-01-01T00:00:00")),
         "stokes": lambda: cf.StokesFrame()}[k]
    if d is None:
        return {"naxes": 0, "axes_type": [], "axes_order": [], "axes_names": [], "unit": [], "phys": []}
    f = d()
    j = _frame_json(f, k)
    return {x: j[x] for x in ("naxes", "axes_type", "axes_order", "axes_names", "unit", "phys")}


def impl(case):
    try:
        return _impl(case)
    except _ReadFailed as e:
        return {"read_failed": str(e)}


class _ReadFailed(Exception):
    pass


def _impl(case):
    mode = case["mode"]
    res = {}
    if case["what"] == "frame":
        f = mk_frame(case["frame"])
        res["orig"] = fields(f)
        if case["frame"]["kind"] != "composite":
            conv = CONV[case["frame"]["kind"]]
            node = conv.to_yaml_tree(f, None, None)
            res["node"] = _frame_node_json(node)
            res["frame_json"] = _frame_json(f, case["frame"]["kind"])
            f2 = conv.from_yaml_tree(node, None, None)
            res["from_node"] = _frame_json(f2, case["frame"]["kind"])
        try:
            data = write_bytes(f, mode)
        except Exception as e:
            res["refused"] = type(e).__name__ + ":" + str(e)[:120]
            return res
        res["back"] = read_back(data, mode, _and_pickle(fields))
        data2 = write_bytes(read_back(data, mode, copy.deepcopy), mode)
        res["rewrite_same"] = _yaml_part(data) == _yaml_part(data2)
        if not res["rewrite_same"]:
            a, b = _yaml_part(data), _yaml_part(data2)
            i = next((k for k, (x, y) in enumerate(zip(a, b)) if x != y), min(len(a), len(b)))
            res["rewrite_diff"] = "%r vs %r" % (a[max(0, i - 60):i + 60], b[max(0, i - 60):i + 60])
        # (the copies are taken from a frame that has been in use: what the high-level interface asks a frame for must not stick to it)
        for attr in ("_world_axis_object_components", "_world_axis_object_classes"):
            try:
                getattr(f, attr, None)
            except Exception:
                pass
        for nm, cp in (("deepcopy", copy.deepcopy), ("pickle", lambda o: pickle.loads(pickle.dumps(o)))):
            try:
                res[nm] = fields(cp(f))
            except Exception as e:
                res[nm] = {"err": type(e).__name__ + ":" + str(e)[:100]}
        return res
    if case["what"] == "model":
        m = mk_model(case["spec"])
        res["orig"] = model_obs(m, case["spec"])
        try:
            data = write_bytes(m, mode)
        except Exception as e:
            res["refused"] = type(e).__name__ + ":" + str(e)[:120]
            return res
        res["back"] = read_back(data, mode, _and_pickle(lambda o: model_obs(o, case["spec"])))
        data2 = write_bytes(read_back(data, mode, copy.deepcopy), mode)
        res["rewrite_same"] = _yaml_part(data) == _yaml_part(data2)
        res["deepcopy"] = model_obs(copy.deepcopy(m), case["spec"])
        res["pickle"] = model_obs(pickle.loads(pickle.dumps(m)), case["spec"])
        # two occurrences of the kind in one file, told apart by name (and the second with a bounding box of its own): they come back as
        # two objects with their own names; and two reads of one file give independent objects
        try:
            ma, mb = mk_model(case["spec"]), mk_model(case["spec"])
            ma.name, mb.name = "first_occurrence", "second_occurrence"

            def pair_obs(o):
                a_, b_ = o["a"], o["b"]
                return {"distinct": a_ is not b_, "names": [a_.name, b_.name],
                        "same_values": repr(model_obs(a_, case["spec"])["values"]) == repr(model_obs(b_, case["spec"])["values"])}      # (repr: NaN equals NaN)
            dpair = write_bytes({"a": ma, "b": mb}, mode)
            res["pair"] = read_back(dpair, mode, pair_obs)

            def rename(o):
                o["a"].name = "renamed_in_first_read"
                return o["a"].name
            read_back(dpair, mode, rename)
            res["pair_second_read"] = read_back(dpair, mode, lambda o: [o["a"].name, o["b"].name])
        except _ReadFailed:
            raise
        except Exception as e:
            res["pair_err"] = type(e).__name__ + ":" + str(e)[:120]
        if case["spec"]["model"] == "regions":
            conv_node = None
            from gwcs.converters.selector import RegionsSelectorConverter
            nd = RegionsSelectorConverter().to_yaml_tree_transform(m, None, None)
            ids = {id(t): i for i, t in enumerate(m.selector.values())}
            res["sel_node"] = {"labels": [int(x) for x in nd["selector"]["labels"]], "transforms": [ids.get(id(t), -1) for t in nd["selector"]["transforms"]],
                               "pairs": [[int(k), i] for i, k in enumerate(m.selector)]}
        return res
    w = mk_wcs(case["wcs"])
    res["orig"] = wcs_obs(w, case["wcs"])
    try:
        data = write_bytes(w, mode)
    except Exception as e:
        res["refused"] = type(e).__name__ + ":" + str(e)[:120]
        return res
    res["back"] = read_back(data, mode, _and_pickle(lambda o: wcs_obs(o, case["wcs"])))
    w2 = read_back(data, mode, copy.deepcopy)
    data2 = write_bytes(w2, mode)
    res["rewrite_same"] = _yaml_part(data) == _yaml_part(data2)
    if not res["rewrite_same"]:
        a, b = _yaml_part(data), _yaml_part(data2)
        i = next((k for k, (x, y) in enumerate(zip(a, b)) if x != y), min(len(a), len(b)))
        res["rewrite_diff"] = "%r vs %r" % (a[max(0, i - 60):i + 60], b[max(0, i - 60):i + 60])
    # (the copies are taken from a WCS that has been in use through the high-level interface)
    try:
        _ = w.world_axis_object_components, w.world_axis_object_classes
        w.pixel_to_world(*[1.0] * w.forward_transform.n_inputs)
    except Exception:
        pass
    for nm, cp in (("deepcopy", copy.deepcopy), ("pickle", lambda o: pickle.loads(pickle.dumps(o)))):
        try:
            c = cp(w)
        except Exception as e:
            res[nm] = {"err": type(e).__name__ + ":" + str(e)[:100]}
            continue
        res[nm] = wcs_obs(c, case["wcs"])
        # independence: change the copy, the original must not move
        try:
            ft = c.pipeline[0].transform
            leaf = ft if not hasattr(ft, "_leaflist") else ft
            pn = c.forward_transform.param_names
            if pn:
                setattr(c.pipeline[0].transform, c.pipeline[0].transform.param_names[0],
                        getattr(c.pipeline[0].transform, c.pipeline[0].transform.param_names[0]).value + 1.0)
            n = c.forward_transform.n_inputs
            c.bounding_box = tuple((-1.0, 2.0) for _ in range(n)) if n > 1 else (-1.0, 2.0)
            c.name = "changed"
        except Exception as e:
            res[nm + "_mutate_err"] = type(e).__name__ + ":" + str(e)[:100]
        res[nm + "_orig_after"] = wcs_obs(w, case["wcs"])
    return res


def _key(case):
    if case["what"] == "frame":
        def has_custom_stokes(s):
            if s["kind"] == "stokes":
                return "axes_names" in s or "phys" in s
            return s["kind"] == "composite" and any(has_custom_stokes(x) for x in s["frames"])
        if has_custom_stokes(case["frame"]):
            return "D16"
    if case["what"] == "wcs":
        def any_stokes(s):
            return (s["kind"] == "stokes" and ("axes_names" in s or "phys" in s)) or (s["kind"] == "composite" and any(any_stokes(x) for x in s["frames"]))
        if any(not isinstance(st["frame"], str) and any_stokes(st["frame"]) for st in case["wcs"]["steps"]):
            return "D16"
    return None


def oracle(case, res):
    out = []
    if "read_failed" in res:
        return [("read", "the %s was written but cannot be read back (%s): %s" % (case["what"], _mode_str(case["mode"]), res["read_failed"]))]
    if "refused" in res:
        return out          # refusing to write is allowed by the property
    key = _key(case)
    what = case["what"]
    for nm in ("back", "deepcopy", "pickle"):
        r = res.get(nm)
        if r is None:
            continue
        if isinstance(r, dict) and "err" in r:
            out.append(("copy", "%s of the %s failed: %s" % (nm, what, r["err"])))
            continue
        d = _diff(res["orig"], r)
        if d:
            out.append(((key if nm == "back" else None) or ("asdf" if nm == "back" else nm),
                        "%s after %s (%s): %s" % (what, "ASDF round trip" if nm == "back" else nm, _mode_str(case["mode"]) if nm == "back" else "-", d)))
    if res.get("rewrite_same") is False:
        out.append(("rewrite", "writing the re-read %s gives a different tree: %s" % (what, res.get("rewrite_diff", ""))))
    if "pair_err" in res:
        out.append(("pair", "two occurrences of the %s in one file could not be written: %s" % (what, res["pair_err"])))
    if "pair" in res:
        pr = res["pair"]
        if not pr["distinct"] or pr["names"] != ["first_occurrence", "second_occurrence"] or not pr["same_values"]:
            out.append(("pair", "two occurrences of the model in one file come back as %s" % pr))
        if res.get("pair_second_read") != ["first_occurrence", "second_occurrence"]:
            out.append(("shared", "renaming a model read from a file changed what a second read of the same file returns: %s" % res.get("pair_second_read")))
    for nm in ("deepcopy", "pickle"):
        if nm + "_orig_after" in res:
            d = _diff(res["orig"], res[nm + "_orig_after"])
            if d:
                out.append(("shared", "changing the %s changed the original: %s" % (nm, d)))
    return out[:5]


def _mode_str(m):
    return "%s lazy=%s memmap=%s asdf-%s gwcs-%s" % ("buffer" if m["buffer"] else "file", m["lazy_load"], m["memmap"], m["version"], m["manifest"])


def request(case, res):
    reqs = []
    if "read_failed" in res:
        return None
    if case["what"] == "frame" and "node" in res:
        k = case["frame"]["kind"]
        reqs.append({"tag": "to_node", "op": "to_node", "frame": res["frame_json"]})
        reqs.append({"tag": "from_node", "op": "from_node", "kind": k, "node": res["node"], "defaults": _defaults(case["frame"])})
    if case["what"] == "model" and "sel_node" in res:
        reqs.append({"tag": "sel", "op": "sel", "pairs": res["sel_node"]["pairs"]})
    return {"multi": reqs} if reqs else None


def compare(case, res, resp):
    if "ok" not in resp:
        return "model error %s" % resp
    for item in resp["ok"]:
        m = item["resp"]
        if item["tag"] == "to_node":
            if m.get("ok") != res["node"]:
                return "to_yaml_tree: implementation writes %s, model %s" % (res["node"], m.get("ok"))
        elif item["tag"] == "from_node":
            if "ok" not in m:
                return "from_yaml_tree: model raises %s, implementation builds a frame" % m
            if m["ok"] != res["from_node"]:
                return "from_yaml_tree: implementation builds %s, model %s" % (res["from_node"], m["ok"])
        elif item["tag"] == "sel":
            sn = res["sel_node"]
            if m["ok"]["labels"] != sn["labels"] or m["ok"]["transforms"] != sn["transforms"]:
                return "selector node: implementation writes labels %s transforms %s, model %s %s" % (sn["labels"], sn["transforms"], m["ok"]["labels"], m["ok"]["transforms"])
    return None


def nontrivial(case, res):
    if case["what"] == "frame":
        s = case["frame"]
        return any(k in s for k in ("axes_names", "phys", "ref_pos")) or s["kind"] == "composite"
    if case["what"] == "wcs":
        return len(case["wcs"]["steps"]) > 2 or bool(case["wcs"].get("bbox"))
    return True


def stats(case, res, st):
    st["what_" + case["what"]] += 1
    st["mode_" + ("buffer" if case["mode"]["buffer"] else "file")] += 1
    st["asdf_" + case["mode"]["version"]] += 1
    st["manifest_" + case["mode"]["manifest"]] += 1
    if "read_failed" in res:
        st["read_failed"] += 1
    if "refused" in res:
        st["refused"] += 1
        st["refused:" + res["refused"][:60]] += 1
    if case["what"] == "frame":
        st["frame_" + case["frame"]["kind"]] += 1
    if case["what"] == "model":
        st["model_" + case["spec"]["model"]] += 1


# ------------------------------------------------------------------ generation
def gen_frame(rng, depth=0, order=None, allow_composite=True, idx=0):
    k = rng.choice(["generic", "frame2d", "celestial", "celestial", "spectral", "spectral", "temporal", "stokes"] +
                   (["composite"] * 2 if allow_composite and depth < 2 else []))
    s = {"kind": k, "name": "%s_%d_%d" % (k, depth, idx)}
    custom = rng.random() < 0.6
    if k == "composite":
        # an inner composite keeps local axes 0..k-1, so at most one can be nested and it takes the first axes of its parent
        subs = []
        inner = gen_frame_composite_leafs(rng, depth + 1) if (depth < 1 and rng.random() < 0.4) else None
        start = 0
        if inner is not None:
            start = sum(_nax(x) for x in inner["frames"])
            subs.append(inner)
        leaves = [gen_frame(rng, depth + 1, allow_composite=False, idx=i + 1) for i in range(rng.randint(1 if inner else 2, 3))]
        total = sum(_nax(x) for x in leaves)
        perm = list(range(start, start + total))
        rng.shuffle(perm)
        for x in leaves:
            n = _nax(x)
            x["axes_order"] = perm[:n]
            perm = perm[n:]
        subs += leaves
        rng.shuffle(subs)
        s["frames"] = subs
        return s
    n = {"generic": rng.randint(1, 3), "frame2d": 2, "celestial": 2}.get(k, 1)
    if k == "generic":
        s["naxes"] = n
        s["axes_type"] = [rng.choice(["SPATIAL", "SPECTRAL", "TIME", "custom"]) for _ in range(n)]
    s["axes_order"] = list(range(n)) if rng.random() < 0.6 else list(range(n))[::-1]
    if custom:
        s["axes_names"] = ["%s_ax%d" % (k[:3], i) for i in range(n)]
    if custom and rng.random() < 0.7:
        s["phys"] = ["custom:%s_p%d" % (k[:3], i) for i in range(n)]
    if k == "celestial":
        s["ref"] = rng.choice(list(SKY))
        if rng.random() < 0.4:
            s["unit"] = rng.choice([["arcsec", "arcsec"], ["deg", "arcmin"], ["rad", "rad"]])
    elif k == "spectral":
        s["unit"] = [rng.choice(["um", "nm", "Hz", "AA", "eV", "km/s"])]
        if rng.random() < 0.7:
            s["ref_pos"] = rng.choice(REFPOS)
    elif k == "temporal":
        s["unit"] = [rng.choice(["s", "min", "d"])]
        s["scale"] = rng.choice(["utc", "tai", "tt"])
        s["epoch"] = rng.choice(["2020-01-01T00:00:00", "1999-12-31T12:00:00"])
    elif k in ("generic", "frame2d") and rng.random() < 0.6:
        s["unit"] = [rng.choice(["pix", "m", "deg", "s"]) for _ in range(n)]
    return s


def gen_frame_composite_leafs(rng, depth):
    leaves = [gen_frame(rng, depth + 1, allow_composite=False, idx=i) for i in range(2)]
    total = sum(_nax(x) for x in leaves)
    perm = list(range(total))
    rng.shuffle(perm)
    for x in leaves:
        n = _nax(x)
        x["axes_order"] = perm[:n]
        perm = perm[n:]
    return {"kind": "composite", "name": "inner_%d" % depth, "frames": leaves}


def _nax(s):
    return {"generic": s.get("naxes", 1), "frame2d": 2, "celestial": 2}.get(s["kind"], 1)


def gen_model(rng, kind=None):
    k = kind or rng.choice(list(MODEL_ARGS))
    s = {"model": k}
    if k in ("lm_array", "regions"):
        s["mask"] = [[rng.choice([0, 1, 2, 3]) for _ in range(4)] for _ in range(4)]
    if k == "lm_dict":
        keys = rng.sample([1.0, 2.0, 9.0, 4.5], 3)
        s["mapper"] = [[key, [rng.choice([1.0, 2.0, 0.5]), float(rng.randint(-3, 3))]] for key in keys]
        s["atol"] = rng.choice([1e-8, 1e-3, 0.25])
    if k == "lm_range":
        starts = rng.sample([0.0, 5.0, 10.0, 15.0], 3)
        s["mapper"] = [[[a, a + 4.0], [rng.choice([1.0, 2.0, 0.5]), float(rng.randint(-3, 3))]] for a in starts]
    if k == "lm":
        s["leaf"] = [rng.choice([1.0, 2.0]), float(rng.randint(-3, 3))]
        s["no_label"] = rng.choice([0, -1, 99])
    if k == "regions":
        labs = rng.sample([1, 2, 3], 3)
        s["sel"] = [[lab, [float(lab), 1.0], [1.0, float(10 * lab)]] for lab in labs]
        s["undef"] = rng.choice([float("nan"), -99.0, 0.0, 0.0])      # 0 is a legitimate fill value, not "unset"
        if s["undef"] != s["undef"]:
            s["undef"] = "nan"
    if k == "sellmeier_glass":
        s["B"], s["C"] = [rng.uniform(0.3, 1.2) for _ in range(3)], [rng.uniform(0.003, 0.02), rng.uniform(0.01, 0.05), rng.uniform(50, 150)]
        if rng.random() < 0.5:
            s["c_unit"] = "um2"
    if k == "sellmeier_zemax":
        s.update(T=rng.uniform(10, 40), T0=rng.uniform(15, 25), P0=rng.choice([1.0, 0.9]), P=rng.choice([0.0, 0.5, 1.0]),
                 B=[rng.uniform(0.3, 1.2) for _ in range(3)], C=[rng.uniform(0.003, 0.02), rng.uniform(0.01, 0.05), rng.uniform(50, 150)],
                 D=[rng.uniform(-1e-5, 1e-5) for _ in range(3)], E=[rng.uniform(-1e-7, 1e-7), rng.uniform(-1e-9, 1e-9), rng.uniform(0.1, 0.3)])
    if k in ("grating_w", "grating_a"):
        s["gd"], s["order"] = float(rng.randint(100, 40000)), rng.choice([-1, 1, 2, 1.5, -0.75])   # the order is an ordinary float parameter
    if k in ("dircos", "sphcart"):
        s["to"] = rng.random() < 0.5
        s["wrap"] = rng.choice([180, 360])
    return s


def fix_model(s):
    if s.get("undef") == "nan":
        s = dict(s, undef=float("nan"))
    return s


_orig_mk_model = mk_model


def mk_model(s):   # noqa: F811  (JSON cannot carry NaN)
    return _orig_mk_model(fix_model(s))


def gen_wcs(rng):
    n = rng.choice([2, 2, 2, 3, 1])
    steps = []
    nsteps = rng.randint(1, 3)
    first = {"kind": "generic", "name": "detector", "naxes": n, "axes_type": ["SPATIAL"] * n, "unit": ["pix"] * n} if rng.random() < 0.8 else "detector"
    frames = [first]
    for i in range(nsteps - 1):
        frames.append(rng.choice(["mid%d" % i, {"kind": "generic", "name": "mid%d" % i, "naxes": n, "axes_type": ["SPATIAL"] * n}]))
    # output frame matching n
    if n == 1:
        out = gen_frame(rng, allow_composite=False)
        while _nax(out) != 1:
            out = gen_frame(rng, allow_composite=False)
    elif n == 2:
        out = gen_frame(rng, allow_composite=False)
        while _nax(out) != 2:
            out = gen_frame(rng, allow_composite=False)
    else:
        a = gen_frame(rng, 1, allow_composite=False)
        while _nax(a) != 2:
            a = gen_frame(rng, 1, allow_composite=False)
        b = gen_frame(rng, 1, allow_composite=False, idx=1)
        while _nax(b) != 1:
            b = gen_frame(rng, 1, allow_composite=False, idx=1)
        perm = [0, 1, 2]
        rng.shuffle(perm)
        a["axes_order"], b["axes_order"] = perm[:2], perm[2:]
        out = {"kind": "composite", "name": "world", "frames": [a, b]}
    out = dict(out, name="world") if out["kind"] != "composite" else out
    if out["kind"] != "composite":
        out["axes_order"] = list(range(n)) if "axes_order" not in out else out["axes_order"]
    frames.append(out)
    for i, fr in enumerate(frames[:-1]):
        choices = ["affine"]
        if n == 2:
            choices += ["poly", "user_inverse", "tan", "regions2", "dircos_chain"]
        k = rng.choice(choices)
        if k == "affine":
            tr = ["affine", [[rng.choice([1.0, 2.0, 0.5]), float(rng.randint(-5, 5))] for _ in range(n)]]
        elif k in ("poly", "user_inverse"):
            tr = [k, float(rng.randint(-3, 3)), float(rng.randint(-3, 3))]
        elif k == "tan":
            tr = ["tan", float(rng.randint(5, 20)), float(rng.randint(5, 20)), float(rng.randint(10, 300)), float(rng.randint(-60, 60))]
        elif k == "regions2":
            spec = gen_model(rng)
            while spec["model"] != "regions":
                spec = gen_model(rng)
            tr = ["regions2", spec]
        else:
            tr = ["dircos_chain", rng.choice([180, 360])]
        steps.append({"frame": fr, "tr": tr})
    steps.append({"frame": frames[-1], "tr": None})
    s = {"steps": steps, "name": rng.choice(["", "mywcs"])}
    if rng.random() < 0.6:
        s["bbox"] = [[float(rng.randint(-5, 0)) - 0.5, float(rng.randint(8, 30)) + 0.5] for _ in range(n)]
    if rng.random() < 0.5 and not isinstance(first, str):   # the pixel_shape setter needs an input frame object
        s["pixel_shape"] = [rng.randint(8, 64) for _ in range(n)]
    elif isinstance(first, str) and rng.random() < 0.6:
        s["array_shape"] = [rng.randint(8, 64) for _ in range(n)]
    s["staged"] = rng.random() < 0.4
    return s


def gen(rng, tier):
    q = tier == "quick"
    # every model kind once (twice in the thorough tier) whatever the draws below: each converter is its own code
    for _rep in range(1 if q else 2):
        for kind in MODEL_ARGS:
            mode = dict(rng.choice(MODES))
            if rng.random() < 0.6:
                mode["manifest"], mode["version"] = "1.4.0", "1.6.0"
            spec = gen_model(rng, kind)
            if kind == "sellmeier_zemax":
                spec["P0"], spec["P"] = rng.choice([[0.9, 0.5], [1.0, 0.0], [0.9, 1.0]])      # pressure and reference pressure differ
            if kind == "lm_dict":
                spec["atol"] = rng.choice([1e-3, 0.25])                                      # not the constructor's default
            yield {"what": "model", "mode": mode, "spec": spec}
    for i in range(70 if q else 1500):
        what = rng.choice(["frame", "frame", "model", "wcs", "wcs"])
        mode = dict(rng.choice(MODES))
        if rng.random() < 0.6:
            mode["manifest"], mode["version"] = "1.4.0", "1.6.0"
        case = {"what": what, "mode": mode}
        if what == "frame":
            case["frame"] = gen_frame(rng)
            _legacy_refpos(case["frame"], mode, rng)
        elif what == "model":
            case["spec"] = gen_model(rng)
        else:
            case["wcs"] = gen_wcs(rng)
            for st in case["wcs"]["steps"]:
                if not isinstance(st["frame"], str):
                    _legacy_refpos(st["frame"], mode, rng)
        yield case


def _legacy_refpos(s, mode, rng):
    """ASDF standard 1.5.0 fills schema defaults on read, so 'no reference position' cannot be represented there (absent = geocenter):
    that combination is outside the property's 'every version that can represent it'"""
    if mode["version"] != "1.5.0":
        return
    if s["kind"] == "spectral" and not s.get("ref_pos"):
        s["ref_pos"] = rng.choice(REFPOS)
    for x in s.get("frames", []):
        _legacy_refpos(x, mode, rng)
