"""C03 — bounding box masks exactly the out-of-range inputs and nothing else (gwcs/wcs.py, gwcs/api.py)."""
import math

import numpy as np
from astropy.modeling import models

import common as C
from gwcs import wcs as gw

PROP = "C03"
LEAN_MODULE = "GwcsProofs.C03"
SOURCES = ["GwcsModel/Basic.lean", "GwcsModel/BBox.lean", "GwcsModel/Pipeline.lean", "GwcsProofs/C03.lean", "GwcsProofs/C03a.lean", "GwcsProofs/C03c.lean"]
THEOREMS = [
    "Gwcs.BBox.outside_iff",
    "Gwcs.BBox.masked_of_outside",
    "Gwcs.BBox.unmasked_of_inside",
    "Gwcs.BBox.nobox_flag",
    "Gwcs.BBox.nobox_none",
    "Gwcs.BBox.nan_is_inside",
    "Gwcs.BBox.batch_is_map",
    "Gwcs.BBox.pixel_bounds_eq_box",
    "Gwcs.BBox.toF_modelBox",
    "Gwcs.BBox.copy_preserves_axes",
    "Gwcs.BBox.own_reading_transposes",
    "Gwcs.BBox.mask_order_independent",
    "Gwcs.BBox.flip_changes_reading",
    "Gwcs.BBox.edge_inclusive",
    "Gwcs.BBox.inside_iff_closed",
    "Gwcs.Pipe.set_get_roundtrip",
    "Gwcs.Pipe.bad_dim_rejected",
    "Gwcs.BBoxDict.dict_order_irrelevant",
]
RULE = ("case = (WCS of 1..4 axes with a separable exact affine transform, box (integer/fractional/zero-width/offset) or none, fill "
        "(NaN/+-inf/finite/0), masking flag explicit or default, batch of points drawn per axis from {lo, hi, one ulp either side, middle, "
        "far, +-inf, NaN}, array shape 0-d..3-d, a wrong-dimensional assignment); non-trivial = batch has both inside and outside points or "
        "an edge/ulp point; distinct by hash of (box, shape, flags)")
TRUSTED = ["harness/props/c03.py correspondence on IEEE bit patterns: real WCS.__call__ vs Lean `evalBatch` at Float",
           "astropy ModelBoundingBox.evaluate (modelled: its < / > test is mirrored and exercised)"]
ASSUMPTIONS = ["transforms are evaluated by astropy as Scale-then-Shift per axis in IEEE double arithmetic"]


def _cf(v):
    v = float(v)
    return "nan" if v != v else C.f2w(v)


def _build(case):
    ns = case.get("nsteps", 1)
    if ns == 1:
        t = None
        for a, b in case["ab"]:
            s = models.Scale(a) | models.Shift(b)
            t = s if t is None else t & s
        return gw.WCS([("detector", t), ("world", None)])
    # the same arithmetic spread over several pipeline steps (the box lives on the first one): scale | shift [| duplicate the last axis]
    sc = sh = None
    for a, b in case["ab"]:
        sc = models.Scale(a) if sc is None else sc & models.Scale(a)
        sh = models.Shift(b) if sh is None else sh & models.Shift(b)
    n = len(case["ab"])
    pipe = [("detector", sc), ("scaled", sh)]
    if ns == 3 or case.get("dup"):
        pipe.append(("shifted", models.Mapping(tuple(range(n)) + ((n - 1,) if case.get("dup") else ()))))
    pipe.append(("world", None))
    return gw.WCS(pipe)


def _undup(case, r):
    """drop the duplicated last output (after checking that it is a duplicate)"""
    if not (case.get("dup") and case.get("nsteps", 1) > 1):
        return r, True
    same = bool(np.array_equal(np.asarray(r[-1]), np.asarray(r[-2]), equal_nan=True))
    return tuple(r[:-1]), same


def _box_arg(box):
    t = tuple((lo, hi) for lo, hi in box)
    return t[0] if len(t) == 1 else t


def _read_box(w, order="F"):
    bb = w.bounding_box
    if bb is None:
        return None
    t = bb.bounding_box(order=order) if order else bb.bounding_box()
    if len(bb.intervals) == 1:
        t = (t,)
    return [[_cf(a), _cf(b)] for a, b in t]


def _flag(case):
    """the masking flag as a Python bool, a numpy bool (what a comparison returns) or 0 / 1"""
    v = case["withbb"]
    return {"np": np.bool_(v), "int": int(v)}.get(case.get("flag_form"), v)


def _call(w, pt, case, force_off=False):
    kw = {}
    if force_off:
        kw["with_bounding_box"] = False
    elif case["withbb"] is not None:
        kw["with_bounding_box"] = _flag(case)
    if case["fill"] is not None:
        kw["fill_value"] = case["fill"]
    r = w(*pt, **kw)
    r = r if isinstance(r, tuple) else (r,)
    nexp = len(case["ab"]) + (1 if (case.get("dup") and case.get("nsteps", 1) > 1 and _is_multi(w)) else 0)
    if len(r) != nexp:
        raise ValueError("%d outputs for a WCS with %d world axes" % (len(r), nexp))
    if nexp > len(case["ab"]):
        r, same = _undup(case, r)
        if not same:
            raise ValueError("the duplicated world axis differs from its source: %r" % (r,))
    return r


def _is_multi(w):
    return len(w.pipeline) > 2


def impl(case):
    w = _build(case)
    n = len(case["ab"])
    res = {}
    how = case.get("how", "setter")
    if case["box"] is not None:
        if how == "setter" or n == 1:
            arg_ = _box_arg(case["box"])
            if case.get("as_dict") and n > 1:
                # the box given per input name, the keys NOT in input order
                names_ = list(w.pipeline[0].transform.inputs)
                arg_ = {names_[i]: arg_[i] for i in reversed(range(n))}
            w.bounding_box = arg_
        else:
            # the box lives on the astropy model in astropy's own ('C', last axis first) order, as wcs_from_fiducial and many
            # pipelines create it; "copy" then assigns that ModelBoundingBox object to another WCS
            src = _build(case)
            src.forward_transform.bounding_box = tuple((lo, hi) for lo, hi in case["box"])[::-1]
            src = gw.WCS([("detector", src.forward_transform), ("world", None)])
            if how == "model":
                w = src
            else:
                w.bounding_box = src.bounding_box
    res["box_back"] = _read_box(w)
    if w.bounding_box is not None:
        res["stored_order"] = w.bounding_box.order
        res["stored_own"] = _read_box(w, order=None)
    pb = w.pixel_bounds
    res["pixel_bounds"] = None if pb is None else [[_cf(a), _cf(b)] for a, b in pb]
    # a wrong-dimensional assignment must be rejected and change nothing
    wrong = case["wrong_box"]
    try:
        wb_ = tuple((lo, hi) for lo, hi in wrong)
        w.bounding_box = np.array(wb_) if (case.get("wrong_as_array") and len(wb_) > 0) else wb_
        res["wrong"] = "accepted"
    except Exception as e:
        res["wrong"] = C.exc_enum(e)
    try:
        res["box_after_wrong"] = _read_box(w)
    except Exception as e:
        res["box_after_wrong"] = "unreadable (%s)" % type(e).__name__
        if res["wrong"] == "accepted":
            return res        # (the WCS is left with a box that is not a box: reported by the oracle, nothing more can be evaluated)
    vals, plain, shapes_ok = [], [], True
    for pt in case["pts"]:
        r = _call(w, pt, case)
        vals.append([_cf(v) for v in r])
        shapes_ok = shapes_ok and all(np.ndim(v) == 0 for v in r)
        r0 = _call(w, pt, case, force_off=True)
        plain.append([_cf(v) for v in r0])
    res["vals"], res["plain"], res["scalar_out"] = vals, plain, shapes_ok
    if case.get("nsteps", 1) == 1 and not _is_multi(w):
        # the same evaluations through WCS.transform between the two frames, with the same options (flag given in any form)
        tv = []
        for pt in case["pts"]:
            kw_ = {}
            if case["withbb"] is not None:
                kw_["with_bounding_box"] = _flag(case)
            if case["fill"] is not None:
                kw_["fill_value"] = case["fill"]
            try:
                r_ = w.transform("detector", "world", *pt, **kw_)
                r_ = r_ if isinstance(r_, tuple) else (r_,)
                tv.append([_cf(v) for v in r_])
            except Exception as e:
                tv.append("raised " + C.exc_enum(e))
        res["transform_vals"] = tv
    if n == 1 and case["box"] is not None:
        # the interval of a one-input unit-carrying WCS given as quantities, in each of the accepted spellings
        import astropy.units as u_
        from gwcs import coordinate_frames as cf_
        lo_, hi_ = case["box"][0]
        qb = {}
        for form, val in (("pair", (lo_ * u_.pix, hi_ * u_.pix)), ("nested", ((lo_ * u_.pix, hi_ * u_.pix),)), ("array", [lo_, hi_] * u_.pix)):
            wq = gw.WCS([(cf_.CoordinateFrame(1, ("SPATIAL",), (0,), unit=(u_.pix,), name="detector"), models.Multiply(2.0 * u_.um / u_.pix)),
                         (cf_.SpectralFrame(unit=u_.um, name="world"), None)])
            try:
                wq.bounding_box = val
                iv = wq.bounding_box.intervals[0] if hasattr(wq.bounding_box, "intervals") else None
                qb[form] = [_cf(iv.lower.to_value(u_.pix)), _cf(iv.upper.to_value(u_.pix))]
            except Exception as e:
                qb[form] = "raised %s: %s" % (type(e).__name__, str(e)[:80])
        res["qbox"] = qb
    # the box as reported back after evaluating (explicit F order, and the way a user reads it: default order / tuple equality)
    res["box_after_eval"] = _read_box(w)
    res["box_default_after_eval"] = _read_box(w, order=None)
    if w.bounding_box is not None and w.bounding_box.order == "C" and res["box_default_after_eval"] is not None:
        res["box_default_after_eval"] = res["box_default_after_eval"][::-1]     # its own order is last axis first
    res["box_eq_after_eval"] = None if (case["box"] is None or (how != "setter" and n > 1)) else bool(w.bounding_box == _box_arg(case["box"]))
    # two WCSs built from one and the same model instance (the single-model form of the constructor): a box given to one of them is
    # not the other's, nor the caller's model's
    if case["box"] is not None and case.get("nsteps", 1) == 1:
        try:
            t_ = None
            for a_, b_ in case["ab"]:
                s_ = models.Scale(a_) | models.Shift(b_)
                t_ = s_ if t_ is None else t_ & s_
            wa, wb = gw.WCS(t_, "detector", "world"), gw.WCS(t_, "detector", "world")
            wa.bounding_box = _box_arg(case["box"])
            try:
                mb = t_.bounding_box
            except NotImplementedError:
                mb = None
            res["shared"] = {"other_box": _read_box(wb), "model_has_box": mb is not None,
                             "other_vals": [[_cf(v) for v in _call(wb, pt, case)] for pt in case["pts"]]}
        except Exception as e:
            res["shared"] = {"err": type(e).__name__ + ":" + str(e)[:80]}
    # array evaluation in the requested shape
    shape = tuple(case["shape"])
    cols = [np.array([pt[i] for pt in case["pts"]], dtype=float).reshape(shape) for i in range(n)]
    kw = {}
    if case["withbb"] is not None:
        kw["with_bounding_box"] = _flag(case)
    if case["fill"] is not None:
        kw["fill_value"] = case["fill"]
    try:
        r = w(*cols, **kw)
        r = r if isinstance(r, tuple) else (r,)
        if case.get("dup") and case.get("nsteps", 1) > 1 and _is_multi(w):
            if len(r) != n + 1:
                raise ValueError("%d outputs for a WCS with %d world axes" % (len(r), n + 1))
            r, same = _undup(case, r)
            if not same:
                raise ValueError("the duplicated world axis differs from its source")
        res["arr_shapes"] = [list(np.shape(v)) for v in r]
        res["arr"] = [[_cf(v[idx]) for v in r] for idx in np.ndindex(*shape)] if shape else [[_cf(v) for v in r]]
    except Exception as e:
        res["arr_err"] = C.exc_enum(e)
    return res


def _outside(box, pt):
    return any((x < lo) or (x > hi) for (lo, hi), x in zip(box, pt))


def oracle(case, res):
    out = []
    box = case["box"]
    exp_box = None if box is None else [[_cf(a), _cf(b)] for a, b in box]
    if res["box_back"] != exp_box:
        out.append(("roundtrip", "bounding box assigned %s read back as %s" % (box, res["box_back"])))
    if res["pixel_bounds"] != exp_box:
        out.append(("pixel_bounds", "pixel_bounds %s != box %s" % (res["pixel_bounds"], exp_box)))
    if res["wrong"] == "accepted":
        out.append(("bad_dim", "a %d-interval box%s was accepted by a %d-input WCS" % (len(case["wrong_box"]), " (given as an array)" if case.get("wrong_as_array") else "", len(case["ab"]))))
        if "vals" not in res:
            return out
    if res["box_after_wrong"] != exp_box:
        out.append(("bad_dim_state", "rejected box assignment changed the box: %s -> %s" % (exp_box, res["box_after_wrong"])))
    if res["box_after_eval"] != exp_box or res["box_default_after_eval"] != exp_box or res["box_eq_after_eval"] is False:
        out.append(("roundtrip_after_eval", "after evaluating, the box assigned as %s is reported as %s (default order %s, == assigned tuple: %s)"
                    % (box, res["box_after_eval"], res["box_default_after_eval"], res["box_eq_after_eval"])))
    masking = (case["withbb"] is None or case["withbb"]) and box is not None
    fill = float("nan") if case["fill"] is None else case["fill"]
    for pt, v, p in zip(case["pts"], res["vals"], res["plain"]):
        if masking and _outside(box, pt):
            if v != [_cf(fill)] * len(v):
                out.append(("mask", "point %s is outside the box %s but evaluates to %s (fill %r)" % (pt, box, [_dec(x) for x in v], fill)))
        elif v != p:
            out.append(("unmask", "point %s is not outside the box %s (masking %s) but gives %s instead of the unmasked %s" %
                        (pt, box, masking, [_dec(x) for x in v], [_dec(x) for x in p])))
        if len(out) > 3:
            break
    if "transform_vals" in res and res["transform_vals"] != res["vals"]:
        bad = [(pt, a, b) for pt, a, b in zip(case["pts"], res["transform_vals"], res["vals"]) if a != b][:1]
        out.append(("transform", "WCS.transform('detector', 'world', ...) with with_bounding_box=%r fill_value=%r at %s gives %s, the call gives %s" %
                    (None if case["withbb"] is None else _flag(case), case["fill"], bad[0][0], bad[0][1] if isinstance(bad[0][1], str) else [_dec(x) for x in bad[0][1]], [_dec(x) for x in bad[0][2]])))
    for form, got in (res.get("qbox") or {}).items():
        if got != exp_box[0]:
            out.append(("quantity_box", "the interval %s given as quantities (%s) on a one-input unit-carrying WCS: %s" % (box[0], form, got)))
    sh = res.get("shared")
    if sh is not None:
        if "err" in sh:
            out.append(("shared", "two WCSs from one model instance: %s" % sh["err"]))
        elif sh["other_box"] is not None or sh["model_has_box"] or sh["other_vals"] != res["plain"]:
            out.append(("shared", "a box assigned to one WCS shows on another WCS built from the same model instance (box %s, the caller's model has a box: %s, "
                                  "evaluation %s the unmasked one)" % (sh["other_box"], sh["model_has_box"], "equals" if sh["other_vals"] == res["plain"] else "differs from")))
    if not res["scalar_out"]:
        out.append(("shape", "scalar input did not give scalar output"))
    if "arr_err" in res:
        out.append(("array", "array evaluation raised %s" % res["arr_err"]))
    else:
        if any(s != list(case["shape"]) for s in res["arr_shapes"]):
            out.append(("shape", "array input of shape %s gave output shapes %s" % (case["shape"], res["arr_shapes"])))
        if res["arr"] != res["vals"]:
            bad = [i for i, (a, b) in enumerate(zip(res["arr"], res["vals"])) if a != b][:3]
            out.append(("batch", "array evaluation differs from point-by-point evaluation at batch positions %s" % bad))
    return out


def _dec(s):
    return s if s == "nan" else C.w2f(s)


def request(case, res):
    if "vals" not in res:
        return None
    req = _request(case, res)
    if case["box"] is not None and case.get("how", "setter") != "setter" and len(case["ab"]) > 1:
        # the box as it is stored on the astropy model: its own ('C') order, last input first
        req.pop("box")
        req["obox"] = {"order": res.get("stored_order", "C"), "stored": res.get("stored_own")}
    return req


def _request(case, res):
    return {"op": "mask", "box": None if case["box"] is None else [[C.f2w(a), C.f2w(b)] for a, b in case["box"]],
            "ab": [[C.f2w(a), C.f2w(b)] for a, b in case["ab"]],
            "fill": C.f2w(float("nan") if case["fill"] is None else case["fill"]),
            "withbb": True if case["withbb"] is None else case["withbb"],
            "pts": [[C.f2w(x) for x in pt] for pt in case["pts"]]}


def compare(case, res, resp):
    if "ok" not in resp:
        return "model error %s" % resp
    if resp["ok"].get("box_f") is not None and resp["ok"]["box_f"] != res["box_back"]:
        return "per-axis reading of the stored box: implementation %s, model %s (stored %s in order %s)" % (
            res["box_back"], resp["ok"]["box_f"], res.get("stored_own"), res.get("stored_order"))
    if resp["ok"]["vals"] != res["vals"]:
        for pt, a, b in zip(case["pts"], res["vals"], resp["ok"]["vals"]):
            if a != b:
                return "point %s box %s: impl %s model %s" % (pt, case["box"], [_dec(x) for x in a], [_dec(x) for x in b])
    return None


def nontrivial(case, res):
    box = case["box"]
    if box is None:
        return False
    o = [_outside(box, pt) for pt in case["pts"]]
    return (any(o) and not all(o)) or case.get("has_edge", False)


def stats(case, res, st):
    st["box_how_" + case.get("how", "setter")] += 1
    st["dim_%d" % len(case["ab"])] += 1
    st["box_none" if case["box"] is None else "box_" + case.get("boxkind", "?")] += 1
    st["fill_" + ("default" if case["fill"] is None else ("nan" if case["fill"] != case["fill"] else ("inf" if math.isinf(case["fill"]) else ("zero" if case["fill"] == 0 else "finite"))))] += 1
    st["withbb_" + str(case["withbb"])] += 1
    st["shape_%dd" % len(case["shape"])] += 1
    if case["box"] is not None:
        o = [_outside(case["box"], pt) for pt in case["pts"]]
        st["pts_outside"] += sum(o)
        st["pts_inside"] += len(o) - sum(o)


def gen(rng, tier):
    n = 400 if tier == "quick" else 20000
    for _ in range(n):
        dim = rng.randint(1, 4)
        ab = [[rng.choice([1.0, 2.0, -1.0, 0.5, 4.0, -2.0]), float(rng.randint(-20, 20))] for _ in range(dim)]
        kind = rng.choice(["integer", "fractional", "zero_width", "offset", "half_pixel", "none"])
        box = None
        if kind != "none":
            box = []
            for _i in range(dim):
                if kind == "integer":
                    lo = float(rng.randint(-5, 5)); hi = lo + rng.randint(1, 50)
                elif kind == "fractional":
                    lo = round(rng.uniform(-5, 5), 3); hi = lo + round(rng.uniform(0.001, 40), 3)
                elif kind == "zero_width":
                    lo = hi = float(rng.randint(-3, 30)) + rng.choice([0.0, 0.5, 0.1])
                elif kind == "offset":
                    lo = float(rng.randint(1000, 5000)); hi = lo + rng.randint(1, 2000)
                else:
                    lo = -0.5; hi = rng.randint(1, 2048) - 0.5
                box.append([lo, hi])
        fill = rng.choice([None, None, float("nan"), float("inf"), float("-inf"), 0.0, -1.0, 1e30, 99.5])
        withbb = rng.choice([None, None, True, True, False])
        npts = rng.choice([1, 2, 4, 6, 8, 12])
        pts = []
        has_edge = False
        for _p in range(npts):
            pt = []
            for i in range(dim):
                if box is None:
                    pt.append(rng.choice([float(rng.randint(-50, 50)), round(rng.uniform(-50, 50), 2), float("nan"), float("inf")]))
                    continue
                lo, hi = box[i]
                r = rng.random()
                if r < 0.35:
                    v = rng.choice([lo, hi, math.nextafter(lo, -math.inf), math.nextafter(lo, math.inf),
                                    math.nextafter(hi, -math.inf), math.nextafter(hi, math.inf)])
                    has_edge = True
                elif r < 0.7:
                    v = (lo + hi) / 2 if rng.random() < 0.5 else lo + (hi - lo) * rng.random()
                elif r < 0.88:
                    v = rng.choice([lo - rng.uniform(0.001, 100), hi + rng.uniform(0.001, 100)])
                else:
                    v = rng.choice([float("nan"), float("inf"), float("-inf"), 0.0, -0.0])
                pt.append(v)
            pts.append(pt)
        shapes = {1: [[], [1]], 2: [[2], [2, 1], [1, 2]], 4: [[4], [2, 2], [4, 1, 1]], 6: [[6], [2, 3], [3, 2, 1]],
                  8: [[8], [2, 2, 2], [4, 2]], 12: [[12], [3, 4], [2, 3, 2]]}
        wd = dim + rng.choice([-1, 1]) if dim > 1 else 2
        if rng.random() < 0.2:
            wd = 0          # no interval at all: (), not a way of clearing the box
        wrong = [[0.0, 1.0 + i] for i in range(wd)]
        case = {"ab": ab, "box": box, "boxkind": kind, "fill": fill, "withbb": withbb, "pts": pts, "shape": rng.choice(shapes[npts]),
                "wrong_box": wrong, "has_edge": has_edge, "how": rng.choice(["setter", "setter", "model", "copy"])}
        case["flag_form"] = rng.choice([None, None, "np", "int"])
        case["wrong_as_array"] = rng.random() < 0.3
        if case["how"] == "setter" and len(ab) > 1 and _ % 3 == 1:
            case["as_dict"] = True
        if case["how"] == "setter" and rng.random() < 0.4:
            # the same arithmetic as a 2- or 3-step pipeline, optionally with one more world than pixel axes
            case["nsteps"] = rng.choice([2, 3])
            case["dup"] = rng.random() < 0.5
        yield case
