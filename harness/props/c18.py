"""C18 — footprint and pixel grids are the box's corners and pixels, in documented order (wcs.py, wcstools.py, utils.py)."""
import itertools
import math
from fractions import Fraction

import numpy as np
from astropy import units as u

import common as C
import pipegen as G
from gwcs import coordinate_frames as cf
from gwcs import wcs as gw
from gwcs import wcstools

PROP = "C18"
LEAN_MODULE = "GwcsProofs.C18"
SOURCES = ["GwcsModel/Basic.lean", "GwcsModel/Api.lean", "GwcsModel/Grid.lean", "GwcsProofs/C18.lean", "GwcsProofs/C18a.lean", "GwcsProofs/C18b.lean"]
THEOREMS = [
    "Gwcs.Grid.gridCount_bounds",
    "Gwcs.Grid.starts_at_lower",
    "Gwcs.Grid.advances_by_step",
    "Gwcs.Grid.stops_at_first_reaching_upper",
    "Gwcs.Grid.unit_centred_is_overlapping_pixels",
    "Gwcs.Grid.order_xy",
    "Gwcs.Grid.scalar_step_broadcast",
    "Gwcs.Grid.bad_step_refused",
    "Gwcs.Grid.no_box_refused",
    "Gwcs.Grid.chooseBox_passed",
    "Gwcs.Grid.chooseBox_own",
    "Gwcs.Grid.clockwise_from_lower_left",
    "Gwcs.Grid.all_spatial_not_planar",
    "Gwcs.Grid.centre_moves_to_pixel_centres",
    "Gwcs.Grid.footprint_is_image_of_corners",
    "Gwcs.Grid.product_length",
    "Gwcs.Grid.product_mem",
    "Gwcs.Grid.product_order_first",
    "Gwcs.Grid.axis_type_spelling_irrelevant",
    "Gwcs.Grid.temporal_alias",
    "Gwcs.Grid.sampling_count",
    "Gwcs.Grid.sampling_ends_on_limits",
    "Gwcs.Grid.sampling_within_box",
    "Gwcs.Grid.samplingAxes_two",
]
RULE = ("cases: (a) grid — 1..3-D boxes with integer/half/quarter limits (zero width, offset), positive scalar or per-axis dyadic steps, both "
        "centring options, wrong-length step tuples; (b) footprint — exact pipelines of 1..4 pixel axes with spatial/spectral/temporal/custom "
        "output axes, own or passed box (different from each other), both centring options, every axis_type; no box. non-trivial = fractional "
        "limit or non-unit step or inherited != passed box; distinct by parameter tuple")
TRUSTED = ["harness/props/c18.py exact correspondence on dyadic inputs; np.mgrid/arange length semantics (modelled as ceil((stop-start)/step))"]
ASSUMPTIONS = ["for non-dyadic steps the doubles-vs-rationals divergence of np.arange's length is outside the exact comparison (named in DESIGN.md)"]


def _q(v):
    v = float(v)
    if v != v:
        return "nan"
    if v in (float("inf"), float("-inf")):
        return repr(v)
    return C.q2w(Fraction(v))


def _bb_arg(bb):
    t = tuple((float(G.fr(a)), float(G.fr(b))) for a, b in bb)
    return t


def _impl_gridf(case):
    """a lattice asked for by its number of nodes: step = (upper - lower) / (n - 1), a float that is in general not exact"""
    bb = [(float(lo), float(hi)) for lo, hi in case["bb"]]
    if case.get("via") == "sip":
        # the lattice on which the SIP fit samples the transform: the same helper, without centring, shifted by the reference pixel
        if not hasattr(gw, "_make_sampling_grid"):
            return {"skipped": "gwcs.wcs._make_sampling_grid is gone (renamed or inlined): the lattice is not observable this way"}
        x, y = gw._make_sampling_grid(case["n"][0], tuple(bb), case["crpix"])
        cols = [np.asarray(x) + case["crpix"][0], np.asarray(y) + case["crpix"][1]]
        return {"counts": [len(np.unique(c)) for c in cols], "last": [float(c.max()) for c in cols], "first": [float(c.min()) for c in cols]}
    steps = tuple((hi - lo) / (n - 1) for (lo, hi), n in zip(bb, case["n"]))
    g = np.asarray(wcstools.grid_from_bounding_box(tuple(bb) if len(bb) > 1 else bb[0], step=steps if len(bb) > 1 else steps[0], center=False))
    if len(bb) == 1:
        return {"counts": [int(g.shape[-1])], "last": [float(g.ravel()[-1])], "first": [float(g.ravel()[0])]}
    # axis i varies along the (len - i)-th array axis ((x, y) order, row-major arrays)
    counts = list(g.shape[1:])[::-1]
    return {"counts": [int(c) for c in counts], "last": [float(g[i].max()) for i in range(len(bb))], "first": [float(g[i].min()) for i in range(len(bb))]}


def _oracle_gridf(case, res):
    out = []
    if "skipped" in res:
        return out
    for i, ((lo, hi), n) in enumerate(zip(case["bb"], case["n"])):
        step = (hi - lo) / (n - 1)
        if res["counts"][i] == n + 1 and abs(res["last"][i] - (hi + step)) <= 1e-6 * step:
            # finding D59: the stop `upper + step` of the float range lands a hair beyond the exact last node, one more node is produced
            out.append(("D59", "axis %d of box %s with %d nodes asked for (step %r): %d nodes, the last at %r, a whole step beyond the upper limit" %
                        (i, case["bb"], n, step, res["counts"][i], res["last"][i])))
        elif res["counts"][i] != n or abs(res["last"][i] - hi) > 1e-9 * max(1.0, abs(hi)) or (res["first"][i] != lo if case.get("via") != "sip" else abs(res["first"][i] - lo) > 1e-9 * max(1.0, abs(lo))):
            out.append(("gridf", "axis %d of box %s with %d nodes asked for: %d nodes from %r to %r" % (i, case["bb"], n, res["counts"][i], res["first"][i], res["last"][i])))
    return out


def impl(case):
    if case["kind"] == "gridf":
        return _impl_gridf(case)
    if case["kind"] == "grid":
        bb = _bb_arg(case["bb"])
        arg = bb[0] if (len(bb) == 1 and case.get("bare", True)) else bb
        step = [float(G.fr(s)) for s in case["step"]]
        step = step[0] if case.get("scalar_step") else tuple(step)
        try:
            g = wcstools.grid_from_bounding_box(arg, step=step, center=case["center"])
        except Exception as e:
            return {"err": C.exc_enum(e)}
        g = np.asarray(g)
        if len(bb) == 1:
            return {"shape": list(g.shape), "flat": [[_q(v) for v in g.ravel()]], "nd1": True}
        return {"shape": list(g.shape[1:]), "flat": [[_q(v) for v in g[i].ravel()] for i in range(g.shape[0])]}
    # footprint
    nout = G.nout(case["trs"][-2])
    nin = G.nin(case["trs"][0])
    det = G.frame_obj("detector", nin)
    out = cf.CoordinateFrame(naxes=nout, axes_type=tuple(t.upper() for t in case["axes_type"]), axes_order=tuple(range(nout)), name="world")
    if case.get("real_frames"):
        # the package's own frame classes, one per output axis (a TemporalFrame calls its axis type 'TIME'; the documented name is 'temporal')
        from astropy import time as _time
        subs = []
        for i, t in enumerate(case["axes_type"]):
            if t == "spectral":
                subs.append(cf.SpectralFrame(unit=u.um, axes_order=(i,), name="spec%d" % i))
            elif t == "temporal":
                subs.append(cf.TemporalFrame(_time.Time("2020-01-01T00:00:00"), unit=u.s, axes_order=(i,), name="time%d" % i))
            else:
                subs.append(cf.CoordinateFrame(naxes=1, axes_type=(t.upper(),), axes_order=(i,), unit=(u.m,), name="ax%d" % i,
                                               axes_names=("a%d" % i,), axis_physical_types=("custom:a%d" % i,)))
        # (the frames of a composite need not be listed in world-axis order: each names its axis)
        out = subs[0] if nout == 1 else cf.CompositeFrame(subs[::-1] if case.get("listed_reversed") else subs, name="world")
    mids = [G.frame_obj("mid%d" % i, 1) for i in range(len(case["trs"]) - 2)]
    frames = [det] + mids + [out]
    built = [None if t is None else G.build(t) for t in case["trs"]]
    if case["own"] is not None and case.get("own_on_model") and nin > 1:
        # the WCS inherits its box from the first transform, where it is kept in astropy's own ('C', last axis first) order
        built[0].bounding_box = _bb_arg(case["own"])[::-1]
        w = gw.WCS(list(zip(frames, built)))
    else:
        w = gw.WCS(list(zip(frames, built)))
        if case["own"] is not None:
            b = _bb_arg(case["own"])
            w.bounding_box = b[0] if len(b) == 1 else b
    # the type may be spelled as the frames report it ('SPATIAL') or capitalised: the comparison ignores case
    spell = {"upper": str.upper, "title": str.title}.get(case.get("spelling"), lambda x: x)
    kw = {"center": case["center"], "axis_type": spell(case["axis_type"])}
    if case["bb"] is not None:
        b = _bb_arg(case["bb"])
        # a 1-D box may be passed the way the WCS's own box is assigned: (start, stop)
        kw["bounding_box"] = b[0] if (len(b) == 1 and case.get("flat_bb")) else b
        if case.get("bb_as_array"):
            kw["bounding_box"] = np.array(kw["bounding_box"])     # the limits computed as an array (np.array(...) - 0.5)
    raw = {"types_raw": [str(t) for t in w.output_frame.axes_type], "axis_type_raw": kw["axis_type"]}
    try:
        r = np.asarray(w.footprint(**kw))
    except Exception as e:
        return dict(raw, err=C.exc_enum(e))
    res = dict(raw, shape=list(r.shape), vals=[_q(v) for v in r.ravel()])
    # independent evaluation of the corners, for the oracle
    box = case["bb"] if case["bb"] is not None else case["own"]
    if box is not None:
        fb = [(G.fr(a), G.fr(b)) for a, b in box]
        allsp = all(t == "spatial" for t in case["axes_type"])
        if allsp and len(fb) == 2:
            (x0, x1), (y0, y1) = fb[0], fb[1]
            corners = [[x0, y0], [x0, y1], [x1, y1], [x1, y0]]
        else:
            corners = [list(c) for c in itertools.product(*fb)]
        if case["center"]:
            corners = [[Fraction(math.floor(c + Fraction(1, 2))) for c in pt] for pt in corners]
        imgs = []
        for pt in corners:
            try:
                v = w(*[float(c) for c in pt], with_bounding_box=False)
                v = v if isinstance(v, tuple) else (v,)
                imgs.append([_q(x) for x in v])
            except Exception as e:
                imgs.append({"err": C.exc_enum(e)})
        res["corner_images"] = imgs
    return res


def oracle(case, res):
    out = []
    if case["kind"] == "gridf":
        return _oracle_gridf(case, res)
    if case["kind"] == "grid":
        nd = len(case["bb"])
        step = [G.fr(s) for s in case["step"]]
        bad_step = not case.get("scalar_step") and len(step) != nd and not (len(step) == 1)
        if "err" in res:
            # np.mgrid refuses a negative node count: only when centring crosses the limits of a zero-width box at a pixel
            # edge and the step is below one pixel (documented in DESIGN.md; outside the property's quantifier)
            sb = step * nd if len(step) == 1 else step
            crossed = case["center"] and any(G.fr(a) == G.fr(b) and (G.fr(a) - Fraction(1, 2)).denominator == 1 and st < 1
                                             for (a, b), st in zip(case["bb"], sb))
            if not bad_step and not crossed:
                out.append(("grid_raise", "valid grid request raised %s" % res["err"]))
            return out
        if bad_step:
            out.append(("bad_step", "step tuple of length %d accepted for a %d-D box" % (len(step), nd)))
            return out
        if len(step) == 1:
            step = step * nd
        shape = res["shape"]
        if len(shape) != nd or len(res["flat"]) != nd:
            return [("grid_shape", "grid for a %d-D box has shape %s / %d coordinate arrays" % (nd, shape, len(res["flat"])))]
        counts = shape[::-1]    # shape is (n_last, ..., n_0)
        for i in range(nd):
            lo, hi = G.fr(case["bb"][i][0]), G.fr(case["bb"][i][1])
            s = step[i]
            if 0 in shape:
                if counts[i] == 0 and not (case["center"] and lo == hi and (lo - Fraction(1, 2)).denominator == 1):
                    out.append(("grid_empty", "axis %d of box %s step %s has no nodes" % (i, case["bb"], s)))
                continue
            arr = np.array([G.fr(v) for v in res["flat"][i]], dtype=object).reshape(shape)
            # nodes of axis i: vary index i (counted from the last array axis), all other indices 0
            idx = [0] * nd
            nodes = []
            for k in range(counts[i]):
                idx[nd - 1 - i] = k
                nodes.append(arr[tuple(idx)])
            # order: array i must depend only on its own index
            for t in itertools.islice(np.ndindex(*shape), 0, 400):
                if arr[t] != nodes[t[nd - 1 - i]]:
                    out.append(("order_xy", "grid[%d] is not constant along the other axes / not in (x, y, ...) order" % i))
                    break
            if not nodes:
                # an empty grid is what the rule gives only for a zero-width box at a pixel edge (centred)
                if not (case["center"] and lo == hi and (lo - Fraction(1, 2)).denominator == 1):
                    out.append(("grid_empty", "axis %d of box %s step %s has no nodes" % (i, case["bb"], s)))
                continue
            if case["center"]:
                first = math.floor(lo + Fraction(1, 2))    # first pixel centre inside the box, x.5 -> the pixel inside
                upper = math.ceil(hi - Fraction(1, 2))
            else:
                first, upper = lo, hi
            if nodes[0] != first:
                out.append(("starts", "axis %d starts at %s, expected %s (box %s centre=%s)" % (i, nodes[0], first, case["bb"][i], case["center"])))
            if any(b - a != s for a, b in zip(nodes, nodes[1:])):
                out.append(("step", "axis %d does not advance by the step %s: %s" % (i, s, nodes[:6])))
            if nodes[-1] < upper or (len(nodes) > 1 and nodes[-2] >= upper):
                out.append(("stops", "axis %d nodes %s..%s do not stop at the first node reaching the upper limit %s" % (i, nodes[0], nodes[-1], upper)))
            if case["center"] and s == 1:
                want = [m for m in range(math.floor(lo) - 2, math.ceil(hi) + 3) if lo - Fraction(1, 2) < m < hi + Fraction(1, 2)]
                if [int(v) for v in nodes] != want:
                    out.append(("unit_centred", "axis %d of box %s: nodes %s are not the pixels overlapping the box %s" % (i, case["bb"][i], nodes, want)))
        return out[:4]
    # footprint
    box = case["bb"] if case["bb"] is not None else case["own"]
    if box is None:
        if "err" not in res:
            out.append(("no_box", "footprint without any bounding box answered %s" % res))
        return out
    if "err" in res:
        types = case["axes_type"]
        legit = case["axis_type"] not in ("all",) and case["axis_type"] not in types
        legit = legit or (all(t == "spatial" for t in types) and len(box) != 2)
        if not legit:
            out.append(("footprint_raise", "footprint raised %s for %s" % (res["err"], {k: case[k] for k in ("bb", "own", "center", "axes_type", "axis_type")})))
        return out
    imgs = res.get("corner_images")
    if imgs is None or any(isinstance(v, dict) for v in imgs):
        return out
    types = case["axes_type"]
    allsp = all(t == "spatial" for t in types)
    at = case["axis_type"]
    vals = res["vals"]
    nout = len(imgs[0])
    if at == "all" or (at == "spatial" and allsp):
        want = [v for row in imgs for v in row]
        if vals != want:
            out.append(("corners", "footprint %s is not the forward image of the box corners %s (box %s, center %s)" % (vals, imgs, box, case["center"])))
    else:
        idx = [i for i, t in enumerate(types) if t == at]
        if idx:
            mins = [min(G.fr(row[i]) for row in imgs) for i in idx]
            maxs = [max(G.fr(row[i]) for row in imgs) for i in idx]
            if at == "spatial" and len(idx) == 2:
                want = [C.q2w(v) for v in [mins[0], mins[1], mins[0], maxs[1], maxs[0], maxs[1], maxs[0], mins[1]]]
            elif len(idx) == 1:
                want = [C.q2w(mins[0]), C.q2w(maxs[0])]
            else:
                want = [C.q2w(v) for v in mins] + [C.q2w(v) for v in maxs]
            if want is not None and vals != want:
                out.append(("axis_type", "footprint(axis_type=%s) gives %s, the min/max range of that type over the corners is %s" % (at, vals, want)))
    return out[:3]


def request(case, res):
    if case["kind"] == "gridf" and "skipped" in res:
        return None
    if case["kind"] == "gridf" and case.get("via") == "sip":
        return {"op": "sampling", "bb": [[C.q2w(Fraction(a)), C.q2w(Fraction(b))] for a, b in case["bb"]], "n": case["n"][0],
                "crpix": [C.q2w(Fraction(c)) for c in case["crpix"]]}
    if case["kind"] == "gridf":
        return None
    if case["kind"] == "grid":
        return {"op": "grid", "bb": case["bb"], "step": case["step"], "center": case["center"]}
    # the axis types as the frames report them and the requested type as it was spelled: the model does the case folding and the
    # 'TIME' / 'temporal' alias itself
    return {"op": "footprint", "trs": [t for t in case["trs"] if t is not None], "bb": case["bb"], "own": case["own"], "center": case["center"],
            "axes_type": res.get("types_raw", case["axes_type"]), "axis_type": res.get("axis_type_raw", case["axis_type"]), "raw": "types_raw" in res}


def compare(case, res, resp):
    if "err" in res or "err" in resp:
        if res.get("err") != resp.get("err"):
            # np.squeeze/T on unusual shapes and astropy errors are not modelled beyond the enum
            return "impl %s model %s" % (res.get("err", "ok"), resp.get("err", "ok"))
        return None
    m = resp["ok"]
    if case["kind"] == "gridf":
        # the exact lattice: npoints nodes from the lower to the upper limit (shifted by the reference pixel); the implementation's
        # float lattice agrees in count and end points unless it shows finding D59 (one node too many), which the oracle names
        for i, ax in enumerate(m["axes"]):
            first, last = float(C.w2q(ax[0])) + case["crpix"][i], float(C.w2q(ax[-1])) + case["crpix"][i]
            d59 = res["counts"][i] == len(ax) + 1
            if not d59 and (res["counts"][i] != len(ax) or abs(res["first"][i] - first) > 1e-9 * max(1.0, abs(first)) or abs(res["last"][i] - last) > 1e-9 * max(1.0, abs(last))):
                return "sampling lattice axis %d: impl %d nodes %r..%r, model %d nodes %r..%r" % (i, res["counts"][i], res["first"][i], res["last"][i], len(ax), first, last)
        return None
    if case["kind"] == "grid":
        if res["shape"] != m["shape"]:
            return "grid shape impl %s model %s" % (res["shape"], m["shape"])
        if res["flat"] != m["flat"]:
            return "grid values differ: impl %s model %s" % (str(res["flat"])[:300], str(m["flat"])[:300])
        return None
    if "points" in m:
        want = [v for row in m["points"] for v in row]
    elif "ranges" in m:
        want = [v for row in m["ranges"] for v in row]
    else:
        want = m["range1"]
    if res["vals"] != want:
        return "footprint impl %s (shape %s) model %s" % (res["vals"], res["shape"], m)
    return None


def nontrivial(case, res):
    if case["kind"] == "gridf":
        return "skipped" not in res
    if case["kind"] == "grid":
        return any(G.fr(v).denominator != 1 for iv in case["bb"] for v in iv) or any(G.fr(s) != 1 for s in case["step"])
    return case["bb"] is not None and case["own"] is not None or case["center"]


def stats(case, res, st):
    st["kind_" + case["kind"]] += 1
    if "err" in res:
        st["err_" + res["err"]] += 1
    if case["kind"] == "grid":
        st["nd_%d" % len(case["bb"])] += 1
        st["center_%s" % case["center"]] += 1
    else:
        st["axis_type_" + case["axis_type"]] += 1
        st["box_" + ("passed" if case["bb"] is not None else ("own" if case["own"] is not None else "none"))] += 1


def _lim(rng):
    return Fraction(rng.randint(-12, 40) * rng.choice([1, 1, 2, 4]) + rng.choice([0, 0, 1, 2, 3]), rng.choice([1, 1, 2, 4]))


def gen(rng, tier):
    q = tier == "quick"
    for _ in range(10 if q else 400):
        nd = rng.randint(1, 2)
        bb = [[float(rng.choice([0, 1, -3])), float(rng.choice([100, 255, 1023, 2048, 4096]))] for _i in range(nd)]
        yield {"kind": "gridf", "bb": bb, "n": [rng.choice([5, 8, 16, 24, 33]) for _i in range(nd)]}
    for _ in range(8 if q else 300):
        # the SIP sampling lattice on boxes with fractional limits (image edges -0.5 .. N-0.5, arbitrary quarter-pixel limits)
        bb = []
        for _i in range(2):
            lo = rng.choice([-0.5, -0.5, 0.5, 10.25, 0.0, 3.75])
            bb.append([lo, lo + rng.choice([100, 255, 1024, 2048]) + rng.choice([0.0, 0.5, 0.25])])
        n = rng.choice([5, 8, 12, 16, 24, 33])
        yield {"kind": "gridf", "via": "sip", "bb": bb, "n": [n, n], "crpix": [rng.choice([0.0, 12.5, 512.0]), rng.choice([0.0, 7.25, 100.0])]}
    for _ in range(220 if q else 12000):
        nd = rng.randint(1, 3)
        bb = []
        for _i in range(nd):
            lo = _lim(rng)
            hi = lo + rng.choice([0, Fraction(1, 2), 1, Fraction(5, 2), 3, Fraction(29, 10).limit_denominator(4), 7, Fraction(19, 4)]) if rng.random() < 0.9 else lo
            bb.append([C.q2w(lo), C.q2w(hi)])
        scalar = rng.random() < 0.5
        steps = [rng.choice([1, 1, 1, Fraction(1, 2), 2, Fraction(1, 4), 3, Fraction(3, 2)])]
        if not scalar:
            ln = nd if rng.random() < 0.9 else nd + 1
            steps = [rng.choice([1, 1, Fraction(1, 2), 2, Fraction(1, 4), 3]) for _i in range(ln)]
        yield {"kind": "grid", "bb": bb, "step": [C.q2w(s) for s in steps], "scalar_step": scalar, "center": rng.random() < 0.5,
               "bare": rng.random() < 0.6}
    for _ in range(120 if q else 5000):
        nsteps = rng.randint(1, 3)
        frames, trs, dims = G.gen_pipeline(rng, nsteps, max_dim=4)
        nout = dims[-1]
        types = [rng.choice(["spatial", "spatial", "spectral", "temporal", "custom"]) for _i in range(nout)]
        if dims[0] == 2 and rng.random() < 0.4:
            types = ["spatial"] * nout
        # (an all-spatial output of one pixel axis, or of three or four: its corners are the product of the limits - every third such
        # case is kept, the others get a spectral axis as before)
        if all(t == "spatial" for t in types) and dims[0] != 2 and _ % 3 != 0:
            types[0] = "spectral"

        def box():
            b = []
            for _i in range(dims[0]):
                lo = _lim(rng)
                b.append([C.q2w(lo), C.q2w(lo + rng.choice([1, Fraction(5, 2), 4, Fraction(13, 2)]))])
            return b
        own = box() if rng.random() < 0.75 else None
        bb = box() if rng.random() < 0.45 else None
        yield {"kind": "footprint", "trs": trs, "dims": dims, "axes_type": types, "own": own, "own_on_model": rng.random() < 0.35, "bb": bb, "center": rng.random() < 0.5,
               "axis_type": rng.choice(["all", "all", "spatial", "spectral", "temporal", "custom"]), "spelling": rng.choice([None, None, "upper", "title"]), "real_frames": rng.random() < 0.4, "flat_bb": rng.random() < 0.5,
               "listed_reversed": _ % 2 == 1, "bb_as_array": _ % 3 == 1}
