"""C17 — no call leaves process-wide numeric/warning settings changed, even on failure (gwcs/wcs.py)."""
import contextlib
import io
import warnings

import numpy as np
from astropy.modeling.core import Model

import astropy.units as u
from astropy.modeling import models

import common as C
import skygen as S
from gwcs import coordinate_frames as cf
from gwcs import selector
from gwcs import wcs as gw

PROP = "C17"
LEAN_MODULE = "GwcsProofs.C17"
SOURCES = ["GwcsModel/Basic.lean", "GwcsModel/Effects.lean", "GwcsProofs/C17.lean"]
THEOREMS = [
    "Gwcs.Eff.guarded_run",
    "Gwcs.Eff.restores_G",
    "Gwcs.Eff.solverTrace_guarded",
    "Gwcs.Eff.unbracketed_leaks",
    "Gwcs.Eff.guarded_append",
    "Gwcs.Eff.sequence_restores",
    "Gwcs.Eff.unbracketed_filter_and_print_leak",
]
RULE = ("case = (entry point, mode, WCS with a counting user transform, set of crash positions k): the call is run once to count the "
        "evaluations N of the user transform, then with the k-th evaluation raising (quick: k in {1,2,3,N-1,N} plus a sample; thorough: every "
        "k in 1..N), plus NoConvergence and invalid-argument exits; starting from NON-default numpy error modes, an extra warnings filter "
        "and non-default print options; non-trivial = the call evaluated the user transform >= k times; distinct by (entry, mode, k)")
TRUSTED = ["harness/props/c17.py: event trace of the real call (np.seterr, np.errstate, warnings.catch_warnings/simplefilter/filterwarnings, "
           "np.set_printoptions wrapped during the call) accepted by the Lean `guarded` checker; before/after comparison of np.geterr(), "
           "warnings.filters and np.get_printoptions() as the oracle"]
ASSUMPTIONS = ["the user transform itself does not change process-wide settings", "thread-level races on numpy's error state are outside the property"]
SERIAL = False


class UserTransformError(Exception):
    pass


_ST = {"n": 0, "crash": None, "trace": None}


class UserInterrupt(BaseException):
    """an interruption that is not an Exception (Ctrl-C, SystemExit, a cancelled task ...) arriving while the user transform runs"""


class Flaky(Model):
    """user-supplied transform: counts its evaluations and raises at the k-th one"""
    n_inputs = 2
    n_outputs = 2
    _separable = False

    def __init__(self, inner, inv=None, nan_beyond=None, **kw):
        super().__init__(**kw)
        self._inner = inner
        self._inv = inv
        self._nan_beyond = nan_beyond

    def evaluate(self, x, y):
        _ST["n"] += 1
        if _ST["trace"] is not None:
            _ST["trace"].append("eval")
        if _ST["crash"] is not None and _ST["n"] == _ST["crash"]:
            if _ST.get("interrupt"):
                raise UserInterrupt("interrupted at evaluation %d" % _ST["n"])
            raise UserTransformError("user transform failed at evaluation %d" % _ST["n"])
        a, b = self._inner(x, y)
        if self._nan_beyond is not None:   # a transform undefined on part of the image: makes polynomial fits fail
            a = np.where(np.asarray(x) > self._nan_beyond, np.nan, a)
        return a, b

    @property
    def inverse(self):
        if self._inv is None:
            raise NotImplementedError("no analytic inverse")
        return Flaky(self._inv)


class FlakyLabel(Model):
    """user-supplied label transform of a LabelMapperRange: counts its evaluations and raises at the k-th one, like Flaky"""
    n_inputs = 2
    n_outputs = 1

    def __init__(self, label, **kw):
        super().__init__(**kw)
        self._label = label

    def evaluate(self, x, y):
        _ST["n"] += 1
        if _ST["trace"] is not None:
            _ST["trace"].append("eval")
        if _ST["crash"] is not None and _ST["n"] == _ST["crash"]:
            if _ST.get("interrupt"):
                raise UserInterrupt("interrupted at evaluation %d" % _ST["n"])
            raise UserTransformError("label transform failed at evaluation %d" % _ST["n"])
        return np.full(np.shape(x), float(self._label))


def _build(case):
    p = case["params"]
    det, foc, sky = S.frames()
    s1 = S.step1(p)
    inv = s1.inverse if case["analytic"] else None
    if case.get("wcs") == "cube":
        # sky + spectral cube: the user transform on the two spatial axes, a linear wavelength axis beside it
        det3 = cf.CoordinateFrame(3, ("SPATIAL",) * 3, (0, 1, 2), unit=(u.pix,) * 3, name="detector", axes_names=("x", "y", "z"))
        foc3 = cf.CoordinateFrame(3, ("SPATIAL",) * 3, (0, 1, 2), unit=(u.pix,) * 3, name="focal", axes_names=("fx", "fy", "fz"))
        world = cf.CompositeFrame([sky, cf.SpectralFrame(unit=u.um, axes_order=(2,), name="spec")], name="world")
        w = gw.WCS([(det3, Flaky(s1, inv, nan_beyond=case.get("nan_beyond")) & models.Identity(1)),
                    (foc3, S.step2(p) & (models.Scale(0.01) | models.Shift(1.0))), (world, None)])
        w.bounding_box = tuple(tuple(b) for b in p["bbox"]) + ((-0.5, 9.5),)
        return w
    if case.get("wcs") == "slits":
        # two slit-like regions side by side along x, told apart by a LabelMapperRange whose label transforms are the user's
        (x0, x1), _ = p["bbox"]
        xm = 0.5 * (x0 + x1)
        lm = selector.LabelMapperRange(("x", "y"), {(x0 - 1.0, xm): FlakyLabel(1), (xm, x1 + 1.0): FlakyLabel(2)},
                                       inputs_mapping=models.Mapping((0,), n_inputs=2))
        rs = selector.RegionsSelector(("x", "y"), ("lon", "lat"), label_mapper=lm,
                                      selector={1: Flaky(s1) | S.step2(p), 2: Flaky(S.step1(p)) | S.step2(p)})
        w = gw.WCS([(det, rs), (sky, None)])
        w.bounding_box = tuple(tuple(b) for b in p["bbox"])
        return w
    w = gw.WCS([(det, Flaky(s1, inv, nan_beyond=case.get("nan_beyond"))), (foc, S.step2(p)), (sky, None)])
    if case.get("bbox", True):
        w.bounding_box = tuple(tuple(b) for b in p["bbox"])
    return w


class _Patches:
    def __enter__(self):
        tr = _ST["trace"]
        self.seterr, self.errstate = np.seterr, np.errstate
        self.sf, self.fw, self.spo = warnings.simplefilter, warnings.filterwarnings, np.set_printoptions
        self.cw_enter, self.cw_exit = warnings.catch_warnings.__enter__, warnings.catch_warnings.__exit__
        me = self

        def seterr(*a, **k):
            old = me.seterr(*a, **k)
            cur = np.geterr()
            tr.append("seterr:%s:%s" % (cur["invalid"], cur["over"]))
            return old

        class errstate(contextlib.ContextDecorator):
            def __init__(s, **kw):
                s.kw = kw
                s.cm = me.errstate(**kw)

            def __enter__(s):
                tr.append("esEnter")
                r = s.cm.__enter__()
                if s.kw:
                    cur = np.geterr()
                    tr.append("seterr:%s:%s" % (cur["invalid"], cur["over"]))
                return r

            def __exit__(s, *exc):
                r = s.cm.__exit__(*exc)
                tr.append("esExit")
                return r

        def cw_enter(s):
            tr.append("cwEnter")
            return me.cw_enter(s)

        def cw_exit(s, *exc):
            r = me.cw_exit(s, *exc)
            tr.append("cwExit")
            return r

        def sf(*a, **k):
            tr.append("filt:1")
            return me.sf(*a, **k)

        def fw(*a, **k):
            tr.append("filt:2")
            return me.fw(*a, **k)

        def spo(*a, **k):
            tr.append("print:1")
            return me.spo(*a, **k)

        np.seterr, np.errstate = seterr, errstate
        warnings.simplefilter, warnings.filterwarnings, np.set_printoptions = sf, fw, spo
        warnings.catch_warnings.__enter__, warnings.catch_warnings.__exit__ = cw_enter, cw_exit
        return self

    def __exit__(self, *exc):
        np.seterr, np.errstate = self.seterr, self.errstate
        warnings.simplefilter, warnings.filterwarnings, np.set_printoptions = self.sf, self.fw, self.spo
        warnings.catch_warnings.__enter__, warnings.catch_warnings.__exit__ = self.cw_enter, self.cw_exit
        return False


def _fmt(v):
    return "%.5g" % v


def _snapshot():
    po = np.get_printoptions()
    fm = po.get("formatter")
    return {"err": dict(np.geterr()), "filters": [repr(f) for f in warnings.filters],
            "print": {k: (repr(v) if callable(v) else v) for k, v in po.items() if k != "formatter"},
            "formatter": None if fm is None else sorted((k, getattr(v, "__name__", repr(v))) for k, v in fm.items())}


def _invoke(w, case, world):
    e, m = case["entry"], case.get("mode", {})
    x = np.array([10.0, 300.5, 620.0])
    y = np.array([20.0, 250.0, 480.25])
    if case.get("wcs") == "cube":
        if e == "forward":
            return w(x, y, np.array([0.0, 4.0, 9.0]))
        if e == "to_fits":
            return w.to_fits(max_pix_error=50, max_inv_pix_error=50, npoints=8, degree=m.get("degree"), sampling=0.5)
    if e == "footprint_center":
        return w.footprint(center=True)
    if e == "w2aiv":
        return w.world_to_array_index_values(*world)
    if e == "sip_smallbox":
        # an invalid-argument exit of the SIP export: a box narrower than a pixel
        return w.to_fits_sip(bounding_box=((10, 10.5), (0, 99)))
    if e == "forward":
        return w(x, y)
    if e == "invert":
        return w.invert(*world)
    if e == "numinv":
        return w.numerical_inverse(*world, **m)
    if e == "in_image":
        return w.in_image(*world)
    if e == "footprint":
        return w.footprint()
    if e == "sip":
        return w.to_fits_sip(max_pix_error=50, max_inv_pix_error=50, npoints=8, degree=m.get("degree", 2))
    if e == "tab":
        return w.to_fits_tab(sampling=300)
    if e == "to_fits":
        return w.to_fits(max_pix_error=50, max_inv_pix_error=50, npoints=8, degree=2)
    if e == "badargs":
        return w.numerical_inverse(1.0, 2.0, 3.0)
    if e == "noconv":
        return w.numerical_inverse(*world, maxiter=1, tolerance=1e-12, quiet=False, adaptive=m.get("adaptive", True))
    raise ValueError(e)


def _run(case, crash, world):
    """one real call from a deliberately non-default process state; returns the record of what happened"""
    saved_err = np.geterr()
    saved_filters = warnings.filters[:]
    saved_po = np.get_printoptions()
    try:
        over0, invalid0 = case.get("err0", ["warn", "warn"])     # the session's own settings: any mix of warn / ignore
        np.seterr(divide="ignore", under="warn", over=over0, invalid=invalid0)
        warnings.filterwarnings("ignore", message="verif marker filter")
        np.set_printoptions(precision=5, formatter={"float_kind": _fmt})      # the session's own number format
        if case.get("user_filter"):
            warnings.simplefilter("ignore", RuntimeWarning)      # the session has switched numpy's RuntimeWarnings off itself
        w = _build(case)
        _ST["n"], _ST["crash"], _ST["trace"] = 0, crash, []
        _ST["interrupt"] = bool(case.get("interrupt"))
        before = _snapshot()
        raised = None
        with contextlib.redirect_stdout(io.StringIO()):
            with _Patches():
                try:
                    _invoke(w, case, world)
                except (UserTransformError, UserInterrupt):
                    raised = "userErr"
                except Exception as e:
                    raised = C.exc_enum(e)
        trace = _ST["trace"]
        if raised:
            trace.append("raised")
        after = _snapshot()
        changed = [k for k in before if before[k] != after[k]]
        detail = {k: [before[k], after[k]] for k in changed}
        return {"k": crash, "evals": _ST["n"], "raised": raised, "trace": trace, "changed": changed,
                "detail": {k: (v if k != "filters" else [len(v[0]), len(v[1])]) for k, v in detail.items()}}
    finally:
        _ST["trace"] = None
        _ST["crash"] = None
        np.seterr(**saved_err)
        warnings.filters[:] = saved_filters
        if hasattr(warnings, "_filters_mutated"):
            warnings._filters_mutated()
        np.set_printoptions(**{k: v for k, v in saved_po.items()})
        if saved_po.get("formatter") is None:
            np.set_printoptions(formatter=None)


def impl(case):
    p = case["params"]
    # world points: inside the image (computed with a clean, non-failing twin)
    twin = S.build(p)
    ra, dec = twin(np.array([100.0, 400.0]), np.array([150.0, 333.0]), with_bounding_box=False)
    world = (np.array(ra), np.array(dec))
    base = _run(case, None, world)
    n = base["evals"]
    runs = [base]
    ks = case["ks"]
    if ks == "all":
        klist = list(range(1, n + 1))
    else:
        klist = sorted({k for k in ([1, 2, 3, n - 1, n] + [1 + (j * 7919) % max(1, n) for j in ks]) if 1 <= k <= n})
    for k in klist:
        runs.append(_run(case, k, world))
    return {"n": n, "runs": runs}


def oracle(case, res):
    out = []
    for r in res["runs"]:
        if r["changed"]:
            out.append(("leak", "%s %s with the user transform raising at evaluation %s of %s (exit: %s) left %s changed: %s" %
                        (case["entry"], case.get("mode", {}), r["k"], res["n"], r["raised"] or "normal return", r["changed"], r["detail"])))
        if r["k"] is not None and r["evals"] >= r["k"] and r["raised"] != "userErr" and case["entry"] not in ("noconv", "badargs"):
            # the user's exception must propagate (it is not a settings issue, but it is what makes position k meaningful)
            pass
    return out[:3]


def request(case, res):
    return {"op": "traces", "traces": [r["trace"] for r in res["runs"]]}


def compare(case, res, resp):
    if "ok" not in resp:
        return "model error %s" % resp
    for r, m in zip(res["runs"], resp["ok"]):
        if not m["guarded"]:
            short = [e for e in r["trace"] if e != "eval"]
            return ("%s %s crash at %s: the event trace is not guarded (a seterr outside an errstate bracket, a filter change outside "
                    "catch_warnings, set_printoptions, or an unbalanced bracket): %s" % (case["entry"], case.get("mode", {}), r["k"], short[:30]))
        if m["restored"] != (not r["changed"]):
            return "model says restored=%s but implementation changed %s" % (m["restored"], r["changed"])
    return None


def nontrivial(case, res):
    return any(r["k"] is not None and r["evals"] >= r["k"] for r in res["runs"])


def stats(case, res, st):
    st["err0_%s_%s" % tuple(case.get("err0", ["warn", "warn"]))] += 1
    st["entry_" + case["entry"]] += 1
    st["runs"] += len(res["runs"])
    st["evals_base"] += res["n"]
    for r in res["runs"]:
        st["exit_" + (r["raised"] or "return")] += 1
        st["seterr_events"] += sum(1 for e in r["trace"] if e.startswith("seterr"))
        st["bracket_events"] += sum(1 for e in r["trace"] if e in ("esEnter", "cwEnter"))


def gen(rng, tier):
    q = tier == "quick"
    combos = []
    for adaptive in (True, False):
        for dd in (True, False):
            combos.append(("numinv", {"adaptive": adaptive, "detect_divergence": dd, "quiet": True}))
    combos += [("invert", {}), ("in_image", {}), ("forward", {}), ("footprint", {}), ("sip", {"degree": 2}), ("tab", {}), ("to_fits", {}),
               ("noconv", {"adaptive": True}), ("noconv", {"adaptive": False}), ("badargs", {})]
    for entry, mode in (("sip", {"degree": 2}), ("numinv", {"adaptive": True, "detect_divergence": True, "quiet": True}), ("to_fits", {})):
        p = S.gen_params(rng, distortion=True)
        p["scale"] = 10 ** rng.uniform(-5, -4)
        yield {"entry": entry, "mode": mode, "analytic": False, "params": p, "nan_beyond": 0.7 * p["bbox"][0][1],
               "ks": [rng.randint(0, 1000) for _i in range(2)] if q else "all"}
    # a sky + spectral cube written to FITS with every way of asking for a SIP degree (None / 2 / overridden ones), and two slit-like
    # regions told apart by a LabelMapperRange with user label transforms
    for wk, entry, mode in [("cube", "to_fits", {"degree": d}) for d in (3, [1, 3], None, 2)] + [("cube", "forward", {}), ("cube", "footprint", {}),
                                                                                                  ("slits", "forward", {}), ("slits", "footprint", {})]:
        p = S.gen_params(rng, distortion=True)
        p["scale"] = 10 ** rng.uniform(-5, -4)
        yield {"wcs": wk, "entry": entry, "mode": mode, "analytic": False, "params": p, "err0": rng.choice([["warn", "warn"], ["ignore", "warn"]]),
               "ks": [rng.randint(0, 1000) for _i in range(2)] if q else "all", "interrupt": rng.random() < 0.4}
    # entry points that round positions to indices, from a session that has its own RuntimeWarning filter; an invalid-argument exit of
    # the SIP export
    for entry, uf in (("footprint_center", True), ("w2aiv", True), ("w2aiv", False), ("sip_smallbox", False)):
        p = S.gen_params(rng, distortion=True)
        p["scale"] = 10 ** rng.uniform(-5, -4)
        yield {"entry": entry, "mode": {}, "analytic": entry != "sip_smallbox", "params": dict(p, dist=None) if entry != "sip_smallbox" else p, "user_filter": uf,
               "ks": [rng.randint(0, 1000) for _i in range(2)] if q else "all", "interrupt": False}
    reps = 1 if q else 4
    for _ in range(reps):
        for entry, mode in combos:
            for analytic in ((False, True) if entry in ("invert", "in_image", "numinv") else (False,)):
                if q and entry == "numinv" and analytic and not mode["adaptive"]:
                    continue
                p = S.gen_params(rng, distortion=rng.random() < 0.5)
                p["scale"] = 10 ** rng.uniform(-5, -4)
                if analytic:
                    p["dist"] = None
                yield {"entry": entry, "mode": mode, "analytic": analytic, "params": p,
                       "err0": rng.choice([["warn", "warn"], ["warn", "warn"], ["ignore", "warn"], ["warn", "ignore"], ["ignore", "ignore"]]),
                       "ks": [rng.randint(0, 1000) for _i in range(3)] if q else "all",
                       "interrupt": rng.random() < 0.4}      # the failure injected as a BaseException (an interruption) instead of an Exception
