"""C12 — high-level objects and axis metadata match transform outputs in any axis order (coordinate_frames.py, api.py, wcs.py)."""
import numpy as np
import astropy.units as u
from astropy import coordinates as coord
from astropy import time
from astropy.modeling import models
from astropy.wcs.wcsapi.high_level_api import high_level_objects_to_values, values_to_high_level_objects

import common as C
from gwcs import coordinate_frames as cf
from gwcs import wcs as gw

PROP = "C12"
LEAN_MODULE = "GwcsProofs.C12"
SOURCES = ["GwcsModel/Frames.lean", "GwcsProofs/C12.lean"]
THEOREMS = [
    "Gwcs.Frames.scatterPairs_get",
    "Gwcs.Frames.metadata_aligned",
    "Gwcs.Frames.duplicate_axes_rejected",
    "Gwcs.Frames.objects_get_own_axes",
    "Gwcs.Frames.objects_roundtrip",
    "Gwcs.Frames.components_aligned",
    "Gwcs.Frames.pickFresh_not_mem",
    "Gwcs.Frames.rename_unique",
]
RULE = ("case = (output frame layout, permutation of world axes, pixel point): composites of celestial (ICRS/FK5/Galactic), spectral, temporal, "
        "Stokes, generic 1-D and 2-D sub-frames up to 5 axes incl. duplicate kinds, lone frames incl. the lone celestial frame with swapped "
        "axes; distinct asymmetric pixel values; scalar and array pixels; metadata, object values/units/kinds, astropy's generic machinery as "
        "second voice, and the round trips world_to_pixel / invert / world_to_array_index; non-trivial = permutation != identity; distinct by "
        "(layout, permutation)")
TRUSTED = ["harness/props/c12.py: per-axis provenance compared with the Lean scatter/gather model; astropy object constructors are tagged tuples in the model"]
ASSUMPTIONS = ["astropy SkyCoord/SpectralCoord/Time/StokesCoord construction (modelled)"]

PIX = [1.25, 7.75, 3.0, 11.75, 5.25, 9.25]   # no half-integers: rounding after a float round trip must be well conditioned


def _mk_frame(spec, ao):
    k = spec["kind"]
    if k == "celestial":
        ref = {"icrs": coord.ICRS(), "fk5": coord.FK5(), "galactic": coord.Galactic(), "fk5_1975": coord.FK5(equinox="J1975"),
               "fk4_1900": coord.FK4(equinox="B1900", obstime="B1920")}[spec["ref"]]
        un = tuple(u.Unit(x) for x in spec.get("units", ["deg", "deg"]))
        return cf.CelestialFrame(reference_frame=ref, axes_order=tuple(ao), unit=un, name=spec["name"])
    if k == "spectral":
        return cf.SpectralFrame(axes_order=tuple(ao), unit=u.Unit(spec["unit"]), name=spec["name"])
    if k == "temporal":
        return cf.TemporalFrame(time.Time("2020-01-01T00:00:00"), unit=u.Unit(spec.get("unit", "s")), axes_order=tuple(ao), name=spec["name"])
    if k == "stokes":
        return cf.StokesFrame(axes_order=tuple(ao), name=spec["name"])
    if k == "generic1":
        return cf.CoordinateFrame(naxes=1, axes_type=(spec["atype"],), axes_order=tuple(ao), unit=(u.Unit(spec["unit"]),), name=spec["name"],
                                  axes_names=(spec["name"] + "_ax",))
    if k == "frame2d":
        return cf.Frame2D(axes_order=tuple(ao), unit=(u.m, u.m), name=spec["name"], axes_names=(spec["name"] + "_x", spec["name"] + "_y"))
    return cf.CoordinateFrame(naxes=2, axes_type=("SPATIAL", "SPATIAL"), axes_order=tuple(ao), unit=(u.m, u.m), name=spec["name"],
                              axes_names=(spec["name"] + "_x", spec["name"] + "_y"))


def _build(case):
    subs = [_mk_frame(s, ao) for s, ao in zip(case["subframes"], case["axes_orders"])]
    n = sum(len(ao) for ao in case["axes_orders"])
    if case.get("lone"):
        out = subs[0]
    else:
        # the composite is built from a list that the caller goes on using (emptied and refilled for another frame afterwards): the frame
        # keeps its own sub-frames
        lst = list(subs)
        out = cf.CompositeFrame(lst, name="world")
        if case.get("reuse_list", True):
            lst.clear()
            lst.append(cf.SpectralFrame(unit=u.nm, axes_order=(0,), name="someone_elses_spectral_axis"))
    t = None
    for a, b in case["ab"]:
        s = models.Scale(a) | models.Shift(b)
        t = s if t is None else t & s
    det = cf.CoordinateFrame(naxes=n, axes_type=("SPATIAL",) * n, axes_order=tuple(range(n)), name="detector", unit=(u.pix,) * n)
    return gw.WCS([(det, t), (out, None)]), subs


def _obj_values(o, frame):
    """(kind, [values in the frame's units]) of a high-level object"""
    if isinstance(o, coord.SkyCoord):
        s = o.transform_to(frame.reference_frame, merge_attributes=False) if frame.reference_frame is not None else o
        return ("SkyCoord", [float(s.spherical.lon.to_value(frame.unit[0])), float(s.spherical.lat.to_value(frame.unit[1]))])
    if isinstance(o, time.Time):
        return ("Time", [float((o - frame.reference_frame).to_value(frame.unit[0]))])
    if type(o).__name__ == "StokesCoord":
        return ("StokesCoord", [float(np.asarray(o.value))])
    if isinstance(o, coord.SpectralCoord):
        return ("SpectralCoord", [float(o.to_value(frame.unit[0]))])
    if isinstance(o, u.Quantity):
        return ("Quantity", [float(o.to_value(frame.unit[0]))])
    if isinstance(o, (tuple, list)):
        return ("tuple", [float(getattr(x, "value", x)) for x in o])
    return (type(o).__name__, [float(o)])


def _pix(case):
    return case.get("pix") or PIX[:len(case["ab"])]


def _build_slit(case):
    """one pixel axis (position along a slit), two or three world axes (lon, lat[, wavelength]); the inverse is supplied by the user"""
    lon0, lat0, sl, sb = case["lon0"], case["lat0"], case["sl"], case["sb"]
    fwd = models.Mapping((0, 0)) | (models.Scale(sl) | models.Shift(lon0)) & (models.Scale(sb) | models.Shift(lat0))
    inv = models.Mapping((0,), n_inputs=2) | models.Shift(-lon0) | models.Scale(1.0 / sl)
    sky = cf.CelestialFrame(reference_frame=coord.ICRS(), axes_order=(0, 1), name="sky")
    out = sky
    if case["nworld"] == 3:
        fwd = models.Mapping((0, 0, 0)) | (models.Scale(sl) | models.Shift(lon0)) & (models.Scale(sb) | models.Shift(lat0)) & (models.Scale(0.5) | models.Shift(2.0))
        inv = models.Mapping((0,), n_inputs=3) | models.Shift(-lon0) | models.Scale(1.0 / sl)
        out = cf.CompositeFrame([sky, cf.SpectralFrame(unit=u.um, axes_order=(2,), name="spec")], name="world")
    fwd.inverse = inv
    det = cf.CoordinateFrame(naxes=1, axes_type=("SPATIAL",), axes_order=(0,), name="detector", unit=(u.pix,))
    return gw.WCS([(det, fwd), (out, None)])


def _impl_slit(case):
    w = _build_slit(case)
    res = {}
    for nm, p in (("scalar", case["p"]), ("array", np.array([case["p"], case["p"] + 3.0, 0.25]))):
        r = {}
        try:
            objs = w.pixel_to_world(p)
            flat = list(objs) if isinstance(objs, (list, tuple)) else [objs]
            r["kinds"] = [type(o).__name__ for o in flat]
            for op, f in (("w2p", w.world_to_pixel), ("w2ai", w.world_to_array_index), ("w2aiv", lambda *o: w.world_to_array_index_values(*w.pixel_to_world_values(p)))):
                try:
                    v = f(*flat)
                    r[op] = {"tuple": isinstance(v, tuple), "v": np.asarray(v, dtype=float).tolist(), "int": bool(np.issubdtype(np.asarray(v).dtype, np.integer))}
                except Exception as e:
                    r[op] = {"err": C.exc_enum(e) + ":" + str(e)[:80]}
        except Exception as e:
            r["err"] = C.exc_enum(e) + ":" + str(e)[:80]
        res[nm] = r
    return res


def _oracle_slit(case, res):
    out = []
    for nm, p in (("scalar", case["p"]), ("array", [case["p"], case["p"] + 3.0, 0.25])):
        r = res[nm]
        if "err" in r:
            out.append(("slit", "pixel_to_world(%s) on a 1-pixel-axis / %d-world-axis WCS raised %s" % (p, case["nworld"], r["err"])))
            continue
        want_idx = np.floor(np.asarray(p, dtype=float) + 0.5).tolist()
        for op, want, tol in (("w2p", np.asarray(p, dtype=float).tolist(), 1e-9), ("w2ai", want_idx, 0), ("w2aiv", want_idx, 0)):
            v = r[op]
            if "err" in v:
                out.append(("slit", "%s of the objects returned for pixel %s raised %s (1 pixel axis, %d world axes)" % (op, p, v["err"], case["nworld"])))
            elif v["tuple"] or not np.allclose(v["v"], want, rtol=0, atol=tol) or (op != "w2p" and not v["int"]):
                out.append(("slit", "%s of the objects returned for pixel %s gives %s%s, expected %s (1 pixel axis, %d world axes)" %
                            (op, p, "a tuple " if v["tuple"] else "", v["v"], want, case["nworld"])))
    return out[:3]


def _impl_epochless(case):
    """a temporal frame without a zero point (its values are absolute MJD in a given scale); other temporal frames exist in the process"""
    ta = cf.TemporalFrame(time.Time([], format="mjd", scale=case["scale"]), name="abs_time")
    other = cf.TemporalFrame(time.Time("2020-01-01T00:00:00", format="isot", scale="utc"), unit=u.s, name="rel_time")   # created later
    det = cf.CoordinateFrame(naxes=1, axes_type=("SPATIAL",), axes_order=(0,), name="detector", unit=(u.pix,))
    w = gw.WCS([(det, models.Scale(case["step"]) | models.Shift(case["mjd0"])), (ta, None)])
    res = {"other": other.name}
    try:
        v = float(w.pixel_to_world_values(case["p"]))
        o = w.pixel_to_world(case["p"])
        res.update(value=v, kind=type(o).__name__, scale=getattr(o, "scale", None), mjd=float(o.mjd) if hasattr(o, "mjd") else None,
                   classes_scale=str(w.world_axis_object_classes))
    except Exception as e:
        res["err"] = C.exc_enum(e) + ":" + str(e)[:100]
    return res


def _oracle_epochless(case, res):
    if "err" in res:
        return [("epochless", "pixel_to_world on a temporal frame without a zero point raised %s" % res["err"])]
    want = case["mjd0"] + case["step"] * case["p"]
    if res["kind"] != "Time" or res["scale"] != case["scale"] or abs(res["mjd"] - want) > 1e-9 or abs(res["value"] - want) > 1e-9:
        return [("epochless", "absolute-time frame (MJD, %s): world value %r, object %s(scale=%s, mjd=%r); expected MJD %r in %s" %
                 (case["scale"], res["value"], res["kind"], res["scale"], res["mjd"], want, case["scale"]))]
    return []


def impl(case):
    if case.get("kind") == "epochless":
        return _impl_epochless(case)
    if case.get("kind") == "slit1":
        return _impl_slit(case)
    try:
        w, subs = _build(case)
    except Exception as e:
        return {"build_err": C.exc_enum(e)}
    pix = _pix(case)
    res = {}
    world = w(*pix)
    world = list(world) if isinstance(world, tuple) else [world]
    res["world"] = [float(v) for v in world]
    res["phys"] = list(w.world_axis_physical_types)
    res["units"] = list(w.world_axis_units)
    res["names"] = list(w.world_axis_names)
    res["comps"] = [[c[0], c[1], c[2] if isinstance(c[2], str) else "callable"] for c in w.world_axis_object_components]
    res["class_keys"] = list(w.world_axis_object_classes.keys())
    # a copy taken from the WCS after it has answered these questions says the same about itself (nothing the answers were built
    # from may be tied to the original's own objects)
    try:
        import copy as _copy
        import pickle as _pickle
        for nm_, cp_ in (("deepcopy", _copy.deepcopy), ("pickle", lambda o: _pickle.loads(_pickle.dumps(o)))):
            w2_ = cp_(w)
            c2 = [[c[0], c[1], c[2] if isinstance(c[2], str) else "callable"] for c in w2_.world_axis_object_components]
            k2 = list(w2_.world_axis_object_classes.keys())
            if c2 != res["comps"] or k2 != res["class_keys"]:
                res["copy_differs"] = "%s: components %s classes %s" % (nm_, c2, k2)
                break
    except Exception as e:
        if "pickle" not in str(e).lower():
            res["copy_differs"] = "copying raised %s: %s" % (type(e).__name__, str(e)[:80])
    # what each sub-frame says about its own axes
    res["sub"] = [{"phys": list(f.axis_physical_types), "units": [x.to_string(format="vounit") for x in f.unit], "names": list(f.axes_names)} for f in subs]
    try:
        raw = w.pixel_to_world(*pix)
    except Exception as e:
        res["objs_err"] = C.exc_enum(e) + ":" + str(e)[:100]
        return res
    per_frame = list(raw) if not case.get("lone") else [raw]       # one entry per sub-frame
    flat = list(raw) if isinstance(raw, (list, tuple)) else [raw]  # what a caller passes back with *objects
    res["objs"] = [_obj_values(o, f) for o, f in zip(per_frame, subs)]
    res["nobjs"] = len(flat)
    res["own_kinds"] = sorted(type(o).__name__ for o in flat)
    # astropy's generic machinery on the same WCS
    try:
        gen = values_to_high_level_objects(*world, low_level_wcs=w)
        res["generic_kinds"] = sorted(type(o).__name__ for o in gen)
        # values carried by the generic objects, matched to sub-frames through the class keys
        order = list(dict.fromkeys(c[0] for c in res["comps"]))
        if len(gen) == len(order) == len(res["class_keys"]) == len(subs):
            gen_by_key = dict(zip(order, gen))
            res["generic_objs"] = [_obj_values(gen_by_key[k], f) for k, f in zip(res["class_keys"], subs)]
        back = high_level_objects_to_values(*gen, low_level_wcs=w)
        res["generic_back"] = [float(v) for v in back]
    except Exception as e:
        res["generic_err"] = type(e).__name__ + ":" + str(e)[:160]
    try:
        # pixel_to_world lists one object per sub-frame (frame order, = the order of the class keys); astropy's helper wants them in
        # the order the keys first appear in the components (world order)
        if len(flat) != len(res["class_keys"]):
            raise ValueError("pixel_to_world returned %d objects for %d declared classes" % (len(flat), len(res["class_keys"])))
        by_key = dict(zip(res["class_keys"], flat))
        order = list(dict.fromkeys(c[0] for c in res["comps"]))
        own_back = high_level_objects_to_values(*[by_key[k] for k in order], low_level_wcs=w)
        res["own_back"] = [float(v) for v in own_back]
    except Exception as e:
        res["own_back_err"] = type(e).__name__ + ":" + str(e)[:160]
    for nm, f in (("w2p", w.world_to_pixel), ("invert", w.invert)):
        try:
            r = f(*flat)
            r = list(r) if isinstance(r, (tuple, list)) else [r]
            res[nm] = [float(getattr(v, "value", v)) for v in r]
        except Exception as e:
            res[nm + "_err"] = C.exc_enum(e) + ":" + str(e)[:100]
    try:
        r = w.world_to_array_index(*flat)
        res["w2ai"] = [int(v) for v in (r if isinstance(r, tuple) else (r,))]
    except Exception as e:
        res["w2ai_err"] = C.exc_enum(e) + ":" + str(e)[:100]
    # array pixels: same objects element-wise
    try:
        arr = [np.array([p, p]) for p in pix]
        o2 = w.pixel_to_world(*arr)
        pf2 = list(o2) if not case.get("lone") else [o2]
        res["array_vals"] = [[float(np.asarray(x)[0]) for x in _arr_values(o, f)] for o, f in zip(pf2, subs)]
    except Exception as e:
        res["array_err"] = C.exc_enum(e) + ":" + str(e)[:100]
    return res


def _arr_values(o, frame):
    if isinstance(o, coord.SkyCoord):
        return [o.spherical.lon.to_value(frame.unit[0]), o.spherical.lat.to_value(frame.unit[1])]
    if isinstance(o, time.Time):
        return [(o - frame.reference_frame).to_value(frame.unit[0])]
    if type(o).__name__ == "StokesCoord":
        return [np.asarray(o.value, dtype=float)]
    if isinstance(o, u.Quantity):
        return [o.to_value(frame.unit[0])]
    return [getattr(x, "value", x) for x in o]


def _key(case):
    """open known findings, identified by the frame layout"""
    if case.get("lone") and case["axes_orders"][0] == [1, 0]:
        return "D11"      # a lone 2-axis frame with swapped axes_order
    return None


def _key30(case):
    if not case.get("lone") and any(s["kind"] in ("generic2", "frame2d") for s in case["subframes"]):
        return "D30"      # a multi-axis generic CoordinateFrame inside a CompositeFrame comes back as one nested tuple
    return None


def oracle(case, res):
    if case.get("kind") == "epochless":
        return _oracle_epochless(case, res)
    if case.get("kind") == "slit1":
        return _oracle_slit(case, res)
    out = []
    k11 = _key(case)
    if "build_err" in res:
        return [("build", "building the frame/WCS raised %s" % res["build_err"])]
    n = len(case["ab"])
    world = res["world"]
    # metadata: world axis i is described by the (sub-frame, local axis) assigned to it
    for f, ao in enumerate(case["axes_orders"]):
        for k, i in enumerate(ao):
            sub = res["sub"][f]
            for field, name in (("phys", "physical type"), ("units", "unit"), ("names", "axis name")):
                if res[field][i] != sub[field][k]:
                    out.append((k11 or "metadata", "world axis %d is local axis %d of sub-frame %d (%s) but its %s is %r, the sub-frame says %r" %
                                (i, k, f, case["subframes"][f]["kind"], name, res[field][i], sub[field][k])))
    # what a celestial sub-frame says about itself, against the sky system it was built for: longitude first, latitude second
    CEL = {"icrs": ["pos.eq.ra", "pos.eq.dec"], "fk5": ["pos.eq.ra", "pos.eq.dec"], "fk5_1975": ["pos.eq.ra", "pos.eq.dec"],
           "fk4_1900": ["pos.eq.ra", "pos.eq.dec"], "galactic": ["pos.galactic.lon", "pos.galactic.lat"]}
    for f, spec in enumerate(case["subframes"]):
        if spec["kind"] == "celestial":
            sub = res["sub"][f]
            if sub["names"] != ["lon", "lat"] or sub["phys"] != CEL[spec["ref"]]:
                out.append(("celestial_meta", "a %s celestial frame describes its (longitude, latitude) axes as names %s, physical types %s" %
                            (spec["ref"], sub["names"], sub["phys"])))
    if res.get("copy_differs"):
        out.append(("copy", "a copy of the WCS (taken after it was used) describes its world axes differently: %s; the original: components %s classes %s" %
                    (res["copy_differs"], res["comps"], res["class_keys"])))
    if len(set(res["class_keys"])) != len(res["class_keys"]) or len({c[0] for c in res["comps"]}) > len(res["class_keys"]):
        out.append(("class_keys", "object class keys %s / components %s are inconsistent" % (res["class_keys"], res["comps"])))
    if "objs_err" in res:
        out.append((k11 or "objects", "pixel_to_world raised %s" % res["objs_err"]))
        return out[:4]
    # objects carry the world values of their own axes
    for f, (ao, (kind, vals)) in enumerate(zip(case["axes_orders"], res["objs"])):
        want = [world[i] for i in ao]
        if len(vals) != len(want) or any(abs(a - b) > 1e-9 * max(1.0, abs(b)) for a, b in zip(vals, want)):
            out.append((k11 or "object_values", "the %s built for sub-frame %d (world axes %s) carries %s, the transform outputs on those axes are %s" %
                        (kind, f, ao, vals, want)))
    k30 = _key30(case)
    env = lambda m: "not scalars or plain" in m    # astropy 8 rejects the Longitude that 'spherical.lon' returns (baseline always-fail test_high_level_api)
    if "generic_err" in res:
        if not env(res["generic_err"]):
            out.append((k11 or "generic", "astropy's generic machinery failed on this WCS: %s" % res["generic_err"]))
    else:
        if any(abs(a - b) > 1e-9 * max(1.0, abs(b)) for a, b in zip(res["generic_back"], world)) or len(res["generic_back"]) != n:
            out.append((k11 or "components", "components applied to astropy's generic objects give %s, world values are %s" % (res["generic_back"], world)))
        if "generic_objs" in res:
            for f, ((k1, v1), (k2, v2)) in enumerate(zip(res["objs"], res["generic_objs"])):
                if k1 != k2 or len(v1) != len(v2) or any(abs(a - b) > 1e-9 * max(1.0, abs(b)) for a, b in zip(v1, v2)):
                    out.append((k11 or k30 or "kinds", "sub-frame %d: pixel_to_world builds %s %s, astropy's generic machinery builds %s %s from the same WCS" %
                                (f, k1, v1, k2, v2)))
        if res["generic_kinds"] != res["own_kinds"]:
            out.append((k11 or k30 or "kinds", "pixel_to_world returns %s, astropy's generic machinery builds %s" % (res["own_kinds"], res["generic_kinds"])))
    if "own_back_err" in res:
        if not env(res["own_back_err"]):
            out.append((k11 or k30 or "components", "components cannot be applied to pixel_to_world's objects: %s" % res["own_back_err"]))
    elif any(abs(a - b) > 1e-9 * max(1.0, abs(b)) for a, b in zip(res["own_back"], world)) or len(res["own_back"]) != n:
        out.append((k11 or "components", "components applied to pixel_to_world's objects give %s, world values are %s" % (res["own_back"], world)))
    pix = _pix(case)
    k30r = k30 if (k30 and case["subframes"][0]["kind"] in ("generic2", "frame2d")) else None   # the nested tuple listed first is taken for a number
    for nm in ("w2p", "invert"):
        if nm + "_err" in res:
            out.append((k11 or k30r or "roundtrip", "%s(*pixel_to_world(p)) raised %s" % (nm, res[nm + "_err"])))
        elif any(abs(a - b) > 1e-9 for a, b in zip(res[nm], pix)) or len(res[nm]) != n:
            out.append((k11 or "roundtrip", "%s(*pixel_to_world(%s)) = %s" % (nm, pix, res[nm])))
    if "w2ai_err" in res:
        out.append((k11 or k30r or "roundtrip", "world_to_array_index raised %s" % res["w2ai_err"]))
    else:
        want = [int(np.floor(p + 0.5)) for p in pix][::-1]
        if res["w2ai"] != want:
            out.append((k11 or "roundtrip", "world_to_array_index(*pixel_to_world(%s)) = %s, expected %s" % (pix, res["w2ai"], want)))
    if "array_err" in res:
        out.append((k11 or "array", "pixel_to_world on array pixels raised %s" % res["array_err"]))
    else:
        for f, (ao, vals) in enumerate(zip(case["axes_orders"], res["array_vals"])):
            want = [world[i] for i in ao]
            if len(vals) != len(want) or any(abs(a - b) > 1e-9 * max(1.0, abs(b)) for a, b in zip(vals, want)):
                out.append((k11 or "array", "array pixels: the object for sub-frame %d (world axes %s) carries %s, expected %s" % (f, ao, vals, want)))
    return out[:5]


KEYS = {"celestial": (["celestial"], [["celestial", 0], ["celestial", 1]]), "spectral": (["spectral"], [["spectral", 0]]),
        "temporal": (["temporal"], [["temporal", 0]]), "stokes": (["stokes"], [["stokes", 0]])}


def _frame_keys(spec):
    if spec["kind"] in KEYS:
        return KEYS[spec["kind"]]
    if spec["kind"] == "generic1":
        return [spec["atype"]], [[spec["atype"], 0]]
    return ["SPATIAL", "SPATIAL1"], [["SPATIAL", 0], ["SPATIAL1", 0]]


def request(case, res):
    if case.get("kind") in ("slit1", "epochless") or case.get("lone") or "build_err" in res:
        return None
    frames = []
    for spec, ao in zip(case["subframes"], case["axes_orders"]):
        keys, comps = _frame_keys(spec)
        frames.append({"axes_order": ao, "keys": keys, "comps": comps})
    return {"frames": frames}


def compare(case, res, resp):
    if "ok" not in resp:
        return "model error %s" % resp
    m = resp["ok"]
    # provenance labels F{f}A{k} -> the sub-frames' own metadata
    for i, lab in enumerate(m["meta"]):
        f, k = int(lab[1:lab.index("A")]), int(lab[lab.index("A") + 1:])
        if res["phys"][i] != res["sub"][f]["phys"][k] or res["units"][i] != res["sub"][f]["units"][k]:
            return "world axis %d: model says it is local axis %d of sub-frame %d; implementation reports %s / %s" % (i, k, f, res["phys"][i], res["units"][i])
    comps = [[c[0], c[1]] for c in res["comps"]]
    if m["components"] != comps:
        return "world_axis_object_components: implementation %s, model %s" % (comps, m["components"])
    if m["renamed"] is not None and [k for ks in m["renamed"] for k in ks] != res["class_keys"]:
        return "class keys: implementation %s, model %s" % (res["class_keys"], m["renamed"])
    if m["c2q"] != list(range(len(case["ab"]))):
        return "model round trip does not return world order: %s" % m["c2q"]
    return None


def nontrivial(case, res):
    if case.get("kind") in ("slit1", "epochless"):
        return True
    flat = [i for ao in case["axes_orders"] for i in ao]
    return flat != sorted(flat)


def stats(case, res, st):
    if case.get("kind") == "epochless":
        st["epochless_temporal"] += 1
        return
    if case.get("kind") == "slit1":
        st["slit_1pixel_%dworld" % case["nworld"]] += 1
        return
    st["nframes_%d" % len(case["subframes"])] += 1
    st["naxes_%d" % len(case["ab"])] += 1
    for s in case["subframes"]:
        st["kind_" + s["kind"]] += 1
    if case.get("lone"):
        st["lone"] += 1
    if "generic_err" in res:
        st["generic_unavailable"] += 1


def gen(rng, tier):
    q = tier == "quick"
    for _ in range(4 if q else 60):
        yield {"kind": "epochless", "scale": rng.choice(["tai", "tt", "utc"]), "mjd0": float(rng.randint(50000, 60000)), "step": rng.choice([0.25, 0.5, 2.0]),
               "p": float(rng.randint(0, 40))}
    for _ in range(8 if q else 150):
        # fewer pixel than world axes: a slit whose single pixel coordinate gives sky position (and wavelength)
        yield {"kind": "slit1", "nworld": rng.choice([2, 3]), "lon0": float(rng.randint(10, 300)), "lat0": float(rng.randint(-60, 60)),
               "sl": rng.choice([0.01, 0.03125, -0.02]), "sb": rng.choice([0.005, 0.0625, -0.01]), "p": rng.randint(-8, 200) / 4.0 + 0.125}       # (never a half-integer: rounding there is decided by the last bit of the inverse)
    for _ in range(90 if q else 4000):
        lone = rng.random() < 0.15
        nsub = 1 if lone else rng.randint(2, 4)
        subs, total = [], 0
        used_names = set()
        for j in range(nsub):
            for _try in range(20):
                kind = rng.choice(["celestial", "spectral", "spectral", "temporal", "stokes", "generic1", "generic2"])
                sz = 2 if kind in ("celestial", "generic2") else 1
                if total + sz <= 5 and not (kind == "celestial" and any(s["kind"] == "celestial" for s in subs)) \
                        and not (kind in ("temporal", "stokes") and any(s["kind"] == kind for s in subs)):
                    break
            else:
                kind, sz = "spectral", 1
            spec = {"kind": kind, "name": "%s%d" % (kind[:4], j)}
            if kind == "celestial":
                spec["ref"] = rng.choice(["icrs", "fk5", "galactic", "fk5_1975", "fk4_1900"])   # frames with non-default attributes too
                spec["units"] = rng.choice([["deg", "deg"], ["deg", "deg"], ["arcsec", "deg"], ["deg", "arcmin"], ["arcmin", "arcsec"]])
            if kind == "spectral":
                spec["unit"] = rng.choice(["um", "nm", "Hz", "AA"])
            if kind == "temporal":
                spec["unit"] = rng.choice(["s", "min", "h", "d"])
            if kind == "generic1":
                spec["atype"] = rng.choice(["SPATIAL", "PIXEL", "custom"])
                spec["unit"] = rng.choice(["m", "s", "pix"])
            subs.append(spec)
            total += sz
        perm = list(range(total))
        if rng.random() < 0.8:
            rng.shuffle(perm)
        aos, pos = [], 0
        for s in subs:
            sz = 2 if s["kind"] in ("celestial", "generic2") else 1
            aos.append(perm[pos:pos + sz])
            pos += sz
        if lone:
            aos = [list(range(len(aos[0])))] if rng.random() < 0.5 else [list(range(len(aos[0])))[::-1]]
            total = len(aos[0])
        # separable exact transform with distinct values; Stokes axis must give a valid Stokes number, latitude must stay in range
        ab = [[float(rng.choice([1, 2, 3])), rng.choice([0.25, 1.5, 2.0, 4.75])] for _i in range(total)]
        # distinct, asymmetric starting pixels; some left of / below the array (negative), where rounding to pixel centres must floor
        pix = rng.sample(PIX + [-3.2, -0.7, -12.4, -1.6], total) if rng.random() < 0.5 else PIX[:total]
        for s, ao in zip(subs, aos):
            if s["kind"] == "celestial":
                for i_ in ao:                # the affine stand-in for a sky projection is not periodic: keep longitudes in [0, 360)
                    pix[i_] = abs(pix[i_])
            if s["kind"] == "stokes":
                ab[ao[0]] = [1.0, 0.0]
                pix[ao[0]] = float(rng.randint(1, 4))
        yield {"subframes": subs, "axes_orders": aos, "ab": ab, "lone": lone, "pix": pix}
    # a Frame2D (focal plane, slit plane ...) next to a spectral axis, on each pair of world axes and in both orders
    for k, aos in enumerate([[[2], [0, 1]], [[0], [1, 2]], [[1], [0, 2]], [[0], [2, 1]], [[2], [1, 0]]] * (1 if tier == "quick" else 6)):
        yield {"subframes": [{"kind": "spectral", "name": "spec0", "unit": "um"}, {"kind": "frame2d", "name": "plan1"}], "axes_orders": aos,
               "ab": [[float(1 + (k + i) % 3), [0.25, 1.5, 2.0][(k + 2 * i) % 3]] for i in range(3)], "lone": False, "pix": PIX[:3]}
