"""C14 — polygon masks cover the polygon, hug it, clip cleanly (gwcs/region.py, selector.from_vertices)."""
import itertools
import math
from fractions import Fraction

import numpy as np

import common as C
from gwcs import region, selector

PROP = "C14"
LEAN_MODULE = "GwcsProofs.C14"
SOURCES = ["GwcsModel/Basic.lean", "GwcsModel/Polygon.lean", "GwcsProofs/C14.lean", "GwcsProofs/Lemmas/PolyLemmas.lean"]
THEOREMS = [
    "Gwcs.Poly.marked_iff_count",
    "Gwcs.Poly.spanCols_iff",
    "Gwcs.Poly.spanColsUnguarded_wraps",
    "Gwcs.Poly.row_covers",
    "Gwcs.Poly.row_hugs",
    "Gwcs.Poly.closed_even_lo",
    "Gwcs.Poly.closed_even_hi",
    "Gwcs.Poly.covers_strict_interior",
    "Gwcs.Poly.hugs",
    "Gwcs.Poly.rows_out_of_reach_untouched",
    "Gwcs.Poly.zero_width_marks_nothing",
    "Gwcs.Poly.clip_eq_crop",
    "Gwcs.Poly.round_is_nearest",
    "Gwcs.Poly.round_commutes_with_integer_shift",
    "Gwcs.Poly.labels_last_wins",
    "Gwcs.Poly.translate_equivariant",
    "Gwcs.Poly.shift_harmless",
    "Gwcs.Poly.aetLoop_perm_activeAt",
    "Gwcs.Poly.scanMaskLoop_eq_scanMask",
]
RULE = ("case = (polygon vertices, image shape, labels); lattice triangles/quadrilaterals at overhang offsets, random star-shaped/concave "
        "polygons <= 12 vertices with integer, fractional and exact-half vertices, multi-polygon label drawings; non-trivial = positive "
        "area and some row with both marked and unmarked in-image pixels, or clipped on at least one side; distinct by hash of "
        "(vertices, shape, labels)")
TRUSTED = ["harness/props/c14.py correspondence (impl mask == model mask, ceil log admissible)",
           "definition: inside = even-odd crossing number; Jordan curve theorem not proved"]
ASSUMPTIONS = ["float evaluation of an edge/row intersection is within 1 ulp-scale error of the exact rational (checked per case: logged ceilings admissible)",
               "|coordinates| < 2^26"]

_LOG = []
_orig = region.Edge.compute_AET_entry


def _wrapped(self, edge):
    out = _orig(self, edge)
    try:
        _LOG.append([int(edge._start[1]), int(self._name[1:]), int(np.ceil(out[1]))])
    except Exception:
        pass
    return out


region.Edge.compute_AET_entry = _wrapped


def _scan(verts, ny, nx, rid=1):
    del _LOG[:]
    pol = region.Polygon(rid, [tuple(v) for v in verts])
    data = np.zeros((ny, nx), dtype=int)
    out = pol.scan(data)
    return pol, out, [list(t) for t in _LOG]


def impl(case):
    ny, nx = case["ny"], case["nx"]
    if case["kind"] == "scan":
        try:
            pol, out, log = _scan(case["verts"], ny, nx)
        except Exception as e:
            return {"err": C.exc_enum(e), "msg": str(e)[:200]}
        res = {"mask": ["".join("1" if v else "0" for v in row) for row in out.tolist()], "ceil": log,
               "verts": (pol._vertices + np.array([pol._shiftx, pol._shifty])).tolist()}
        # the same Polygon object filled again (fresh array; then a taller and wider one): a fill depends on polygon and image only
        try:
            again = pol.scan(np.zeros((ny, nx), dtype=int))
            res["rescan"] = ["".join("1" if v else "0" for v in row) for row in again.tolist()]
            wide = pol.scan(np.zeros((ny + 3, nx + 2), dtype=int))
            res["rescan_wide"] = ["".join("1" if v else "0" for v in row) for row in wide[:ny, :nx].tolist()]
        except Exception as e:
            res["rescan_err"] = C.exc_enum(e)
        # whole-number vertices handed over as an integer array (what np.round(...).astype(int) of a catalogue gives): the same fill, and
        # the caller's array is theirs - it is not moved
        if all(float(x) == int(x) and float(y) == int(y) for x, y in case["verts"]):
            try:
                arr = np.array([[int(x), int(y)] for x, y in case["verts"]], dtype=int)
                keep = arr.copy()
                o1 = region.Polygon(1, arr).scan(np.zeros((ny, nx), dtype=int))
                o2 = region.Polygon(1, arr).scan(np.zeros((ny, nx), dtype=int))
                res["int_array"] = {"same": bool(np.array_equal(o1, out) and np.array_equal(o2, out)), "caller_array_kept": bool(np.array_equal(arr, keep))}
            except Exception as e:
                res["int_array"] = {"err": C.exc_enum(e) + ":" + str(e)[:80]}
        # metamorphic: larger canvas translated so that everything is non-negative
        pad = case.get("pad", [3, 2, 4, 1])  # left, bottom, right, top
        try:
            big_v = [(x + pad[0], y + pad[1]) for x, y in case["verts"]]
            _, big, _ = _scan(big_v, ny + pad[1] + pad[3], nx + pad[0] + pad[2])
            crop = big[pad[1]:pad[1] + ny, pad[0]:pad[0] + nx]
            res["crop"] = ["".join("1" if v else "0" for v in row) for row in crop.tolist()]
        except Exception as e:
            res["crop_err"] = C.exc_enum(e)
        return res
    # draw
    labels = case["labels"]
    regs = {}
    for lab, poly in zip(labels, case["polys"]):
        regs[lab] = [list(v) for v in poly]
    logs = []
    orig_scan = region.Polygon.scan

    def scan_logged(self, data):
        del _LOG[:]
        r = orig_scan(self, data)
        logs.append([list(t) for t in _LOG])
        return r
    region.Polygon.scan = scan_logged
    try:
        m = selector.LabelMapperArray.from_vertices((ny, nx), regs)
        arr = m.mapper
    except Exception as e:
        return {"err": C.exc_enum(e), "msg": str(e)[:200]}
    finally:
        region.Polygon.scan = orig_scan
    empty = "" if isinstance(labels[0], str) else 0
    lab_idx = {lab: i + 1 for i, lab in enumerate(regs.keys())}
    lab_idx[empty] = 0
    img = [[lab_idx.get(v.item() if hasattr(v, "item") else v, -1) for v in row] for row in arr]
    singles = []
    for lab in regs:
        _, o, _ = _scan(regs[lab], ny, nx)
        singles.append(["".join("1" if v else "0" for v in row) for row in o.tolist()])
    return {"img": img, "logs": logs, "order": [lab_idx[l] for l in regs], "singles": singles}


# ------------------------------------------------------------------ oracle (exact, independent of the scan algorithm)
def _round_exact(v):
    return math.floor(Fraction(v) + Fraction(1, 2))


def _row_closed_set(R, y):
    """Closed polygon (boundary + closure of even-odd interior) on row y, as a list of closed intervals [a,b] (Fractions)."""
    n = len(R) - 1
    crit = set()
    hsegs = []
    for i in range(n):
        (x1, y1), (x2, y2) = R[i], R[i + 1]
        if y1 == y2:
            if y1 == y:
                hsegs.append((min(x1, x2), max(x1, x2)))
                crit.add(Fraction(x1)); crit.add(Fraction(x2))
        elif min(y1, y2) <= y <= max(y1, y2):
            crit.add(Fraction(x1) + Fraction((y - y1) * (x2 - x1), (y2 - y1)))
    crit = sorted(crit)
    ivs = [(c, c) for c in crit]

    def inside_at(px, yy):
        cnt = 0
        for i in range(n):
            (x1, y1), (x2, y2) = R[i], R[i + 1]
            if (y1 <= yy < y2) or (y2 <= yy < y1):
                xe = Fraction(x1) + Fraction(yy - y1) * Fraction(x2 - x1) / Fraction(y2 - y1)
                if xe > px:
                    cnt += 1
        return cnt % 2 == 1
    eps = Fraction(1, 4 * (1 + max(abs(b - a) for (_, a), (_, b) in zip(R, R[1:])) ** 2 + 4))
    for a, b in zip(crit, crit[1:]):
        mid = (a + b) / 2
        on_h = any(h0 <= a and b <= h1 for h0, h1 in hsegs)
        # closure of the interior: a point just above or just below the row is inside
        if on_h or inside_at(mid, Fraction(y) + eps) or inside_at(mid, Fraction(y) - eps):
            ivs.append((a, b))
    return ivs


def _strict_inside(R, px, py):
    n = len(R) - 1
    for i in range(n):  # on boundary?
        (x1, y1), (x2, y2) = R[i], R[i + 1]
        if (x2 - x1) * (py - y1) == (y2 - y1) * (px - x1) and min(x1, x2) <= px <= max(x1, x2) and min(y1, y2) <= py <= max(y1, y2):
            return False
    cnt = 0
    for i in range(n):
        (x1, y1), (x2, y2) = R[i], R[i + 1]
        if (y1 <= py < y2) or (y2 <= py < y1):
            xe = Fraction(x1) + Fraction((py - y1) * (x2 - x1), (y2 - y1))
            if xe > px:
                cnt += 1
    return cnt % 2 == 1


def _oracle_int_array(res):
    ia = res.get("int_array")
    if ia is None:
        return []
    if "err" in ia:
        return [("int_array", "whole-number vertices given as an integer array: %s" % ia["err"])]
    if not ia["same"] or not ia["caller_array_kept"]:
        return [("int_array", "whole-number vertices given as an integer array: same fill (also the second time) %s, the caller's array left as it was %s" %
                 (ia["same"], ia["caller_array_kept"]))]
    return []


def _oracle_scan(verts, ny, nx, res):
    out = []
    mask = res["mask"]
    R = [tuple(v) for v in res["verts"]]
    for (gx, gy), (rx, ry) in zip(verts, R):
        if abs(Fraction(gx) - rx) > Fraction(1, 2) + Fraction(1, 10**9) or abs(Fraction(gy) - ry) > Fraction(1, 2) + Fraction(1, 10**9):
            out.append(("round", "vertex (%r,%r) was used as (%d,%d): not the nearest pixel centre" % (gx, gy, rx, ry)))
            return out
        ex, ey = _round_exact(gx), _round_exact(gy)
        if (ex, ey) != (rx, ry) and abs(Fraction(gx) + Fraction(1, 2) - round(Fraction(gx) + Fraction(1, 2))) > Fraction(1, 10**9) \
                and abs(Fraction(gy) + Fraction(1, 2) - round(Fraction(gy) + Fraction(1, 2))) > Fraction(1, 10**9):
            out.append(("round", "vertex (%r,%r) used as (%d,%d), nearest centre (halves up) is (%d,%d)" % (gx, gy, rx, ry, ex, ey)))
            return out
    ys = [p[1] for p in R]
    xs = [p[0] for p in R]
    zero_w = max(xs) == min(xs)
    for r in range(ny):
        row = mask[r]
        if r < min(ys) or r > max(ys) or zero_w:
            if "1" in row:
                out.append(("reach", "row %d marked although the polygon does not reach it / has zero width" % r))
            continue
        ivs = None
        for c in range(nx):
            m = row[c] == "1"
            if not m and _strict_inside(R, c, r):
                out.append(("cover", "pixel centre (%d,%d) strictly inside the polygon is not marked" % (c, r)))
            if m:
                if ivs is None:
                    ivs = _row_closed_set(R, r)
                if not any(a <= c and c - 1 <= b for a, b in ivs):
                    out.append(("hug", "pixel (%d,%d) is marked but lies more than one pixel to the right of the closed polygon (or left of it)" % (c, r)))
        if len(out) > 3:
            break
    if "rescan_err" in res:
        out.append(("rescan", "filling the same Polygon object a second time raised %s" % res["rescan_err"]))
    for k_ in ("rescan", "rescan_wide"):
        if k_ in res and res[k_] != mask:
            out.append(("rescan", "the same Polygon object filled a second time (%s) gives a different mask: %d pixels marked, first fill %d" %
                        ("same image shape" if k_ == "rescan" else "larger image, cropped", sum(r.count("1") for r in res[k_]), sum(r.count("1") for r in mask))))
    if "crop" in res and res["crop"] != mask:
        out.append(("crop", "mask differs from the crop of the fill of the translated polygon on a larger canvas"))
    return out


def oracle(case, res):
    if "err" in res:
        if case["kind"] == "scan" and len(case["verts"]) >= 4:
            return [("raise", "Polygon raised %s on a valid polygon" % res["err"])]
        return []
    if case["kind"] == "scan":
        return _oracle_scan(case["verts"], case["ny"], case["nx"], res) + _oracle_int_array(res)
    out = []
    img, singles, order = res["img"], res["singles"], res["order"]
    for r in range(case["ny"]):
        for c in range(case["nx"]):
            want = 0
            for lab, s in zip(order, singles):
                if s[r][c] == "1":
                    want = lab
            if img[r][c] != want:
                out.append(("labels", "pixel (%d,%d) carries label index %d, last covering polygon is %d" % (c, r, img[r][c], want)))
                return out
    return out


# ------------------------------------------------------------------ model side
def _wverts(verts):
    return [[C.f2w(x), C.f2w(y)] for x, y in verts]


def request(case, res):
    if case["kind"] == "scan":
        return {"op": "scan", "verts": _wverts(case["verts"]), "ny": case["ny"], "nx": case["nx"], "ceil": res.get("ceil", [])}
    if "err" in res:
        return None
    # labels in dict order (later duplicates overwrite earlier keys but keep position)
    regs = {}
    for lab, poly in zip(case["labels"], case["polys"]):
        regs[lab] = poly
    polys = [{"label": i + 1, "verts": _wverts(regs[lab]), "ceil": res["logs"][i] if i < len(res["logs"]) else []}
             for i, lab in enumerate(regs)]
    return {"op": "draw", "polys": polys, "ny": case["ny"], "nx": case["nx"]}


def compare(case, res, resp):
    if "err" in res or "err" in resp:
        if res.get("err") != resp.get("err"):
            return "impl %s vs model %s" % (res.get("err", "ok"), resp.get("err", "ok"))
        return None
    ok = resp["ok"]
    if case["kind"] == "scan":
        if not ok["admissible"]:
            return "implementation's ceiling values are not admissible for the exact intersections (log %s)" % res["ceil"][:6]
        if not ok["closed_form_agrees"]:
            return "model: incremental AET and closed form disagree"
        if ok["mask"] != res["mask"]:
            return "mask differs: impl %s model %s" % (res["mask"], ok["mask"])
        if ok["verts"] != [[x - ok["shift"][0] + 0, y - ok["shift"][1] + 0] for x, y in res["verts"]]:
            return "rounded/shifted vertices differ: impl %s model %s shift %s" % (res["verts"], ok["verts"], ok["shift"])
        return None
    if not ok["admissible"]:
        return "ceil log not admissible"
    if ok["img"] != res["img"]:
        return "label image differs: impl %s model %s" % (res["img"], ok["img"])
    return None


def nontrivial(case, res):
    if "err" in res:
        return False
    if case["kind"] == "draw":
        labs = {v for row in res["img"] for v in row}
        return len(labs) >= 3
    m = res["mask"]
    mixed = any("1" in r and "0" in r for r in m)
    R = res["verts"]
    clipped = any(x < 0 or x >= case["nx"] or y < 0 or y >= case["ny"] for x, y in R)
    return mixed or (clipped and any("1" in r for r in m))


def stats(case, res, st):
    st["kind_" + case["kind"]] += 1
    st["src_" + case.get("src", "?")] += 1
    if "err" in res:
        st["err_" + res["err"]] += 1
        return
    if case["kind"] == "scan":
        st["nverts_%d" % (len(case["verts"]) - 1)] += 1
        st["fractional"] += any(float(x) != int(x) or float(y) != int(y) for x, y in case["verts"])
        st["marked_any"] += any("1" in r for r in res["mask"])
        R = res["verts"]
        st["overhang"] += any(x < 0 or x >= case["nx"] or y < 0 or y >= case["ny"] for x, y in R)
        st["negative_coords"] += any(x < 0 or y < 0 for x, y in R)


# ------------------------------------------------------------------ generators
def _is_simple(P):
    n = len(P)

    def orient(a, b, c):
        v = (b[0] - a[0]) * (c[1] - a[1]) - (b[1] - a[1]) * (c[0] - a[0])
        return (v > 0) - (v < 0)

    def onseg(a, b, c):
        return min(a[0], b[0]) <= c[0] <= max(a[0], b[0]) and min(a[1], b[1]) <= c[1] <= max(a[1], b[1])
    for i in range(n):
        a, b = P[i], P[(i + 1) % n]
        if a == b:
            return False
        for j in range(i + 1, n):
            c, d = P[j], P[(j + 1) % n]
            adjacent = (j == i + 1) or (i == 0 and j == n - 1)
            o1, o2, o3, o4 = orient(a, b, c), orient(a, b, d), orient(c, d, a), orient(c, d, b)
            if adjacent:
                # only allowed to share the common vertex
                shared = b if j == i + 1 else a
                other_c = d if j == i + 1 else c
                other_a = a if j == i + 1 else b
                if orient(a, b, other_c) == 0 and onseg(a, b, other_c) and other_c != shared:
                    return False
                if orient(c, d, other_a) == 0 and onseg(c, d, other_a) and other_a != shared:
                    return False
                continue
            if o1 != o2 and o3 != o4:
                return False
            if o1 == 0 and onseg(a, b, c): return False
            if o2 == 0 and onseg(a, b, d): return False
            if o3 == 0 and onseg(c, d, a): return False
            if o4 == 0 and onseg(c, d, b): return False
    return True


def _star(rng, n, cx, cy, rmax, frac):
    angs = sorted(rng.uniform(0, 2 * math.pi) for _ in range(n))
    pts = []
    for a in angs:
        r = rng.uniform(0.3, 1.0) * rmax
        x, y = cx + r * math.cos(a), cy + r * math.sin(a)
        if frac == "int":
            x, y = round(x), round(y)
        elif frac == "half":
            x, y = round(x * 2) / 2, round(y * 2) / 2
        elif frac == "quarter":
            x, y = round(x * 4) / 4, round(y * 4) / 4
        else:
            x, y = round(x, 3), round(y, 3)
        pts.append((x, y))
    return pts


def gen(rng, tier):
    n_lat, n_star, n_draw = (260, 160, 50) if tier == "quick" else (12000, 6000, 1500)
    lattice = [(x, y) for x in range(5) for y in range(5)]
    # hand-picked regression witnesses (D2, D3) are in corpus/C14.jsonl
    for _ in range(n_lat):
        k = rng.choice([3, 3, 4, 4, 5])
        for _try in range(50):
            P = rng.sample(lattice, k)
            if _is_simple(P):
                break
        else:
            continue
        ny, nx = rng.randint(1, 9), rng.randint(1, 9)
        dx, dy = rng.randint(-5, nx), rng.randint(-5, ny)
        V = [(x + dx, y + dy) for x, y in P]
        yield {"kind": "scan", "src": "lattice", "verts": [list(map(float, v)) for v in V + [V[0]]], "ny": ny, "nx": nx,
               "pad": [rng.randint(0, 9), rng.randint(0, 9), rng.randint(0, 5), rng.randint(0, 5)]}
    for _ in range(n_star):
        n = rng.randint(3, 12)
        ny, nx = rng.randint(1, 17), rng.randint(1, 23)
        frac = rng.choice(["int", "half", "quarter", "milli", "int"])
        for _try in range(50):
            P = _star(rng, n, rng.uniform(-6, nx + 6), rng.uniform(-6, ny + 6), rng.uniform(1.5, 14), frac)
            Rr = [(_round_exact(x), _round_exact(y)) for x, y in P]
            if len(set(Rr)) == len(Rr) and _is_simple(Rr):
                break
        else:
            continue
        yield {"kind": "scan", "src": "star_" + frac, "verts": [list(map(float, v)) for v in P + [P[0]]], "ny": ny, "nx": nx,
               "pad": [rng.randint(0, 30), rng.randint(0, 30), rng.randint(0, 20), rng.randint(0, 20)]}
    # rectilinear outlines that are not rectangles (L, U, staircase, plus sign): every edge horizontal or vertical, a notch inside the
    # bounding box
    SHAPES = {"L": [(0, 0), (5, 0), (5, 2), (2, 2), (2, 6), (0, 6)], "U": [(0, 0), (7, 0), (7, 5), (5, 5), (5, 2), (2, 2), (2, 5), (0, 5)],
              "stairs": [(0, 0), (6, 0), (6, 2), (4, 2), (4, 4), (2, 4), (2, 6), (0, 6)],
              "plus": [(2, 0), (4, 0), (4, 2), (6, 2), (6, 4), (4, 4), (4, 6), (2, 6), (2, 4), (0, 4), (0, 2), (2, 2)]}
    for k in range(8 if tier == "quick" else 160):
        nm_ = ["L", "U", "stairs", "plus"][k % 4]
        dx, dy = [(0, 0), (-2, 1), (3, -3), (1, 2)][(k // 4) % 4] if tier == "quick" else (rng.randint(-4, 4), rng.randint(-4, 4))
        V = [(x + dx, y + dy) for x, y in SHAPES[nm_]]
        if (k // 2) % 2 == 1:
            V = [(y, x) for x, y in V][::-1]          # mirrored
        yield {"kind": "scan", "src": "rectilinear_" + nm_, "verts": [list(map(float, v)) for v in V + [V[0]]], "ny": 10, "nx": 11, "pad": [5, 5, 2, 2]}
    # degenerate / malformed stream
    for _ in range(12 if tier == "quick" else 200):
        ny, nx = rng.randint(1, 8), rng.randint(1, 8)
        kind = rng.choice(["zero_w", "zero_h", "short", "horizontal_runs"])
        if kind == "zero_w":
            x = rng.randint(-2, nx)
            V = [(x, 1), (x, 3), (x, 6), (x, 1)]
        elif kind == "zero_h":
            y = rng.randint(-2, ny)
            V = [(0, y), (3, y), (6, y), (0, y)]
        elif kind == "short":
            V = [(0, 0), (3, 4), (0, 0)]
        else:
            V = [(0, 0), (2, 0), (4, 0), (4, 3), (2, 3), (0, 3), (0, 0)]
            dx = rng.randint(-3, 3)
            V = [(x + dx, y + dx) for x, y in V]
        yield {"kind": "scan", "src": kind, "verts": [list(map(float, v)) for v in V], "ny": ny, "nx": nx}
    for _ in range(n_draw):
        ny, nx = rng.randint(3, 14), rng.randint(3, 16)
        k = rng.randint(2, 4)
        strs = rng.random() < 0.5
        # string labels of unequal length: the mask must hold the longest
        labels = [(["S1", "S1600A1", "x", "LONG_LABEL_%d" % i][i % 4] + ("" if i < 4 else str(i))) if strs else (i + 1) * 3 for i in range(k)]
        rng.shuffle(labels)      # dict order, not label order, decides which polygon is drawn last
        polys = []
        for _i in range(k):
            for _try in range(50):
                P = _star(rng, rng.randint(3, 7), rng.uniform(-2, nx + 2), rng.uniform(-2, ny + 2), rng.uniform(1.5, 8), rng.choice(["int", "half"]))
                Rr = [(_round_exact(x), _round_exact(y)) for x, y in P]
                if len(set(Rr)) == len(Rr) and _is_simple(Rr):
                    break
            polys.append([list(map(float, v)) for v in P + [P[0]]])
        yield {"kind": "draw", "src": "draw_str" if strs else "draw_int", "labels": labels, "polys": polys, "ny": ny, "nx": nx}
