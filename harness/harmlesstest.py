#!/usr/bin/env python3
"""harmlesstest.py <PROP> <dir-with-patch.diff/demo.py/meta.json> [--no-confirm]

The counterpart of seedtest.py for changes that are meant NOT to break the property (refactorings, clean-ups, optimisations written
by an independent sub-agent that saw only the property's text): confirm the change (applies, unedited test suite unchanged, its
demonstration exits 0 before and after), run every registered quick check and the property's own thorough check against it in a
scratch worktree (C19, whose model is regenerated from the source, goes through /repo itself and is rebuilt from the clean tree
afterwards) and record which checks raise an alarm and of which kind:

  failing-input            a VIOLATION with a failing input: either the change is not harmless after all (then it belongs under
                           seeded/), or the check demands more than the property says (a false alarm: to be corrected)
  no-failing-input-found   a proof / translation / correspondence no longer checks and the search found no failing input: the
                           documented outcome for a rewrite the model cannot follow; reported, not a defect of the check
  infra                    exit 2: the harness could not run (to be corrected)

The change is kept as /verif/harmless/<PROP>-<k>/ with the verdicts in meta.json.  Nothing is ever committed to /repo.
"""
import concurrent.futures
import json
import os
import shutil
import subprocess
import sys

VERIF = os.path.dirname(os.path.dirname(os.path.abspath(__file__)))
REPO = "/repo"
PY = "/venv/bin/python"


def sh(cmd, cwd=None, timeout=7200, env=None):
    p = subprocess.run(cmd, shell=True, cwd=cwd, capture_output=True, text=True, timeout=timeout, env=env)
    return p.returncode, p.stdout + p.stderr


def classify(rc, out):
    viol = [l for l in out.splitlines() if l.startswith("VIOLATION")]
    if rc == 0 and not viol:
        return "quiet", None
    if rc == 1 and viol:
        kind = "no-failing-input-found" if viol[0].rstrip().endswith("no-failing-input-found") else "failing-input"
        detail = [l for l in out.splitlines() if l.startswith("  ")][:3]
        return kind, [viol[0]] + detail
    return "infra", out.strip().splitlines()[-3:]


def main():
    prop, d = sys.argv[1], sys.argv[2]
    confirm = "--no-confirm" not in sys.argv[3:]
    patch, demo = os.path.join(d, "patch.diff"), os.path.join(d, "demo.py")
    rc, out = sh("git status --porcelain", cwd=REPO)
    if out.strip():
        print("refusing: /repo working tree not clean:\n" + out)
        sys.exit(2)
    verdict = {}
    wt = "/tmp/harmless-%s" % prop
    sh("git -C %s worktree remove --force %s" % (REPO, wt))
    sh("git -C %s worktree add -q %s HEAD" % (REPO, wt))
    try:
        rc0, _ = sh("%s %s" % (PY, demo), cwd=wt) if confirm else (None, "")
        rc, out = sh("git apply %s" % patch, cwd=wt)
        if rc != 0:
            verdict["confirmed"] = False
            verdict["why"] = "patch does not apply: " + out[-300:]
        else:
            if confirm:
                rc1, o1 = sh("%s %s" % (PY, demo), cwd=wt)
                rct, ot = sh("%s -m pytest -q -p no:cacheprovider -n 8 2>&1 | tail -4" % PY, cwd=wt)
                tail = ot.strip().splitlines()[-1] if ot.strip() else ""
                verdict.update({"demo_rc_unpatched": rc0, "demo_rc_patched": rc1, "suite": tail,
                                "confirmed": bool(rc0 == 0 and rc1 == 0 and "977 passed" in tail and "2 failed" in tail)})
            env = dict(os.environ, GWCS_REPO=wt)
            checks = {}

            def run(c, tier):
                return c, tier, sh("%s harness/check.py %s --tier %s --no-build" % (PY, c, tier), VERIF, 7200, env)
            jobs = [("C%02d" % i, "quick") for i in range(1, 21) if i != 19] + ([(prop, "thorough")] if prop != "C19" else [])
            with concurrent.futures.ThreadPoolExecutor(max_workers=6) as ex:
                for c, tier, (rcc, oc) in ex.map(lambda j: run(*j), jobs):
                    kind, detail = classify(rcc, oc)
                    if kind != "quiet":
                        checks["%s/%s" % (c, tier)] = {"alarm": kind, "detail": detail}
            verdict["alarms"] = checks
    finally:
        sh("git -C %s worktree remove --force %s" % (REPO, wt))
    # C19: translator + build from the changed source, through /repo; then the model is regenerated from the clean tree
    touched = sh("grep '^+++ ' %s" % patch)[1]
    if verdict.get("confirmed") is not False and ("geometry.py" in touched or "spectroscopy.py" in touched or prop == "C19"):
        rc, out = sh("git apply %s" % patch, cwd=REPO)
        try:
            for tier in ("quick",) + (("thorough",) if prop == "C19" else ()):
                rcc, oc = sh("%s harness/check.py C19 --tier %s --no-evidence" % (PY, tier), cwd=VERIF)
                kind, detail = classify(rcc, oc)
                if kind != "quiet":
                    verdict.setdefault("alarms", {})["C19/%s" % tier] = {"alarm": kind, "detail": detail}
        finally:
            sh("git checkout -- .", cwd=REPO)
            sh("%s harness/check.py C19 --tier quick --no-evidence" % PY, cwd=VERIF)
    print(json.dumps(verdict, indent=1)[:3000])
    k = 1
    while os.path.exists(os.path.join(VERIF, "harmless", "%s-%d" % (prop, k))):
        k += 1
    dst = os.path.join(VERIF, "harmless", "%s-%d" % (prop, k))
    os.makedirs(dst)
    shutil.copy(patch, dst)
    shutil.copy(demo, os.path.join(dst, "demo.py"))
    meta = {}
    try:
        meta = json.load(open(os.path.join(d, "meta.json")))
    except Exception:
        pass
    meta["property"] = prop
    meta["what_was_run"] = verdict
    json.dump(meta, open(os.path.join(dst, "meta.json"), "w"), indent=1)
    rc, out = sh("git status --porcelain", cwd=REPO)
    assert not out.strip(), "repo left dirty: " + out


if __name__ == "__main__":
    main()
