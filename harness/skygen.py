"""Family of 2-D celestial imaging WCSs used by C02/C04/C05/C08/C10/C17:
detector --(shift to CRPIX | optional polynomial distortion)--> focal --(CD matrix | TAN | sky rotation)--> sky."""
import math

import numpy as np
from astropy import coordinates as coord
from astropy import units as u
from astropy.modeling import models

from gwcs import coordinate_frames as cf
from gwcs import wcs as gw


def gen_params(rng, distortion=None, near_pole=False, aligned=False):
    scale = 10 ** rng.uniform(-6, -3)
    if distortion is None:
        distortion = rng.random() < 0.6
    dec = rng.uniform(-75, 75) if not near_pole else rng.choice([-1, 1]) * rng.uniform(80, 88.5)
    p = {
        "crpix": [round(rng.uniform(100, 900), 1), round(rng.uniform(100, 900), 1)],
        "crval": [round(rng.choice([0.0, 359.9, 180.0, rng.uniform(0, 360)]), 6), round(dec, 6)],
        "scale": scale,
        # aligned: pixel axes along the sky axes (the family the fixed-point iteration is designed for)
        "rot": round(rng.choice([0.0, rng.uniform(-2, 2)]), 3) if aligned else round(rng.choice([0.0, rng.uniform(-180, 180)]), 3),
        "parity": rng.choice([1, -1]),
        "proj": "TAN",
        "bbox": [[-0.5, round(rng.uniform(600, 1400)) - 0.5], [-0.5, round(rng.uniform(600, 1400)) - 0.5]],
        "dist": None,
    }
    if distortion:
        order = rng.randint(2, 4)
        amp = rng.choice([0.2, 1.0, 3.0])  # pixels at the edge of the field
        half = 700.0
        cx, cy = {}, {}
        for i in range(order + 1):
            for j in range(order + 1 - i):
                if i + j >= 2:
                    cx["c%d_%d" % (i, j)] = rng.uniform(-1, 1) * amp / half ** (i + j) / order
                    cy["c%d_%d" % (i, j)] = rng.uniform(-1, 1) * amp / half ** (i + j) / order
        p["dist"] = {"order": order, "cx": cx, "cy": cy}
    return p


def step1(p):
    t = models.Shift(-p["crpix"][0]) & models.Shift(-p["crpix"][1])
    if p.get("dist"):
        d = p["dist"]
        px = models.Polynomial2D(d["order"], c1_0=1.0, **d["cx"])
        py = models.Polynomial2D(d["order"], c0_1=1.0, **d["cy"])
        t = t | models.Mapping((0, 1, 0, 1)) | (px & py)
    return t


def step2(p):
    th = math.radians(p["rot"])
    s = p["scale"]
    m = np.array([[-s * p["parity"] * math.cos(th), s * math.sin(th)],
                  [s * p["parity"] * math.sin(th), s * math.cos(th)]])
    proj = getattr(models, "Pix2Sky_" + p.get("proj", "TAN"))()
    return models.AffineTransformation2D(matrix=m, translation=[0, 0]) | proj | \
        models.RotateNative2Celestial(p["crval"][0], p["crval"][1], 180)


def frames():
    det = cf.Frame2D(name="detector", axes_order=(0, 1), unit=(u.pix, u.pix))
    foc = cf.Frame2D(name="focal", axes_order=(0, 1), unit=(u.pix, u.pix))
    sky = cf.CelestialFrame(reference_frame=coord.ICRS(), name="sky", axes_order=(0, 1))
    return det, foc, sky


def build(p, with_bbox=True):
    det, foc, sky = frames()
    t1 = step1(p)
    if with_bbox and p.get("bbox") is not None and p.get("bbox_on_model"):
        # the box set on the astropy model itself, in astropy's own ('C': last axis first) order
        t1.bounding_box = tuple(tuple(b) for b in p["bbox"])[::-1]
        return gw.WCS([(det, t1), (foc, step2(p)), (sky, None)])
    w = gw.WCS([(det, t1), (foc, step2(p)), (sky, None)])
    if with_bbox and p.get("bbox") is not None:
        w.bounding_box = tuple(tuple(b) for b in p["bbox"])
    return w


def pix_points(rng, p, n, margin=0.0):
    (x0, x1), (y0, y1) = p["bbox"]
    return [[rng.uniform(x0 - margin, x1 + margin), rng.uniform(y0 - margin, y1 + margin)] for _ in range(n)]
