#!/usr/bin/env python3
"""seedregress.py [-j N] [ids...]: re-run, for every kept seeded change, the check that reported it, and say whether it still does.
Each worker owns a scratch worktree of /repo (GWCS_REPO points the harness at it); /repo itself is not touched, except for
C19 whose model is regenerated from the source and which therefore runs serially, with the build, on /repo."""
import concurrent.futures
import glob
import json
import os
import queue
import subprocess
import sys

VERIF = os.path.dirname(os.path.dirname(os.path.abspath(__file__)))
PY = "/venv/bin/python"


def sh(cmd, cwd=None, env=None):
    p = subprocess.run(cmd, shell=True, cwd=cwd, capture_output=True, text=True, env=env)
    return p.returncode, p.stdout + p.stderr


def target(meta):
    ch = meta["what_was_run"]["checks"]
    hits = [k for k, v in ch.items() if v.get("rc") == 1 and v.get("violation")]
    hits.sort(key=lambda k: (k.endswith("thorough"), ch[k].get("cross", False)))
    return hits[0] if hits else None


def run_one(sid, wt):
    d = os.path.join(VERIF, "seeded", sid)
    meta = json.load(open(os.path.join(d, "meta.json")))
    if meta.get("superseded"):
        return sid, True, "superseded: no longer breaks the property (" + meta["superseded"][:60] + "...)"
    tg = target(meta)
    if tg is None:
        return sid, None, "no recorded detecting check"
    prop, tier = tg.split("/")
    serial = prop == "C19"
    repo = "/repo" if serial else wt
    rc, out = sh("git apply %s" % os.path.join(d, "patch.diff"), cwd=repo)
    if rc != 0:
        return sid, False, "patch does not apply: " + out[-200:]
    try:
        env = dict(os.environ, GWCS_REPO=repo)
        rc, out = sh("%s harness/check.py %s --tier %s %s" % (PY, prop, tier, "--no-evidence" if serial else "--no-build"), cwd=VERIF, env=env)
    finally:
        sh("git checkout -- .", cwd=repo)
    viol = [l for l in out.splitlines() if l.startswith("VIOLATION")]
    return sid, bool(rc == 1 and viol), "%s: rc=%d %s" % (tg, rc, (viol or out.strip().splitlines()[-1:])[0][:160])


def main():
    args = sys.argv[1:]
    nj = 6
    if args and args[0] == "-j":
        nj = int(args[1])
        args = args[2:]
    ids = args or sorted((os.path.basename(os.path.dirname(p)) for p in glob.glob(os.path.join(VERIF, "seeded", "*", "meta.json"))),
                         key=lambda s: (s.split("-")[0], int(s.split("-")[1])))
    par = [i for i in ids if target(json.load(open(os.path.join(VERIF, "seeded", i, "meta.json")))) not in (None,) and
           not target(json.load(open(os.path.join(VERIF, "seeded", i, "meta.json")))).startswith("C19")]
    ser = [i for i in ids if i not in par]
    wts = queue.Queue()
    for k in range(nj):
        wt = "/tmp/seedreg-%d" % k
        sh("git -C /repo worktree remove --force %s" % wt)
        sh("git -C /repo worktree add -q %s HEAD" % wt)
        wts.put(wt)
    results = {}

    def job(sid):
        wt = wts.get()
        try:
            return run_one(sid, wt)
        finally:
            wts.put(wt)
    try:
        with concurrent.futures.ThreadPoolExecutor(max_workers=nj) as ex:
            for sid, ok, what in ex.map(job, par):
                results[sid] = {"still_reported": ok, "what": what}
                print(sid, ok, what, flush=True)
    finally:
        while not wts.empty():
            sh("git -C /repo worktree remove --force %s" % wts.get())
    for sid in ser:
        sid, ok, what = run_one(sid, None)
        results[sid] = {"still_reported": ok, "what": what}
        print(sid, ok, what, flush=True)
    if any("C19" in r["what"] for r in results.values()):
        sh("%s harness/check.py C19 --no-evidence" % PY, cwd=VERIF)     # regenerate + rebuild the model from the clean tree
    out_path = os.path.join(VERIF, "seeded", "REGRESSION.json")
    if args and os.path.exists(out_path):
        # a partial run (ids given) refreshes those entries of the last full run
        try:
            prev = json.load(open(out_path))["results"]
            prev.update(results)
            results = prev
        except Exception:
            pass
    bad = [s for s, r in results.items() if not r["still_reported"]]
    json.dump({"head": sh("git -C /repo rev-parse --short HEAD")[1].strip(), "n": len(results), "not_reported": bad, "results": results},
              open(os.path.join(VERIF, "seeded", "REGRESSION.json"), "w"), indent=1)
    print("%d seeded changes, %d not reported: %s" % (len(results), len(bad), bad))
    sys.exit(1 if bad else 0)


if __name__ == "__main__":
    main()
