#!/usr/bin/env python3
"""Merge repeated runs of the same seeded change (same patch.diff): keep the first directory name, the latest verdict,
and a history of earlier verdicts (so that 'missed at first, reported after strengthening' stays visible)."""
import glob, hashlib, json, os, shutil, sys, re
V = os.path.dirname(os.path.dirname(os.path.abspath(__file__)))
groups = {}
for d in sorted(glob.glob(os.path.join(V, "seeded", "*-*")), key=lambda x: (x.rsplit("-", 1)[0], int(x.rsplit("-", 1)[1]))):
    prop = os.path.basename(d).rsplit("-", 1)[0]
    h = hashlib.sha1(open(os.path.join(d, "patch.diff"), "rb").read()).hexdigest()
    groups.setdefault((prop, h), []).append(d)
for (prop, h), ds in groups.items():
    if len(ds) < 2:
        continue
    first, last = ds[0], ds[-1]
    hist = []
    for d in ds[:-1]:
        m = json.load(open(os.path.join(d, "meta.json")))
        hist += m.get("history", [])
        w = m.get("what_was_run", {})
        hist.append({"detected": w.get("detected"), "checks": {k: v.get("rc") for k, v in w.get("checks", {}).items()}})
    m = json.load(open(os.path.join(last, "meta.json")))
    m["history"] = hist
    json.dump(m, open(os.path.join(last, "meta.json"), "w"), indent=1)
    for d in ds[:-1]:
        shutil.rmtree(d)
    os.rename(last, first)
    print("merged", [os.path.basename(x) for x in ds], "->", os.path.basename(first))
