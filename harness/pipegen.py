"""Shared generators for pipeline-shaped properties: TExpr terms (JSON lists mirrored by
GwcsModel/TExpr.lean) <-> astropy models, random exact (dyadic) transforms, frames."""
from fractions import Fraction

import numpy as np
from astropy.modeling import models
from astropy.modeling.core import fix_inputs

import common as C
from gwcs import coordinate_frames as cf

SCALES = [Fraction(1), Fraction(2), Fraction(4), Fraction(1, 2), Fraction(1, 4), Fraction(-1), Fraction(-2), Fraction(-1, 2), Fraction(8)]


def fr(v):
    return C.w2q(v)


def build(t):
    """TExpr (JSON list) -> astropy model (fresh objects every call)."""
    tag = t[0]
    if tag == "shift":
        return models.Shift(float(fr(t[1])))
    if tag == "scale":
        return models.Scale(float(fr(t[1])))
    if tag == "identity":
        return models.Identity(t[1])
    if tag == "mapping":
        return models.Mapping(tuple(t[2]), n_inputs=t[1])
    if tag == "poly1":
        return models.Polynomial1D(1, c0=float(fr(t[1])), c1=float(fr(t[2])))
    if tag == "poly2":
        return models.Polynomial2D(1, c0_0=float(fr(t[1])), c1_0=float(fr(t[2])), c0_1=float(fr(t[3])))
    if tag == "comp":
        return build(t[1]) | build(t[2])
    if tag == "stack":
        return build(t[1]) & build(t[2])
    if tag == "withinv":
        m = build(t[1])
        m.inverse = build(t[2])
        return m
    if tag == "fixin":
        return fix_inputs(build(t[1]), {int(k): float(fr(v)) for k, v in t[2]})
    raise ValueError(tag)


def nin(t):
    tag = t[0]
    if tag in ("shift", "scale", "poly1"):
        return 1
    if tag == "identity":
        return t[1]
    if tag == "mapping":
        return t[1]
    if tag == "poly2":
        return 2
    if tag == "comp":
        return nin(t[1])
    if tag == "stack":
        return nin(t[1]) + nin(t[2])
    if tag == "withinv":
        return nin(t[1])
    if tag == "fixin":
        return nin(t[1]) - len(t[2])


def nout(t):
    tag = t[0]
    if tag in ("shift", "scale", "poly1", "poly2"):
        return 1
    if tag == "identity":
        return t[1]
    if tag == "mapping":
        return len(t[2])
    if tag == "comp":
        return nout(t[2])
    if tag == "stack":
        return nout(t[1]) + nout(t[2])
    if tag in ("withinv", "fixin"):
        return nout(t[1])


def dyadic(rng, lo=-8, hi=8, den=4):
    return Fraction(rng.randint(lo * den, hi * den), den)


def leaf1(rng, invertible):
    k = rng.random()
    if k < 0.4:
        return ["shift", C.q2w(dyadic(rng))]
    if k < 0.75 or invertible:
        return ["scale", C.q2w(rng.choice(SCALES))]
    return ["poly1", C.q2w(dyadic(rng)), C.q2w(rng.choice(SCALES))]


def stack_all(ts):
    out = ts[0]
    for t in ts[1:]:
        out = ["stack", out, t]
    return out


def gen_same(rng, n, invertible=False):
    """n -> n transform"""
    parts = []
    i = 0
    while i < n:
        if n - i >= 2 and rng.random() < 0.15:
            k = rng.randint(2, n - i)
            parts.append(["identity", k])
            i += k
        else:
            parts.append(leaf1(rng, invertible))
            i += 1
    t = stack_all(parts)
    if n > 1 and rng.random() < 0.4:
        perm = list(range(n))
        rng.shuffle(perm)
        m = ["mapping", n, perm]
        t = ["comp", t, m] if rng.random() < 0.5 else ["comp", m, t]
    if rng.random() < 0.2:
        t = ["comp", t, gen_same(rng, n, invertible)]
    return t


def gen_tr(rng, n_in, n_out, invertible=False):
    if n_in == n_out:
        return gen_same(rng, n_in, invertible)
    if n_in == 2 and n_out == 1 and not invertible and rng.random() < 0.5:
        return ["poly2", C.q2w(dyadic(rng)), C.q2w(rng.choice(SCALES)), C.q2w(rng.choice(SCALES))]
    idx = [rng.randrange(n_in) for _ in range(n_out)]
    m = ["mapping", n_in, idx]
    if rng.random() < 0.6:
        return ["comp", gen_same(rng, n_in), m] if rng.random() < 0.5 else ["comp", m, gen_same(rng, n_out)]
    return m


def gen_pipeline(rng, nsteps, invertible=False, same_arity=None, max_dim=4):
    """Return (frames, trs): nsteps+1 frames; trs has None for the last."""
    if same_arity is None:
        same_arity = rng.random() < 0.5
    dims = [rng.randint(1, max_dim)]
    for _ in range(nsteps):
        dims.append(dims[-1] if (same_arity or invertible or rng.random() < 0.6) else rng.randint(1, max_dim))
    trs = []
    for i in range(nsteps):
        t = gen_tr(rng, dims[i], dims[i + 1], invertible)
        if not invertible and dims[i] == dims[i + 1] and rng.random() < 0.12:
            t = ["withinv", t, gen_same(rng, dims[i])]
        trs.append(t)
    trs.append(None)
    # some names are substrings of others: look-ups must compare whole names
    names = ["detector", "focal", "sky", "v2v3", "world", "inter", "slit", "det", "focal_undistorted", "sky_rot"]
    rng.shuffle(names)
    frames = [{"name": names[i], "obj": (i if rng.random() < 0.6 else None), "naxes": dims[i]} for i in range(nsteps + 1)]
    return frames, trs, dims


_FRAME_CACHE = {}


def frame_obj(name, naxes, order=None, unit=None):
    """gwcs frame object for a generated frame (fresh each call)"""
    from astropy import units as _u
    return cf.CoordinateFrame(naxes=naxes, axes_type=("SPATIAL",) * naxes, axes_order=tuple(order) if order else tuple(range(naxes)), name=name,
                              unit=None if unit is None else (_u.Unit(unit),) * naxes)


def paramless(t):
    """a transform without any parameter (astropy then reports uses_quantity = True)"""
    if t is None:
        return True
    if t[0] in ("identity", "mapping"):
        return True
    if t[0] in ("comp", "stack"):
        return paramless(t[1]) and paramless(t[2])
    if t[0] == "withinv":
        return paramless(t[1])          # (the forward direction; the user-supplied inverse is another model)
    return False


def paramless_inverse(t):
    """the same for the backward direction of a step"""
    if t is None:
        return True
    if t[0] == "withinv":
        return paramless(t[2])
    if t[0] in ("comp", "stack"):
        return paramless_inverse(t[1]) and paramless_inverse(t[2])
    return paramless(t)


def point(rng, n):
    return [C.q2w(dyadic(rng, -6, 6, 2)) for _ in range(n)]


def to_float_pt(p):
    return [float(fr(v)) for v in p]


def canon_vals(res, n_out):
    """astropy model output (scalar for 1 output, tuple otherwise) for a single point -> list of wire rationals"""
    if n_out == 1 and not isinstance(res, tuple):
        res = (res,)
    out = []
    for v in res:
        v = np.asarray(v)
        if v.shape != ():
            raise ValueError("expected scalar outputs, got shape %s" % (v.shape,))
        f = float(v)
        out.append("nan" if f != f else ("inf" if f == float("inf") else ("-inf" if f == float("-inf") else C.q2w(Fraction(f)))))
    return out
