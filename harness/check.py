#!/venv/bin/python
"""check.py Cnn [--tier quick|thorough] [--replay file]

Skeleton shared by all twenty checks (DESIGN.md §1.2):
  0 regenerate translator output (if the property uses it)
  1 lake build the proofs of the property; audit axioms; scan sources
  2 correspondence: corpus first, then generated cases: implementation vs Lean driver
  3 property oracle on the implementation over the same stream (= the failing-input search
    whenever step 1 or 2 broke, and the exercise of clauses that are named-not-proved)
  4 known findings
  5 evidence
exit 0 iff no VIOLATION line; exit 2 on infrastructure failure.
"""
import argparse
import collections
import importlib
import json
import multiprocessing
import os
import random
import sys
import time
import traceback

sys.path.insert(0, os.path.dirname(os.path.abspath(__file__)))
import common as C  # noqa: E402

os.environ.setdefault("OMP_NUM_THREADS", "1")
os.environ.setdefault("OPENBLAS_NUM_THREADS", "1")
os.environ.setdefault("MKL_NUM_THREADS", "1")

_MOD = None


def _work(case):
    """Run the implementation, the oracle and build the model request for one case."""
    try:
        res = _MOD.impl(case)
    except Exception as e:  # harness bug or unexpected implementation crash: surfaced, never swallowed
        frames = traceback.extract_tb(e.__traceback__)
        in_pkg = [f for f in frames if (os.sep + "gwcs" + os.sep) in f.filename and not f.filename.startswith(C.VERIF)]
        if in_pkg:
            # the exception passed through the package under test on a generated input that the harness expects to work:
            # that is a failing input (the case is the replay), not an infrastructure failure
            f = in_pkg[-1]
            what = "unexpected %s from %s:%d (%s): %s" % (type(e).__name__, os.path.basename(f.filename), f.lineno, f.name, str(e)[:200])
            return {"case": case, "result": {"crashed": what}, "oracle": [("crash", what)], "request": None, "nontrivial": False, "stats": {"impl_crash": 1}}
        # raised in harness code while handling what the implementation returned: on the unchanged tree this never happens (any such
        # crash would have been fixed as a harness bug), so the implementation answered in a way the harness cannot even process -
        # the case is reported as a failing input, with the harness frame named so that a harness bug is recognisable
        f = frames[-1] if frames else None
        what = "the implementation's answer could not be processed: %s at %s:%s: %s" % (
            type(e).__name__, os.path.basename(f.filename) if f else "?", f.lineno if f else "?", str(e)[:200])
        return {"case": case, "result": {"crashed": what}, "oracle": [("crash", what)], "request": None, "nontrivial": False, "stats": {"harness_side_crash": 1}}
    out = {"case": case, "result": res}
    try:
        out["oracle"] = list(_MOD.oracle(case, res))
    except Exception as e:
        out["crash"] = "oracle %s: %s\n%s" % (type(e).__name__, e, traceback.format_exc()[-1500:])
        return out
    try:
        out["request"] = _MOD.request(case, res)
    except Exception as e:
        out["crash"] = "request %s: %s\n%s" % (type(e).__name__, e, traceback.format_exc()[-1500:])
        return out
    try:
        out["nontrivial"] = bool(_MOD.nontrivial(case, res))
        st = collections.Counter()
        if hasattr(_MOD, "stats"):
            _MOD.stats(case, res, st)
        out["stats"] = dict(st)
    except Exception as e:
        # statistics are informational: a case the implementation answers in an unexpected way must still reach the verdict
        out.setdefault("nontrivial", False)
        out["stats"] = {"stats_error_%s" % type(e).__name__: 1}
    return out


def main():
    global _MOD
    import warnings
    warnings.simplefilter("ignore")   # harness-side only; C17 manages the filters it observes itself
    ap = argparse.ArgumentParser()
    ap.add_argument("prop")
    ap.add_argument("--tier", default=os.environ.get("VERIF_TIER", "quick"), choices=["quick", "thorough"])
    ap.add_argument("--replay")
    ap.add_argument("--jobs", type=int, default=int(os.environ.get("VERIF_JOBS", "0")))
    ap.add_argument("--no-build", action="store_true")
    ap.add_argument("--no-evidence", action="store_true", help="complete run (build included) that leaves evidence/ untouched: for seeded trees")
    a = ap.parse_args()
    prop = a.prop.upper()
    seed = int(os.environ.get("VERIF_SEED", "0") or 0)
    t0 = time.time()
    try:
        rc = run(prop, a.tier, seed, a.replay, a.jobs, a.no_build, t0, a.no_evidence)
    except C.Infra as e:
        print("INFRA-FAILURE property=%s %s" % (prop, e))
        sys.exit(2)
    except Exception:
        # a bug in the machinery itself is never a verdict about the code
        import traceback
        traceback.print_exc()
        print("INFRA-FAILURE property=%s unexpected exception in the harness" % prop)
        sys.exit(2)
    sys.exit(rc)


def run(prop, tier, seed, replay, jobs, no_build, t0, no_evidence=False):
    global _MOD
    sys.path.insert(0, C.REPO)  # the working tree of /repo is what runs
    mod = importlib.import_module("props." + prop.lower())
    _MOD = mod
    notes = []
    broken = []   # broken proof obligations / ties: (kind, detail)

    # ---- 0 translator
    if hasattr(mod, "prepare"):
        ok, msg = mod.prepare(tier)
        if not ok:
            broken.append(("translator", msg))
        notes.append("translator: " + msg[:300])

    # ---- 1 build + audit
    theorems = list(getattr(mod, "THEOREMS", []))
    audit = {}
    driver_ok = True
    if not no_build:
        ok, out = C.lean_build(["GwcsModel", "driver"])
        if not ok:
            driver_ok = False
            broken.append(("model-build", out[-1500:]))
        ok, out = C.lean_build([mod.LEAN_MODULE])
        if not ok:
            broken.append(("proof-build", "lake build %s failed:\n%s" % (mod.LEAN_MODULE, out[-2500:])))
        else:
            audit, aout = C.axiom_audit(prop, mod.LEAN_MODULE, theorems)
            for t, ax in audit.items():
                if ax is None:
                    broken.append(("theorem-missing", t))
                elif not set(ax) <= C.ALLOWED_AXIOMS:
                    broken.append(("axioms", "%s depends on %s" % (t, ax)))
        hits = C.source_scan([os.path.join(C.LEAN, f) for f in getattr(mod, "SOURCES", [])])
        for h in hits:
            broken.append(("forbidden-construct", h))
        if tier == "thorough" and not any(k == "proof-build" for k, _ in broken):
            import subprocess
            lk = C._lock()
            try:
                p = subprocess.run(["lake", "env", "leanchecker", mod.LEAN_MODULE], cwd=C.LEAN, capture_output=True, text=True, timeout=3000)
            finally:
                lk.close()
            notes.append("leanchecker rc=%d %s" % (p.returncode, (p.stdout + p.stderr)[-200:]))
            if p.returncode != 0:
                broken.append(("leanchecker", (p.stdout + p.stderr)[-1500:]))
    discharged = sum(1 for t in theorems if audit.get(t) is not None and set(audit[t]) <= C.ALLOWED_AXIOMS)

    # ---- 2/3 cases
    rng = random.Random(seed * 7919 + 17)
    if replay:
        data = json.load(open(replay))
        cases = [c["case"] if isinstance(c, dict) and "case" in c else c for c in data.get("cases", [])]
    else:
        cases = list(C.load_corpus(prop)) + list(mod.gen(rng, tier))
    njobs = jobs or (min(16, os.cpu_count() or 1) if tier == "thorough" or len(cases) > 400 else 1)
    if hasattr(mod, "SERIAL") and mod.SERIAL:
        njobs = 1
    if njobs > 1:
        with multiprocessing.get_context("fork").Pool(njobs) as pool:
            outs = pool.map(_work, cases, chunksize=max(1, len(cases) // (njobs * 8)))
    else:
        outs = [_work(c) for c in cases]

    crashes = [o for o in outs if "crash" in o]
    if crashes:
        for o in crashes[:3]:
            print("HARNESS-CRASH", json.dumps(o["case"], default=str)[:400], o["crash"], file=sys.stderr)
        raise C.Infra("%d harness crashes (first shown on stderr)" % len(crashes))

    # model side
    disagreements = []
    reqs, idx = [], []
    for i, o in enumerate(outs):
        r = o.get("request")
        if r is not None:
            r = dict(r)
            r.setdefault("prop", prop)
            reqs.append(r)
            idx.append(i)
    if driver_ok and reqs:
        # a request {"multi": [..]} stands for several driver requests; their responses come back as {"ok": [{"tag", "resp"}..]}
        flat, spans = [], []
        for r in reqs:
            if "multi" in r:
                sub = [dict(x, prop=r["prop"]) for x in r["multi"]]
                spans.append((len(flat), len(sub), [x.get("tag") for x in sub]))
                flat.extend(sub)
            else:
                spans.append((len(flat), None, None))
                flat.append(r)
        fresps = C.driver_run(flat)
        resps = []
        for start, cnt, tags in spans:
            if cnt is None:
                resps.append(fresps[start])
            else:
                part = fresps[start:start + cnt]
                bad = [x for x in part if "bad" in x]
                resps.append(bad[0] if bad else {"ok": [{"tag": t, "resp": x} for t, x in zip(tags, part)]})
        for i, resp in zip(idx, resps):
            o = outs[i]
            if "bad" in resp:
                raise C.Infra("driver rejected request: %s for %s" % (resp, json.dumps(reqs[idx.index(i)])[:500]))
            d = mod.compare(o["case"], o["result"], resp)
            if d:
                disagreements.append({"case": o["case"], "impl": o["result"], "model": resp, "what": d})
    elif reqs and not driver_ok:
        notes.append("driver unavailable: correspondence skipped, oracle search only")

    # oracle failures
    known = C.load_known(prop)
    open_ids = {e["id"] for e in known if e.get("status") == "open"}
    failures, suppressed = [], collections.Counter()
    for o in outs:
        for key, what in o.get("oracle", []):
            if key in open_ids:
                suppressed[key] += 1
            else:
                failures.append({"case": o["case"], "impl": o["result"], "key": key, "what": what})

    # ---- 4 known findings: replay each listed witness on the implementation
    for e in known:
        if e.get("status") != "open":
            continue
        w = _work(e["witness"])
        still = any(k == e["id"] for k, _ in w.get("oracle", []))
        if still or suppressed[e["id"]]:
            print("KNOWN-FINDING: property=%s %s: %s" % (prop, e["id"], e["what_fails"]))
        else:
            notes.append("known finding %s no longer reproduces on its witness" % e["id"])

    # ---- verdict
    rc = 0
    os.makedirs(C.REPLAYS, exist_ok=True)
    rp = os.path.join(C.REPLAYS, "%s-%s-%d.json" % (prop, tier, seed))
    rel = os.path.relpath(rp, C.VERIF)
    if failures:
        failures.sort(key=lambda f: len(json.dumps(f["case"], default=str)))
        C.write_json(rp, {"property": prop, "kind": "failing-input", "what": failures[0]["what"], "key": failures[0]["key"],
                          "cases": failures[:20], "broken": broken, "disagreements": disagreements[:5]})
        print("VIOLATION property=%s replay=%s" % (prop, rel))
        print("  failing input: %s" % failures[0]["what"][:500])
        rc = 1
    elif broken or disagreements:
        C.write_json(rp, {"property": prop, "kind": "no-failing-input-found",
                          "no_longer_checks": [{"kind": k, "detail": d} for k, d in broken] +
                          [{"kind": "correspondence", "detail": d["what"]} for d in disagreements[:10]],
                          "cases": disagreements[:20],
                          "searched": "property oracle evaluated on the implementation for all %d generated cases; none failed" % len(outs)})
        print("VIOLATION property=%s replay=%s no-failing-input-found" % (prop, rel))
        for k, d in broken[:5]:
            print("  broken %s: %s" % (k, d[:600]))
        for d in disagreements[:3]:
            print("  correspondence: %s" % d["what"][:600])
        rc = 1

    # ---- 5 evidence
    dist = collections.Counter()
    nontriv = set()
    for o in outs:
        for k, v in o.get("stats", {}).items():
            dist[k] += v
        if o.get("nontrivial"):
            nontriv.add(C.case_hash(o["case"]))
    samples = [{"case": o["case"], "impl": o["result"]} for o in outs[:: max(1, len(outs) // 4)][:4]]
    samples = json.loads(json.dumps(samples, default=str)[:200000]) if len(json.dumps(samples, default=str)) < 200000 else [json.dumps(samples[0], default=str)[:4000]]
    ev = {
        "property_id": prop, "tier": tier, "seed": seed, "level": "proof",
        "coverage": {
            "obligations": len(theorems), "discharged": discharged,
            "checker_cmd": "cd lean && lake build %s && lake env lean <#print axioms of each registered theorem>" % mod.LEAN_MODULE
                           + ("; lake env leanchecker %s" % mod.LEAN_MODULE if tier == "thorough" else ""),
            "trusted_base": ["Lean 4.33.0 kernel", "axioms: " + ", ".join(sorted({a for v in audit.values() if v for a in v})) or "none"] + list(getattr(mod, "TRUSTED", [])),
            "theorems": {t: audit.get(t) for t in theorems},
            "evaluations": len(outs), "distinct_nontrivial": len(nontriv),
            "rule": getattr(mod, "RULE", ""),
            "programs": len(reqs), "disagreements_checked": len(disagreements),
            "oracle_failures": len(failures), "known_finding_hits": dict(suppressed),
            "input_distribution": dict(dist),
            "samples": samples,
            "broken": [k for k, _ in broken], "notes": notes,
        },
        "assumptions": list(getattr(mod, "ASSUMPTIONS", [])),
        "wall_s": round(time.time() - t0, 2),
        "violations": 1 if rc else 0,
    }
    if not replay and not no_build and not no_evidence:   # evidence only from complete runs (build + audit included)
        C.write_json(os.path.join(C.EVIDENCE, prop + ".json"), ev)
    print("%s %s seed=%d: theorems %d/%d, cases %d (nontrivial %d), model requests %d, disagreements %d, oracle failures %d, %.1fs"
          % (prop, tier, seed, discharged, len(theorems), len(outs), len(nontriv), len(reqs), len(disagreements), len(failures), time.time() - t0))
    if replay:
        for o in outs[:10]:
            print(json.dumps({"case": o["case"], "impl": o["result"], "oracle": o.get("oracle")}, default=str)[:3000])
    return rc


if __name__ == "__main__":
    main()
