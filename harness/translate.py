#!/usr/bin/env python3
"""translate.py — regenerate lean/GwcsModel/Generated/Analytic.lean from /repo/gwcs/{geometry,spectroscopy}.py.

Whitelist-driven, fails closed: any construct outside the supported straight-line subset stops the
translation with "untranslatable construct at file:line" (a *broken tie*, handled by the check's
failing-input search).  Each generated definition is the per-element function of the `evaluate`
body, generic over the scalar class `Gwcs.ANum` (instances: Float for execution, ℝ in proofs).

Supported: assignments (names / tuple unpacking), augmented assignments (rebinding), + - * / and
`** <int literal>`, unary minus, the listed np.* calls, `np.broadcast_arrays` (identity per element), `PARAM[0]` for declared parameter triples,
calls to other whitelisted evaluates, `for` over a literal tuple with a straight-line body (unrolled), calls to module-level one-expression helpers (inlined), `return` of an expression or tuple.  `if isinstance(.., Quantity)`
takes the plain-number (else) branch; an `if` whose body only raises is skipped.  Both are listed in
the report so nothing is dropped silently.
"""
import ast
import os
import sys

REPO = os.environ.get("GWCS_REPO", "/repo")
OUT = os.path.join(os.path.dirname(os.path.dirname(os.path.abspath(__file__))), "lean", "GwcsModel", "Generated", "Analytic.lean")

# (file, class, lean name, {arg: kind})  kind: data | scalar (parameter) | triple (parameter row of 3)
WHITELIST = [
    ("geometry.py", "ToDirectionCosines", "toDirectionCosines", {"x": "data", "y": "data", "z": "data"}),
    ("geometry.py", "FromDirectionCosines", "fromDirectionCosines", {"cosa": "data", "cosb": "data", "cosc": "data", "length": "data"}),
    ("geometry.py", "SphericalToCartesian", "sphericalToCartesian", {"lon": "data", "lat": "data"}),
    ("spectroscopy.py", "WavelengthFromGratingEquation", "wavelengthFromGrating",
     {"alpha_in": "data", "alpha_out": "data", "groove_density": "scalar", "spectral_order": "scalar"}),
    ("spectroscopy.py", "AnglesFromGratingEquation3D", "anglesFromGrating3D",
     {"wavelength": "data", "alpha_in": "data", "beta_in": "data", "groove_density": "scalar", "spectral_order": "scalar"}),
    ("spectroscopy.py", "Snell3D", "snell3D", {"n": "data", "alpha_in": "data", "beta_in": "data", "gamma_in": "data"}),
    ("spectroscopy.py", "SellmeierGlass", "sellmeierGlass", {"wavelength": "data", "B_coef": "triple", "C_coef": "triple"}),
    ("spectroscopy.py", "SellmeierZemax", "sellmeierZemax",
     {"wavelength": "data", "temp": "scalar", "ref_temp": "scalar", "ref_pressure": "scalar", "pressure": "scalar",
      "B_coef": "triple", "C_coef": "triple", "D_coef": "triple", "E_coef": "triple"}),
]
NPFUN = {"sqrt": "ANum.sqrt", "sin": "ANum.sin", "cos": "ANum.cos", "deg2rad": "ANum.deg2rad", "rad2deg": "ANum.rad2deg"}
CALLS = {"SellmeierGlass": "sellmeierGlass"}
RESERVED = {"lam": "lam_", "at": "at_", "from": "from_", "end": "end_", "fun": "fun_", "open": "open_", "in": "in_"}


class Untranslatable(Exception):
    pass


def nm(s):
    return RESERVED.get(s, s)


class Tr:
    def __init__(self, fname, kinds, notes, helpers=None):
        self.fname, self.kinds, self.notes = fname, kinds, notes
        self.helpers = helpers or {}
        self.subst = {}

    def bad(self, node, why):
        raise Untranslatable("untranslatable construct at %s:%d: %s" % (self.fname, getattr(node, "lineno", 0), why))

    def expr(self, e):
        if isinstance(e, ast.Name):
            if e.id in self.subst:
                return self.subst[e.id]
            return nm(e.id)
        if isinstance(e, ast.Constant) and isinstance(e.value, (int, float)) and not isinstance(e.value, bool):
            v = e.value
            if isinstance(v, int):
                return "(%d.0 : α)" % v if v >= 0 else "(-(%d.0 : α))" % (-v)
            r = repr(float(v))
            if "e" not in r and "." not in r:
                r += ".0"
            if r.startswith("-"):
                return "(-(%s : α))" % r[1:]
            return "(%s : α)" % r
        if isinstance(e, ast.UnaryOp) and isinstance(e.op, ast.USub):
            return "(-%s)" % self.expr(e.operand)
        if isinstance(e, ast.BinOp):
            if isinstance(e.op, ast.Pow):
                if isinstance(e.right, ast.Constant) and isinstance(e.right.value, int) and 0 <= e.right.value <= 6:
                    return "(ANum.pow %s %d)" % (self.expr(e.left), e.right.value)
                self.bad(e, "power with non-literal exponent")
            ops = {ast.Add: "+", ast.Sub: "-", ast.Mult: "*", ast.Div: "/"}
            for k, v in ops.items():
                if isinstance(e.op, k):
                    return "(%s %s %s)" % (self.expr(e.left), v, self.expr(e.right))
            self.bad(e, "operator %s" % type(e.op).__name__)
        if isinstance(e, ast.Call):
            f = e.func
            if isinstance(f, ast.Attribute) and isinstance(f.value, ast.Name) and f.value.id == "np" and f.attr in NPFUN and len(e.args) == 1 and not e.keywords:
                return "(%s %s)" % (NPFUN[f.attr], self.expr(e.args[0]))
            if (isinstance(f, ast.Attribute) and isinstance(f.value, ast.Name) and f.value.id == "np" and f.attr == "broadcast_arrays"
                    and all(k.arg == "subok" for k in e.keywords)):
                # shapes only: per element it hands its arguments back
                self.notes.append("%s:%d np.broadcast_arrays is the identity per element" % (self.fname, e.lineno))
                return "(%s)" % ", ".join(self.expr(a) for a in e.args)
            if isinstance(f, ast.Attribute) and f.attr == "evaluate" and isinstance(f.value, ast.Name) and f.value.id in CALLS and not e.keywords:
                return "(%s %s)" % (CALLS[f.value.id], " ".join(self.expr(a) for a in e.args))
            if isinstance(f, ast.Name) and f.id in self.helpers and not e.keywords:
                # a module-level helper `def h(a, b): return <expr>`: inlined with its arguments substituted
                hd = self.helpers[f.id]
                if len(hd.args.args) == len(e.args):
                    sub = Tr(self.fname, self.kinds, self.notes, self.helpers)
                    sub.subst = {a.arg: self.expr(x) for a, x in zip(hd.args.args, e.args)}
                    self.notes.append("%s:%d helper %s() inlined" % (self.fname, e.lineno, f.id))
                    return sub.expr(hd.body[-1].value)
            self.bad(e, "call %s" % ast.unparse(f))
        if isinstance(e, ast.Subscript):
            if isinstance(e.value, ast.Name) and self.kinds.get(e.value.id) == "triple" and isinstance(e.slice, ast.Constant) and e.slice.value == 0:
                return nm(e.value.id)
            self.bad(e, "subscript of %s (only PARAM[0] of a declared parameter triple is elementwise)" % ast.unparse(e.value))
        if isinstance(e, ast.Tuple):
            return "(%s)" % ", ".join(self.expr(x) for x in e.elts)
        self.bad(e, type(e).__name__)

    def target(self, t):
        if isinstance(t, ast.Name):
            return nm(t.id)
        if isinstance(t, ast.Tuple) and all(isinstance(x, ast.Name) for x in t.elts):
            return "(%s)" % ", ".join(nm(x.id) for x in t.elts)
        self.bad(t, "assignment target")

    def block(self, stmts, lines):
        for s in stmts:
            if isinstance(s, ast.Expr) and isinstance(s.value, ast.Constant) and isinstance(s.value.value, str):
                continue
            if isinstance(s, ast.Assign) and len(s.targets) == 1:
                lines.append("  let %s := %s" % (self.target(s.targets[0]), self.expr(s.value)))
            elif isinstance(s, ast.AugAssign) and isinstance(s.target, ast.Name):
                op = {ast.Add: "+", ast.Sub: "-", ast.Mult: "*", ast.Div: "/"}.get(type(s.op))
                if op is None:
                    self.bad(s, "augmented operator")
                lines.append("  let %s := (%s %s %s)" % (nm(s.target.id), nm(s.target.id), op, self.expr(s.value)))
            elif isinstance(s, ast.If):
                src = ast.unparse(s.test)
                if all(isinstance(b, ast.Raise) for b in s.body) and not s.orelse:
                    self.notes.append("%s:%d guard skipped: if %s: raise" % (self.fname, s.lineno, src))
                elif "isinstance" in src and "Quantity" in src:
                    self.notes.append("%s:%d quantity branch dropped (plain-number path kept): if %s" % (self.fname, s.lineno, src))
                    self.block(s.orelse, lines)
                else:
                    self.bad(s, "conditional: if %s" % src)
            elif (isinstance(s, ast.For) and isinstance(s.iter, ast.Tuple) and not s.orelse and len(s.iter.elts) <= 8
                  and all(isinstance(b, (ast.Assign, ast.AugAssign)) for b in s.body)):
                # a loop over a literal tuple: unrolled (each round binds the loop variables, then runs the straight-line body)
                self.notes.append("%s:%d for-loop over a literal tuple of %d items unrolled" % (self.fname, s.lineno, len(s.iter.elts)))
                for elt in s.iter.elts:
                    lines.append("  let %s := %s" % (self.target(s.target), self.expr(elt)))
                    self.block(s.body, lines)
            elif isinstance(s, ast.Return):
                lines.append("  %s" % self.expr(s.value))
                return True
            else:
                self.bad(s, type(s).__name__)
        return False


def translate():
    notes, defs = [], []
    for fname, cls, lname, kinds in WHITELIST:
        path = os.path.join(REPO, "gwcs", fname)
        tree = ast.parse(open(path).read())
        fn = None
        for node in tree.body:
            if isinstance(node, ast.ClassDef) and node.name == cls:
                for b in node.body:
                    if isinstance(b, ast.FunctionDef) and b.name == "evaluate":
                        fn = b
        if fn is None:
            raise Untranslatable("%s: class %s has no evaluate" % (fname, cls))
        args = [a.arg for a in fn.args.args if a.arg != "self"]
        if args != list(kinds):
            raise Untranslatable("untranslatable construct at %s:%d: evaluate signature %s != expected %s" % (fname, fn.lineno, args, list(kinds)))
        # module-level helpers of the form `def h(a, b): [docstring] return <expr>` may be called from an evaluate (inlined)
        helpers = {}
        for node in tree.body:
            if isinstance(node, ast.FunctionDef):
                body = [b for b in node.body if not (isinstance(b, ast.Expr) and isinstance(b.value, ast.Constant) and isinstance(b.value.value, str))]
                if len(body) == 1 and isinstance(body[0], ast.Return) and body[0].value is not None and not node.args.kwonlyargs and not node.args.vararg:
                    helpers[node.name] = ast.FunctionDef(name=node.name, args=node.args, body=body, decorator_list=[], lineno=node.lineno)
        tr = Tr("gwcs/" + fname, kinds, notes, helpers)
        lines = []
        if not tr.block(fn.body, lines):
            raise Untranslatable("untranslatable construct at %s:%d: no return" % (fname, fn.lineno))
        params = " ".join("(%s : %s)" % (nm(a), "α × α × α" if kinds[a] == "triple" else "α") for a in args)
        defs.append("/-- generated from gwcs/%s:%d  %s.evaluate -/\ndef %s %s :=\n%s\n" % (fname, fn.lineno, cls, lname, params, "\n".join(lines)))
    text = ("/- GENERATED by harness/translate.py from /repo/gwcs/geometry.py and spectroscopy.py — do not edit. -/\n"
            "import GwcsModel.ANum\n\nnamespace Gwcs.Gen\nvariable {α : Type} [ANum α]\n\n" + "\n".join(defs) + "\nend Gwcs.Gen\n")
    return text, notes


def main():
    try:
        text, notes = translate()
    except (Untranslatable, OSError, SyntaxError) as e:
        print("TRANSLATOR-FAILED %s" % e)
        return 1
    os.makedirs(os.path.dirname(OUT), exist_ok=True)
    old = open(OUT).read() if os.path.exists(OUT) else None
    if old != text:
        tmp = OUT + ".tmp%d" % os.getpid()
        open(tmp, "w").write(text)
        os.replace(tmp, OUT)
        print("regenerated %s" % OUT)
    else:
        print("unchanged %s" % OUT)
    for n in notes:
        print("note:", n)
    return 0


if __name__ == "__main__":
    sys.exit(main())
