import GwcsModel.Basic
import GwcsModel.Polygon
import GwcsModel.TExpr
import GwcsModel.Pipeline
import GwcsModel.Drv.C14
import GwcsModel.Drv.Pipe
import GwcsModel.Cache
import GwcsModel.Drv.C08
