import GwcsModel.Basic
import GwcsModel.Polygon
import GwcsModel.Drv.C14
