/-
  Driver — one JSON request per input line, one JSON response per output line.
  Core-only (no Mathlib), so it builds as a native executable and also runs with
  `lake env lean --run Driver.lean`.
-/
import GwcsModel.Drv.C14
import GwcsModel.Drv.Pipe
import GwcsModel.Drv.C08
import GwcsModel.Drv.C03
import GwcsModel.Drv.C13
import GwcsModel.Drv.C15
import GwcsModel.Drv.C17
import GwcsModel.Drv.C18
import GwcsModel.Drv.C19
import GwcsModel.Drv.C06
import GwcsModel.Drv.C04
import GwcsModel.Drv.C05
import GwcsModel.Drv.C02
import GwcsModel.Drv.C12
import GwcsModel.Drv.C16
import GwcsModel.Drv.C09
import GwcsModel.Drv.C11
import GwcsModel.Drv.C10
import GwcsModel.Drv.C20
open Lean Gwcs

def dispatch (j : Json) : Json :=
  match jStr (jFieldD j "prop" Json.null) with
  | some "C14" => Gwcs.Drv.C14.handle j
  | some "C08" => if jStr (jFieldD j "op" Json.null) == some "cache" then Gwcs.Drv.C08.handle j else Gwcs.Drv.Pipe.handle j
  | some "C19" => Gwcs.Drv.C19.handle j
  | some "C12" => Gwcs.Drv.C12.handle j
  | some "C16" => Gwcs.Drv.C16.handle j
  | some "C09" => Gwcs.Drv.C09.handle j
  | some "C11" => Gwcs.Drv.C11.handle j
  | some "C10" => Gwcs.Drv.C10.handle j
  | some "C20" => Gwcs.Drv.C20.handle j
  | some "C02" => Gwcs.Drv.C02.handle j
  | some "C05" => Gwcs.Drv.C05.handle j
  | some "C04" => Gwcs.Drv.C04.handle j
  | some "C06" => Gwcs.Drv.C06.handle j
  | some "C18" => Gwcs.Drv.C18.handle j
  | some "C17" => Gwcs.Drv.C17.handle j
  | some "C15" => Gwcs.Drv.C15.handle j
  | some "C13" => Gwcs.Drv.C13.handle j
  | some "C03" => Gwcs.Drv.C03.handle j
  | some "C01" | some "C07" => Gwcs.Drv.Pipe.handle j
  | some "ping" => okJson (Json.str "pong")
  | _ => badRequest "unknown prop"

partial def loop (hin : IO.FS.Stream) (hout : IO.FS.Stream) : IO Unit := do
  let line ← hin.getLine
  if line.isEmpty then return ()
  let resp := match Json.parse line with
    | .ok j => dispatch j
    | .error e => badRequest ("json: " ++ e)
  hout.putStrLn resp.compress
  loop hin hout

def main : IO Unit := do
  let hin ← IO.getStdin
  let hout ← IO.getStdout
  loop hin hout
