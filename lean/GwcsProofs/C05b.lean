import GwcsModel.Wrap
import Mathlib.Tactic.Linarith
import Mathlib.Tactic.FieldSimp
import Mathlib.Tactic.Ring
import Mathlib.Data.Rat.Floor
import Mathlib.Algebra.Order.Field.Rat

/-! C05 (supporting the pixel-scale estimate and the residuals of the iterative solver): the wrap takes an angle difference the short
way round, whatever multiple of the period the raw difference carries. -/
namespace Gwcs.Wrap

theorem floor_cast (q : ℚ) : ((Rat.floor q : ℤ) : ℚ) = ((⌊q⌋ : ℤ) : ℚ) := rfl

/-- **wrap_range.** The wrapped difference lies in [-P/2, P/2). -/
theorem wrap_range (P d : ℚ) (hP : 0 < P) : -(P / 2) ≤ wrap P d ∧ wrap P d < P / 2 := by
  unfold wrap
  rw [floor_cast]
  have h1 := Int.floor_le ((d + P / 2) / P)
  have h2 := Int.lt_floor_add_one ((d + P / 2) / P)
  rw [le_div_iff₀ hP] at h1
  rw [div_lt_iff₀ hP] at h2
  constructor <;> nlinarith

/-- **wrap_periodic.** Adding whole periods to the raw difference does not change the wrapped one. -/
theorem wrap_periodic (P d : ℚ) (k : ℤ) (hP : 0 < P) : wrap P (d + P * k) = wrap P d := by
  unfold wrap
  rw [floor_cast, floor_cast]
  have : (d + P * k + P / 2) / P = (d + P / 2) / P + k := by field_simp; ring
  rw [this, Int.floor_add_intCast]
  push_cast
  ring

/-- **wrap_id.** A difference already in [-P/2, P/2) is left alone. -/
theorem wrap_id (P d : ℚ) (hP : 0 < P) (h1 : -(P / 2) ≤ d) (h2 : d < P / 2) : wrap P d = d := by
  unfold wrap
  rw [floor_cast]
  have : ⌊(d + P / 2) / P⌋ = 0 := by
    rw [Int.floor_eq_iff]
    constructor
    · simp only [Int.cast_zero]; apply div_nonneg <;> linarith
    · simp only [Int.cast_zero, zero_add]; rw [div_lt_one hP]; linarith
  rw [this]; simp

/-- **wrap_recovers.** If the true difference `δ` is shorter than half a period and the raw one is `δ` plus any whole number of
periods (the two points lie on either side of the 0/360 line), the wrap returns `δ` - and the raw difference is off by exactly those
periods (the shape of finding D42). -/
theorem wrap_recovers (P δ : ℚ) (k : ℤ) (hP : 0 < P) (h1 : -(P / 2) ≤ δ) (h2 : δ < P / 2) :
    wrap P (δ + P * k) = δ ∧ (k ≠ 0 → δ + P * k ≠ δ) := by
  refine ⟨by rw [wrap_periodic P δ k hP, wrap_id P δ hP h1 h2], ?_⟩
  intro hk h
  have : P * (k : ℚ) = 0 := by linarith
  rcases mul_eq_zero.mp this with h0 | h0
  · linarith
  · exact hk (by exact_mod_cast h0)

/-- **wrapMinus_eq.** The two ways the solver writes the wrap are the same function. -/
theorem wrapMinus_eq (P d : ℚ) (hP : 0 < P) : wrapMinus P d = wrap P d := by
  unfold wrapMinus wrap
  rw [floor_cast, floor_cast]
  have : (d + P / 2) / P = (d - P / 2) / P + (1 : ℤ) := by field_simp; ring
  rw [this, Int.floor_add_intCast]
  push_cast
  ring

-- non-vacuity: two longitudes 359.9 and 0.1 deg: raw difference -359.8, wrapped 0.2
example : wrap 360 ((1 : ℚ) / 10 - 3599 / 10) = 1 / 5 := by
  decide +kernel

end Gwcs.Wrap
