/-
  C13 — The APE-14 low-level interface is a faithful, self-consistent view of the WCS.
-/
import GwcsProofs.Lemmas.SepLemmas

namespace Gwcs.Api

/-- **toindex_nearest.** `_toindex` returns the integer whose pixel `[n − ½, n + ½)` contains the
    value: the nearest pixel centre, halves going up. -/
theorem toindex_nearest (v : Rat) : ((toIndex v : Int) : Rat) - 1 / 2 ≤ v ∧ v < ((toIndex v : Int) : Rat) + 1 / 2 := by
  unfold toIndex
  have h1 := Rat.floor_le (v + 1 / 2)
  have h2 := Rat.lt_floor_add_one (v + 1 / 2)
  have h3 : (((v + 1 / 2).floor + 1 : Int) : Rat) = ((v + 1 / 2).floor : Rat) + 1 := by
    simp [Rat.intCast_add]
  rw [h3] at h2
  constructor <;> grind

/-- … and it is the *only* such integer. -/
theorem toindex_unique (v : Rat) (n : Int) (h : (n : Rat) - 1 / 2 ≤ v ∧ v < (n : Rat) + 1 / 2) :
    toIndex v = n := by
  unfold toIndex
  apply Int.le_antisymm
  · have : (v + 1 / 2).floor < n + 1 := by
      rw [Rat.floor_lt_iff]
      have : ((n + 1 : Int) : Rat) = (n : Rat) + 1 := by simp [Rat.intCast_add]
      rw [this]; grind
    omega
  · rw [Rat.le_floor_iff]; grind

/-- integers are fixed points -/
theorem toindex_int (n : Int) : toIndex (n : Rat) = n :=
  toindex_unique _ n (by constructor <;> grind)

/-- **array_index_eq_reversed.** -/
theorem array_index_eq_reversed {α β} (p2w : List α → β) (idx : List α) :
    arrayIndexToWorld p2w idx = p2w idx.reverse := rfl

/-- **w2ai_values_rounds.** The index variant is world→pixel, reversed, each entry rounded. -/
theorem w2ai_values_rounds {β} (w2p : β → Except Err (List Rat)) (w : β) (px : List Rat) (h : w2p w = .ok px) :
    worldToArrayIndex w2p w = .ok (px.reverse.map toIndex) := by
  simp [worldToArrayIndex, h, Except.map]

/-- … so entry `k` of the answer is the nearest pixel centre to pixel coordinate `n−1−k`. -/
theorem w2ai_entry {β} (w2p : β → Except Err (List Rat)) (w : β) (px : List Rat) (idx : List Int)
    (h : w2p w = .ok px) (hi : worldToArrayIndex w2p w = .ok idx) (k : Nat) (hk : k < px.length) :
    idx[k]? = some (toIndex (px[px.length - 1 - k]'(by omega))) := by
  rw [w2ai_values_rounds w2p w px h] at hi
  injection hi with hi; subst hi
  rw [List.getElem?_map, List.getElem?_reverse hk]
  simp [List.getElem?_eq_getElem (show px.length - 1 - k < px.length by omega)]

/-- **shape_sync.** After *any* history of `pixel_shape` / `array_shape` assignments (valid or
    rejected, in any order) `array_shape` is `pixel_shape` reversed. -/
theorem shape_sync (ndim : Nat) (ops : List ShapeOp) (s : ShapeState) :
    arrayShape (ops.foldl (shapeStepTotal ndim) s) = (pixelShape (ops.foldl (shapeStepTotal ndim) s)).map List.reverse :=
  rfl

/-- what was set last is what is reported: setting `array_shape` to `v` makes `pixel_shape` its
    reverse, and vice versa -/
theorem set_array_then_pixel (ndim : Nat) (s : ShapeState) (v : List Nat) (h : v.length = ndim) :
    pixelShape (shapeStepTotal ndim s (.setArrayShape (some v))) = some v.reverse ∧
      arrayShape (shapeStepTotal ndim s (.setArrayShape (some v))) = some v := by
  simp [shapeStepTotal, shapeStep, pixelShape, arrayShape, h]

theorem set_pixel_then_array (ndim : Nat) (s : ShapeState) (v : List Nat) (h : v.length = ndim) :
    pixelShape (shapeStepTotal ndim s (.setPixelShape (some v))) = some v ∧
      arrayShape (shapeStepTotal ndim s (.setPixelShape (some v))) = some v.reverse := by
  simp [shapeStepTotal, shapeStep, pixelShape, arrayShape, h]

/-- **pixel_shape_wrong_len_rejected_unchanged.** -/
theorem pixel_shape_wrong_len_rejected_unchanged (ndim : Nat) (s : ShapeState) (v : List Nat) (h : v.length ≠ ndim) :
    shapeStep ndim s (.setPixelShape (some v)) = .error .valueErr ∧
      shapeStepTotal ndim s (.setPixelShape (some v)) = s := by
  simp [shapeStepTotal, shapeStep, h]

/-- **array_shape_wrong_len_rejected_unchanged.** The same through the other property. -/
theorem array_shape_wrong_len_rejected_unchanged (ndim : Nat) (s : ShapeState) (v : List Nat) (h : v.length ≠ ndim) :
    shapeStep ndim s (.setArrayShape (some v)) = .error .valueErr ∧
      shapeStepTotal ndim s (.setArrayShape (some v)) = s := by
  simp [shapeStepTotal, shapeStep, h]

/-- one assignment (through either property, accepted or refused) keeps "the stored shape has the right length" -/
theorem pixel_shape_len_step (ndim : Nat) (s : ShapeState) (op : ShapeOp)
    (hs : ∀ l, s = some l → l.length = ndim) :
    ∀ l, shapeStepTotal ndim s op = some l → l.length = ndim := by
  intro l
  cases op with
  | setPixelShape v =>
    cases v with
    | none => simp [shapeStepTotal, shapeStep]
    | some v =>
      by_cases h : v.length = ndim
      · simp only [shapeStepTotal, shapeStep, h, if_true]
        intro hl; injection hl with hl; subst hl; exact h
      · simp only [shapeStepTotal, shapeStep, h, if_false]
        exact hs l
  | setArrayShape v =>
    cases v with
    | none => simp [shapeStepTotal, shapeStep]
    | some v =>
      by_cases h : v.length = ndim
      · simp only [shapeStepTotal, shapeStep, h, if_true]
        intro hl; injection hl with hl; subst hl; simpa using h
      · simp only [shapeStepTotal, shapeStep, h, if_false]
        exact hs l

/-- **pixel_shape_len_invariant.** After any history of assignments through `pixel_shape` and `array_shape` (valid or refused,
    in any order) a stored pixel shape has one entry per pixel axis. -/
theorem pixel_shape_len_invariant (ndim : Nat) (ops : List ShapeOp) (s : ShapeState)
    (hs : ∀ l, s = some l → l.length = ndim) :
    ∀ l, ops.foldl (shapeStepTotal ndim) s = some l → l.length = ndim := by
  induction ops generalizing s with
  | nil => simpa using hs
  | cons op ops ih => exact ih _ (pixel_shape_len_step ndim s op hs)

end Gwcs.Api

namespace Gwcs.TExpr

/-- **ndim_eq_arity.** A point the forward transform accepts has `nin` coordinates and its image has
    `nout`: the dimension counts are the transform's input/output counts. -/
theorem ndim_eq_arity (e : TExpr) (x y : List Rat) (h : e.eval x = .ok y) :
    x.length = e.nin ∧ y.length = e.nout := eval_length e x y h

/-- **separability_sound.** Whenever the correlation matrix says world axis `i` does not depend on
    pixel axis `j`, changing pixel coordinate `j` (and only it) never changes world coordinate `i`. -/
theorem separability_sound (e : TExpr) (hp : e.plain = true) (x x' y y' : List Rat) (i j : Nat)
    (h : e.eval x = .ok y) (h' : e.eval x' = .ok y') (hdep : e.dep i j = false)
    (hsame : ∀ k, k ≠ j → x[k]? = x'[k]?) : y[i]? = y'[i]? := by
  apply dep_sound e hp x x' y y' i h h'
  intro k hk
  apply hsame k
  intro hkj; subst hkj
  rw [hdep] at hk; cases hk

end Gwcs.TExpr

/-! Non-vacuity -/
open Gwcs Gwcs.TExpr in
example : (stack (shift 1) (poly2 0 1 1)).dep 0 1 = false ∧ (stack (shift 1) (poly2 0 1 1)).dep 1 1 = true ∧
    (stack (shift 1) (poly2 0 1 1)).plain = true := by decide
example : Gwcs.Api.toIndex ((-3 : Rat) / 2) = -1 ∧ Gwcs.Api.toIndex ((5 : Rat) / 2) = 3 := by decide +kernel
