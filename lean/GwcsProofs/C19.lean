/-
  C19 — The package's analytic models satisfy their defining identities.
  The definitions under `Gwcs.Gen` are *regenerated from the Python source on every run*
  (harness/translate.py); the theorems below are re-checked against what the source says now.
-/
import GwcsModel.Generated.Analytic
import Mathlib.Analysis.SpecialFunctions.Trigonometric.Basic
import Mathlib.Analysis.SpecialFunctions.Sqrt
import Mathlib.Analysis.SpecialFunctions.Complex.Arg
import Mathlib.Tactic.Ring
import Mathlib.Tactic.FieldSimp
import Mathlib.Tactic.Linarith
import Mathlib.Tactic.NormNum

open Gwcs Gwcs.Gen

noncomputable instance : ANum ℝ where
  sqrt := Real.sqrt
  sin := Real.sin
  cos := Real.cos
  deg2rad := fun x => x * (Real.pi / 180)
  rad2deg := fun x => x * (180 / Real.pi)
  atan2 := fun y x => Complex.arg ⟨x, y⟩
  hypot := fun x y => Real.sqrt (x * x + y * y)
  mod360 := fun v => v - 360 * (⌊v / 360⌋ : ℝ)
  isZero := fun v => decide (v = 0)

namespace Gwcs.C19

@[simp] theorem pow2 (x : ℝ) : ANum.pow x 2 = x * x := by simp [ANum.pow]
@[simp] theorem pow3 (x : ℝ) : ANum.pow x 3 = x * x * x := by simp [ANum.pow]
@[simp] theorem anum_sqrt (x : ℝ) : ANum.sqrt x = Real.sqrt x := rfl
@[simp] theorem anum_sin (x : ℝ) : ANum.sin x = Real.sin x := rfl
@[simp] theorem anum_cos (x : ℝ) : ANum.cos x = Real.cos x := rfl
@[simp] theorem anum_d2r (x : ℝ) : ANum.deg2rad x = x * (Real.pi / 180) := rfl

/-- **s2c_unit_norm.** Spherical-to-cartesian output lies on the unit sphere, for every longitude and
    latitude (poles, wrap boundaries and values beyond one turn included). -/
theorem s2c_unit_norm (lon lat : ℝ) :
    (sphericalToCartesian lon lat).1 ^ 2 + (sphericalToCartesian lon lat).2.1 ^ 2 +
      (sphericalToCartesian lon lat).2.2 ^ 2 = 1 := by
  simp only [sphericalToCartesian, anum_cos, anum_sin, anum_d2r]
  have h1 := Real.sin_sq_add_cos_sq (lon * (Real.pi / 180))
  have h2 := Real.sin_sq_add_cos_sq (lat * (Real.pi / 180))
  nlinarith [h1, h2]

/-- literals of the generated code are ordinary real literals -/
@[simp] theorem lit (m : ℕ) (b : Bool) (e : ℕ) :
    @OfScientific.ofScientific ℝ ANum.toOfScientific m b e = (OfScientific.ofScientific m b e : ℝ) := rfl

theorem one_lit : (1.0 : ℝ) = 1 := by norm_num

/-- **dircos_normalised.** Direction cosines have unit norm. -/
theorem dircos_normalised (x y z : ℝ) :
    (toDirectionCosines x y z).1 ^ 2 + (toDirectionCosines x y z).2.1 ^ 2 + (toDirectionCosines x y z).2.2.1 ^ 2 = 1 := by
  simp only [toDirectionCosines, anum_sqrt, pow2, lit]
  have hpos : 0 < (1.0 : ℝ) + x * x + y * y := by norm_num; nlinarith [mul_self_nonneg x, mul_self_nonneg y]
  have hs : Real.sqrt ((1.0 : ℝ) + x * x + y * y) ^ 2 = (1.0 : ℝ) + x * x + y * y := Real.sq_sqrt (le_of_lt hpos)
  have hne : Real.sqrt ((1.0 : ℝ) + x * x + y * y) ≠ 0 := (Real.sqrt_pos.mpr hpos).ne'
  generalize Real.sqrt ((1.0 : ℝ) + x * x + y * y) = v at hs hne
  field_simp
  rw [hs]; norm_num; ring

/-- **dircos_inverse_pair.** On vectors with unit third component the declared inverse undoes the
    model: `FromDirectionCosines (ToDirectionCosines (x, y, 1)) = (x, y, 1)`. -/
theorem dircos_inverse_pair (x y z : ℝ) :
    let d := toDirectionCosines x y z
    fromDirectionCosines d.1 d.2.1 d.2.2.1 d.2.2.2 = (x, y, 1) := by
  simp only [toDirectionCosines, fromDirectionCosines, anum_sqrt, pow2, lit]
  have hpos : 0 < (1.0 : ℝ) + x * x + y * y := by norm_num; nlinarith [mul_self_nonneg x, mul_self_nonneg y]
  have hne : Real.sqrt ((1.0 : ℝ) + x * x + y * y) ≠ 0 := (Real.sqrt_pos.mpr hpos).ne'
  generalize Real.sqrt ((1.0 : ℝ) + x * x + y * y) = v at hne
  ext
  · simp; field_simp
  · simp; field_simp
  · simp; field_simp; norm_num

/-- … and conversely on unit-norm triples with positive third component and `length = 1/cosc`. -/
theorem dircos_from_to (ca cb cc : ℝ) (hn : ca ^ 2 + cb ^ 2 + cc ^ 2 = 1) (hc : 0 < cc) :
    let v := fromDirectionCosines ca cb cc (1 / cc)
    toDirectionCosines v.1 v.2.1 v.2.2 = (ca, cb, cc, 1 / cc) := by
  simp only [toDirectionCosines, fromDirectionCosines, anum_sqrt, pow2, lit]
  have hcc : cc ≠ 0 := hc.ne'
  have hrad : (1.0 : ℝ) + ca * (1 / cc) * (ca * (1 / cc)) + cb * (1 / cc) * (cb * (1 / cc)) = (1 / cc) ^ 2 := by
    norm_num; field_simp; nlinarith [hn]
  have hsq : Real.sqrt ((1.0 : ℝ) + ca * (1 / cc) * (ca * (1 / cc)) + cb * (1 / cc) * (cb * (1 / cc))) = 1 / cc := by
    rw [hrad]; exact Real.sqrt_sq (by positivity)
  rw [hsq]
  ext
  · simp; field_simp
  · simp; field_simp
  · simp; norm_num
  · simp

/-- **grating_wavelength_eq.** `λ · d · m = α_in + α_out` whenever `d · m ≠ 0`. -/
theorem grating_wavelength_eq (a_in a_out d m : ℝ) (h : d * m ≠ 0) :
    wavelengthFromGrating a_in a_out d m * (d * m) = a_in + a_out := by
  simp only [wavelengthFromGrating]
  exact div_mul_cancel₀ _ h

/-- **grating_angles_eq.** The 3-D grating law in direction-cosine space, and a unit triple wherever
    the radicand is non-negative. -/
theorem grating_angles_eq (lam a b d m : ℝ) :
    (anglesFromGrating3D lam a b d m).1 = a - d * m * lam ∧ (anglesFromGrating3D lam a b d m).2.1 = -b := by
  simp only [anglesFromGrating3D]
  constructor
  · ring
  · trivial

theorem grating_unit_triple (lam a b d m : ℝ)
    (h : 0 ≤ 1 - (a - d * m * lam) ^ 2 - b ^ 2) :
    (anglesFromGrating3D lam a b d m).1 ^ 2 + (anglesFromGrating3D lam a b d m).2.1 ^ 2 +
      (anglesFromGrating3D lam a b d m).2.2 ^ 2 = 1 := by
  -- (stated for whatever form the regenerated definition gives its two cosines and its radicand)
  have key : ∀ x y r : ℝ, r = 1 - x ^ 2 - y ^ 2 → 0 ≤ r → x ^ 2 + y ^ 2 + Real.sqrt r ^ 2 = 1 := by
    intro x y r hr h0; rw [Real.sq_sqrt h0, hr]; ring
  simp only [anglesFromGrating3D, anum_sqrt, pow2, lit]
  apply key
  · norm_num; ring
  · convert h using 1
    norm_num; ring

/-- **snell_eq.** `n · α_out = α_in`, `n · β_out = β_in` (for `n ≠ 0`), unit triple where defined. -/
theorem snell_eq (n a b g : ℝ) (hn : n ≠ 0) :
    n * (snell3D n a b g).1 = a ∧ n * (snell3D n a b g).2.1 = b := by
  simp only [snell3D]
  constructor <;> field_simp

theorem snell_unit_triple (n a b g : ℝ) (h : 0 ≤ 1 - (a / n) ^ 2 - (b / n) ^ 2) :
    (snell3D n a b g).1 ^ 2 + (snell3D n a b g).2.1 ^ 2 + (snell3D n a b g).2.2 ^ 2 = 1 := by
  have key : ∀ x y r : ℝ, r = 1 - x ^ 2 - y ^ 2 → 0 ≤ r → x ^ 2 + y ^ 2 + Real.sqrt r ^ 2 = 1 := by
    intro x y r hr h0; rw [Real.sq_sqrt h0, hr]; ring
  simp only [snell3D, anum_sqrt, pow2, lit]
  apply key
  · norm_num; ring
  · convert h using 1
    norm_num; ring

/-- **sellmeier_glass_formula.** `n² = 1 + Σ Bᵢ λ² / (λ² − Cᵢ)` wherever the right-hand side is
    non-negative. -/
theorem sellmeier_glass_formula (lam B1 B2 B3 C1 C2 C3 : ℝ)
    (h : 0 ≤ 1 + B1 * lam ^ 2 / (lam ^ 2 - C1) + B2 * lam ^ 2 / (lam ^ 2 - C2) + B3 * lam ^ 2 / (lam ^ 2 - C3)) :
    (sellmeierGlass lam (B1, B2, B3) (C1, C2, C3)) ^ 2 =
      1 + B1 * lam ^ 2 / (lam ^ 2 - C1) + B2 * lam ^ 2 / (lam ^ 2 - C2) + B3 * lam ^ 2 / (lam ^ 2 - C3) := by
  simp only [sellmeierGlass, anum_sqrt, pow2, lit]
  have hr : (1.0 : ℝ) + B1 * (lam * lam) / (lam * lam - C1) + B2 * (lam * lam) / (lam * lam - C2) +
      B3 * (lam * lam) / (lam * lam - C3) =
      1 + B1 * lam ^ 2 / (lam ^ 2 - C1) + B2 * lam ^ 2 / (lam ^ 2 - C2) + B3 * lam ^ 2 / (lam ^ 2 - C3) := by
    norm_num; ring
  rw [hr, Real.sq_sqrt h]

/-- the refractive index of air used by the Zemax chain, as published (Edlén-type formula) -/
noncomputable def nAirRef (lam : ℝ) : ℝ :=
  1 + (6432.8 + 2949810 * lam ^ 2 / (146 * lam ^ 2 - 1) + 5540 * lam ^ 2 / (41 * lam ^ 2 - 1)) * 1e-8

/-- **zemax_reduces_to_glass.** At the reference temperature and pressure the Zemax index is the
    Sellmeier-I index of the glass (whatever the thermal coefficients), provided the index of air is
    non-zero. -/
theorem zemax_reduces_to_glass (lam T P : ℝ) (B C D E : ℝ × ℝ × ℝ)
    (hair : 1 + (nAirRef lam - 1) * P / (1 + (T - 273.15 - 15) * 0.0034785) ≠ 0) :
    sellmeierZemax lam T T P P B C D E = sellmeierGlass lam B C := by
  obtain ⟨D0, D1, D2⟩ := D
  obtain ⟨E0, E1, Etk⟩ := E
  simp only [sellmeierZemax, lit, pow2, pow3]
  have hn : (1.0 : ℝ) + ((6432.8 : ℝ) + (2949810.0 : ℝ) * (lam * lam) / ((146.0 : ℝ) * (lam * lam) - (1.0 : ℝ)) +
      (5540.0 : ℝ) * (lam * lam) / ((41.0 : ℝ) * (lam * lam) - (1.0 : ℝ))) * (1e-08 : ℝ) = nAirRef lam := by
    unfold nAirRef; norm_num; ring
  rw [hn]
  have hk : (1.0 : ℝ) + (nAirRef lam - (1.0 : ℝ)) * P / ((1.0 : ℝ) + (T - (273.15 : ℝ) - (15.0 : ℝ)) * (0.0034785 : ℝ)) =
      1 + (nAirRef lam - 1) * P / (1 + (T - 273.15 - 15) * 0.0034785) := by norm_num
  rw [hk]
  generalize 1 + (nAirRef lam - 1) * P / (1 + (T - 273.15 - 15) * 0.0034785) = a at hair
  have hl : lam * a / a = lam := by field_simp
  rw [hl]
  have hz : T - (273.15 : ℝ) - (T - (273.15 : ℝ)) = 0 := by ring
  rw [hz]
  simp only [mul_zero, zero_add, add_zero, zero_div, mul_zero]
  field_simp

/-- the published Zemax chain, for reference: the generated definition *is* this chain (definitional) -/
theorem sellmeier_zemax_formula (lam T Tr Pr P : ℝ) (B C : ℝ × ℝ × ℝ) (D0 D1 D2 E0 E1 Etk : ℝ) :
    sellmeierZemax lam T Tr Pr P B C (D0, D1, D2) (E0, E1, Etk) =
      (let t := T - 273.15
       let tr := Tr - 273.15
       let dt := t - tr
       let nobs := 1 + (nAirRef lam - 1) * P / (1 + (t - 15) * 0.0034785)
       let nref := 1 + (nAirRef lam - 1) * Pr / (1 + (tr - 15) * 0.0034785)
       let lrel := lam * nobs / nref
       let nrel := sellmeierGlass lrel B C
       (nrel * nref + 0.5 * (nrel ^ 2 - 1) / nrel *
          (D0 * dt + D1 * dt ^ 2 + D2 * dt ^ 3 + (E0 * dt + E1 * dt ^ 2) / (lrel ^ 2 - Etk ^ 2))) / nobs) := by
  simp only [sellmeierZemax, lit, pow2, pow3]
  unfold nAirRef
  norm_num
  ring_nf

end Gwcs.C19
