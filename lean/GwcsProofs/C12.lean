/-
  C12 — High-level objects and axis metadata match transform outputs in any axis order.
  Proved on the axis bookkeeping of CompositeFrame (objects are modelled as the tuples of world
  values they are built from; astropy's constructors are tagged tuples here).
-/
import GwcsModel.Frames
import Batteries.Data.List.Perm

namespace Gwcs.Frames

/-- scattering `(index, value)` pairs with pairwise distinct in-range indices puts every value at
    its index -/
theorem scatterPairs_get {β} : ∀ (pairs : List (Nat × β)) (init : List β),
    (pairs.map (·.1)).Nodup → (∀ p ∈ pairs, p.1 < init.length) →
    (∀ p ∈ pairs, (scatterPairs init pairs)[p.1]? = some p.2) ∧
      (∀ i, i ∉ pairs.map (·.1) → (scatterPairs init pairs)[i]? = init[i]?) ∧
      (scatterPairs init pairs).length = init.length
  | [], init, _, _ => by simp [scatterPairs]
  | q :: pairs, init, hnd, hlt => by
    simp only [List.map_cons, List.nodup_cons] at hnd
    have hq : q.1 < init.length := hlt q (by simp)
    have ih := scatterPairs_get pairs (init.set q.1 q.2) hnd.2
      (by intro p hp; simpa using hlt p (List.mem_cons_of_mem _ hp))
    have hs : scatterPairs init (q :: pairs) = scatterPairs (init.set q.1 q.2) pairs := by
      simp [scatterPairs]
    rw [hs]
    refine ⟨?_, ?_, by rw [ih.2.2, List.length_set]⟩
    · intro p hp
      rcases List.mem_cons.mp hp with rfl | hp'
      · rw [ih.2.1 p.1 hnd.1]
        exact List.getElem?_set_self hq
      · exact ih.1 p hp'
    · intro i hi
      simp only [List.map_cons, List.mem_cons, not_or] at hi
      rw [ih.2.1 i hi.2]
      exact List.getElem?_set_ne (fun h => hi.1 h.symm)

variable {M : Type}

theorem mem_flatMap_zip (frames : List (SubFrame M)) (f : SubFrame M) (hf : f ∈ frames) (k : Nat)
    (hk : k < f.axesOrder.length) (hm : k < f.info.length) :
    (f.axesOrder[k], f.info[k]) ∈ frames.flatMap (fun f => f.axesOrder.zip f.info) := by
  rw [List.mem_flatMap]
  refine ⟨f, hf, ?_⟩
  have : (f.axesOrder.zip f.info)[k]? = some (f.axesOrder[k], f.info[k]) :=
    List.getElem?_zip_eq_some.mpr ⟨List.getElem?_eq_getElem hk, List.getElem?_eq_getElem hm⟩
  exact List.mem_of_getElem? this

theorem map_fst_flatMap_zip (frames : List (SubFrame M)) (h : ∀ f ∈ frames, f.info.length = f.axesOrder.length) :
    (frames.flatMap (fun f => f.axesOrder.zip f.info)).map (·.1) = allAxes frames := by
  induction frames with
  | nil => rfl
  | cons f fs ih =>
    simp only [List.flatMap_cons, List.map_append, allAxes]
    rw [ih (fun g hg => h g (List.mem_cons_of_mem _ hg))]
    congr 1
    exact List.map_fst_zip (by rw [h f (by simp)]; exact Nat.le_refl _)

/-- **metadata_aligned.** In a composite frame whose axis numbers are distinct and in range, entry
    `i` of the physical types / units / names / axes types is the entry of the unique
    (sub-frame, local axis) with `axes_order[k] = i`. -/
theorem metadata_aligned (frames : List (SubFrame M)) (dflt : M) (out : List M)
    (hinfo : ∀ f ∈ frames, f.info.length = f.axesOrder.length)
    (hrange : ∀ i ∈ allAxes frames, i < naxesOf frames)
    (h : compositeMeta frames dflt = .ok out)
    (f : SubFrame M) (hf : f ∈ frames) (k : Nat) (hk : k < f.axesOrder.length) :
    out[f.axesOrder[k]]? = (f.info[k]?) := by
  unfold compositeMeta at h
  split at h
  · rename_i hnd
    injection h with h; subst h
    have hm : k < f.info.length := by rw [hinfo f hf]; exact hk
    have hpairs := scatterPairs_get (frames.flatMap (fun f => f.axesOrder.zip f.info)) (List.replicate (naxesOf frames) dflt)
      (by rw [map_fst_flatMap_zip frames hinfo]; exact hnd)
      (by
        intro p hp
        have : p.1 ∈ (frames.flatMap (fun f => f.axesOrder.zip f.info)).map (·.1) := List.mem_map_of_mem hp
        rw [map_fst_flatMap_zip frames hinfo] at this
        simpa using hrange p.1 this)
    have := hpairs.1 _ (mem_flatMap_zip frames f hf k hk hm)
    rw [this, List.getElem?_eq_getElem hm]
  · cases h

/-- **duplicate axis numbers are rejected.** -/
theorem duplicate_axes_rejected (frames : List (SubFrame M)) (dflt : M) (h : ¬ (allAxes frames).Nodup) :
    compositeMeta frames dflt = .error .valueErr := by
  simp [compositeMeta, h]

/-- **objects_get_own_axes.** The object built for sub-frame `F` receives exactly the world values at
    `F.axes_order`, in that order (longitude = `world[axes_order[0]]`, latitude = `world[axes_order[1]]`). -/
theorem objects_get_own_axes {α} (frames : List (SubFrame M)) (args : List α) (j : Nat) (hj : j < frames.length) :
    (coordinates frames args)[j]? = some (frames[j].axesOrder.map (fun i => args[i]?)) := by
  simp [coordinates, hj]

theorem naxesOf_eq (frames : List (SubFrame M)) : naxesOf frames = (allAxes frames).length := by
  unfold naxesOf allAxes
  induction frames with
  | nil => rfl
  | cons f fs ih =>
    simp only [List.map_cons, List.flatMap_cons, List.length_append]
    have : ∀ (l : List Nat) (a : Nat), l.foldl (· + ·) a = a + l.foldl (· + ·) 0 := by
      intro l
      induction l with
      | nil => intro a; simp
      | cons x xs ihx => intro a; simp only [List.foldl_cons]; rw [ihx (a + x), ihx (0 + x)]; omega
    rw [List.foldl_cons, this, ih]; omega

theorem zip_self_map {α β} : ∀ (l : List α) (g : α → β), l.zip (l.map g) = l.map (fun i => (i, g i))
  | [], _ => rfl
  | a :: l, g => by simp [zip_self_map l g]

theorem coordinates_pairs {α} (args : List α) : ∀ (frames : List (SubFrame M)),
    (frames.zip (frames.map (fun f => f.axesOrder.map (fun i => args[i]?)))).flatMap
      (fun fo => fo.1.axesOrder.zip fo.2) = (allAxes frames).map (fun i => (i, args[i]?))
  | [] => rfl
  | f :: fs => by
    have ih := coordinates_pairs args fs
    simp only [List.map_cons, List.zip_cons_cons, List.flatMap_cons, List.map_append, allAxes] at ih ⊢
    rw [ih]
    congr 1
    exact zip_self_map f.axesOrder (fun i => args[i]?)

/-- **objects_roundtrip.** Turning world values into objects and the objects back into quantities
    returns the world values *in world-axis order*, for every assignment of world axes to sub-frames
    that is a permutation of `0 … n−1`. -/
theorem objects_roundtrip {α} (frames : List (SubFrame M)) (args : List α)
    (hnd : (allAxes frames).Nodup) (hrange : ∀ i ∈ allAxes frames, i < naxesOf frames)
    (hlen : args.length = naxesOf frames) :
    coordinateToQuantity frames (coordinates frames args) = args.map some := by
  unfold coordinateToQuantity coordinates
  have hpairs := coordinates_pairs args frames
  rw [hpairs]
  have hfst : ((allAxes frames).map (fun i => (i, args[i]?))).map (·.1) = allAxes frames := by
    rw [List.map_map]; simp [Function.comp_def]
  have hs := scatterPairs_get ((allAxes frames).map (fun i => (i, args[i]?))) (List.replicate (naxesOf frames) none)
    (by rw [hfst]; exact hnd)
    (by intro p hp
        obtain ⟨i, hi, rfl⟩ := List.mem_map.mp hp
        simpa using hrange i hi)
  apply List.ext_getElem?
  intro i
  by_cases hi : i < naxesOf frames
  · -- i is one of the axes: nodup + n elements in range n => covering
    have hcover : i ∈ allAxes frames := by
      have hsub : ∀ x ∈ allAxes frames, x ∈ List.range (naxesOf frames) := fun x hx => List.mem_range.mpr (hrange x hx)
      have hperm : (allAxes frames).Perm (List.range (naxesOf frames)) :=
        (List.subperm_of_subset hnd hsub).perm_of_length_le (by rw [List.length_range, naxesOf_eq]; exact Nat.le_refl _)
      exact hperm.symm.subset (List.mem_range.mpr hi)
    have := hs.1 (i, args[i]?) (List.mem_map_of_mem hcover)
    simp only at this
    rw [this]
    rw [List.getElem?_map]
    have hia : i < args.length := by rw [hlen]; exact hi
    rw [List.getElem?_eq_getElem hia]
    rfl
  · have h1 : i ≥ (scatterPairs (List.replicate (naxesOf frames) (none : Option α)) ((allAxes frames).map (fun i => (i, args[i]?)))).length := by
      rw [hs.2.2]; simp; omega
    rw [List.getElem?_eq_none h1, List.getElem?_eq_none (by simp [hlen]; omega)]

/-! ### object components follow the same scatter as the metadata -/

/-- the renamed component of one local axis (as `components` computes it) -/
def renamedComp (f : SubFrame M) (ren : List String) (c : String × Nat) : Option (String × Nat) :=
  let k := match f.keys.idxOf? c.1 with
    | some j => (ren[j]?).getD c.1
    | none => c.1
  some (k, c.2)

/-- the sub-frames re-labelled with their renamed components as payload -/
def compFrames (frames : List (SubFrame M)) (renamed : List (List String)) : List (SubFrame (Option (String × Nat))) :=
  (frames.zip renamed).map (fun fr => { axesOrder := fr.1.axesOrder, info := fr.1.comps.map (renamedComp fr.1 fr.2), keys := fr.1.keys, comps := fr.1.comps })

theorem compFrames_axes (frames : List (SubFrame M)) (renamed : List (List String)) (hlen : renamed.length = frames.length) :
    (compFrames frames renamed).map (·.axesOrder) = frames.map (·.axesOrder) := by
  unfold compFrames
  rw [List.map_map]
  have : frames.map (·.axesOrder) = ((frames.zip renamed).map (·.1)).map (·.axesOrder) := by
    rw [List.map_fst_zip (by omega)]
  rw [this, List.map_map]
  rfl

theorem allAxes_eq_of_map {M₁ M₂} (a : List (SubFrame M₁)) (b : List (SubFrame M₂)) (h : a.map (·.axesOrder) = b.map (·.axesOrder)) :
    allAxes a = allAxes b := by
  have e1 : allAxes a = (a.map (·.axesOrder)).flatten := by simp [allAxes, List.flatMap_def]
  have e2 : allAxes b = (b.map (·.axesOrder)).flatten := by simp [allAxes, List.flatMap_def]
  rw [e1, e2, h]

theorem components_eq_meta (frames : List (SubFrame M)) (renamed : List (List String)) (hlen : renamed.length = frames.length)
    (hnd : (allAxes frames).Nodup) :
    compositeMeta (compFrames frames renamed) none = .ok (components frames renamed) := by
  have hax := allAxes_eq_of_map _ _ (compFrames_axes frames renamed hlen)
  have hn : naxesOf (compFrames frames renamed) = naxesOf frames := by
    rw [naxesOf_eq, naxesOf_eq, hax]
  unfold compositeMeta
  rw [hax]
  simp only [hnd, ↓reduceIte, hn]
  congr 1
  unfold components compFrames
  rw [List.flatMap_map]
  rfl

/-- **components_aligned.** Entry `i` of `world_axis_object_components` is the (renamed) component of the unique
    (sub-frame `j`, local axis `k`) with `axes_order[k] = i` - the same (sub-frame, local axis) whose metadata entry `i` carries. -/
theorem components_aligned (frames : List (SubFrame M)) (renamed : List (List String)) (hlen : renamed.length = frames.length)
    (hcomps : ∀ f ∈ frames, f.comps.length = f.axesOrder.length)
    (hnd : (allAxes frames).Nodup) (hrange : ∀ i ∈ allAxes frames, i < naxesOf frames)
    (j : Nat) (hj : j < frames.length) (k : Nat) (hk : k < frames[j].axesOrder.length) :
    (components frames renamed)[frames[j].axesOrder[k]]? =
      ((frames[j].comps.map (renamedComp frames[j] (renamed[j]'(by omega))))[k]?) := by
  have hax := allAxes_eq_of_map _ _ (compFrames_axes frames renamed hlen)
  have hn : naxesOf (compFrames frames renamed) = naxesOf frames := by rw [naxesOf_eq, naxesOf_eq, hax]
  have hjz : j < (frames.zip renamed).length := by simp [List.length_zip]; omega
  have hmem : (compFrames frames renamed)[j]'(by simp [compFrames, List.length_zip]; omega) ∈ compFrames frames renamed :=
    List.getElem_mem _
  have hget : (compFrames frames renamed)[j]'(by simp [compFrames, List.length_zip]; omega) =
      { axesOrder := frames[j].axesOrder, info := frames[j].comps.map (renamedComp frames[j] (renamed[j]'(by omega))),
        keys := frames[j].keys, comps := frames[j].comps } := by
    simp [compFrames, List.getElem_zip]
  have := metadata_aligned (compFrames frames renamed) none (components frames renamed)
    (by
      intro f hf
      simp only [compFrames, List.mem_map] at hf
      obtain ⟨fr, hfr, rfl⟩ := hf
      simp only [List.length_map]
      exact hcomps fr.1 (List.of_mem_zip hfr).1)
    (by intro i hi; rw [hn]; rw [hax] at hi; exact hrange i hi)
    (components_eq_meta frames renamed hlen hnd)
    _ hmem k (by rw [hget]; exact hk)
  simp only [hget] at this
  exact this


/-- **rename_unique.** The class keys handed out to the sub-frames' objects are pairwise distinct,
    whatever keys the sub-frames declare (duplicate frame kinds included). -/
theorem pickFresh_not_mem (key : String) (count : Nat) (used : List String) (nk : String)
    (h : pickFresh key count used = some nk) : nk ∉ used := by
  unfold pickFresh at h
  split at h
  · have := List.find?_some h
    simpa using this
  · rename_i hc
    injection h with h; subst h
    simpa using hc

/-- inner loop (one frame's keys): the list of used keys stays duplicate-free and grows by exactly
    the keys handed out -/
theorem inner_rename (keys : List String) : ∀ (seen used cur seen' used' cur' : List String),
    keys.foldl (fun (acc : Option (List String × List String × List String)) key =>
        acc.bind (fun (seen, used, cur) =>
          (pickFresh key (seen.count key) used).map (fun nk => (seen ++ [key], used ++ [nk], cur ++ [nk]))))
      (some (seen, used, cur)) = some (seen', used', cur') →
    used.Nodup → ∃ added, used' = used ++ added ∧ cur' = cur ++ added ∧ used'.Nodup := by
  induction keys with
  | nil =>
    intro seen used cur seen' used' cur' h hnd
    simp only [List.foldl_nil] at h
    injection h with h; injection h with h1 h2; injection h2 with h2 h3
    subst h2; subst h3
    exact ⟨[], by simp, by simp, hnd⟩
  | cons key keys ih =>
    intro seen used cur seen' used' cur' h hnd
    rw [List.foldl_cons] at h
    cases hp : pickFresh key (seen.count key) used with
    | none =>
      simp only [Option.bind_some, hp, Option.map_none] at h
      have : ∀ (l : List String), l.foldl (fun (acc : Option (List String × List String × List String)) key =>
          acc.bind (fun (seen, used, cur) =>
            (pickFresh key (seen.count key) used).map (fun nk => (seen ++ [key], used ++ [nk], cur ++ [nk])))) none = none := by
        intro l; induction l with
        | nil => rfl
        | cons a l ihl => simpa using ihl
      rw [this] at h; cases h
    | some nk =>
      simp only [Option.bind_some, hp, Option.map_some] at h
      have hnm := pickFresh_not_mem key _ used nk hp
      have hnd' : (used ++ [nk]).Nodup := by
        rw [List.nodup_append]
        exact ⟨hnd, by simp, by intro a ha b hb; simp at hb; subst hb; intro hab; subst hab; exact hnm ha⟩
      obtain ⟨added, h1, h2, h3⟩ := ih _ _ _ _ _ _ h hnd'
      exact ⟨nk :: added, by simp [h1], by simp [h2], h3⟩

/-- **rename_unique.** The class keys handed out to the sub-frames' objects are pairwise distinct,
    whatever keys the sub-frames declare (duplicate frame kinds, and keys that look like renamed keys,
    included). -/
theorem rename_unique (keyss : List (List String)) (out : List (List String)) (h : renameKeys keyss = some out) :
    out.flatten.Nodup := by
  unfold renameKeys at h
  simp only at h
  -- generalise the outer fold
  suffices hgen : ∀ (ks : List (List String)) (seen used : List String) (acc : List (List String)) (r : List String × List String × List (List String)),
      ks.foldl (fun (st : Option (List String × List String × List (List String))) (keys : List String) =>
        st.bind (fun (seen, used, out) =>
          (keys.foldl (fun (acc : Option (List String × List String × List String)) key =>
            acc.bind (fun (seen, used, cur) =>
              (pickFresh key (seen.count key) used).map (fun nk => (seen ++ [key], used ++ [nk], cur ++ [nk])))) (some (seen, used, []))).map
            (fun (seen, used, cur) => (seen, used, out ++ [cur])))) (some (seen, used, acc)) = some r →
      used.Nodup → acc.flatten = used → r.2.2.flatten = r.2.1 ∧ r.2.1.Nodup by
    cases hf : keyss.foldl _ (some (([] : List String), ([] : List String), ([] : List (List String)))) with
    | none => rw [hf] at h; simp at h
    | some r =>
      rw [hf] at h
      simp only [Option.map_some, Option.some.injEq] at h
      obtain ⟨h1, h2⟩ := hgen keyss [] [] [] r hf (by simp) (by simp)
      rw [← h, h1]; exact h2
  intro ks
  induction ks with
  | nil =>
    intro seen used acc r hr hnd hacc
    simp only [List.foldl_nil, Option.some.injEq] at hr
    subst hr
    exact ⟨hacc, hnd⟩
  | cons keys ks ih =>
    intro seen used acc r hr hnd hacc
    rw [List.foldl_cons] at hr
    simp only [Option.bind_some] at hr
    cases hin : keys.foldl (fun (acc : Option (List String × List String × List String)) key =>
        acc.bind (fun (seen, used, cur) =>
          (pickFresh key (seen.count key) used).map (fun nk => (seen ++ [key], used ++ [nk], cur ++ [nk])))) (some (seen, used, [])) with
    | none =>
      rw [hin] at hr
      simp only [Option.map_none] at hr
      have : ∀ (l : List (List String)), l.foldl (fun (st : Option (List String × List String × List (List String))) (keys : List String) =>
          st.bind (fun (seen, used, out) =>
            (keys.foldl (fun (acc : Option (List String × List String × List String)) key =>
              acc.bind (fun (seen, used, cur) =>
                (pickFresh key (seen.count key) used).map (fun nk => (seen ++ [key], used ++ [nk], cur ++ [nk])))) (some (seen, used, []))).map
              (fun (seen, used, cur) => (seen, used, out ++ [cur])))) none = none := by
        intro l; induction l with
        | nil => rfl
        | cons a l ihl => simpa using ihl
      rw [this] at hr; cases hr
    | some st =>
      obtain ⟨seen', used', cur'⟩ := st
      rw [hin] at hr
      simp only [Option.map_some] at hr
      obtain ⟨added, h1, h2, h3⟩ := inner_rename keys seen used [] seen' used' cur' hin hnd
      apply ih seen' used' (acc ++ [cur']) r hr h3
      rw [List.flatten_append, hacc, h1]
      simp [h2]

end Gwcs.Frames

/-! Non-vacuity -/
example : Gwcs.Frames.renameKeys [["SPATIAL", "SPATIAL1"], ["SPATIAL", "SPATIAL1"]] =
    some [["SPATIAL", "SPATIAL1"], ["SPATIAL2", "SPATIAL11"]] := by decide +kernel
example : Gwcs.Frames.renameKeys [["spectral"], ["celestial"], ["spectral"], ["spectral"]] =
    some [["spectral"], ["celestial"], ["spectral1"], ["spectral2"]] := by decide +kernel
