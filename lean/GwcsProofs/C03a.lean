/-
  C03 — Bounding box masks exactly the out-of-range inputs and nothing else.
  All statements hold for any scalar type with a decidable `<` (no order axioms: NaN is inside
  the quantifier), except `edge_inclusive`, which needs `<` to be irreflexive-with-`≤` (a Preorder).
-/
import GwcsModel.BBox
import GwcsModel.Pipeline
import Mathlib.Order.Basic

namespace Gwcs.BBox

variable {α : Type} [LT α] [DecidableLT α]

/-- the specification of "outside": some coordinate lies strictly below its lower or strictly above
    its upper limit -/
def Outside (box : List (α × α)) (x : List α) : Prop :=
  ∃ i, ∃ (hb : i < box.length) (hx : i < x.length), x[i] < box[i].1 ∨ box[i].2 < x[i]

theorem outside_iff (box : List (α × α)) (x : List α) : outside box x = true ↔ Outside box x := by
  induction box generalizing x with
  | nil => simp [outside, Outside]
  | cons iv box ih =>
    cases x with
    | nil => simp [outside, Outside]
    | cons a xs =>
      simp only [outside, Bool.or_eq_true, ih, outside1, decide_eq_true_eq]
      constructor
      · rintro (h | ⟨i, hb, hx, h⟩)
        · exact ⟨0, by simp, by simp, by simpa using h⟩
        · exact ⟨i + 1, by simpa using hb, by simpa using hx, by simpa using h⟩
      · rintro ⟨i, hb, hx, h⟩
        cases i with
        | zero => left; simpa using h
        | succ i =>
          right
          exact ⟨i, by simpa using hb, by simpa using hx, by simpa using h⟩

/-- **masked_of_outside.** With masking on, a point with at least one coordinate outside its closed
    interval gets the fill value on *every* output axis. -/
theorem masked_of_outside (f : List α → List α) (nout : Nat) (box : List (α × α)) (fill : α) (x : List α)
    (h : Outside box x) :
    evalMasked f nout (some box) true fill x = List.replicate nout fill := by
  simp [evalMasked, (outside_iff box x).mpr h]

/-- **unmasked_of_inside.** Every other point gets precisely what evaluation without the box gives. -/
theorem unmasked_of_inside (f : List α → List α) (nout : Nat) (box : List (α × α)) (fill : α) (x : List α)
    (h : ¬ Outside box x) :
    evalMasked f nout (some box) true fill x = evalMasked f nout none true fill x := by
  have : outside box x = false := by
    cases hb : outside box x
    · rfl
    · exact absurd ((outside_iff box x).mp hb) h
  simp [evalMasked, this]

/-- **nobox_flag.** With masking switched off the box has no effect. -/
theorem nobox_flag (f : List α → List α) (nout : Nat) (box : Option (List (α × α))) (fill : α) (x : List α) :
    evalMasked f nout box false fill x = f x := by
  simp [evalMasked]

/-- no box: plain evaluation whatever the flag -/
theorem nobox_none (f : List α → List α) (nout : Nat) (wbb : Bool) (fill : α) (x : List α) :
    evalMasked f nout none wbb fill x = f x := by
  cases wbb <;> simp [evalMasked]

/-- **nan_is_inside.** A coordinate that is *incomparable* to both limits (neither below the lower
    nor above the upper one — e.g. NaN) does not make the point outside. -/
theorem nan_is_inside (box : List (α × α)) (x : List α)
    (h : ∀ i (hb : i < box.length) (hx : i < x.length), ¬ x[i] < box[i].1 ∧ ¬ box[i].2 < x[i]) :
    ¬ Outside box x := by
  rintro ⟨i, hb, hx, h1 | h2⟩
  · exact (h i hb hx).1 h1
  · exact (h i hb hx).2 h2

/-- **batch_is_map.** Array evaluation is the pointwise map, for batches of any size. -/
theorem batch_is_map (f : List α → List α) (nout : Nat) (box : Option (List (α × α))) (wbb : Bool) (fill : α)
    (pts : List (List α)) (i : Nat) (h : i < pts.length) :
    (evalBatch f nout box wbb fill pts)[i]'(by simpa [evalBatch] using h) =
      evalMasked f nout box wbb fill pts[i] := by
  simp [evalBatch]

/-- **pixel_bounds_eq_box.** -/
theorem pixel_bounds_eq_box (box : Option (List (α × α))) : pixelBounds box = box := rfl

end Gwcs.BBox

namespace Gwcs.BBox

/-- **edge_inclusive.** In a preorder, a point every coordinate of which lies in the closed interval
    `[lo, hi]` — limits included — is not outside. -/
theorem edge_inclusive {β : Type} [Preorder β] [DecidableLT β] (box : List (β × β)) (x : List β)
    (h : ∀ i (hb : i < box.length) (hx : i < x.length), box[i].1 ≤ x[i] ∧ x[i] ≤ box[i].2) :
    ¬ Outside box x := by
  apply nan_is_inside
  intro i hb hx
  exact ⟨not_lt_of_ge (h i hb hx).1, not_lt_of_ge (h i hb hx).2⟩

/-- … and in a linear order the converse holds: not outside means inside the closed box. -/
theorem inside_iff_closed {β : Type} [LinearOrder β] (box : List (β × β)) (x : List β) :
    ¬ Outside box x ↔ ∀ i (hb : i < box.length) (hx : i < x.length), box[i].1 ≤ x[i] ∧ x[i] ≤ box[i].2 := by
  constructor
  · intro h i hb hx
    constructor
    · by_contra hc; exact h ⟨i, hb, hx, Or.inl (lt_of_not_ge hc)⟩
    · by_contra hc; exact h ⟨i, hb, hx, Or.inr (lt_of_not_ge hc)⟩
  · intro h
    exact edge_inclusive box x h

end Gwcs.BBox

namespace Gwcs.Pipe

/-- **set_get_roundtrip.** A box of the right dimensionality is reported back as assigned, in the
    same (x, y, …) order. -/
theorem set_get_roundtrip (p p' : Pipeline TObj) (v : Box) (h : setBBox p (some v) = .ok p') :
    getBBox p' = .ok (some v) := by
  match p, h with
  | [], h => simp [setBBox] at h
  | [_], h => simp [setBBox] at h
  | s0 :: s1 :: r, h =>
    cases ht : s0.tr with
    | none => simp [setBBox, ht] at h
    | some t =>
      by_cases hv : v.length = t.e.nin
      · simp [setBBox, ht, validateBox, hv, bind, Except.bind, Except.map, pure, Except.pure] at h
        subst h; simp [getBBox]
      · simp [setBBox, ht, validateBox, hv, bind, Except.bind, Except.map] at h

/-- **bad_dim_rejected.** A box of the wrong dimensionality is rejected (the pure model returns no
    new state; that the implementation leaves the old box in place is checked by correspondence). -/
theorem bad_dim_rejected (s0 s1 : Step TObj) (r : Pipeline TObj) (t : TObj) (v : Box)
    (ht : s0.tr = some t) (hv : v.length ≠ t.e.nin) :
    setBBox (s0 :: s1 :: r) (some v) = .error .valueErr := by
  simp [setBBox, ht, validateBox, hv, bind, Except.bind, Except.map]

end Gwcs.Pipe

namespace Gwcs.BBox

variable {α : Type}

/-- a tuple assigned through the WCS setter is reported back per axis exactly as given -/
theorem toF_set_tuple (t : List (α × α)) : (setOBox (.tuple t)).toF = t := rfl

/-- a box set on the astropy model with the tuple in astropy's own order (last input first) is read per axis in (x, y, …) order -/
theorem toF_modelBox (t : List (α × α)) : (modelBox t.reverse).toF = t := by
  simp [modelBox, OBox.toF]

/-- **copying a box object between WCSs keeps every axis' interval**, whatever order the object stores them in -/
theorem copy_preserves_axes (b : OBox α) : (setOBox (.obj b)).toF = b.toF := rfl

/-- re-reading a 'C'-ordered box's own tuple as if it were (x, y, …) transposes the axes: the two readings differ as soon as the box is
not symmetric under reversal (the mistake of flattening a box object with `bounding_box()` and validating it as 'F') -/
theorem own_reading_transposes (b : OBox α) (hc : b.order = .C) (hasym : b.stored.reverse ≠ b.stored) :
    (setOBox (.tuple b.own)).toF ≠ b.toF := by
  simp only [setOBox, OBox.toF, OBox.own, hc]
  exact fun h => hasym h.symm

/-- evaluation uses the per-axis reading: two stored forms of the same per-axis box mask identically -/
theorem mask_order_independent [LT α] [DecidableLT α] (f : List α → List α) (nout : Nat) (b1 b2 : OBox α) (h : b1.toF = b2.toF)
    (wbb : Bool) (fill : α) (x : List α) :
    evalMaskedO f nout (some b1) wbb fill x = evalMaskedO f nout (some b2) wbb fill x := by
  simp [evalMaskedO, h]

/-- changing only the order flag of a stored box (what an evaluation must never do) changes the per-axis reading of a non-symmetric box -/
theorem flip_changes_reading (t : List (α × α)) (hasym : t.reverse ≠ t) : (⟨.C, t⟩ : OBox α).toF ≠ (⟨.F, t⟩ : OBox α).toF := by
  simpa [OBox.toF] using hasym

end Gwcs.BBox

/-! Non-vacuity: a concrete box, a point on its edge (inside) and one just outside. -/
example : ¬ Gwcs.BBox.Outside [((1 : Int), (5 : Int)), (2, 8)] [1, 8] := by
  apply Gwcs.BBox.nan_is_inside; intro i hb hx
  match i, hb with
  | 0, _ => simp
  | 1, _ => simp
example : Gwcs.BBox.Outside [((1 : Int), (5 : Int)), (2, 8)] [1, 9] := ⟨1, by decide, by decide, Or.inr (by decide)⟩
