/-
  C01 — Pipeline evaluation is exactly the composition of its steps, for any frame pair.
  Statements are for an arbitrary transform type `T` with arbitrary (partial) evaluation `ev`,
  assuming only that `|` evaluates as "left, then right" (`Lawful`).
-/
import GwcsProofs.Lemmas.PipeLemmas

namespace Gwcs.Pipe

variable {T X : Type} {ops : TOps T} {ev : T → X → Except Err X}

/-- the transforms of steps `i … j-1` -/
def between (p : Pipeline T) (i j : Nat) : List (Option T) := ((p.drop i).take (j - i)).map (·.tr)

/-- **forward_eq_fold.** If `forward_transform` exists it evaluates as the left-to-right fold of
    all step transforms but the last (which must all be present). -/
theorem forward_eq_fold (hl : Lawful ops ev) (p : Pipeline T) (t : T)
    (h : forwardTransform ops p = .ok (some t)) :
    ∃ ts : List T, between p 0 (p.length - 1) = ts.map some ∧ ∀ x, ev t x = evalChain ev ts x := by
  unfold forwardTransform at h
  split at h
  · cases h
  · have hs : pySlice p 0 (-1) = (p.drop 0).take (p.length - 1 - 0) := by
      unfold pySlice pyClamp; simp; omega
    rw [hs] at h
    exact reduceOr_some hl _ t h

/-- **getTransform_down.** Downstream (`from` before `to`): the result evaluates as the
    intervening step transforms applied in pipeline order. -/
theorem getTransform_down (hl : Lawful ops ev) (p : Pipeline T) (a b : String) (i j : Nat)
    (hi : frameIndex p a = .ok i) (hj : frameIndex p b = .ok j) (hij : i < j) (t : T)
    (h : getTransform ops p a b = .ok (some t)) :
    ∃ ts : List T, between p i j = ts.map some ∧ ∀ x, ev t x = evalChain ev ts x := by
  have hjl := frameIndex_lt p b j hj
  unfold getTransform at h
  have hne : p.isEmpty = false := by cases p <;> simp_all
  simp only [hne, hi, hj, bind, Except.bind, Bool.false_eq_true, if_false] at h
  rw [if_neg (by omega), if_neg (by omega)] at h
  rw [pySlice_nat_le p i j (by omega) (by omega)] at h
  exact reduceOr_some hl _ t h

/-- **getTransform_up.** Upstream (`to` before `from`): the result evaluates as the inverses of
    the intervening step transforms applied in *reverse* order (step `i-1` first, step `j` last). -/
theorem getTransform_up (hl : Lawful ops ev) (p : Pipeline T) (a b : String) (i j : Nat)
    (hi : frameIndex p a = .ok i) (hj : frameIndex p b = .ok j) (hij : j < i) (t : T)
    (h : getTransform ops p a b = .ok (some t)) :
    ∃ ts invs : List T, between p j i = ts.map some ∧ ts.reverse.mapM ops.inv = .ok invs ∧
      ∀ x, ev t x = evalChain ev invs x := by
  have hil := frameIndex_lt p a i hi
  unfold getTransform at h
  have hne : p.isEmpty = false := by cases p <;> simp_all
  simp only [hne, hi, hj, bind, Except.bind, Bool.false_eq_true, if_false] at h
  rw [if_pos hij, pySlice_nat_le p j i (by omega) (by omega)] at h
  cases hm : (List.map (fun x => x.tr) (List.take (i - j) (List.drop j p))).reverse.mapM (pyInverse ops) with
  | error e => rw [hm] at h; cases h
  | ok invs' =>
    rw [hm] at h
    obtain ⟨invs, hinv, hev⟩ := reduceOr_some hl _ t h
    -- every element was a transform, and its inverse was taken
    have key : ∀ (l : List (Option T)) (r : List (Option T)), l.mapM (pyInverse ops) = .ok r →
        ∀ is : List T, r = is.map some → ∃ ts : List T, l = ts.map some ∧ ts.mapM ops.inv = .ok is := by
      intro l
      induction l with
      | nil =>
        intro r hr is his
        simp only [List.mapM_nil, pure, Except.pure] at hr
        injection hr with hr; subst hr
        cases is with
        | nil => exact ⟨[], rfl, rfl⟩
        | cons _ _ => simp at his
      | cons o l ih =>
        intro r hr is his
        rw [List.mapM_cons] at hr
        cases o with
        | none => simp [pyInverse, bind, Except.bind] at hr
        | some u =>
          cases hu : ops.inv u with
          | error e => simp [pyInverse, hu, bind, Except.bind, Except.map] at hr
          | ok ui =>
            cases hl' : l.mapM (pyInverse ops) with
            | error e => simp [pyInverse, hu, hl', bind, Except.bind, Except.map] at hr
            | ok r' =>
              simp only [pyInverse, hu, hl', bind, Except.bind, Except.map, pure, Except.pure] at hr
              injection hr with hr; subst hr
              cases is with
              | nil => simp at his
              | cons i0 is' =>
                simp only [List.map_cons, List.cons.injEq, Option.some.injEq] at his
                obtain ⟨ts', hts', hinv'⟩ := ih r' hl' is' his.2
                refine ⟨u :: ts', by simp [hts'], ?_⟩
                rw [List.mapM_cons, hu, hinv']
                simp [bind, Except.bind, pure, Except.pure, his.1]
    obtain ⟨ts', hts', hmap⟩ := key _ invs' hm invs hinv
    refine ⟨ts'.reverse, invs, ?_, by simpa using hmap, hev⟩
    unfold between
    have := congrArg List.reverse hts'
    rw [List.reverse_reverse] at this
    rw [this, List.map_reverse]

/-- **getTransform_self.** A frame to itself yields no transform. -/
theorem getTransform_self (p : Pipeline T) (a : String) (i : Nat) (hi : frameIndex p a = .ok i) :
    getTransform ops p a a = .ok none := by
  have := frameIndex_lt p a i hi
  have hne : p.isEmpty = false := by cases p <;> simp_all
  unfold getTransform
  simp [hne, hi, bind, Except.bind, pure, Except.pure]

/-- **getTransform_missing.** A frame that is not in the (non-empty) pipeline is an error, never
    an answer — for either argument. -/
theorem getTransform_missing_from (p : Pipeline T) (a b : String) (hp : p ≠ [])
    (ha : a ∉ names p) : getTransform ops p a b = .error .frameErr := by
  have hne : p.isEmpty = false := by cases p <;> simp_all
  have : frameIndex p a = .error .frameErr := by
    unfold frameIndex
    have : (names p).idxOf? a = none := List.idxOf?_eq_none_iff.mpr ha
    rw [this]
  unfold getTransform
  simp [hne, this, bind, Except.bind]

theorem getTransform_missing_to (p : Pipeline T) (a b : String) (hp : p ≠ [])
    (hb : b ∉ names p) : ∃ e, getTransform ops p a b = .error e := by
  have hne : p.isEmpty = false := by cases p <;> simp_all
  have hb' : frameIndex p b = .error .frameErr := by
    unfold frameIndex
    have : (names p).idxOf? b = none := List.idxOf?_eq_none_iff.mpr hb
    rw [this]
  unfold getTransform
  cases ha : frameIndex p a with
  | error e => exact ⟨e, by simp [hne, ha, bind, Except.bind]⟩
  | ok i => exact ⟨.frameErr, by simp [hne, ha, hb', bind, Except.bind]⟩

/-- **getTransform_split.** Going from `a` to `c` through an intermediate frame `b` is the
    composition of the two legs. -/
theorem getTransform_split (hl : Lawful ops ev) (p : Pipeline T) (a b c : String) (i k j : Nat)
    (hi : frameIndex p a = .ok i) (hk : frameIndex p b = .ok k) (hj : frameIndex p c = .ok j)
    (hik : i < k) (hkj : k < j) (tac tab tbc : T)
    (h1 : getTransform ops p a c = .ok (some tac)) (h2 : getTransform ops p a b = .ok (some tab))
    (h3 : getTransform ops p b c = .ok (some tbc)) :
    ∀ x, ev tac x = (ev tab x >>= ev tbc) := by
  obtain ⟨ts, hts, e1⟩ := getTransform_down hl p a c i j hi hj (by omega) tac h1
  obtain ⟨ts1, hts1, e2⟩ := getTransform_down hl p a b i k hi hk hik tab h2
  obtain ⟨ts2, hts2, e3⟩ := getTransform_down hl p b c k j hk hj hkj tbc h3
  have hsplit : between p i j = between p i k ++ between p k j := by
    unfold between
    rw [← List.map_append]
    congr 1
    have : j - i = (k - i) + (j - k) := by omega
    rw [this, List.take_add, List.drop_drop]
    have : i + (k - i) = k := by omega
    rw [this]
  have : ts = ts1 ++ ts2 := by
    have h := hts
    rw [hsplit, hts1, hts2, ← List.map_append] at h
    exact (map_some_inj h).symm
  intro x
  rw [e1, this, evalChain_append, e2 x]
  have : evalChain ev ts2 = ev tbc := funext (fun y => (e3 y).symm)
  rw [this]

/-- **forward_eq_getTransform_ends.** With distinct frame names, the forward transform is the
    transform from the first to the last frame. -/
theorem forward_eq_getTransform_ends (p : Pipeline T) (a b : String) (n : Nat)
    (hlen : p.length = n + 2) (ha : frameIndex p a = .ok 0) (hb : frameIndex p b = .ok (n + 1)) :
    getTransform ops p a b = forwardTransform ops p := by
  have hne : p.isEmpty = false := by cases p <;> simp_all
  unfold getTransform forwardTransform
  simp only [hne, ha, hb, bind, Except.bind, Bool.false_eq_true, if_false]
  rw [if_neg (by omega), if_neg (by omega)]
  congr 2
  have h1 : pySlice p ((0 : Nat) : Int) ((n + 1 : Nat) : Int) = (p.drop 0).take (n + 1 - 0) :=
    pySlice_nat_le p 0 (n + 1) (by omega) (by omega)
  have h2 : pySlice p 0 (-1) = (p.drop 0).take (p.length - 1 - 0) := by
    unfold pySlice pyClamp; simp; omega
  rw [h2, hlen]
  exact h1

/-- **fixInputs_eval.** Wrapping the first step's transform so that it evaluates as the original
    on re-assembled inputs (`ev (wrap t0) x = ev t0 (g x)`) makes the derived pipeline evaluate as
    the original with those inputs held: the remaining steps are kept as they are. -/
theorem fixInputs_eval (hl : Lawful ops ev) (f0 : FrameRef) (t0 t0' : T) (rest : Pipeline T) (g : X → X)
    (hw : ∀ x, ev t0' x = ev t0 (g x)) (t t' : T)
    (h : forwardTransform ops (⟨f0, some t0⟩ :: rest) = .ok (some t))
    (h' : forwardTransform ops (⟨f0, some t0'⟩ :: rest) = .ok (some t')) :
    ∀ x, ev t' x = ev t (g x) := by
  obtain ⟨ts, hts, e⟩ := forward_eq_fold hl _ t h
  obtain ⟨ts', hts', e'⟩ := forward_eq_fold hl _ t' h'
  cases rest with
  | nil =>
    simp [forwardTransform, pySlice, pyClamp, reduceOr] at h
  | cons s r =>
    simp only [between, List.length_cons, List.drop_zero, Nat.sub_zero, Nat.add_sub_cancel,
      List.take_succ_cons, List.map_cons] at hts hts'
    cases ts with
    | nil => simp at hts
    | cons u us =>
      cases ts' with
      | nil => simp at hts'
      | cons u' us' =>
        simp only [List.map_cons, List.cons.injEq, Option.some.injEq] at hts hts'
        have hu : u = t0 := hts.1.symm
        have hu' : u' = t0' := hts'.1.symm
        have hus : us = us' := by
          have := hts.2.symm.trans hts'.2
          exact map_some_inj this
        intro x
        rw [e', e, evalChain_cons, evalChain_cons, hu, hu', hus, hw]

/-- **texpr_lawful.** The driver's transform algebra satisfies the law assumed above. -/
theorem texpr_lawful : Lawful tobjOps (fun (t : TObj) (x : List Rat) => t.e.eval x) := by
  constructor
  intro a b c h x
  simp only [tobjOps, TExpr.mkComp] at h
  split at h
  · simp only [Except.map] at h
    injection h with h; subst h
    simp only [TExpr.eval]
  · cases h

end Gwcs.Pipe
