import GwcsModel.Builders
import GwcsProofs.C20b
import Mathlib.Tactic.Ring
import Mathlib.Tactic.Linarith
import Mathlib.Analysis.SpecialFunctions.Trigonometric.Basic
/-!
# C20 — WCS builders

* `fitswcs_linear_eq_fits`: the transform assembled by `fitswcs_linear` is the FITS Paper I formula
  `x_i = s_i * sum_j m_ij (p_j + 1 - r_j)` on 0-based pixels, `s_i = CDELT_i` for the PC form and 1 for the CD form.
* `order_matters`: scaling before rotation is a different map (the mistake a swapped composition makes).
* `fiducial_anchored_zenithal`: with astropy's Euler-angle convention for `RotateNative2Celestial(lon, lat, lon_pole)`, the native
  pole (the reference point of every zenithal projection) goes to the unit vector of (lon, lat), for every lon_pole.
* `nonzenithal_image`: the native origin (reference point of cylindrical/pseudo-cylindrical projections) goes, with the default
  lon_pole = 0, to (lon + 180, 90 - lat): the full statement fails there (known finding D33).
* `prepended_origin`: with a prepended transform the reference pixel is the pre-image of the native origin.
-/
namespace Gwcs.Builders

theorem fitswcs_linear_eq_fits (l : Lin) (p : Rat × Rat) :
    fitswcsLinear l p =
      ((if l.hasCD then 1 else l.cdelt1) * (l.m11 * (p.1 + 1 - l.crpix1) + l.m12 * (p.2 + 1 - l.crpix2)),
       (if l.hasCD then 1 else l.cdelt2) * (l.m21 * (p.1 + 1 - l.crpix1) + l.m22 * (p.2 + 1 - l.crpix2))) := by
  unfold fitswcsLinear scaling rotation translation
  cases h : l.hasCD
  · simp only [Bool.false_eq_true, ↓reduceIte]
    refine Prod.ext ?_ ?_ <;> simp only <;> ring
  · simp only [↓reduceIte]
    refine Prod.ext ?_ ?_ <;> simp only <;> ring

/-- composing the scaling before the rotation gives a different map as soon as the matrix has an off-diagonal term and the two CDELT differ -/
theorem order_matters :
    ∃ (l : Lin) (p : Rat × Rat), rotation l (scaling l (translation l p)) ≠ scaling l (rotation l (translation l p)) :=
  ⟨⟨1, 1, 0, 1, 1, 0, -1, 1, false⟩, (1, 0), by decide +kernel⟩

theorem lonpole_zenithal (lat : Rat) (h : lat < 90) : lonpoleDefault 0 90 lat = 180 := by
  unfold lonpoleDefault
  simp [not_le.mpr h]

theorem lonpole_at_pole : lonpoleDefault 0 90 90 = 0 := by decide +kernel

/-! ### the sky rotation, over the reals -/

open Real

abbrev V3 := ℝ × ℝ × ℝ

/-- `astropy.coordinates.matrix_utilities.rotation_matrix(a, 'z')` applied to a vector -/
noncomputable def rz (a : ℝ) (v : V3) : V3 := (cos a * v.1 + sin a * v.2.1, -sin a * v.1 + cos a * v.2.1, v.2.2)

/-- `rotation_matrix(a, 'x')` -/
noncomputable def rx (a : ℝ) (v : V3) : V3 := (v.1, cos a * v.2.1 + sin a * v.2.2, -sin a * v.2.1 + cos a * v.2.2)

/-- `RotateNative2Celestial.evaluate`: Euler angles phi = lon_pole - pi/2, theta = -(pi/2 - lat), psi = -(pi/2 + lon), axes 'zxz',
matrix = Rz(psi) . Rx(theta) . Rz(phi)  (all angles in radians) -/
noncomputable def rotN2C (lon lat lonPole : ℝ) (v : V3) : V3 :=
  rz (-(π / 2 + lon)) (rx (-(π / 2 - lat)) (rz (lonPole - π / 2) v))

noncomputable def unitVec (lon lat : ℝ) : V3 := (cos lon * cos lat, sin lon * cos lat, sin lat)

/-- **the native pole maps onto the fiducial**, whatever lon_pole is: zenithal projections are anchored -/
theorem fiducial_anchored_zenithal (lon lat lonPole : ℝ) : rotN2C lon lat lonPole (0, 0, 1) = unitVec lon lat := by
  simp only [rotN2C, rz, rx, unitVec, mul_zero, add_zero, mul_one, zero_add]
  simp only [cos_neg, sin_neg]
  have h1 : cos (π / 2 + lon) = -sin lon := by rw [add_comm, cos_add_pi_div_two]
  have h2 : sin (π / 2 + lon) = cos lon := by rw [add_comm, sin_add_pi_div_two]
  have h3 : cos (π / 2 - lat) = sin lat := cos_pi_div_two_sub lat
  have h4 : sin (π / 2 - lat) = cos lat := sin_pi_div_two_sub lat
  rw [h1, h2, h3, h4]
  refine Prod.ext ?_ (Prod.ext ?_ ?_) <;> simp

/-- the native origin (phi0, theta0) = (0, 0) with the default lon_pole = 0 is sent to (lon + 180, 90 - lat), not to (lon, lat) -/
theorem nonzenithal_image (lon lat : ℝ) :
    rotN2C lon lat 0 (1, 0, 0) = (-(cos lon * sin lat), -(sin lon * sin lat), cos lat) := by
  simp only [rotN2C, rz, rx, mul_zero, add_zero, mul_one, neg_mul, zero_sub]
  simp only [cos_neg, sin_neg, neg_neg]
  have h1 : cos (π / 2 + lon) = -sin lon := by rw [add_comm, cos_add_pi_div_two]
  have h2 : sin (π / 2 + lon) = cos lon := by rw [add_comm, sin_add_pi_div_two]
  have h3 : cos (π / 2 - lat) = sin lat := cos_pi_div_two_sub lat
  have h4 : sin (π / 2 - lat) = cos lat := sin_pi_div_two_sub lat
  rw [h1, h2, h3, h4, cos_pi_div_two, sin_pi_div_two]
  refine Prod.ext ?_ (Prod.ext ?_ ?_) <;> simp

/-- so the full statement is false for such projections: at lat = 0 the image has z = 1, the fiducial has z = 0 -/
theorem nonzenithal_not_anchored : rotN2C 0 0 0 (1, 0, 0) ≠ unitVec 0 0 := by
  rw [nonzenithal_image]
  simp [unitVec]

/-- with a prepended transform, the reference pixel is the pre-image of the native origin -/
theorem prepended_origin {α β γ : Type} (t : α → β) (sky : β → γ) (p0 : α) (o : β) (h : t p0 = o) : (sky ∘ t) p0 = sky o := by
  simp [h]

end Gwcs.Builders
