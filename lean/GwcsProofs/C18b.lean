/-
  C18 (continued): the SIP sampling lattice `_make_sampling_grid` (gwcs/wcs.py) — the same grid helper asked
  for by its number of nodes.  In exact arithmetic the lattice has exactly `npoints` nodes per axis, starts on the lower
  limit and ends on the upper one, for every box (fractional limits included); what the implementation does beyond that
  (one node too many for some float steps) is finding D59, a rounding effect the exact model does not have.
-/
import GwcsProofs.C18a

namespace Gwcs.Grid

theorem samplingStep_eq (n : Nat) (lo hi : Rat) (hn : 2 ≤ n) :
    samplingStep n (lo, hi) = (hi - lo) / ((n : Rat) - 1) := by
  unfold samplingStep
  have h1 : ((n : Rat) - 1) ≠ 0 := by
    have : (2 : Rat) ≤ (n : Rat) := by exact_mod_cast hn
    intro h; linarith
  have h2 : (1 - (n : Rat)) ≠ 0 := by intro h; apply h1; linarith
  show (lo - hi) / (1 - (n : Rat)) = (hi - lo) / ((n : Rat) - 1)
  rw [div_eq_div_iff h2 h1]; ring

theorem samplingStep_pos (n : Nat) (lo hi : Rat) (hn : 2 ≤ n) (h : lo < hi) : 0 < samplingStep n (lo, hi) := by
  rw [samplingStep_eq n lo hi hn]
  have : (2 : Rat) ≤ (n : Rat) := by exact_mod_cast hn
  apply div_pos <;> linarith

/-- **sampling_count.** Exactly `npoints` nodes along every axis, whatever the limits. -/
theorem sampling_count (n : Nat) (lo hi : Rat) (hn : 2 ≤ n) (h : lo < hi) :
    gridCount lo hi (samplingStep n (lo, hi)) = n := by
  have hs := samplingStep_pos n lo hi hn h
  have hn2 : (2 : Rat) ≤ (n : Rat) := by exact_mod_cast hn
  have hq : (hi + samplingStep n (lo, hi) - lo) / samplingStep n (lo, hi) = ((n : Int) : Rat) := by
    rw [div_eq_iff (ne_of_gt hs), samplingStep_eq n lo hi hn]
    have h1 : ((n : Rat) - 1) ≠ 0 := by intro h'; linarith
    push_cast
    field_simp
    ring
  unfold gridCount
  rw [hq]
  have : (((n : Int) : Rat)).ceil = (n : Int) := Rat.ceil_intCast _
  rw [this]; simp

/-- **sampling_ends_on_limits.** The first node is the lower limit and the last node is the upper limit. -/
theorem sampling_ends_on_limits (n : Nat) (lo hi : Rat) (hn : 2 ≤ n) (h : lo < hi) :
    (axisNodes lo hi (samplingStep n (lo, hi)))[0]? = some lo ∧
      (axisNodes lo hi (samplingStep n (lo, hi)))[n - 1]? = some hi := by
  have hc := sampling_count n lo hi hn h
  constructor
  · exact starts_at_lower lo hi _ (samplingStep_pos n lo hi hn h) (le_of_lt h)
  · rw [axisNodes_getElem? lo hi _ (n - 1) (by omega), samplingStep_eq n lo hi hn]
    have hn2 : (2 : Rat) ≤ (n : Rat) := by exact_mod_cast hn
    have h1 : ((n : Rat) - 1) ≠ 0 := by intro h'; linarith
    have : (((n - 1 : Nat) : Int) : Rat) = (n : Rat) - 1 := by
      have : ((n - 1 : Nat) : Int) = (n : Int) - 1 := by omega
      rw [this]; push_cast; ring
    rw [this]
    congr 1
    field_simp
    ring

/-- **sampling_within_box.** Every sampled position lies inside the closed box. -/
theorem sampling_within_box (n : Nat) (lo hi : Rat) (hn : 2 ≤ n) (h : lo < hi) (x : Rat)
    (hx : x ∈ axisNodes lo hi (samplingStep n (lo, hi))) : lo ≤ x ∧ x ≤ hi := by
  have hc := sampling_count n lo hi hn h
  have hs := samplingStep_pos n lo hi hn h
  unfold axisNodes at hx
  rw [hc] at hx
  simp only [List.mem_map, List.mem_range] at hx
  obtain ⟨k, hk, rfl⟩ := hx
  have hk0 : (0 : Rat) ≤ (((k : Nat) : Int) : Rat) := by exact_mod_cast Nat.zero_le k
  have hkn : (((k : Nat) : Int) : Rat) ≤ (n : Rat) - 1 := by
    have : (k : Int) ≤ (n : Int) - 1 := by omega
    have : (((k : Nat) : Int) : Rat) ≤ (((n : Int) - 1 : Int) : Rat) := by exact_mod_cast this
    push_cast at this; exact this
  have hn2 : (2 : Rat) ≤ (n : Rat) := by exact_mod_cast hn
  have h1 : (0 : Rat) < (n : Rat) - 1 := by linarith
  have hstep : samplingStep n (lo, hi) * ((n : Rat) - 1) = hi - lo := by
    rw [samplingStep_eq n lo hi hn]; field_simp
  constructor
  · have := mul_nonneg hk0 (le_of_lt hs); linarith
  · have := mul_le_mul_of_nonneg_right hkn (le_of_lt hs)
    nlinarith

/-- the lattice is the one `samplingAxes` hands to the fit, shifted by the reference pixel (2-D case, no centring) -/
theorem samplingAxes_two (n : Nat) (x y : Rat × Rat) (cx cy : Rat) (hn : 2 ≤ n) (hx : x.1 < x.2) (hy : y.1 < y.2) :
    samplingAxes n [x, y] [cx, cy] =
      .ok [(axisNodes x.1 x.2 (samplingStep n x)).map (· - cx), (axisNodes y.1 y.2 (samplingStep n y)).map (· - cy)] := by
  have cxn := sampling_count n x.1 x.2 hn hx
  have cyn := sampling_count n y.1 y.2 hn hy
  have sx := samplingStep_pos n x.1 x.2 hn hx
  have sy := samplingStep_pos n y.1 y.2 hn hy
  have qx : 0 ≤ ((x.2 + samplingStep n x - x.1) / samplingStep n x).ceil := by
    have : 0 ≤ (x.2 + samplingStep n x - x.1) / samplingStep n x := by
      apply div_nonneg <;> linarith
    have h3 := @Rat.le_ceil ((x.2 + samplingStep n x - x.1) / samplingStep n x)
    have : (0 : Rat) ≤ ((((x.2 + samplingStep n x - x.1) / samplingStep n x).ceil : Int) : Rat) := le_trans this h3
    exact_mod_cast this
  have qy : 0 ≤ ((y.2 + samplingStep n y - y.1) / samplingStep n y).ceil := by
    have : 0 ≤ (y.2 + samplingStep n y - y.1) / samplingStep n y := by
      apply div_nonneg <;> linarith
    have h3 := @Rat.le_ceil ((y.2 + samplingStep n y - y.1) / samplingStep n y)
    have : (0 : Rat) ≤ ((((y.2 + samplingStep n y - y.1) / samplingStep n y).ceil : Int) : Rat) := le_trans this h3
    exact_mod_cast this
  simp [samplingAxes, gridAxes, broadcastStep, limits, Except.map, bind, Except.bind, pure, Except.pure, not_lt.mpr qx, not_lt.mpr qy]

/-- dropping "no centring" (the helper's default edge rule) moves the lattice off the limits as soon as one is fractional:
    the image-edge box (-1/2, 9/2) sampled with 6 nodes no longer starts at -1/2 -/
example : samplingAxes 6 [((-1 : Rat) / 2, 9 / 2), ((-1 : Rat) / 2, 9 / 2)] [0, 0] true ≠
    samplingAxes 6 [((-1 : Rat) / 2, 9 / 2), ((-1 : Rat) / 2, 9 / 2)] [0, 0] false := by decide +kernel

/-- non-vacuity: a fractional box and a node count meeting the hypotheses -/
example : (2 ≤ 8) ∧ ((41 : Rat) / 4 < 4003 / 4) ∧ gridCount (41 / 4) (4003 / 4) (samplingStep 8 (41 / 4, 4003 / 4)) = 8 := by
  decide +kernel

end Gwcs.Grid
