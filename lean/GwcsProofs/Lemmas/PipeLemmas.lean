import GwcsModel.Pipeline

namespace Gwcs.Pipe

/-- apply a list of transforms left to right (errors propagate) -/
def evalChain {T X : Type} (ev : T → X → Except Err X) (l : List T) (x : X) : Except Err X :=
  l.foldlM (fun acc t => ev t acc) x

/-- what is assumed of astropy's `|`: the compound evaluates as "left, then right" -/
structure Lawful {T X : Type} (ops : TOps T) (ev : T → X → Except Err X) : Prop where
  comp_eval : ∀ a b c, ops.comp a b = .ok c → ∀ x, ev c x = (ev a x >>= ev b)

theorem evalChain_cons {T X : Type} (ev : T → X → Except Err X) (a : T) (l : List T) (x : X) :
    evalChain ev (a :: l) x = (ev a x >>= evalChain ev l) := by
  unfold evalChain; rw [List.foldlM_cons]

theorem evalChain_append {T X : Type} (ev : T → X → Except Err X) (l₁ l₂ : List T) (x : X) :
    evalChain ev (l₁ ++ l₂) x = (evalChain ev l₁ x >>= evalChain ev l₂) := by
  unfold evalChain; rw [List.foldlM_append]

theorem foldlM_pyOr_some {T X : Type} {ops : TOps T} {ev : T → X → Except Err X} (hl : Lawful ops ev) :
    ∀ (r : List (Option T)) (a t : T), r.foldlM (pyOr ops) (some a) = .ok (some t) →
      ∃ ts : List T, r = ts.map some ∧ ∀ x, ev t x = (ev a x >>= evalChain ev ts)
  | [], a, t, h => by
    simp only [List.foldlM_nil, pure, Except.pure] at h
    injection h with h; injection h with h; subst h
    exact ⟨[], rfl, fun x => by
      show ev a x = (ev a x >>= fun y => pure y)
      cases ev a x <;> rfl⟩
  | b :: r, a, t, h => by
    rw [List.foldlM_cons] at h
    cases b with
    | none => simp [pyOr, bind, Except.bind] at h
    | some b =>
      cases hc : ops.comp a b with
      | error e => simp [pyOr, hc, bind, Except.bind, Except.map] at h
      | ok c =>
        simp only [pyOr, hc, Except.map, bind, Except.bind] at h
        obtain ⟨ts, hr, hev⟩ := foldlM_pyOr_some hl r c t h
        refine ⟨b :: ts, by simp [hr], fun x => ?_⟩
        rw [hev x, hl.comp_eval a b c hc x]
        have : evalChain ev (b :: ts) = fun y => ev b y >>= evalChain ev ts := funext (evalChain_cons ev b ts)
        rw [this]
        cases ev a x <;> rfl

theorem foldlM_pyOr_none_absorb {T : Type} (ops : TOps T) :
    ∀ (r : List (Option T)) (t : Option T), r ≠ [] → r.foldlM (pyOr ops) none ≠ .ok t
  | [], _, h => absurd rfl h
  | b :: r, t, _ => by
    rw [List.foldlM_cons]
    simp [pyOr, bind, Except.bind]

/-- `reduce(|)` over a list of optional transforms: if it yields a transform, every element was a
    transform and the result evaluates as the chain. -/
theorem reduceOr_some {T X : Type} {ops : TOps T} {ev : T → X → Except Err X} (hl : Lawful ops ev)
    (l : List (Option T)) (t : T) (h : reduceOr ops l = .ok (some t)) :
    ∃ ts : List T, l = ts.map some ∧ ∀ x, ev t x = evalChain ev ts x := by
  cases l with
  | nil => simp [reduceOr] at h
  | cons a r =>
    simp only [reduceOr] at h
    cases a with
    | none =>
      cases r with
      | nil => simp [List.foldlM_nil, pure, Except.pure] at h
      | cons b r => exact absurd h (foldlM_pyOr_none_absorb ops (b :: r) _ (by simp))
    | some a =>
      obtain ⟨ts, hr, hev⟩ := foldlM_pyOr_some hl r a t h
      exact ⟨a :: ts, by simp [hr], fun x => by rw [hev x, evalChain_cons]⟩

theorem pySlice_nat {α} (l : List α) (i j : Nat) : pySlice l (i : Int) (j : Int) = (l.drop (min i l.length)).take (min j l.length - min i l.length) := by
  unfold pySlice pyClamp
  simp

theorem pySlice_nat_le {α} (l : List α) (i j : Nat) (hi : i ≤ l.length) (hj : j ≤ l.length) :
    pySlice l (i : Int) (j : Int) = (l.drop i).take (j - i) := by
  rw [pySlice_nat, Nat.min_eq_left hi, Nat.min_eq_left hj]

theorem map_some_inj {α} : ∀ {l₁ l₂ : List α}, l₁.map some = l₂.map some → l₁ = l₂
  | [], [], _ => rfl
  | [], _ :: _, h => by simp at h
  | _ :: _, [], h => by simp at h
  | a :: l₁, b :: l₂, h => by
    simp only [List.map_cons, List.cons.injEq, Option.some.injEq] at h
    rw [h.1, map_some_inj h.2]

theorem frameIndex_spec {T} (p : Pipeline T) (a : String) (i : Nat) (h : frameIndex p a = .ok i) :
    ∃ hlt : i < (names p).length, (names p)[i] = a ∧ ∀ j (hj : j < i), (names p)[j] ≠ a := by
  unfold frameIndex at h
  split at h
  · rename_i k hk
    injection h with h; subst h
    obtain ⟨hlt, h1, h2⟩ := List.idxOf?_eq_some_iff.mp hk
    exact ⟨hlt, h1, fun j hj => h2 j hj⟩
  · cases h

theorem frameIndex_lt {T} (p : Pipeline T) (a : String) (i : Nat) (h : frameIndex p a = .ok i) : i < p.length := by
  obtain ⟨hlt, _⟩ := frameIndex_spec p a i h
  simpa [names] using hlt

end Gwcs.Pipe
