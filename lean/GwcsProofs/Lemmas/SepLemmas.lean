import GwcsModel.Api

namespace Gwcs.TExpr

/-- terms of the separability claim: everything except `fix_inputs` wrappers -/
def plain : TExpr → Bool
  | comp l r => l.plain && r.plain
  | stack l r => l.plain && r.plain
  | withInv e _ => e.plain
  | fixin _ _ => false
  | _ => true

theorem mapM_lookup_length (xs : List Rat) : ∀ (idx : List Nat) (ys : List Rat),
    idx.mapM (fun i => match xs[i]? with | some v => (Except.ok v : Except Err Rat) | none => .error .indexErr) = .ok ys →
    ys.length = idx.length ∧ ∀ i : Nat, ys[i]? = (idx[i]?).bind (fun k : Nat => xs[k]?)
  | [], ys, h => by
    simp only [List.mapM_nil, pure, Except.pure] at h
    injection h with h; subst h; simp
  | k :: idx, ys, h => by
    rw [List.mapM_cons] at h
    cases hk : xs[k]? with
    | none => simp [hk, bind, Except.bind] at h
    | some v =>
      cases hr : idx.mapM (fun i => match xs[i]? with | some v => (Except.ok v : Except Err Rat) | none => .error .indexErr) with
      | error e => simp [hk, hr, bind, Except.bind] at h
      | ok ys' =>
        simp only [hk, hr, bind, Except.bind, pure, Except.pure] at h
        injection h with h; subst h
        obtain ⟨hl, hi⟩ := mapM_lookup_length xs idx ys' hr
        refine ⟨by simp [hl], ?_⟩
        intro i
        cases i with
        | zero => simp [hk]
        | succ i => simpa using hi i

/-- evaluation respects the declared arities -/
theorem eval_length : ∀ (e : TExpr) (x y : List Rat), e.eval x = .ok y → x.length = e.nin ∧ y.length = e.nout
  | shift c, x, y, h => by
    match x, h with
    | [a], h => simp only [eval] at h; injection h with h; subst h; simp [nin, nout]
    | [], h => simp [eval] at h
    | _ :: _ :: _, h => simp [eval] at h
  | scale c, x, y, h => by
    match x, h with
    | [a], h => simp only [eval] at h; injection h with h; subst h; simp [nin, nout]
    | [], h => simp [eval] at h
    | _ :: _ :: _, h => simp [eval] at h
  | poly1 c0 c1, x, y, h => by
    match x, h with
    | [a], h => simp only [eval] at h; injection h with h; subst h; simp [nin, nout]
    | [], h => simp [eval] at h
    | _ :: _ :: _, h => simp [eval] at h
  | poly2 a b c, x, y, h => by
    match x, h with
    | [u, v], h => simp only [eval] at h; injection h with h; subst h; simp [nin, nout]
    | [], h => simp [eval] at h
    | [_], h => simp [eval] at h
    | _ :: _ :: _ :: _, h => simp [eval] at h
  | identity n, x, y, h => by
    simp only [eval] at h
    split at h
    · injection h with h; subst h; simp [nin, nout, *]
    · cases h
  | mapping n idx, x, y, h => by
    simp only [eval] at h
    split at h
    · rename_i hl
      obtain ⟨hlen, _⟩ := mapM_lookup_length x idx y h
      simp [nin, nout, hl, hlen]
    · cases h
  | comp l r, x, y, h => by
    simp only [eval, bind, Except.bind] at h
    cases hl : l.eval x with
    | error e => simp [hl] at h
    | ok m =>
      simp only [hl] at h
      exact ⟨(eval_length l x m hl).1, (eval_length r m y h).2⟩
  | stack l r, x, y, h => by
    simp only [eval] at h
    split at h
    · rename_i hlen
      simp only [bind, Except.bind] at h
      cases ha : l.eval (x.take l.nin) with
      | error e => simp [ha] at h
      | ok a =>
        cases hb : r.eval (x.drop l.nin) with
        | error e => simp [ha, hb] at h
        | ok b =>
          simp only [ha, hb, pure, Except.pure] at h
          injection h with h; subst h
          have h1 := (eval_length l _ a ha).2
          have h2 := (eval_length r _ b hb).2
          simp [nin, nout, hlen, h1, h2]
    · cases h
  | withInv e inv, x, y, h => by
    simp only [eval] at h
    simpa [nin, nout] using eval_length e x y h
  | fixin e fixed, x, y, h => by
    simp only [eval] at h
    split at h
    · rename_i hlen
      refine ⟨by simp [nin]; omega, ?_⟩
      simpa [nout] using (eval_length e _ y h).2
    · cases h

end Gwcs.TExpr

namespace Gwcs.TExpr

theorem leaf1_sound (f : Rat → Rat) (x x' : List Rat) (y y' : List Rat) (i : Nat)
    (hx : ∃ a, x = [a] ∧ y = [f a]) (hx' : ∃ a, x' = [a] ∧ y' = [f a])
    (hag : ∀ j, ((i == 0) && (j == 0)) = true → x[j]? = x'[j]?) : y[i]? = y'[i]? := by
  obtain ⟨a, rfl, rfl⟩ := hx
  obtain ⟨a', rfl, rfl⟩ := hx'
  cases i with
  | zero =>
    have := hag 0 (by simp)
    simp at this; simp [this]
  | succ i => simp

/-- **separability soundness.** If astropy's matrix says output `i` does not depend on input `j`,
    then two inputs that agree on every input `i` *may* depend on give the same output `i`. -/
theorem dep_sound : ∀ (e : TExpr), e.plain = true → ∀ (x x' y y' : List Rat) (i : Nat),
    e.eval x = .ok y → e.eval x' = .ok y' → (∀ j, e.dep i j = true → x[j]? = x'[j]?) → y[i]? = y'[i]?
  | shift c, _, x, x', y, y', i, h, h', hag => by
    apply leaf1_sound (fun a => a + c) x x' y y' i _ _ (by simpa [dep] using hag)
    · match x, h with
      | [a], h => simp only [eval] at h; injection h with h; exact ⟨a, rfl, h.symm⟩
      | [], h => simp [eval] at h
      | _ :: _ :: _, h => simp [eval] at h
    · match x', h' with
      | [a], h => simp only [eval] at h; injection h with h; exact ⟨a, rfl, h.symm⟩
      | [], h => simp [eval] at h
      | _ :: _ :: _, h => simp [eval] at h
  | scale c, _, x, x', y, y', i, h, h', hag => by
    apply leaf1_sound (fun a => a * c) x x' y y' i _ _ (by simpa [dep] using hag)
    · match x, h with
      | [a], h => simp only [eval] at h; injection h with h; exact ⟨a, rfl, h.symm⟩
      | [], h => simp [eval] at h
      | _ :: _ :: _, h => simp [eval] at h
    · match x', h' with
      | [a], h => simp only [eval] at h; injection h with h; exact ⟨a, rfl, h.symm⟩
      | [], h => simp [eval] at h
      | _ :: _ :: _, h => simp [eval] at h
  | poly1 c0 c1, _, x, x', y, y', i, h, h', hag => by
    apply leaf1_sound (fun a => c0 + c1 * a) x x' y y' i _ _ (by simpa [dep] using hag)
    · match x, h with
      | [a], h => simp only [eval] at h; injection h with h; exact ⟨a, rfl, h.symm⟩
      | [], h => simp [eval] at h
      | _ :: _ :: _, h => simp [eval] at h
    · match x', h' with
      | [a], h => simp only [eval] at h; injection h with h; exact ⟨a, rfl, h.symm⟩
      | [], h => simp [eval] at h
      | _ :: _ :: _, h => simp [eval] at h
  | poly2 a b c, _, x, x', y, y', i, h, h', hag => by
    match x, x', h, h' with
    | [u, v], [u', v'], h, h' =>
      simp only [eval] at h h'
      injection h with h; injection h' with h'; subst h; subst h'
      cases i with
      | zero =>
        have h0 := hag 0 (by simp [dep])
        have h1 := hag 1 (by simp [dep])
        simp at h0 h1; simp [h0, h1]
      | succ i => simp
    | [], _, h, _ => simp [eval] at h
    | [_], _, h, _ => simp [eval] at h
    | _ :: _ :: _ :: _, _, h, _ => simp [eval] at h
    | [_, _], [], _, h' => simp [eval] at h'
    | [_, _], [_], _, h' => simp [eval] at h'
    | [_, _], _ :: _ :: _ :: _, _, h' => simp [eval] at h'
  | identity n, _, x, x', y, y', i, h, h', hag => by
    simp only [eval] at h h'
    split at h
    · rename_i hl
      split at h'
      · rename_i hl'
        injection h with h; injection h' with h'; subst h; subst h'
        by_cases hi : i < n
        · exact hag i (by simp [dep, hi])
        · rw [List.getElem?_eq_none (by omega), List.getElem?_eq_none (by omega)]
      · cases h'
    · cases h
  | mapping n idx, _, x, x', y, y', i, h, h', hag => by
    simp only [eval] at h h'
    split at h
    · split at h'
      · obtain ⟨_, hy⟩ := mapM_lookup_length x idx y h
        obtain ⟨_, hy'⟩ := mapM_lookup_length x' idx y' h'
        rw [hy i, hy' i]
        cases hk : idx[i]? with
        | none => rfl
        | some k =>
          simp only [Option.bind_some]
          exact hag k (by simp [dep, hk])
      · cases h'
    · cases h
  | comp l r, hp, x, x', y, y', i, h, h', hag => by
    simp only [plain, Bool.and_eq_true] at hp
    simp only [eval, bind, Except.bind] at h h'
    cases hl : l.eval x with
    | error e => simp [hl] at h
    | ok m =>
      cases hl' : l.eval x' with
      | error e => simp [hl'] at h'
      | ok m' =>
        simp only [hl] at h
        simp only [hl'] at h'
        have hmlen := (eval_length l x m hl).2
        have hmlen' := (eval_length l x' m' hl').2
        apply dep_sound r hp.2 m m' y y' i h h'
        intro k hk
        by_cases hkn : k < l.nout
        · apply dep_sound l hp.1 x x' m m' k hl hl'
          intro j hj
          apply hag j
          simp only [dep, List.any_eq_true, List.mem_range]
          exact ⟨k, hkn, by simp [hk, hj]⟩
        · rw [List.getElem?_eq_none (by omega), List.getElem?_eq_none (by omega)]
  | stack l r, hp, x, x', y, y', i, h, h', hag => by
    simp only [plain, Bool.and_eq_true] at hp
    simp only [eval] at h h'
    split at h
    · rename_i hlen
      split at h'
      · rename_i hlen'
        simp only [bind, Except.bind] at h h'
        cases ha : l.eval (x.take l.nin) with
        | error e => simp [ha] at h
        | ok a =>
          cases hb : r.eval (x.drop l.nin) with
          | error e => simp [ha, hb] at h
          | ok b =>
            cases ha' : l.eval (x'.take l.nin) with
            | error e => simp [ha'] at h'
            | ok a' =>
              cases hb' : r.eval (x'.drop l.nin) with
              | error e => simp [ha', hb'] at h'
              | ok b' =>
                simp only [ha, hb, pure, Except.pure] at h
                simp only [ha', hb', pure, Except.pure] at h'
                injection h with h; injection h' with h'; subst h; subst h'
                have hal := (eval_length l _ a ha).2
                have hal' := (eval_length l _ a' ha').2
                by_cases hi : i < l.nout
                · rw [List.getElem?_append_left (by omega), List.getElem?_append_left (by omega)]
                  apply dep_sound l hp.1 _ _ a a' i ha ha'
                  intro j hj
                  by_cases hjn : j < l.nin
                  · rw [List.getElem?_take, List.getElem?_take]
                    simp only [hjn, if_true]
                    exact hag j (by simp [dep, hi, hjn, hj])
                  · rw [List.getElem?_eq_none (by simp; omega), List.getElem?_eq_none (by simp; omega)]
                · rw [List.getElem?_append_right (by omega), List.getElem?_append_right (by omega), hal, hal']
                  apply dep_sound r hp.2 _ _ b b' (i - l.nout) hb hb'
                  intro j hj
                  rw [List.getElem?_drop, List.getElem?_drop]
                  apply hag (l.nin + j)
                  simp only [dep, hi, if_false]
                  have : l.nin + j - l.nin = j := by omega
                  simp [this, hj]
      · cases h'
    · cases h
  | withInv e inv, hp, x, x', y, y', i, h, h', hag => by
    simp only [plain] at hp
    simp only [eval] at h h'
    exact dep_sound e hp x x' y y' i h h' (by simpa [dep] using hag)
  | fixin e fixed, hp, _, _, _, _, _, _, _, _ => by simp [plain] at hp

end Gwcs.TExpr
