import GwcsModel.Polygon

namespace Gwcs.Poly

/-- number of list elements strictly below `p` -/
def cntLt (l : List Int) (p : Int) : Nat := l.countP (fun c => decide (c < p))

theorem markedBy_cons2 (a b : Int) (r : List Int) (p : Int) :
    markedBy (a :: b :: r) p = (decide (a ≤ p ∧ p ≤ b) || markedBy r p) := by
  simp [markedBy, pairs]

theorem mem_pySlice_range (n : Nat) (a b : Int) (ha : 0 ≤ a) (hb : 0 ≤ b) (c : Nat) :
    c ∈ pySlice (List.range n) a b ↔ (a ≤ c ∧ (c : Int) < b ∧ c < n) := by
  unfold pySlice pyClamp
  simp only [ha, hb, if_true, List.length_range]
  rw [List.range_eq_range', List.drop_range',
    List.take_range'_of_length_ge (by omega), List.mem_range'_1]
  omega

theorem cntLt_zero_of_le (r : List Int) (p : Int) (h : ∀ c ∈ r, p ≤ c) : cntLt r p = 0 := by
  unfold cntLt
  rw [List.countP_eq_zero]
  intro c hc
  have := h c hc
  simp; omega

theorem cntLt_cons (a : Int) (r : List Int) (p : Int) :
    cntLt (a :: r) p = cntLt r p + (if a < p then 1 else 0) := by
  unfold cntLt
  rw [List.countP_cons]
  simp

theorem cntLt_perm {l₁ l₂ : List Int} (h : l₁.Perm l₂) (p : Int) : cntLt l₁ p = cntLt l₂ p := by
  unfold cntLt; exact h.countP_eq _

theorem sortInts_perm (l : List Int) : (sortInts l).Perm l := List.mergeSort_perm _ _

theorem sortInts_sorted (l : List Int) : (sortInts l).Pairwise (· ≤ ·) := by
  have := List.pairwise_mergeSort (le := fun a b : Int => decide (a ≤ b))
    (by intro a b c; simp; omega) (by intro a b; simp; omega) l
  unfold sortInts
  simpa using this

theorem sortInts_eq_of_perm {l₁ l₂ : List Int} (h : l₁.Perm l₂) : sortInts l₁ = sortInts l₂ := by
  apply List.Perm.eq_of_pairwise (le := fun a b : Int => a ≤ b)
  · intro a b _ _ h1 h2; omega
  · exact sortInts_sorted _
  · exact sortInts_sorted _
  · exact (sortInts_perm l₁).trans (h.trans (sortInts_perm l₂).symm)

end Gwcs.Poly

namespace Gwcs.Poly

/-- the integer the scan uses for an exact abscissa `x` with slack `s` -/
def cOf (xs : Rat × Int) : Int := xs.1.ceil + xs.2

/-- slack is 0, or 1 at an exactly integral abscissa -/
def admissible (xs : Rat × Int) : Prop := xs.2 = 0 ∨ (xs.2 = 1 ∧ (xs.1.floor : Rat) = xs.1)

/-- number of exact abscissae strictly left of the integer `p` -/
def cntLtQ (l : List (Rat × Int)) (p : Int) : Nat := l.countP (fun xs => decide (xs.1 < (p : Rat)))

theorem cOf_near (xs : Rat × Int) (h : admissible xs) :
    0 ≤ ((cOf xs : Int) : Rat) - xs.1 ∧ ((cOf xs : Int) : Rat) - xs.1 ≤ 1 := by
  obtain ⟨x, s⟩ := xs
  unfold cOf
  rcases h with h | ⟨h, hi⟩
  · simp only at h ⊢; subst h
    have h1 := @Rat.le_ceil x
    have h2 := @Rat.ceil_lt x
    simp only [Int.add_zero]
    constructor <;> grind
  · simp only at h hi ⊢; subst h
    have : x.ceil = x.floor := by
      rw [← hi]; simp
    rw [this]
    have : ((x.floor + 1 : Int) : Rat) = (x.floor : Rat) + 1 := by simp [Rat.intCast_add]
    rw [this, hi]
    constructor <;> grind

theorem cOf_lt_iff (xs : Rat × Int) (p : Int) (h : admissible xs) (hc : cOf xs ≠ p) (hx : xs.1 ≠ (p : Rat)) :
    cOf xs < p ↔ xs.1 < (p : Rat) := by
  obtain ⟨x, s⟩ := xs
  unfold cOf at *
  rcases h with h | ⟨h, hi⟩
  · simp only at h hc hx ⊢; subst h
    simp only [Int.add_zero] at hc ⊢
    have key : x.ceil ≤ p ↔ x ≤ (p : Rat) := Rat.ceil_le_iff
    constructor
    · intro hlt
      have : x ≤ (p : Rat) := key.mp (by omega)
      grind
    · intro hlt
      have : x.ceil ≤ p := key.mpr (by grind)
      omega
  · simp only at h hi hc hx ⊢; subst h
    have hce : x.ceil = x.floor := by
      rw [← hi]; simp
    rw [hce] at hc ⊢
    have hxp : x.floor ≠ p := by
      intro he; apply hx; rw [← hi, he]
    constructor
    · intro hlt
      rw [← hi]
      have : x.floor < p := by omega
      exact_mod_cast this
    · intro hlt
      rw [← hi] at hlt
      have : x.floor < p := by exact_mod_cast hlt
      omega

theorem cntLt_map_cOf (l : List (Rat × Int)) (p : Int) (hadm : ∀ xs ∈ l, admissible xs)
    (hc : p ∉ l.map cOf) (hx : ∀ xs ∈ l, xs.1 ≠ (p : Rat)) :
    cntLt (l.map cOf) p = cntLtQ l p := by
  unfold cntLt cntLtQ
  rw [List.countP_map]
  apply List.countP_congr
  intro xs hm
  have hne : cOf xs ≠ p := fun he => hc (by rw [← he]; exact List.mem_map_of_mem hm)
  have := cOf_lt_iff xs p (hadm xs hm) hne (hx xs hm)
  simp [this]

end Gwcs.Poly

namespace Gwcs.Poly

theorem lo_cond (e : Edge) (y : Int) :
    (e.ymin ≤ y ∧ y < e.ymax) ↔ (decide (e.sy ≤ y) != decide (e.ey ≤ y)) = true := by
  unfold Edge.ymin Edge.ymax
  by_cases h1 : e.sy ≤ y <;> by_cases h2 : e.ey ≤ y <;> simp [h1, h2] <;> omega

theorem hi_cond (e : Edge) (y : Int) :
    (e.ymin < y ∧ y ≤ e.ymax) ↔ (decide (e.sy < y) != decide (e.ey < y)) = true := by
  unfold Edge.ymin Edge.ymax
  by_cases h1 : e.sy < y <;> by_cases h2 : e.ey < y <;> simp [h1, h2] <;> omega

/-- Parity of the number of sign changes of a Boolean along a vertex chain. -/
theorem chain_parity (b : Pt → Bool) : ∀ (a : Pt) (r : List Pt),
    ((edgesOf (a :: r)).countP (fun e => b ⟨e.sx, e.sy⟩ != b ⟨e.ex, e.ey⟩)) % 2 =
      if b a = b ((a :: r).getLast (by simp)) then 0 else 1
  | a, [] => by simp [edgesOf]
  | a, c :: r => by
    have ih := chain_parity b c r
    rw [edgesOf, List.countP_cons]
    have hl : (a :: c :: r).getLast (by simp) = (c :: r).getLast (by simp) := by simp [List.getLast_cons]
    rw [hl]
    cases hba : b a <;> cases hbc : b c <;> cases hbl : b ((c :: r).getLast (by simp)) <;>
      simp [hba, hbc, hbl] at ih ⊢ <;> omega

end Gwcs.Poly

namespace Gwcs.Poly

/-! ### translation -/

def Edge.shift (dx dy : Int) (e : Edge) : Edge := ⟨e.sx + dx, e.sy + dy, e.ex + dx, e.ey + dy⟩

theorem edgesOf_translate (dx dy : Int) : ∀ v : List Pt,
    edgesOf (translate dx dy v) = (edgesOf v).map (Edge.shift dx dy)
  | [] => by simp [translate, edgesOf]
  | [a] => by simp [translate, edgesOf]
  | a :: b :: r => by
    have ih := edgesOf_translate dx dy (b :: r)
    simp only [translate, List.map_cons] at ih ⊢
    simp only [edgesOf, List.map_cons, ih]
    rfl

theorem shift_ymin (dx dy : Int) (e : Edge) : (e.shift dx dy).ymin = e.ymin + dy := by
  unfold Edge.shift Edge.ymin; simp only; omega

theorem shift_ymax (dx dy : Int) (e : Edge) : (e.shift dx dy).ymax = e.ymax + dy := by
  unfold Edge.shift Edge.ymax; simp only; omega

theorem shift_xAt (dx dy : Int) (e : Edge) (y : Int) :
    (e.shift dx dy).xAt (y + dy) = e.xAt y + (dx : Rat) := by
  unfold Edge.shift Edge.xAt
  simp only
  have h1 : y + dy - (e.sy + dy) = y - e.sy := by omega
  have h2 : e.ex + dx - (e.sx + dx) = e.ex - e.sx := by omega
  have h3 : e.ey + dy - (e.sy + dy) = e.ey - e.sy := by omega
  rw [h1, h2, h3, Rat.intCast_add]
  grind

theorem activeLo_shift (dx dy : Int) (es : List Edge) (y : Int) :
    activeLo (es.map (Edge.shift dx dy)) (y + dy) = (activeLo es y).map (Edge.shift dx dy) := by
  unfold activeLo
  rw [List.filter_map]
  congr 1
  apply List.filter_congr
  intro e _
  simp only [Function.comp, shift_ymin, shift_ymax]
  have : (e.ymin + dy ≤ y + dy ∧ y + dy < e.ymax + dy) ↔ (e.ymin ≤ y ∧ y < e.ymax) := by omega
  simp [this]

theorem foldl_min_shift (f : Pt → Int) (g : Pt → Int) (d : Int) (hfg : ∀ p, g p = f p + d) :
    ∀ (v : List Pt) (i : Int),
      v.foldl (fun m p => min m (g p)) (i + d) = v.foldl (fun m p => min m (f p)) i + d
  | [], i => rfl
  | a :: r, i => by
    simp only [List.foldl_cons]
    have : min (i + d) (g a) = min i (f a) + d := by rw [hfg]; omega
    rw [this, foldl_min_shift f g d hfg r]

theorem foldl_max_shift (f : Pt → Int) (g : Pt → Int) (d : Int) (hfg : ∀ p, g p = f p + d) :
    ∀ (v : List Pt) (i : Int),
      v.foldl (fun m p => max m (g p)) (i + d) = v.foldl (fun m p => max m (f p)) i + d
  | [], i => rfl
  | a :: r, i => by
    simp only [List.foldl_cons]
    have : max (i + d) (g a) = max i (f a) + d := by rw [hfg]; omega
    rw [this, foldl_max_shift f g d hfg r]

theorem foldl_map_pt (h : Pt → Pt) (op : Int → Int → Int) (f : Pt → Int) : ∀ (v : List Pt) (i : Int),
    (v.map h).foldl (fun m p => op m (f p)) i = v.foldl (fun m p => op m (f (h p))) i
  | [], i => rfl
  | a :: r, i => by simp only [List.map_cons, List.foldl_cons]; exact foldl_map_pt h op f r _

theorem minX_translate (dx dy : Int) (v : List Pt) (i : Int) :
    minX (translate dx dy v) (i + dx) = minX v i + dx := by
  unfold minX translate
  rw [foldl_map_pt _ min (fun p => p.x)]
  exact foldl_min_shift (fun p => p.x) _ dx (fun p => rfl) v i

theorem minY_translate (dx dy : Int) (v : List Pt) (i : Int) :
    minY (translate dx dy v) (i + dy) = minY v i + dy := by
  unfold minY translate
  rw [foldl_map_pt _ min (fun p => p.y)]
  exact foldl_min_shift (fun p => p.y) _ dy (fun p => rfl) v i

theorem maxX_translate (dx dy : Int) (v : List Pt) (i : Int) :
    maxX (translate dx dy v) (i + dx) = maxX v i + dx := by
  unfold maxX translate
  rw [foldl_map_pt _ max (fun p => p.x)]
  exact foldl_max_shift (fun p => p.x) _ dx (fun p => rfl) v i

theorem maxY_translate (dx dy : Int) (v : List Pt) (i : Int) :
    maxY (translate dx dy v) (i + dy) = maxY v i + dy := by
  unfold maxY translate
  rw [foldl_map_pt _ max (fun p => p.y)]
  exact foldl_max_shift (fun p => p.y) _ dy (fun p => rfl) v i

theorem pairs_map_add (d : Int) : ∀ l : List Int,
    pairs (l.map (· + d)) = (pairs l).map (fun ij => (ij.1 + d, ij.2 + d))
  | [] => rfl
  | [a] => rfl
  | a :: b :: r => by simp [pairs, pairs_map_add d r]

theorem markedBy_map_add (d : Int) (l : List Int) (p : Int) :
    markedBy (l.map (· + d)) (p + d) = markedBy l p := by
  unfold markedBy
  rw [pairs_map_add, List.any_map]
  congr 1
  funext ij
  simp only [Function.comp]
  have : (ij.1 + d ≤ p + d ∧ p + d ≤ ij.2 + d) ↔ (ij.1 ≤ p ∧ p ≤ ij.2) := by omega
  simp [this]

theorem sortInts_map_add (d : Int) (l : List Int) :
    sortInts (l.map (· + d)) = (sortInts l).map (· + d) := by
  apply List.Perm.eq_of_pairwise (le := fun a b : Int => a ≤ b)
  · intro a b _ _ h1 h2; omega
  · exact sortInts_sorted _
  · have := sortInts_sorted l
    rw [List.pairwise_map]
    exact this.imp (by intro a b h; omega)
  · exact (sortInts_perm _).trans ((sortInts_perm l).symm.map _)

end Gwcs.Poly

namespace Gwcs.Poly

/-! ### incremental Active Edge Table -/

theorem filter_disjoint_perm {α} (p q : α → Bool) (hd : ∀ a, ¬ (p a = true ∧ q a = true)) :
    ∀ l : List α, (l.filter p ++ l.filter q).Perm (l.filter (fun a => p a || q a))
  | [] => by simp
  | a :: l => by
    have ih := filter_disjoint_perm p q hd l
    cases hp : p a <;> cases hq : q a
    · simpa [List.filter_cons, hp, hq] using ih
    · simp only [List.filter_cons, hp, hq, Bool.false_or, if_true]
      exact List.perm_middle.trans (ih.cons a)
    · simp only [List.filter_cons, hp, hq, Bool.or_false, if_true, List.cons_append]
      exact ih.cons a
    · exact absurd ⟨hp, hq⟩ (hd a)

theorem updateAET_perm (es : List Edge) (y : Int) (prev : List Edge)
    (hprev : prev.Perm (activeLo es (y - 1))) : (updateAET es y prev).Perm (activeLo es y) := by
  unfold updateAET
  rw [List.filter_append]
  have h1 : (prev.filter (fun e => decide (e.ymax ≠ y))).Perm
      (es.filter (fun e => decide (e.ymin < y ∧ y < e.ymax))) := by
    refine (hprev.filter _).trans ?_
    unfold activeLo
    rw [List.filter_filter]
    apply List.Perm.of_eq
    apply List.filter_congr
    intro e _
    have : (e.ymax ≠ y ∧ (e.ymin ≤ y - 1 ∧ y - 1 < e.ymax)) ↔ (e.ymin < y ∧ y < e.ymax) := by omega
    simp only [← Bool.decide_and, this]
  have h2 : ((es.filter (fun e => decide (e.sy ≠ e.ey ∧ e.ymin = y))).filter (fun e => decide (e.ymax ≠ y))) =
      es.filter (fun e => decide (e.ymin = y ∧ y < e.ymax)) := by
    rw [List.filter_filter]
    apply List.filter_congr
    intro e _
    have : (e.ymax ≠ y ∧ (e.sy ≠ e.ey ∧ e.ymin = y)) ↔ (e.ymin = y ∧ y < e.ymax) := by
      unfold Edge.ymin Edge.ymax; omega
    simp only [← Bool.decide_and, this]
  rw [h2]
  refine (h1.append_right _).trans ?_
  refine (filter_disjoint_perm _ _ (by intro e; simp; omega) es).trans ?_
  unfold activeLo
  apply List.Perm.of_eq
  apply List.filter_congr
  intro e _
  have : ((e.ymin < y ∧ y < e.ymax) ∨ (e.ymin = y ∧ y < e.ymax)) ↔ (e.ymin ≤ y ∧ y < e.ymax) := by omega
  simp only [← Bool.decide_or, this]

theorem activeLo_below_nil (es : List Edge) (ybot y : Int) (hb : ∀ e ∈ es, ybot ≤ e.ymin) (hy : y < ybot) :
    activeLo es y = [] := by
  unfold activeLo
  rw [List.filter_eq_nil_iff]
  intro e he
  have := hb e he
  simp; omega

theorem aetLoop_perm (es : List Edge) (ybot ytop : Int) (hb : ∀ e ∈ es, ybot ≤ e.ymin) :
    ∀ k : Nat, (aetLoop es ybot ytop k).Perm
      (if ybot + (k : Int) < ytop then activeLo es (ybot + k) else
        if ybot < ytop then activeLo es (ytop - 1) else [])
  | 0 => by
    unfold aetLoop
    by_cases h : ybot < ytop
    · have h' : ybot + ((0 : Nat) : Int) < ytop := by simpa using h
      rw [if_pos h, if_pos h']
      have := updateAET_perm es ybot [] (by rw [activeLo_below_nil es ybot _ hb (by omega)])
      simpa using this
    · have h' : ¬ ybot + ((0 : Nat) : Int) < ytop := by simpa using h
      rw [if_neg h, if_neg h', if_neg h]
  | k + 1 => by
    have ih := aetLoop_perm es ybot ytop hb k
    unfold aetLoop
    simp only
    by_cases h : ybot + ((k + 1 : Nat) : Int) < ytop
    · rw [if_pos h, if_pos h]
      have hk : ybot + (k : Int) < ytop := by omega
      rw [if_pos hk] at ih
      apply updateAET_perm
      have : ybot + ((k + 1 : Nat) : Int) - 1 = ybot + (k : Int) := by omega
      rw [this]; exact ih
    · rw [if_neg h, if_neg h]
      by_cases hk : ybot + (k : Int) < ytop
      · rw [if_pos hk] at ih
        have h1 : ybot < ytop := by omega
        rw [if_pos h1]
        have : ytop - 1 = ybot + (k : Int) := by omega
        rw [this]; exact ih
      · rw [if_neg hk] at ih; exact ih

/-- every edge of the chain joins two of its vertices -/
theorem edgesOf_endpoints : ∀ (v : List Pt) (e : Edge), e ∈ edgesOf v →
    (∃ p ∈ v, e.sy = p.y ∧ e.sx = p.x) ∧ (∃ q ∈ v, e.ey = q.y ∧ e.ex = q.x)
  | [], e, h => by simp [edgesOf] at h
  | [a], e, h => by simp [edgesOf] at h
  | a :: b :: r, e, h => by
    simp only [edgesOf, List.mem_cons] at h
    rcases h with rfl | h
    · exact ⟨⟨a, by simp, rfl, rfl⟩, ⟨b, by simp, rfl, rfl⟩⟩
    · obtain ⟨⟨p, hp, h1⟩, ⟨q, hq, h2⟩⟩ := edgesOf_endpoints (b :: r) e h
      exact ⟨⟨p, List.mem_cons_of_mem _ hp, h1⟩, ⟨q, List.mem_cons_of_mem _ hq, h2⟩⟩

theorem minY_le : ∀ (r : List Pt) (i : Int), minY r i ≤ i ∧ ∀ p ∈ r, minY r i ≤ p.y
  | [], i => by simp [minY]
  | a :: r, i => by
    have ih := minY_le r (min i a.y)
    unfold minY at ih ⊢
    simp only [List.foldl_cons]
    refine ⟨by omega, ?_⟩
    intro p hp
    rcases List.mem_cons.mp hp with rfl | hp
    · omega
    · exact ih.2 p hp

theorem geoOf_ybot_le (v : List Pt) : ∀ e ∈ (geoOf v).es, (geoOf v).ybot ≤ e.ymin := by
  cases v with
  | nil => simp [geoOf]
  | cons a r =>
    intro e he
    simp only [geoOf] at he ⊢
    obtain ⟨⟨p, hp, h1, _⟩, ⟨q, hq, h2, _⟩⟩ := edgesOf_endpoints (a :: r) e he
    have hm := minY_le r a.y
    have hP : minY r a.y ≤ p.y := by
      rcases List.mem_cons.mp hp with rfl | hp
      · exact hm.1
      · exact hm.2 p hp
    have hQ : minY r a.y ≤ q.y := by
      rcases List.mem_cons.mp hq with rfl | hq
      · exact hm.1
      · exact hm.2 q hq
    unfold Edge.ymin; omega

end Gwcs.Poly
