import GwcsModel.Polygon

namespace Gwcs.Poly

/-- number of list elements strictly below `p` -/
def cntLt (l : List Int) (p : Int) : Nat := l.countP (fun c => decide (c < p))

theorem markedBy_cons2 (a b : Int) (r : List Int) (p : Int) :
    markedBy (a :: b :: r) p = (decide (a ≤ p ∧ p ≤ b) || markedBy r p) := by
  simp [markedBy, pairs]

theorem mem_pySlice_range (n : Nat) (a b : Int) (ha : 0 ≤ a) (hb : 0 ≤ b) (c : Nat) :
    c ∈ pySlice (List.range n) a b ↔ (a ≤ c ∧ (c : Int) < b ∧ c < n) := by
  unfold pySlice pyClamp
  simp only [ha, hb, if_true, List.length_range]
  rw [List.range_eq_range', List.drop_range',
    List.take_range'_of_length_ge (by omega), List.mem_range'_1]
  omega

theorem cntLt_zero_of_le (r : List Int) (p : Int) (h : ∀ c ∈ r, p ≤ c) : cntLt r p = 0 := by
  unfold cntLt
  rw [List.countP_eq_zero]
  intro c hc
  have := h c hc
  simp; omega

theorem cntLt_cons (a : Int) (r : List Int) (p : Int) :
    cntLt (a :: r) p = cntLt r p + (if a < p then 1 else 0) := by
  unfold cntLt
  rw [List.countP_cons]
  simp

theorem cntLt_perm {l₁ l₂ : List Int} (h : l₁.Perm l₂) (p : Int) : cntLt l₁ p = cntLt l₂ p := by
  unfold cntLt; exact h.countP_eq _

theorem sortInts_perm (l : List Int) : (sortInts l).Perm l := List.mergeSort_perm _ _

theorem sortInts_sorted (l : List Int) : (sortInts l).Pairwise (· ≤ ·) := by
  have := List.pairwise_mergeSort (le := fun a b : Int => decide (a ≤ b))
    (by intro a b c; simp; omega) (by intro a b; simp; omega) l
  unfold sortInts
  simpa using this

theorem sortInts_eq_of_perm {l₁ l₂ : List Int} (h : l₁.Perm l₂) : sortInts l₁ = sortInts l₂ := by
  apply List.Perm.eq_of_pairwise (le := fun a b : Int => a ≤ b)
  · intro a b _ _ h1 h2; omega
  · exact sortInts_sorted _
  · exact sortInts_sorted _
  · exact (sortInts_perm l₁).trans (h.trans (sortInts_perm l₂).symm)

end Gwcs.Poly

namespace Gwcs.Poly

/-- the integer the scan uses for an exact abscissa `x` with slack `s` -/
def cOf (xs : Rat × Int) : Int := xs.1.ceil + xs.2

/-- slack is 0, or 1 at an exactly integral abscissa -/
def admissible (xs : Rat × Int) : Prop := xs.2 = 0 ∨ (xs.2 = 1 ∧ (xs.1.floor : Rat) = xs.1)

/-- number of exact abscissae strictly left of the integer `p` -/
def cntLtQ (l : List (Rat × Int)) (p : Int) : Nat := l.countP (fun xs => decide (xs.1 < (p : Rat)))

theorem cOf_near (xs : Rat × Int) (h : admissible xs) :
    0 ≤ ((cOf xs : Int) : Rat) - xs.1 ∧ ((cOf xs : Int) : Rat) - xs.1 ≤ 1 := by
  obtain ⟨x, s⟩ := xs
  unfold cOf
  rcases h with h | ⟨h, hi⟩
  · simp only at h ⊢; subst h
    have h1 := @Rat.le_ceil x
    have h2 := @Rat.ceil_lt x
    simp only [Int.add_zero]
    constructor <;> grind
  · simp only at h hi ⊢; subst h
    have : x.ceil = x.floor := by
      rw [← hi]; simp
    rw [this]
    have : ((x.floor + 1 : Int) : Rat) = (x.floor : Rat) + 1 := by simp [Rat.intCast_add]
    rw [this, hi]
    constructor <;> grind

theorem cOf_lt_iff (xs : Rat × Int) (p : Int) (h : admissible xs) (hc : cOf xs ≠ p) (hx : xs.1 ≠ (p : Rat)) :
    cOf xs < p ↔ xs.1 < (p : Rat) := by
  obtain ⟨x, s⟩ := xs
  unfold cOf at *
  rcases h with h | ⟨h, hi⟩
  · simp only at h hc hx ⊢; subst h
    simp only [Int.add_zero] at hc ⊢
    have key : x.ceil ≤ p ↔ x ≤ (p : Rat) := Rat.ceil_le_iff
    constructor
    · intro hlt
      have : x ≤ (p : Rat) := key.mp (by omega)
      grind
    · intro hlt
      have : x.ceil ≤ p := key.mpr (by grind)
      omega
  · simp only at h hi hc hx ⊢; subst h
    have hce : x.ceil = x.floor := by
      rw [← hi]; simp
    rw [hce] at hc ⊢
    have hxp : x.floor ≠ p := by
      intro he; apply hx; rw [← hi, he]
    constructor
    · intro hlt
      rw [← hi]
      have : x.floor < p := by omega
      exact_mod_cast this
    · intro hlt
      rw [← hi] at hlt
      have : x.floor < p := by exact_mod_cast hlt
      omega

theorem cntLt_map_cOf (l : List (Rat × Int)) (p : Int) (hadm : ∀ xs ∈ l, admissible xs)
    (hc : p ∉ l.map cOf) (hx : ∀ xs ∈ l, xs.1 ≠ (p : Rat)) :
    cntLt (l.map cOf) p = cntLtQ l p := by
  unfold cntLt cntLtQ
  rw [List.countP_map]
  apply List.countP_congr
  intro xs hm
  have hne : cOf xs ≠ p := fun he => hc (by rw [← he]; exact List.mem_map_of_mem hm)
  have := cOf_lt_iff xs p (hadm xs hm) hne (hx xs hm)
  simp [this]

end Gwcs.Poly

namespace Gwcs.Poly

theorem lo_cond (e : Edge) (y : Int) :
    (e.ymin ≤ y ∧ y < e.ymax) ↔ (decide (e.sy ≤ y) != decide (e.ey ≤ y)) = true := by
  unfold Edge.ymin Edge.ymax
  by_cases h1 : e.sy ≤ y <;> by_cases h2 : e.ey ≤ y <;> simp [h1, h2] <;> omega

theorem hi_cond (e : Edge) (y : Int) :
    (e.ymin < y ∧ y ≤ e.ymax) ↔ (decide (e.sy < y) != decide (e.ey < y)) = true := by
  unfold Edge.ymin Edge.ymax
  by_cases h1 : e.sy < y <;> by_cases h2 : e.ey < y <;> simp [h1, h2] <;> omega

/-- Parity of the number of sign changes of a Boolean along a vertex chain. -/
theorem chain_parity (b : Pt → Bool) : ∀ (a : Pt) (r : List Pt),
    ((edgesOf (a :: r)).countP (fun e => b ⟨e.sx, e.sy⟩ != b ⟨e.ex, e.ey⟩)) % 2 =
      if b a = b ((a :: r).getLast (by simp)) then 0 else 1
  | a, [] => by simp [edgesOf]
  | a, c :: r => by
    have ih := chain_parity b c r
    rw [edgesOf, List.countP_cons]
    have hl : (a :: c :: r).getLast (by simp) = (c :: r).getLast (by simp) := by simp [List.getLast_cons]
    rw [hl]
    cases hba : b a <;> cases hbc : b c <;> cases hbl : b ((c :: r).getLast (by simp)) <;>
      simp [hba, hbc, hbl] at ih ⊢ <;> omega

end Gwcs.Poly
