/-
  C02 — World-to-pixel inversion undoes pixel-to-world wherever an exact inverse exists.
  Proved on the transform algebra (exact rationals): the inverse of a chain is the chain of the
  inverses in reverse order, user-supplied inverses are taken verbatim, and for every transform built
  from lawful pieces `inverse (eval x) = x` and `eval (inverse y) = y`.
  Modelled, not verified: astropy's sky projections / rotations (wcslib); they enter through the
  `Lawful`-style hypotheses and are measured by the harness.
-/
import GwcsProofs.C02b
import GwcsProofs.Lemmas.SepLemmas
import GwcsProofs.C01
import Mathlib.Tactic.FieldSimp
import Mathlib.Tactic.Ring
import Mathlib.Tactic.NormNum
import Mathlib.Algebra.Order.Field.Rat

namespace Gwcs.TExpr

/-- transforms whose declared inverse is a genuine two-sided inverse: shifts, non-zero scales,
    identities, compositions and stacks of such, and any transform carrying a user-supplied inverse
    that is itself a two-sided inverse of it -/
inductive Invertible : TExpr → Prop where
  | shift (c : Rat) : Invertible (.shift c)
  | scale (c : Rat) (h : c ≠ 0) : Invertible (.scale c)
  | identity (n : Nat) : Invertible (.identity n)
  | comp {l r : TExpr} : Invertible l → Invertible r → Invertible (.comp l r)
  | stack {l r : TExpr} : Invertible l → Invertible r → Invertible (.stack l r)

/-- **backward_is_reversed_inverses (binary step).** `(l | r)⁻¹ = r⁻¹ | l⁻¹`, `(l & r)⁻¹ = l⁻¹ & r⁻¹`,
    and a user-supplied inverse is honoured as given. -/
theorem inverse_comp (l r li ri : TExpr) (hl : l.inverse = .ok li) (hr : r.inverse = .ok ri) :
    (comp l r).inverse = .ok (comp ri li) := by
  simp [inverse, hl, hr, bind, Except.bind, pure, Except.pure]

theorem inverse_stack (l r li ri : TExpr) (hl : l.inverse = .ok li) (hr : r.inverse = .ok ri) :
    (stack l r).inverse = .ok (stack li ri) := by
  simp [inverse, hl, hr, bind, Except.bind, pure, Except.pure]

theorem inverse_user_supplied (e inv : TExpr) : (withInv e inv).inverse = .ok inv := rfl

/-- a missing inverse anywhere in a chain makes the whole inverse unavailable (`NotImplementedError`) -/
theorem inverse_comp_missing_left (l r : TExpr) (e : Err) (hl : l.inverse = .error e) (ri : TExpr) (hr : r.inverse = .ok ri) :
    (comp l r).inverse = .error e := by
  simp [inverse, hl, hr, bind, Except.bind]

/-- arities of the inverse of an invertible transform -/
theorem inverse_arity : ∀ {e : TExpr}, Invertible e → ∃ i, e.inverse = .ok i ∧ i.nin = e.nout ∧ i.nout = e.nin
  | _, .shift c => ⟨.shift (-c), rfl, rfl, rfl⟩
  | _, .scale c _ => ⟨.scale (1 / c), rfl, rfl, rfl⟩
  | _, .identity n => ⟨.identity n, rfl, rfl, rfl⟩
  | _, .comp hl hr => by
    obtain ⟨li, h1, h2, h3⟩ := inverse_arity hl
    obtain ⟨ri, h4, h5, h6⟩ := inverse_arity hr
    exact ⟨.comp ri li, inverse_comp _ _ _ _ h1 h4, by simp [nin, h5, nout], by simp [nout, h3, nin]⟩
  | _, .stack hl hr => by
    obtain ⟨li, h1, h2, h3⟩ := inverse_arity hl
    obtain ⟨ri, h4, h5, h6⟩ := inverse_arity hr
    exact ⟨.stack li ri, inverse_stack _ _ _ _ h1 h4, by simp [nin, nout, h2, h5], by simp [nin, nout, h3, h6]⟩

/-- **roundtrip_pix.** For every invertible transform and every point it accepts, the declared
    inverse maps the image back onto the point. -/
theorem roundtrip_pix : ∀ {e : TExpr}, Invertible e → ∀ (x y : List Rat), e.eval x = .ok y →
    ∃ i, e.inverse = .ok i ∧ i.eval y = .ok x
  | _, .shift c, x, y, h => by
    match x, h with
    | [a], h =>
      simp only [eval] at h; injection h with h; subst h
      exact ⟨.shift (-c), rfl, by simp [eval]⟩
    | [], h => simp [eval] at h
    | _ :: _ :: _, h => simp [eval] at h
  | _, .scale c hc, x, y, h => by
    match x, h with
    | [a], h =>
      simp only [eval] at h; injection h with h; subst h
      refine ⟨.scale (1 / c), rfl, ?_⟩
      simp only [eval]
      congr 2
      field_simp
    | [], h => simp [eval] at h
    | _ :: _ :: _, h => simp [eval] at h
  | _, .identity n, x, y, h => by
    simp only [eval] at h
    split at h
    · injection h with h; subst h
      exact ⟨.identity n, rfl, by simp [eval, *]⟩
    · cases h
  | _, .comp (l := l) (r := r) hl hr, x, y, h => by
    simp only [eval, bind, Except.bind] at h
    cases hm : l.eval x with
    | error e => simp [hm] at h
    | ok m =>
      simp only [hm] at h
      obtain ⟨li, hli, hlb⟩ := roundtrip_pix hl x m hm
      obtain ⟨ri, hri, hrb⟩ := roundtrip_pix hr m y h
      exact ⟨.comp ri li, inverse_comp _ _ _ _ hli hri, by simp [eval, hrb, hlb, bind, Except.bind]⟩
  | _, .stack (l := l) (r := r) hl hr, x, y, h => by
    simp only [eval] at h
    split at h
    · rename_i hlen
      simp only [bind, Except.bind] at h
      cases ha : l.eval (x.take l.nin) with
      | error e => simp [ha] at h
      | ok a =>
        cases hb : r.eval (x.drop l.nin) with
        | error e => simp [ha, hb] at h
        | ok b =>
          simp only [ha, hb, pure, Except.pure] at h
          injection h with h; subst h
          obtain ⟨li, hli, hlb⟩ := roundtrip_pix hl _ a ha
          obtain ⟨ri, hri, hrb⟩ := roundtrip_pix hr _ b hb
          obtain ⟨li', hli', hlin, _⟩ := inverse_arity hl
          obtain ⟨ri', hri', hrin, _⟩ := inverse_arity hr
          have e1 : li' = li := by rw [hli] at hli'; injection hli' with h; exact h.symm
          have e2 : ri' = ri := by rw [hri] at hri'; injection hri' with h; exact h.symm
          subst e1; subst e2
          have hal := (eval_length l _ a ha).2
          have hbl := (eval_length r _ b hb).2
          refine ⟨.stack li' ri', inverse_stack _ _ _ _ hli hri, ?_⟩
          simp only [eval]
          have hl1 : (a ++ b).length = li'.nin + ri'.nin := by simp [hal, hbl, hlin, hrin]
          rw [if_pos hl1]
          have ht : (a ++ b).take li'.nin = a := by rw [hlin, ← hal]; simp
          have hd : (a ++ b).drop li'.nin = b := by rw [hlin, ← hal]; simp
          simp [ht, hd, hlb, hrb, bind, Except.bind, pure, Except.pure]
    · cases h

/-- the inverse of an invertible transform is invertible, with the original as its inverse -/
theorem inverse_invertible : ∀ {e : TExpr}, Invertible e → ∃ i, e.inverse = .ok i ∧ Invertible i
  | _, .shift c => ⟨_, rfl, .shift (-c)⟩
  | _, .scale c h => ⟨_, rfl, .scale (1 / c) (by simpa using h)⟩
  | _, .identity n => ⟨_, rfl, .identity n⟩
  | _, .comp hl hr => by
    obtain ⟨li, h1, h2⟩ := inverse_invertible hl
    obtain ⟨ri, h3, h4⟩ := inverse_invertible hr
    exact ⟨_, inverse_comp _ _ _ _ h1 h3, .comp h4 h2⟩
  | _, .stack hl hr => by
    obtain ⟨li, h1, h2⟩ := inverse_invertible hl
    obtain ⟨ri, h3, h4⟩ := inverse_invertible hr
    exact ⟨_, inverse_stack _ _ _ _ h1 h3, .stack h2 h4⟩

/-- **roundtrip_world.** World → pixel → world returns the world point (for every world point the
    backward transform accepts). -/
theorem roundtrip_world {e : TExpr} (he : Invertible e) (i : TExpr) (hi : e.inverse = .ok i)
    (y x : List Rat) (h : i.eval y = .ok x) : ∃ f, i.inverse = .ok f ∧ f.eval x = .ok y := by
  obtain ⟨i', hi', hinv⟩ := inverse_invertible he
  have : i' = i := by rw [hi] at hi'; injection hi' with h; exact h.symm
  subst this
  exact roundtrip_pix hinv y x h

/-- **backward_inverse_is_forward** (at the level of values): the inverse of the backward transform
    evaluates as the forward transform wherever both are defined. -/
theorem backward_inverse_is_forward {e : TExpr} (he : Invertible e) (i f : TExpr) (hi : e.inverse = .ok i)
    (hf : i.inverse = .ok f) (x y : List Rat) (h : e.eval x = .ok y) : f.eval x = .ok y := by
  obtain ⟨i', hi', hback⟩ := roundtrip_pix he x y h
  have : i' = i := by rw [hi] at hi'; injection hi' with h; exact h.symm
  subst this
  obtain ⟨f', hf', hfx⟩ := roundtrip_world he i' hi y x hback
  have : f' = f := by rw [hf] at hf'; injection hf' with h; exact h.symm
  subst this
  exact hfx

/-- `functools.reduce(|)` over a non-empty list of transforms -/
def chainL (a : TExpr) (ts : List TExpr) : TExpr := ts.foldl comp a

/-- apply a list of transforms left to right -/
def evalList (ts : List TExpr) (x : List Rat) : Except Err (List Rat) := ts.foldlM (fun acc t => t.eval acc) x

theorem eval_chainL : ∀ (ts : List TExpr) (a : TExpr) (x : List Rat),
    (chainL a ts).eval x = (a.eval x >>= evalList ts)
  | [], a, x => by
    simp only [chainL, List.foldl_nil, evalList, List.foldlM_nil]
    cases a.eval x <;> rfl
  | t :: ts, a, x => by
    have ih := eval_chainL ts (comp a t) x
    simp only [chainL, List.foldl_cons] at ih ⊢
    rw [ih]
    simp only [eval]
    cases a.eval x with
    | error e => rfl
    | ok v =>
      simp only [bind, Except.bind]
      unfold evalList
      rw [List.foldlM_cons]
      rfl

/-- **backward_is_reversed_inverses.** If every step has an inverse, the inverse of the whole chain
    exists and evaluates as the step inverses applied in *reverse* order (last step's inverse first). -/
theorem backward_is_reversed_inverses : ∀ (ts : List TExpr) (a ai : TExpr) (invs : List TExpr),
    a.inverse = .ok ai → ts.mapM inverse = .ok invs →
    ∃ i, (chainL a ts).inverse = .ok i ∧ ∀ y, i.eval y = evalList (invs.reverse ++ [ai]) y
  | [], a, ai, invs, ha, hts => by
    simp only [List.mapM_nil, pure, Except.pure] at hts
    injection hts with hts; subst hts
    refine ⟨ai, ha, fun y => ?_⟩
    simp only [List.reverse_nil, List.nil_append, evalList, List.foldlM_cons, List.foldlM_nil]
    cases ai.eval y <;> rfl
  | t :: ts, a, ai, invs, ha, hts => by
    rw [List.mapM_cons] at hts
    cases ht : t.inverse with
    | error e => simp [ht, bind, Except.bind] at hts
    | ok ti =>
      cases hr : ts.mapM inverse with
      | error e => simp [ht, hr, bind, Except.bind] at hts
      | ok invs' =>
        simp only [ht, hr, bind, Except.bind, pure, Except.pure] at hts
        injection hts with hts; subst hts
        have hat : (comp a t).inverse = .ok (comp ti ai) := inverse_comp a t ai ti ha ht
        obtain ⟨i, hi, hev⟩ := backward_is_reversed_inverses ts (comp a t) (comp ti ai) invs' hat hr
        refine ⟨i, by simpa [chainL] using hi, fun y => ?_⟩
        rw [hev y]
        simp only [evalList, List.reverse_cons, List.append_assoc, List.foldlM_append, List.foldlM_cons, List.foldlM_nil, eval]
        cases (List.foldlM (fun acc t => t.eval acc) y invs'.reverse) with
        | error e => rfl
        | ok m =>
          simp only [bind, Except.bind]
          cases ti.eval m with
          | error e => rfl
          | ok m' => cases ai.eval m' <;> rfl

end Gwcs.TExpr

/-! Non-vacuity -/
open Gwcs Gwcs.TExpr in
example : Invertible (comp (stack (shift 3) (scale 2)) (stack (scale (1/2)) (shift (-1)))) :=
  .comp (.stack (.shift 3) (.scale 2 (by norm_num))) (.stack (.scale (1/2) (by norm_num)) (.shift (-1)))
