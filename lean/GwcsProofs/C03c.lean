import GwcsProofs.C03a

/-!
  C03 (continued): a bounding box given per input name (`{'x1': (lo, hi), 'x0': (lo, hi)}`).  The interval of pixel axis `i` is the one
  filed under the name of input `i`, whatever the order the entries were written in.
-/
namespace Gwcs.BBoxDict

/-- the box as a list in input order, from a name -> interval table; `none` when an input has no entry -/
def boxFromDict {ι : Type} (names : List String) (d : List (String × ι)) : Option (List ι) :=
  names.mapM (fun n => (d.find? (fun kv => kv.1 == n)).map (·.2))

theorem find_key_perm {ι : Type} (d d' : List (String × ι)) (h : d.Perm d') (hn : (d.map (·.1)).Nodup) (n : String) :
    (d.find? (fun kv => kv.1 == n)).map (·.2) = (d'.find? (fun kv => kv.1 == n)).map (·.2) := by
  induction h with
  | nil => rfl
  | cons x _ ih =>
    simp only [List.map_cons, List.nodup_cons] at hn
    simp only [List.find?_cons]
    split
    · rfl
    · exact ih hn.2
  | swap x y l =>
    simp only [List.map_cons, List.nodup_cons, List.mem_cons, not_or] at hn
    simp only [List.find?_cons]
    by_cases hx : (x.1 == n) = true <;> by_cases hy : (y.1 == n) = true
    · exfalso
      have h1 : x.1 = n := by simpa using hx
      have h2 : y.1 = n := by simpa using hy
      exact hn.1.1 (by rw [h1, h2])
    · simp [hx, hy]
    · simp [hx, hy]
    · simp [hx, hy]
  | trans h1 _ ih1 ih2 =>
    rw [ih1 hn]
    apply ih2
    exact (h1.map (·.1)).nodup_iff.mp hn

/-- **dict_order_irrelevant.** Writing the entries of the table in another order gives the same box. -/
theorem dict_order_irrelevant {ι : Type} (names : List String) (d d' : List (String × ι)) (h : d.Perm d')
    (hn : (d.map (·.1)).Nodup) : boxFromDict names d = boxFromDict names d' := by
  unfold boxFromDict
  congr 1
  funext n
  exact find_key_perm d d' h hn n

/-- taking the intervals in the order they were written instead (dropping the names) is a different box -/
example : boxFromDict ["x0", "x1"] [("x1", (2, 3)), ("x0", (0, 1))] = some [(0, 1), (2, 3)] ∧
    ([("x1", ((2 : Int), (3 : Int))), ("x0", (0, 1))].map (·.2)) ≠ [(0, 1), (2, 3)] := by decide

end Gwcs.BBoxDict
