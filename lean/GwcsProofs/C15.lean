/-
  C15 — Region selection applies to each point the transform of its own region.
-/
import GwcsModel.Selector
import GwcsProofs.C13

namespace Gwcs.Sel

/-! ### LabelMapperArray -/

theorem npIndex_nonneg {α} (l : List α) (k : Nat) (h : k < l.length) : npIndex l (k : Int) = .ok l[k] := by
  unfold npIndex pyIndex
  simp [h]

theorem npIndex_beyond {α} (l : List α) (i : Int) (h : (l.length : Int) ≤ i) : npIndex l i = .error .indexErr := by
  unfold npIndex pyIndex
  have h0 : 0 ≤ i := by omega
  have : ¬ i.toNat < l.length := by omega
  simp [h0, this]

/-- **array_cell.** For a point inside the array (pixel centres at integers, so the array spans
    `[−½, nx − ½) × [−½, ny − ½)`), the label is the one stored in the cell `(r, c)` whose pixel area
    `[c − ½, c + ½) × [r − ½, r + ½)` contains the point — never a neighbour's. -/
theorem array_cell {L} (mask : List (List L)) (x y : Rat) (r c : Nat) (row : List L)
    (hr : mask[r]? = some row) (hc : c < row.length)
    (hx : (c : Rat) - 1 / 2 ≤ x ∧ x < (c : Rat) + 1 / 2) (hy : (r : Rat) - 1 / 2 ≤ y ∧ y < (r : Rat) + 1 / 2) :
    arrayLabel mask x y = .ok row[c] := by
  have hxi : Api.toIndex x = (c : Int) := Api.toindex_unique x c (by rw [Rat.intCast_natCast]; exact hx)
  have hyi : Api.toIndex y = (r : Int) := Api.toindex_unique y r (by rw [Rat.intCast_natCast]; exact hy)
  have hrl : r < mask.length := by
    rcases List.getElem?_eq_some_iff.mp hr with ⟨h, _⟩; exact h
  have hrow : mask[r] = row := by
    rcases List.getElem?_eq_some_iff.mp hr with ⟨_, h⟩; exact h
  unfold arrayLabel arrayLabelAt
  rw [hxi, hyi, npIndex_nonneg mask r hrl]
  simp only [bind, Except.bind, hrow]
  exact npIndex_nonneg row c hc

/-- **beyond the far edge in y** (`y ≥ ny − ½`) is an indexing error … -/
theorem array_far_edge_y {L} (mask : List (List L)) (x y : Rat) (h : (mask.length : Rat) - 1 / 2 ≤ y) :
    arrayLabel mask x y = .error .indexErr := by
  have : (mask.length : Int) ≤ Api.toIndex y := by
    unfold Api.toIndex
    rw [Rat.le_floor_iff]
    have : ((mask.length : Int) : Rat) = (mask.length : Rat) := Rat.intCast_natCast _
    rw [this]; grind
  unfold arrayLabel arrayLabelAt
  rw [npIndex_beyond mask _ this]
  rfl

/-- … and so is **beyond the far edge in x** (`x ≥ nx − ½`), whatever valid row is addressed. -/
theorem array_far_edge_x {L} (mask : List (List L)) (x y : Rat) (r : Nat) (row : List L)
    (hr : mask[r]? = some row) (hy : (r : Rat) - 1 / 2 ≤ y ∧ y < (r : Rat) + 1 / 2)
    (h : (row.length : Rat) - 1 / 2 ≤ x) : arrayLabel mask x y = .error .indexErr := by
  have hyi : Api.toIndex y = (r : Int) := Api.toindex_unique y r (by rw [Rat.intCast_natCast]; exact hy)
  have hrl : r < mask.length := by
    rcases List.getElem?_eq_some_iff.mp hr with ⟨h, _⟩; exact h
  have hrow : mask[r] = row := by
    rcases List.getElem?_eq_some_iff.mp hr with ⟨_, h⟩; exact h
  have : (row.length : Int) ≤ Api.toIndex x := by
    unfold Api.toIndex
    rw [Rat.le_floor_iff]
    have : ((row.length : Int) : Rat) = (row.length : Rat) := Rat.intCast_natCast _
    rw [this]; grind
  unfold arrayLabel arrayLabelAt
  rw [hyi, npIndex_nonneg mask r hrl]
  simp only [bind, Except.bind, hrow]
  exact npIndex_beyond row _ this

/-! ### generic "last match wins" folds -/

theorem foldl_last_none {α L} (p : α → Bool) (lab : α → L) (l : List α) (init : L)
    (h : ∀ a ∈ l, p a = false) : lastMatch p lab l init = init := by
  unfold lastMatch
  induction l generalizing init with
  | nil => rfl
  | cons a l ih =>
    rw [List.foldl_cons, h a (by simp)]
    exact ih init (fun b hb => h b (List.mem_cons_of_mem _ hb))

theorem foldl_last_all {α L} (p : α → Bool) (lab : α → L) (l : List α) (init : L) (ℓ : L)
    (hex : ∃ a ∈ l, p a = true) (hall : ∀ a ∈ l, p a = true → lab a = ℓ) :
    lastMatch p lab l init = ℓ := by
  induction l generalizing init with
  | nil => obtain ⟨a, ha, _⟩ := hex; cases ha
  | cons a l ih =>
    unfold lastMatch at ih ⊢
    rw [List.foldl_cons]
    by_cases hl : ∃ b ∈ l, p b = true
    · exact ih _ hl (fun b hb => hall b (List.mem_cons_of_mem _ hb))
    · have hl' : ∀ b ∈ l, p b = false := by
        intro b hb
        cases hp : p b with
        | false => rfl
        | true => exact absurd ⟨b, hb, hp⟩ hl
      have hn := foldl_last_none p lab l (if p a = true then lab a else init) hl'
      unfold lastMatch at hn
      rw [hn]
      obtain ⟨b, hb, hpb⟩ := hex
      rcases List.mem_cons.mp hb with rfl | hb'
      · rw [hpb]; exact hall b (by simp) hpb
      · rw [hl' b hb'] at hpb; cases hpb

/-! ### LabelMapperRange -/

/-- two ranges have no key strictly inside both -/
def Disjoint (a b : Rat × Rat) : Prop := ∀ k : Rat, ¬ (a.1 < k ∧ k < a.2 ∧ b.1 < k ∧ k < b.2)

theorem chain_disjoint : ∀ (l : List (Rat × Rat)), l.Pairwise (fun a b => a.1 ≤ b.1) → chainOK l = true →
    l.Pairwise Disjoint
  | [], _, _ => List.Pairwise.nil
  | [a], _, _ => by simp
  | a :: b :: r, hs, hc => by
    simp only [chainOK, Bool.and_eq_true, decide_eq_true_eq] at hc
    have hs' := List.Pairwise.of_cons hs
    have ih := chain_disjoint (b :: r) hs' hc.2
    refine List.Pairwise.cons ?_ ih
    intro c hcm k ⟨_, h2, h3, _⟩
    have hbc : b.1 ≤ c.1 := by
      rcases List.mem_cons.mp hcm with rfl | hcr
      · exact Rat.le_refl
      · exact (List.pairwise_cons.mp hs').1 c hcr
    have : a.2 ≤ b.1 := hc.1
    grind

theorem sortByStart_perm (rs : List (Rat × Rat)) : (sortByStart rs).Perm rs := List.mergeSort_perm _ _

theorem sortByStart_sorted (rs : List (Rat × Rat)) : (sortByStart rs).Pairwise (fun a b => a.1 ≤ b.1) := by
  have := List.pairwise_mergeSort (le := fun a b : Rat × Rat => decide (a.1 ≤ b.1))
    (by intro a b c; simp; exact Rat.le_trans) (by intro a b; simp; exact Rat.le_total) rs
  unfold sortByStart
  simpa using this

/-- **no overlap ⇒ pairwise disjoint.** If the constructor's test does not fire, no two ranges share
    a key (in whatever order they are listed). -/
theorem disjoint_of_not_overlapping (rs : List (Rat × Rat)) (h : hasOverlapping rs = false) :
    rs.Pairwise Disjoint := by
  unfold hasOverlapping at h
  simp only [Bool.or_eq_false_iff, Bool.not_eq_false'] at h
  have hd := chain_disjoint (sortByStart rs) (sortByStart_sorted rs) h.1
  have hsymm : ∀ a b : Rat × Rat, Disjoint a b → Disjoint b a := by
    intro a b hab k ⟨h1, h2, h3, h4⟩
    exact hab k ⟨h3, h4, h1, h2⟩
  exact ((sortByStart_perm rs).pairwise_iff (fun {a b} => hsymm a b)).mp hd

theorem nodup_map_inj {α β} (f : α → β) : ∀ (l : List α), (l.map f).Nodup → ∀ a ∈ l, ∀ b ∈ l, f a = f b → a = b
  | [], _, a, ha, _, _, _ => by cases ha
  | c :: l, hnd, a, ha, b, hb, hab => by
    simp only [List.map_cons, List.nodup_cons, List.mem_map, not_exists, not_and] at hnd
    rcases List.mem_cons.mp ha with rfl | ha' <;> rcases List.mem_cons.mp hb with rfl | hb'
    · rfl
    · exact absurd hab.symm (hnd.1 b hb')
    · exact absurd hab (hnd.1 a ha')
    · exact nodup_map_inj f l hnd.2 a ha' b hb' hab

theorem pairwise_mem {α} (R : α → α → Prop) (hs : ∀ a b, R a b → R b a) :
    ∀ (l : List α), l.Pairwise R → ∀ a ∈ l, ∀ b ∈ l, a ≠ b → R a b
  | [], _, a, ha, _, _, _ => by cases ha
  | c :: l, hp, a, ha, b, hb, hab => by
    rw [List.pairwise_cons] at hp
    rcases List.mem_cons.mp ha with rfl | ha' <;> rcases List.mem_cons.mp hb with rfl | hb'
    · exact absurd rfl hab
    · exact hp.1 b hb'
    · exact hs _ _ (hp.1 a ha')
    · exact pairwise_mem R hs l hp.2 a ha' b hb' hab

/-- **range_unique.** With non-overlapping ranges, a key strictly inside a range gets that range's
    label, whatever the order in which the ranges are visited … -/
theorem range_unique {L} (rs : List ((Rat × Rat) × L)) (noLabel : L) (k : Rat) (r : (Rat × Rat) × L)
    (hno : hasOverlapping (rs.map (·.1)) = false) (hnd : (rs.map (·.1)).Nodup)
    (hr : r ∈ rs) (hin : r.1.1 < k ∧ k < r.1.2) :
    rangeLabel rs noLabel (some k) = r.2 := by
  have hdis := disjoint_of_not_overlapping _ hno
  unfold rangeLabel
  apply foldl_last_all (fun r : (Rat × Rat) × L => inRange r.1 (some k)) (fun r : (Rat × Rat) × L => r.2)
  · exact ⟨r, hr, by simp [inRange, hin.1, hin.2]⟩
  · intro r' hr' hin'
    simp only [inRange, Bool.and_eq_true, decide_eq_true_eq] at hin'
    -- r and r' both contain k: they must be the same range
    by_cases heq : r'.1 = r.1
    · -- same key: same entry, because keys are distinct
      have : r' = r := nodup_map_inj (fun x : (Rat × Rat) × L => x.1) rs hnd r' hr' r hr heq
      rw [this]
    · exfalso
      have hsymm : ∀ a b : Rat × Rat, Disjoint a b → Disjoint b a := by
        intro a b hab k ⟨h1, h2, h3, h4⟩
        exact hab k ⟨h3, h4, h1, h2⟩
      have := pairwise_mem Disjoint hsymm _ hdis r'.1 (List.mem_map_of_mem hr') r.1 (List.mem_map_of_mem hr) heq
      exact this k ⟨hin'.1, hin'.2, hin.1, hin.2⟩

/-- … a key outside every range (end points included: ranges are open) gets no label … -/
theorem range_outside {L} (rs : List ((Rat × Rat) × L)) (noLabel : L) (k : Rat)
    (h : ∀ r ∈ rs, ¬ (r.1.1 < k ∧ k < r.1.2)) : rangeLabel rs noLabel (some k) = noLabel := by
  unfold rangeLabel
  apply foldl_last_none (fun r : (Rat × Rat) × L => inRange r.1 (some k)) (fun r : (Rat × Rat) × L => r.2)
  intro r hr
  have := h r hr
  simp only [inRange]
  cases h1 : decide (r.1.1 < k) <;> cases h2 : decide (k < r.1.2) <;> simp_all

/-- … and so does NaN. -/
theorem range_nan {L} (rs : List ((Rat × Rat) × L)) (noLabel : L) : rangeLabel rs noLabel none = noLabel := by
  unfold rangeLabel
  exact foldl_last_none (fun r : (Rat × Rat) × L => inRange r.1 none) (fun r : (Rat × Rat) × L => r.2) rs noLabel (fun _ _ => rfl)

/-- **overlap_refused.** -/
theorem overlap_refused {L} (rs : List ((Rat × Rat) × L)) (h : hasOverlapping (rs.map (·.1)) = true) :
    mkRangeMapper rs = .error .valueErr := by
  simp [mkRangeMapper, h]

/-! ### LabelMapperDict -/

/-- **dict_within_tol.** The label returned is that of a key within tolerance of the input (the last
    such key in dict order); with no key within tolerance, and for NaN, there is no label. -/
theorem dict_within_tol {L} (ks : List (Rat × L)) (atol : Rat) (noLabel : L) (x : Rat) (ℓ : L)
    (hex : ∃ k ∈ ks, isClose atol k.1 x = true) (hall : ∀ k ∈ ks, isClose atol k.1 x = true → k.2 = ℓ) :
    dictLabel ks atol noLabel (some x) = ℓ := by
  show lastMatch (fun k : Rat × L => isClose atol k.1 x) (fun k : Rat × L => k.2) ks noLabel = ℓ
  exact foldl_last_all (fun k : Rat × L => isClose atol k.1 x) (fun k : Rat × L => k.2) ks noLabel ℓ hex hall

theorem dict_none_within {L} (ks : List (Rat × L)) (atol : Rat) (noLabel : L) (x : Rat)
    (h : ∀ k ∈ ks, isClose atol k.1 x = false) : dictLabel ks atol noLabel (some x) = noLabel := by
  show lastMatch (fun k : Rat × L => isClose atol k.1 x) (fun k : Rat × L => k.2) ks noLabel = noLabel
  exact foldl_last_none (fun k : Rat × L => isClose atol k.1 x) (fun k : Rat × L => k.2) ks noLabel h

theorem dict_nan {L} (ks : List (Rat × L)) (atol : Rat) (noLabel : L) : dictLabel ks atol noLabel none = noLabel := rfl

end Gwcs.Sel

namespace Gwcs.Sel

/-! ### RegionsSelector -/

/-- pointwise description of one masked assignment `out[mask] = g(xs[mask])` -/
def mergeSpec {X Y} (g : X → Y) : List Y → List Bool → List X → List Y
  | o :: out, b :: m, x :: xs => (if b then g x else o) :: mergeSpec g out m xs
  | out, _, _ => out

/-- **scatter_groups_eq_map (one group).** Gathering the masked inputs, transforming the sub-batch
    and scattering the results back is the pointwise masked update. -/
theorem scatter_gather_eq {X Y} (g : X → Y) : ∀ (out : List Y) (m : List Bool) (xs : List X),
    out.length = m.length → xs.length = m.length →
    scatter out m ((gather xs m).map g) = mergeSpec g out m xs
  | [], [], [], _, _ => rfl
  | o :: out, true :: m, x :: xs, h1, h2 => by
    simp only [gather, List.map_cons, scatter, mergeSpec, if_true]
    rw [scatter_gather_eq g out m xs (by simpa using h1) (by simpa using h2)]
  | o :: out, false :: m, x :: xs, h1, h2 => by
    simp only [gather, scatter, mergeSpec]
    rw [scatter_gather_eq g out m xs (by simpa using h1) (by simpa using h2)]
    simp
  | [], _ :: _, _, h1, _ => by simp at h1
  | _ :: _, [], _, h1, _ => by simp at h1
  | _, _ :: _, [], _, h2 => by simp at h2
  | _, [], _ :: _, _, h2 => by simp at h2

variable {L X Y : Type} [DecidableEq L]

/-- value a point with label `l` must get from its own region's transform -/
def valOf (sel : L → Option (X → Y)) (undef : Y) (l : L) (x : X) : Y :=
  match sel l with
  | some g => g x
  | none => undef

/-- state of the outputs after the regions in `done` have been processed -/
def partialOut (sel : L → Option (X → Y)) (undef : Y) (done : List L) : List L → List X → List Y
  | l :: ls, x :: xs => (if l ∈ done then valOf sel undef l x else undef) :: partialOut sel undef done ls xs
  | _, _ => []

theorem partialOut_length (sel : L → Option (X → Y)) (undef : Y) (done : List L) :
    ∀ (ls : List L) (xs : List X), ls.length = xs.length → (partialOut sel undef done ls xs).length = ls.length
  | [], [], _ => rfl
  | l :: ls, x :: xs, h => by simp [partialOut, partialOut_length sel undef done ls xs (by simpa using h)]
  | [], _ :: _, h => by simp at h
  | _ :: _, [], h => by simp at h

theorem step_partialOut (sel : L → Option (X → Y)) (undef : Y) (done : List L) (rid : L) :
    ∀ (ls : List L) (xs : List X), ls.length = xs.length →
      mergeSpec (fun x => valOf sel undef rid x) (partialOut sel undef done ls xs) (ls.map (fun l => decide (l = rid))) xs =
        partialOut sel undef (rid :: done) ls xs
  | [], [], _ => rfl
  | l :: ls, x :: xs, h => by
    simp only [partialOut, List.map_cons, mergeSpec]
    rw [step_partialOut sel undef done rid ls xs (by simpa using h)]
    by_cases hl : l = rid
    · subst hl; simp
    · have : (l ∈ rid :: done) ↔ (l ∈ done) := by simp [hl]
      simp [hl, this]
  | [], _ :: _, h => by simp at h
  | _ :: _, [], h => by simp at h

theorem selectorStep_eq (labels : List L) (xs : List X) (sel : L → Option (X → Y)) (undef : Y)
    (done : List L) (rid : L) (hlen : labels.length = xs.length) :
    selectorStep labels xs sel undef (partialOut sel undef done labels xs) rid =
      partialOut sel undef (rid :: done) labels xs := by
  unfold selectorStep
  have hl1 : (partialOut sel undef done labels xs).length = (labels.map (fun l => decide (l = rid))).length := by
    simp [partialOut_length sel undef done labels xs hlen]
  have hl2 : xs.length = (labels.map (fun l => decide (l = rid))).length := by simp [hlen]
  cases hs : sel rid with
  | some g =>
    simp only
    have hv : (fun x => valOf sel undef rid x) = g := by funext x; simp [valOf, hs]
    rw [scatter_gather_eq g _ _ _ hl1 hl2, ← hv]
    exact step_partialOut sel undef done rid labels xs hlen
  | none =>
    simp only
    have hv : (fun x => valOf sel undef rid x) = (fun _ => undef) := by funext x; simp [valOf, hs]
    rw [scatter_gather_eq (fun _ => undef) _ _ _ hl1 hl2, ← hv]
    exact step_partialOut sel undef done rid labels xs hlen

theorem foldl_selectorStep (labels : List L) (xs : List X) (sel : L → Option (X → Y)) (undef : Y)
    (hlen : labels.length = xs.length) : ∀ (todo done : List L),
    todo.foldl (selectorStep labels xs sel undef) (partialOut sel undef done labels xs) =
      partialOut sel undef (todo.reverse ++ done) labels xs
  | [], done => by simp
  | rid :: todo, done => by
    rw [List.foldl_cons, selectorStep_eq labels xs sel undef done rid hlen,
      foldl_selectorStep labels xs sel undef hlen todo (rid :: done)]
    simp

theorem partialOut_nil (sel : L → Option (X → Y)) (undef : Y) : ∀ (ls : List L) (xs : List X),
    ls.length = xs.length → partialOut sel undef [] ls xs = ls.map (fun _ => undef)
  | [], [], _ => rfl
  | l :: ls, x :: xs, h => by simp [partialOut, partialOut_nil sel undef ls xs (by simpa using h)]
  | [], _ :: _, h => by simp at h
  | _ :: _, [], h => by simp at h

/-- what the property demands, point by point -/
def selectorSpec (sel : L → Option (X → Y)) (isEmpty : L → Bool) (undef : Y) : List L → List X → List Y
  | l :: ls, x :: xs => (if isEmpty l then undef else valOf sel undef l x) :: selectorSpec sel isEmpty undef ls xs
  | _, _ => []

theorem partialOut_all (sel : L → Option (X → Y)) (isEmpty : L → Bool) (undef : Y) (done : List L) :
    ∀ (ls : List L) (xs : List X), (∀ l ∈ ls, (l ∈ done ↔ isEmpty l = false)) →
      partialOut sel undef done ls xs = selectorSpec sel isEmpty undef ls xs
  | [], _, _ => by cases ‹List X› <;> rfl
  | l :: ls, [], _ => rfl
  | l :: ls, x :: xs, h => by
    simp only [partialOut, selectorSpec]
    rw [partialOut_all sel isEmpty undef done ls xs (fun l' hl' => h l' (List.mem_cons_of_mem _ hl'))]
    have := h l (by simp)
    cases he : isEmpty l
    · simp [this.mpr he]
    · have : l ∉ done := fun hm => by rw [this.mp hm] at he; cases he
      simp [this]

/-- **selector_pointwise.** For a batch of any size and any labelling, the region selector returns
    for every point the outputs of the transform registered for *that point's* label, and the
    undefined value when the point has no label or its label has no transform. -/
theorem selector_pointwise (labels : List L) (xs : List X) (sel : L → Option (X → Y)) (isEmpty : L → Bool)
    (undef : Y) (hlen : labels.length = xs.length) :
    selectorEval labels xs sel isEmpty undef = selectorSpec sel isEmpty undef labels xs := by
  unfold selectorEval
  simp only
  rw [← partialOut_nil sel undef labels xs hlen, foldl_selectorStep labels xs sel undef hlen]
  apply partialOut_all
  intro l hl
  simp only [List.append_nil, List.mem_reverse, List.mem_filter, List.mem_eraseDups, Bool.not_eq_true', hl, true_and]

/-- picking the points of a region by equality is what `selectorEval` does -/
theorem selectorEvalBy_eq (labels : List L) (xs : List X) (sel : L → Option (X → Y)) (isEmpty : L → Bool) (undef : Y) :
    selectorEvalBy (fun a b => decide (a = b)) labels xs sel isEmpty undef = selectorEval labels xs sel isEmpty undef := rfl

/-- picking them with a tolerance is not: two slice labels 301002 and 301004 are "close" at relative tolerance 1e-5, the second
    region's transform overwrites the first region's points - the per-point specification is lost -/
example :
    let sel : Rat → Option (Rat → Rat) := fun l => if l = 301002 then some (· + 1) else if l = 301004 then some (· + 2) else none
    selectorEvalBy (fun a b => isClose (1 / 100000000) a b) [301002, 301004] [10, 20] sel (· == 0) 0 = [12, 22] ∧
    selectorEval [301002, 301004] [10, 20] sel (· == 0) 0 = [11, 22] := by decide +kernel

/-- **set_input_lookup.** Looking up one region's transform returns the registered one, and an
    unknown region is reported, not answered. -/
theorem set_input_lookup {T} (table : List (L × T)) (rid : L) :
    (∀ t, setInput table rid = .ok t → (rid, t) ∈ table) ∧
      ((∀ kv ∈ table, kv.1 ≠ rid) → setInput table rid = .error .valueErr) := by
  constructor
  · intro t h
    unfold setInput at h
    cases hf : table.find? (fun kv => decide (kv.1 = rid)) with
    | none => simp [hf] at h
    | some kv =>
      simp only [hf] at h
      injection h with h; subst h
      have hm := List.mem_of_find?_eq_some hf
      have hp := List.find?_some hf
      simp only [decide_eq_true_eq] at hp
      rw [← hp]; exact hm
  · intro h
    unfold setInput
    have : table.find? (fun kv => decide (kv.1 = rid)) = none := by
      rw [List.find?_eq_none]
      intro kv hkv
      simpa using h kv hkv
    rw [this]

end Gwcs.Sel

/-! Non-vacuity -/
example : Gwcs.Sel.chainOK [((1 : Rat), (3 : Rat)), (3, 5)] = true ∧
    Gwcs.Sel.chainOK [((3 : Rat), (5 : Rat)), (3, 9 / 2), (3, 3)] = false := by decide +kernel
example : Gwcs.Sel.selectorSpec (fun l : Nat => if l = 1 then some (fun x : Nat => x + 10) else none) (fun l => l == 0) 99
    [1, 0, 2, 1] [5, 6, 7, 8] = [15, 99, 99, 18] := by decide
