import GwcsModel.Builders
import Mathlib.Algebra.BigOperators.Group.Finset.Basic
import Mathlib.Algebra.Order.Field.Rat
import Mathlib.Tactic.Ring

/-! C20 (headers with more than two axes): the 2x2 block `fitswcs_linear` cuts out of the n x n matrix reproduces the FITS formula on
the celestial axes whenever those rows are decoupled from the other pixel axes. -/
namespace Gwcs.Builders
open Finset

theorem sumTo_eq_sum (n : ℕ) (f : ℕ → ℚ) : sumTo n f = ∑ k ∈ range n, f k := by
  induction n with
  | zero => simp [sumTo]
  | succ n ih => rw [sumTo, ih, Finset.sum_range_succ]

/-- **skyBlock_sound.** For an n-axis PC header whose celestial rows `i`, `j` have no coupling to the other pixel axes, the transform
built from the 2x2 block gives, at every pixel, the FITS intermediate world coordinates of those two axes. -/
theorem skyBlock_sound (n i j : ℕ) (crpix cdelt : ℕ → ℚ) (pc : ℕ → ℕ → ℚ) (p : ℕ → ℚ) (hi : i < n) (hj : j < n) (hij : i ≠ j)
    (hdi : ∀ k, k ≠ i → k ≠ j → pc i k = 0) (hdj : ∀ k, k ≠ i → k ≠ j → pc j k = 0) :
    fitswcsLinear (skyLin crpix cdelt pc i j) (p i, p j) =
      (fitsLinearND n crpix cdelt pc p i, fitsLinearND n crpix cdelt pc p j) := by
  have two : ∀ r, (∀ k, k ≠ i → k ≠ j → pc r k = 0) →
      sumTo n (fun k => pc r k * (p k - (crpix k - 1))) = pc r i * (p i - (crpix i - 1)) + pc r j * (p j - (crpix j - 1)) := by
    intro r hr
    rw [sumTo_eq_sum]
    apply Finset.sum_eq_add i j hij
    · intro c _ hc
      rw [hr c hc.1 hc.2]; ring
    · intro h; exact absurd (Finset.mem_range.mpr hi) h
    · intro h; exact absurd (Finset.mem_range.mpr hj) h
  simp only [fitswcsLinear, skyLin, skyBlock, fitsLinearND, two i hdi, two j hdj, scaling, rotation, translation]
  simp only [Bool.false_eq_true, ↓reduceIte]
  refine Prod.ext ?_ ?_
  · show cdelt i * (pc i i * (p i + -(crpix i - 1)) + pc i j * (p j + -(crpix j - 1))) = _
    ring
  · show cdelt j * (pc j i * (p i + -(crpix i - 1)) + pc j j * (p j + -(crpix j - 1))) = _
    ring

/-- **skyBlock_transposed_differs.** Cutting the block out transposed (the shape of seeded change C20-10) gives another transform as
soon as the block is not symmetric. -/
theorem skyBlock_transposed_differs :
    let pc : ℕ → ℕ → ℚ := fun r c => if r = 0 ∧ c = 1 then 1 / 2 else if r = c then 1 else 0
    let l := skyLin (fun _ => 1) (fun _ => 1) pc 0 1
    let lT : Lin := { l with m12 := l.m21, m21 := l.m12 }
    fitswcsLinear l (0, 2) ≠ fitswcsLinear lT (0, 2) := by
  decide +kernel

-- non-vacuity: RA, WAVE, DEC header (celestial axes 0 and 2), rotation in the celestial block, third axis decoupled
example : fitswcsLinear (skyLin (fun k => if k = 0 then 1 else if k = 1 then 2 else 3) (fun _ => 2)
    (fun r c => if r = 1 ∨ c = 1 then (if r = c then 1 else 0) else if r = c then 3 else if r < c then -1 else 1) 0 2) (5, 7) = (20, 40) := by
  decide +kernel

end Gwcs.Builders

namespace Gwcs.Builders
open Gwcs.Remap

/-- **cd_form_from_any_card.** One CD card anywhere in the matrix (not only `CD1_1`) makes the header a CD header: that element is read
from its card and every element without a card is zero - on the diagonal too. -/
theorem cd_form_from_any_card (cd pc : List Card) (c : Card) (hc : c ∈ cd) :
    hasCD cd = true ∧ ∀ i j, cd.find? (fun c => c.1 == i && c.2.1 == j) = none → headerMatrix cd pc i j = 0 := by
  have h : hasCD cd = true := by
    cases cd with
    | nil => simp at hc
    | cons a l => simp [hasCD]
  refine ⟨h, ?_⟩
  intro i j hnone
  simp [headerMatrix, h, readM, hnone]

/-- **pc_form_defaults.** Without any CD card the PC cards count and a missing element is the unit-matrix element. -/
theorem pc_form_defaults (pc : List Card) (i j : Nat) (hnone : pc.find? (fun c => c.1 == i && c.2.1 == j) = none) :
    headerMatrix [] pc i j = if i = j then 1 else 0 := by
  simp [headerMatrix, hasCD, readM, hnone]

-- non-vacuity (the header of finding D44): a 90 degree rotation written as CD1_2 and CD2_1 only
example : (headerMatrix [(1, 2, -1), (2, 1, 1)] [] 1 1, headerMatrix [(1, 2, -1), (2, 1, 1)] [] 1 2,
           headerMatrix [(1, 2, -1), (2, 1, 1)] [] 2 1, headerMatrix [(1, 2, -1), (2, 1, 1)] [] 2 2) = (0, -1, 1, 0) := by decide +kernel

end Gwcs.Builders
