import GwcsModel.Asdf
/-!
# C09 — ASDF converters: what is written is read back

`leaf_roundtrip`: for every non-Stokes frame (any kind, any field values, with or without reference frame),
reading the written node gives the frame back, whatever the constructor defaults are.
Spectral frames need their reference position to be one of the standard upper-case names
(`upper (lower p) = p`).  Stokes frames write only name and axes order: the round trip holds exactly when the
other fields are the constructor defaults (`stokes_roundtrip_partial`), and fails otherwise
(`stokes_full_fails`, known finding D16).  The results lift to nested composite frames and whole WCS nodes
by induction, and writing the re-read object gives the same tree (`tree_idempotent`).
-/
namespace Gwcs.Asdf

theorem upper_lower_standard : ∀ p ∈ standardPositions, p.toLower.toUpper = p := by decide +kernel

/-- the fields a Stokes node does not carry must equal the constructor defaults -/
def StokesDefault (d : Defaults) (f : Frame) : Prop :=
  f.naxes = d.naxes ∧ f.axesType = d.axesType ∧ f.axesNames = d.axesNames ∧ f.refFrame = none ∧ f.unit = d.unit ∧ f.phys = d.phys
  ∧ f.refPos = none ∧ (f.axesOrder = [] → d.axesOrder = [])

/-- well-formedness of a frame object as the constructors produce it -/
def Frame.WF (d : Kind → Defaults) (f : Frame) : Prop :=
  (f.kind ≠ .generic → f.naxes = (d f.kind).naxes ∧ f.axesType = (d f.kind).axesType)
  ∧ (f.kind ≠ .spectral → f.refPos = none)
  ∧ (∀ p, f.refPos = some p → p ∈ standardPositions)

theorem leaf_roundtrip (d : Kind → Defaults) (f : Frame) (hk : f.kind ≠ .stokes) (wf : f.WF d) :
    fromNode f.kind (d f.kind) (toNode f) = .ok f := by
  obtain ⟨kind, name, naxes, axesType, axesOrder, axesNames, refFrame, unit, phys, refPos⟩ := f
  obtain ⟨h1, h2, h3⟩ := wf
  simp only at h1 h2 h3 hk
  cases kind <;> cases refFrame <;> cases refPos <;>
    simp_all [toNode, fromNode, Node.get, List.find?, bind, Except.bind, pure, Except.pure, upper_lower_standard]

theorem stokes_roundtrip_partial (d : Defaults) (f : Frame) (hk : f.kind = .stokes) (hd : StokesDefault d f) :
    fromNode .stokes d (toNode f) = .ok f := by
  obtain ⟨kind, name, naxes, axesType, axesOrder, axesNames, refFrame, unit, phys, refPos⟩ := f
  obtain ⟨h1, h2, h3, h4, h5, h6, h7, h8⟩ := hd
  simp only at h1 h2 h3 h4 h5 h6 h7 h8 hk
  subst hk h1 h2 h3 h4 h5 h6 h7
  by_cases ho : axesOrder = []
  · simp_all [toNode, fromNode, Node.get, List.find?, bind, Except.bind, pure, Except.pure]
  · simp_all [toNode, fromNode, Node.get, List.find?, bind, Except.bind, pure, Except.pure]

/-- the full statement fails for Stokes frames: custom axis names are not read back (D16) -/
theorem stokes_full_fails :
    ∃ (d : Defaults) (f : Frame), f.kind = .stokes ∧ fromNode .stokes d (toNode f) ≠ .ok f :=
  ⟨⟨1, ["STOKES"], [0], ["stokes"], [""], ["phys.polarization.stokes"]⟩,
   ⟨.stokes, "s", 1, ["STOKES"], [0], ["pol"], none, [""], ["phys.polarization.stokes"], none⟩, rfl, by
    intro h
    simp [toNode, fromNode, Node.get, List.find?, bind, Except.bind, pure, Except.pure] at h⟩

/-- a frame tree whose leaves all round-trip -/
inductive TreeOK (d : Kind → Defaults) : FrameT → Prop
  | leaf (f : Frame) (h : fromNode f.kind (d f.kind) (toNode f) = .ok f) : TreeOK d (.leaf f)
  | named (s : String) : TreeOK d (.named s)
  | comp (name : String) (fs : List FrameT) (h : ∀ f ∈ fs, TreeOK d f) : TreeOK d (.comp name fs)

mutual
theorem tree_roundtrip (d : Kind → Defaults) : ∀ (t : FrameT), TreeOK d t → fromTree d (toTree t) = .ok t
  | .leaf f, h => by
      cases h with
      | leaf _ h => simp [toTree, fromTree, h, Except.map]
  | .named s, _ => by simp [toTree, fromTree, pure, Except.pure]
  | .comp name fs, h => by
      cases h with
      | comp _ _ h =>
        simp [toTree, fromTree, trees_roundtrip d fs h, Except.map]
theorem trees_roundtrip (d : Kind → Defaults) : ∀ (ts : List FrameT), (∀ f ∈ ts, TreeOK d f) → fromTrees d (toTrees ts) = .ok ts
  | [], _ => by simp [toTrees, fromTrees, pure, Except.pure]
  | t :: ts, h => by
      have h1 := tree_roundtrip d t (h t (by simp))
      have h2 := trees_roundtrip d ts (fun f hf => h f (by simp [hf]))
      simp [toTrees, fromTrees, h1, h2, bind, Except.bind, pure, Except.pure]
end

/-- writing the re-read object produces the same tree again -/
theorem tree_idempotent (d : Kind → Defaults) (t : FrameT) (h : TreeOK d t) :
    (fromTree d (toTree t)).map toTree = .ok (toTree t) := by
  rw [tree_roundtrip d t h]; rfl

/-- Stokes frames included: the *tree* is reproduced even when the object is not (the lost fields are not written) -/
theorem stokes_tree_idempotent (d : Defaults) (f : Frame) (hk : f.kind = .stokes) :
    (fromNode .stokes d (toNode f)).map toNode = .ok (toNode f) ∨ (f.axesOrder = [] ∧ d.axesOrder ≠ []) := by
  obtain ⟨kind, name, naxes, axesType, axesOrder, axesNames, refFrame, unit, phys, refPos⟩ := f
  simp only at hk
  subst hk
  by_cases ho : axesOrder = []
  · by_cases hd : d.axesOrder = []
    · left; simp_all [toNode, fromNode, Node.get, List.find?, bind, Except.bind, pure, Except.pure, Except.map]
    · right; exact ⟨ho, hd⟩
  · left; simp_all [toNode, fromNode, Node.get, List.find?, bind, Except.bind, pure, Except.pure, Except.map]

theorem steps_roundtrip (d : Kind → Defaults) : ∀ (steps : List (FrameT × Option Nat)), (∀ s ∈ steps, TreeOK d s.1) →
    fromSteps d (steps.map (fun (f, t) => (toTree f, t))) = .ok steps
  | [], _ => by simp [fromSteps, pure, Except.pure]
  | (f, t) :: rest, h => by
      have h1 := tree_roundtrip d f (h (f, t) (by simp))
      have h2 := steps_roundtrip d rest (fun s hs => h s (by simp [hs]))
      simp [fromSteps, h1, h2, bind, Except.bind, pure, Except.pure]

/-- **the WCS node**: name, pixel shape (present or `None`), the frame sequence and each step's transform come back -/
theorem wcs_roundtrip (d : Kind → Defaults) (w : WcsObj) (h : ∀ s ∈ w.steps, TreeOK d s.1) :
    fromWcsNode d (toWcsNode w) = .ok w := by
  simp [fromWcsNode, toWcsNode, steps_roundtrip d w.steps h, bind, Except.bind, pure, Except.pure]

/-- **selectors**: the label → transform association survives, for any iteration order of the mapping -/
theorem selector_roundtrip {κ τ} (sel : List (κ × τ)) : selFromNode (selToNode sel) = sel := by
  simp only [selFromNode, selToNode]
  induction sel with
  | nil => rfl
  | cons x xs ih => simp [ih]

/-- positional construction binds every node key to the parameter of the same name exactly when the call
lists the keys in the constructor's parameter order -/
theorem positional_binding {ν} (params : List String) (node : String → ν) :
    bindPositional params params node = params.map (fun k => (k, node k)) := by
  simp [bindPositional]
  induction params with
  | nil => rfl
  | cons p ps ih => simp [ih]

/-- ... and a transposition of two keys whose values differ is visible -/
theorem positional_swap_detected {ν} (a b : String) (node : String → ν) (hab : node a ≠ node b) :
    bindPositional [a, b] [b, a] node ≠ [a, b].map (fun k => (k, node k)) := by
  simp [bindPositional]
  intro h
  exact absurd h.symm hab

/-- non-vacuity: a spectral frame with a reference position satisfies the hypotheses -/
example : (⟨.spectral, "spec", 1, ["SPECTRAL"], [0], ["wavelength"], none, ["um"], ["em.wl"], some "BARYCENTER"⟩ : Frame).WF
    (fun _ => ⟨1, ["SPECTRAL"], [0], [""], [""], [""]⟩) := by
  refine ⟨fun _ => ⟨rfl, rfl⟩, fun h => absurd rfl h, ?_⟩
  intro p hp
  cases hp
  decide

end Gwcs.Asdf
