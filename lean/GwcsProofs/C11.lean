import GwcsModel.Tab
import GwcsProofs.C11b
import GwcsProofs.C11c
import Mathlib.Tactic.FieldSimp
import Mathlib.Tactic.Ring
import Mathlib.Tactic.Linarith
import Mathlib.Algebra.Order.Field.Rat
/-!
# C11 — FITS -TAB export

* `groups_pairwise_disjoint`, `groups_cover`, `input_set_in_one_group`: the merge loop of `_separable_groups`
  returns pairwise disjoint groups that cover exactly the input axes, and all world axes fed by one pixel
  axis land in one group (so every world axis appears once) — for every list of sets.
* `tab_node_exact`, `tab_spans_box`, `tab_between_nodes`, `step_le_sampling`: with the CRPIX/CDELT/CRVAL that
  `_to_fits_tab` writes, the FITS reader's table index at the k-th node is exactly k+1, the first and last
  nodes are the ends of the box, between two nodes the reader returns a convex combination of the two
  tabulated values, and the node spacing never exceeds the requested step.
* `insertAll_sorted`: NAXISj cards are inserted in increasing axis order.
-/
namespace Gwcs.Tab

/-! ### groups -/

theorem disjoint_iff (a b : ASet) : disjoint a b = true ↔ ∀ x ∈ a, x ∉ b := by
  simp [disjoint, List.all_eq_true]

theorem pass_spec (s : ASet) : ∀ (rest : List ASet),
    (pass s rest).2.length ≤ rest.length
    ∧ ((pass s rest).2.length = rest.length → (pass s rest).1 = s ∧ (pass s rest).2 = rest ∧ ∀ x ∈ rest, disjoint s x = true)
    ∧ (∀ a, a ∈ (pass s rest).1 ∨ (∃ x ∈ (pass s rest).2, a ∈ x) ↔ a ∈ s ∨ ∃ x ∈ rest, a ∈ x)
    ∧ (∀ x ∈ (pass s rest).2, x ∈ rest)
    ∧ (∀ a ∈ s, a ∈ (pass s rest).1)
    ∧ (∀ x ∈ rest, x ∈ (pass s rest).2 ∨ ∀ a ∈ x, a ∈ (pass s rest).1) := by
  intro rest
  induction rest with
  | nil => simp [pass]
  | cons x xs ih =>
    obtain ⟨h1, h2, h3, h4, h5, h6⟩ := ih
    simp only [pass]
    split
    · rename_i hd
      refine ⟨by simpa using h1, ?_, ?_, ?_, h5, ?_⟩
      · intro hl
        have hl' : (pass s xs).2.length = xs.length := by simpa using hl
        obtain ⟨e1, e2, e3⟩ := h2 hl'
        refine ⟨e1, by simp [e2], ?_⟩
        intro y hy
        rcases List.mem_cons.mp hy with rfl | hy
        · rw [← e1]; exact hd
        · exact e3 y hy
      · intro a
        have := h3 a
        simp only [List.mem_cons, exists_eq_or_imp] at this ⊢
        constructor
        · rintro (h | h | h)
          · rcases this.mp (Or.inl h) with h | h
            · exact Or.inl h
            · exact Or.inr (Or.inr h)
          · exact Or.inr (Or.inl h)
          · rcases this.mp (Or.inr h) with h | h
            · exact Or.inl h
            · exact Or.inr (Or.inr h)
        · rintro (h | h | h)
          · rcases this.mpr (Or.inl h) with h | h
            · exact Or.inl h
            · exact Or.inr (Or.inr h)
          · exact Or.inr (Or.inl h)
          · rcases this.mpr (Or.inr h) with h | h
            · exact Or.inl h
            · exact Or.inr (Or.inr h)
      · intro y hy
        rcases List.mem_cons.mp hy with rfl | hy
        · simp
        · exact List.mem_cons_of_mem _ (h4 y hy)
      · intro y hy
        rcases List.mem_cons.mp hy with rfl | hy
        · left; simp
        · rcases h6 y hy with h | h
          · left; exact List.mem_cons_of_mem _ h
          · right; exact h
    · refine ⟨by simp; omega, ?_, ?_, ?_, ?_, ?_⟩
      · intro hl
        simp at hl
        omega
      · intro a
        have := h3 a
        simp only [List.mem_append, List.mem_cons, exists_eq_or_imp] at this ⊢
        constructor
        · rintro ((h | h) | h)
          · rcases this.mp (Or.inl h) with h | h
            · exact Or.inl h
            · exact Or.inr (Or.inr h)
          · exact Or.inr (Or.inl h)
          · rcases this.mp (Or.inr h) with h | h
            · exact Or.inl h
            · exact Or.inr (Or.inr h)
        · rintro (h | h | h)
          · rcases this.mpr (Or.inl h) with h | h
            · exact Or.inl (Or.inl h)
            · exact Or.inr h
          · exact Or.inl (Or.inr h)
          · rcases this.mpr (Or.inr h) with h | h
            · exact Or.inl (Or.inl h)
            · exact Or.inr h
      · intro y hy
        exact List.mem_cons_of_mem _ (h4 y hy)
      · intro a ha
        exact List.mem_append_left _ (h5 a ha)
      · intro y hy
        rcases List.mem_cons.mp hy with rfl | hy
        · right; intro a ha; exact List.mem_append_right _ ha
        · rcases h6 y hy with h | h
          · left; exact h
          · right; intro a ha; exact List.mem_append_left _ (h a ha)

/-- after `absorb` with enough fuel, the grown set is disjoint from every remaining set, membership is preserved,
the remaining sets are some of the original ones, and every original set either remains or has been swallowed -/
theorem absorb_spec : ∀ (fuel : Nat) (s : ASet) (rest : List ASet), rest.length < fuel →
    (∀ x ∈ (absorb fuel s rest).2, disjoint (absorb fuel s rest).1 x = true)
    ∧ (∀ a, a ∈ (absorb fuel s rest).1 ∨ (∃ x ∈ (absorb fuel s rest).2, a ∈ x) ↔ a ∈ s ∨ ∃ x ∈ rest, a ∈ x)
    ∧ (absorb fuel s rest).2.length ≤ rest.length
    ∧ (∀ x ∈ (absorb fuel s rest).2, x ∈ rest)
    ∧ (∀ a ∈ s, a ∈ (absorb fuel s rest).1)
    ∧ (∀ x ∈ rest, x ∈ (absorb fuel s rest).2 ∨ ∀ a ∈ x, a ∈ (absorb fuel s rest).1) := by
  intro fuel
  induction fuel with
  | zero => intro s rest h; omega
  | succ n ih =>
    intro s rest h
    obtain ⟨p1, p2, p3, p4, p5, p6⟩ := pass_spec s rest
    simp only [absorb]
    split
    · rename_i hl
      obtain ⟨e1, e2, e3⟩ := p2 hl
      refine ⟨?_, p3, p1, p4, p5, p6⟩
      intro x hx
      rw [e1]; rw [e2] at hx; exact e3 x hx
    · rename_i hl
      have hlt : (pass s rest).2.length < n := by omega
      obtain ⟨q1, q2, q3, q4, q5, q6⟩ := ih (pass s rest).1 (pass s rest).2 hlt
      refine ⟨q1, ?_, by omega, fun x hx => p4 x (q4 x hx), fun a ha => q5 a (p5 a ha), ?_⟩
      · intro a; rw [q2 a, p3 a]
      · intro x hx
        rcases p6 x hx with h | h
        · exact q6 x h
        · right; intro a ha; exact q5 a (h a ha)

theorem groups_spec : ∀ (fuel : Nat) (sets : List ASet), sets.length ≤ fuel →
    (groups fuel sets).Pairwise (fun g h => disjoint g h = true)
    ∧ (∀ a, (∃ g ∈ groups fuel sets, a ∈ g) ↔ ∃ x ∈ sets, a ∈ x)
    ∧ (∀ x ∈ sets, ∃ g ∈ groups fuel sets, ∀ a ∈ x, a ∈ g) := by
  intro fuel
  induction fuel with
  | zero =>
    intro sets h
    have : sets = [] := List.length_eq_zero_iff.mp (by omega)
    subst this
    simp [groups]
  | succ n ih =>
    intro sets h
    cases sets with
    | nil => simp [groups]
    | cons s rest =>
      simp only [groups]
      obtain ⟨a1, a2, a3, a4, a5, a6⟩ := absorb_spec (rest.length + 1) s rest (by omega)
      have hlen : (absorb (rest.length + 1) s rest).2.length ≤ n := by simp at h; omega
      obtain ⟨i1, i2, i3⟩ := ih _ hlen
      refine ⟨?_, ?_, ?_⟩
      · refine List.Pairwise.cons ?_ i1
        intro g hg
        rw [disjoint_iff]
        intro a ha hag
        obtain ⟨x, hx, hax⟩ := (i2 a).mp ⟨g, hg, hag⟩
        have := (disjoint_iff _ _).mp (a1 x hx) a ha
        exact this hax
      · intro a
        simp only [List.mem_cons, exists_eq_or_imp]
        rw [i2 a, a2 a]
      · intro x hx
        rcases List.mem_cons.mp hx with rfl | hx
        · exact ⟨_, by simp, a5⟩
        · rcases a6 x hx with h' | h'
          · obtain ⟨g, hg, hsub⟩ := i3 x h'
            exact ⟨g, List.mem_cons_of_mem _ hg, hsub⟩
          · exact ⟨_, by simp, h'⟩

/-- **every world axis appears in exactly one group**: the groups are pairwise disjoint ... -/
theorem groups_pairwise_disjoint (sets : List ASet) :
    (separableGroups sets).Pairwise (fun g h => disjoint g h = true) :=
  (groups_spec sets.length sets (Nat.le_refl _)).1

/-- ... they contain exactly the axes of the input sets ... -/
theorem groups_cover (sets : List ASet) (a : Nat) :
    (∃ g ∈ separableGroups sets, a ∈ g) ↔ ∃ x ∈ sets, a ∈ x :=
  (groups_spec sets.length sets (Nat.le_refl _)).2.1 a

/-- ... and world axes that share a pixel axis (one column of the correlation matrix) are never split -/
theorem input_set_in_one_group (sets : List ASet) (x : ASet) (hx : x ∈ sets) :
    ∃ g ∈ separableGroups sets, ∀ a ∈ x, a ∈ g :=
  (groups_spec sets.length sets (Nat.le_refl _)).2.2 x hx

/-! #### the groups are connected: together with disjointness and `input_set_in_one_group` they are exactly the connected
components of the "share a pixel axis" relation -/

/-- `a` and `c` are linked through a chain of input sets, consecutive ones sharing an axis -/
inductive Reach (U : List ASet) : Nat → Nat → Prop
  | refl (a : Nat) : Reach U a a
  | step {a b c : Nat} (x : ASet) (hx : x ∈ U) (ha : a ∈ x) (hb : b ∈ x) (h : Reach U b c) : Reach U a c

theorem Reach.trans {U : List ASet} {a b c : Nat} (h1 : Reach U a b) (h2 : Reach U b c) : Reach U a c := by
  induction h1 with
  | refl _ => exact h2
  | step x hx ha hb _ ih => exact Reach.step x hx ha hb (ih h2)

theorem Reach.single {U : List ASet} {a b : Nat} (x : ASet) (hx : x ∈ U) (ha : a ∈ x) (hb : b ∈ x) : Reach U a b :=
  Reach.step x hx ha hb (Reach.refl b)

theorem Reach.symm {U : List ASet} {a b : Nat} (h : Reach U a b) : Reach U b a := by
  induction h with
  | refl _ => exact Reach.refl _
  | step x hx ha hb _ ih => exact ih.trans (Reach.single x hx hb ha)

def Conn (U : List ASet) (g : ASet) : Prop := ∀ a ∈ g, ∀ b ∈ g, Reach U a b

theorem conn_of_mem {U : List ASet} {x : ASet} (hx : x ∈ U) : Conn U x :=
  fun _ ha _ hb => Reach.single x hx ha hb

theorem conn_append {U : List ASet} {s x : ASet} (hs : Conn U s) (hx : x ∈ U) (hnd : disjoint s x = false) : Conn U (s ++ x) := by
  have : ∃ c ∈ s, c ∈ x := by
    by_contra hcon
    have : disjoint s x = true := by
      rw [disjoint_iff]; intro c hc hcx; exact hcon ⟨c, hc, hcx⟩
    rw [this] at hnd; cases hnd
  obtain ⟨c, hcs, hcx⟩ := this
  intro a ha b hb
  rcases List.mem_append.mp ha with ha | ha <;> rcases List.mem_append.mp hb with hb | hb
  · exact hs a ha b hb
  · exact (hs a ha c hcs).trans (Reach.single x hx hcx hb)
  · exact (Reach.single x hx ha hcx).trans (hs c hcs b hb)
  · exact Reach.single x hx ha hb

theorem pass_conn (U : List ASet) (s : ASet) (hs : Conn U s) : ∀ rest : List ASet, (∀ x ∈ rest, x ∈ U) → Conn U (pass s rest).1 := by
  intro rest
  induction rest with
  | nil => intro _; simpa [pass] using hs
  | cons x xs ih =>
    intro hU
    have ihc := ih (fun y hy => hU y (by simp [hy]))
    simp only [pass]
    split
    · exact ihc
    · rename_i hd
      exact conn_append ihc (hU x (by simp)) (by simpa using hd)

theorem absorb_conn (U : List ASet) : ∀ (fuel : Nat) (s : ASet) (rest : List ASet), Conn U s → (∀ x ∈ rest, x ∈ U) →
    Conn U (absorb fuel s rest).1 := by
  intro fuel
  induction fuel with
  | zero => intro s rest hs _; simpa [absorb] using hs
  | succ n ih =>
    intro s rest hs hU
    simp only [absorb]
    split
    · exact pass_conn U s hs rest hU
    · exact ih _ _ (pass_conn U s hs rest hU) (fun x hx => hU x ((pass_spec s rest).2.2.2.1 x hx))

theorem groups_conn (U : List ASet) : ∀ (fuel : Nat) (sets : List ASet), sets.length ≤ fuel → (∀ x ∈ sets, x ∈ U) →
    ∀ g ∈ groups fuel sets, Conn U g := by
  intro fuel
  induction fuel with
  | zero =>
    intro sets h _ g hg
    have : sets = [] := List.length_eq_zero_iff.mp (by omega)
    subst this
    simp [groups] at hg
  | succ n ih =>
    intro sets h hU g hg
    cases sets with
    | nil => simp [groups] at hg
    | cons s rest =>
      simp only [groups] at hg
      have hrestU : ∀ x ∈ rest, x ∈ U := fun x hx => hU x (by simp [hx])
      obtain ⟨_, _, a3, a4, _, _⟩ := absorb_spec (rest.length + 1) s rest (by omega)
      rcases List.mem_cons.mp hg with rfl | hg
      · exact absorb_conn U _ s rest (conn_of_mem (hU s (by simp))) hrestU
      · exact ih _ (by simp at h; omega) (fun x hx => hrestU x (a4 x hx)) g hg

/-- **every group is connected**: any two of its world axes are linked through a chain of pixel axes -/
theorem groups_connected (sets : List ASet) : ∀ g ∈ separableGroups sets, Conn sets g :=
  groups_conn sets sets.length sets (Nat.le_refl _) (fun _ h => h)

/-- the chain a-(x0,x1), b-(x1,x2), c-(x2) that the single-pass loop split into {a,b},{b,c} (D17) -/
example : separableGroups [[0], [0, 1], [1, 2]] = [[0, 0, 1, 1, 2]] := by decide

/-! ### the tabulated axis -/

theorem npix_ge_two (lo hi s : Rat) : 2 ≤ npix lo hi s := by
  unfold npix; omega

theorem tab_spans_box (lo hi : Rat) (n : Nat) (hn : 2 ≤ n) :
    node lo hi n 0 = lo ∧ node lo hi n (n - 1) = hi := by
  have h1 : ((n : Rat) - 1) ≠ 0 := by
    have : (2 : Rat) ≤ (n : Rat) := by exact_mod_cast hn
    linarith
  constructor
  · simp [node]
  · unfold node
    have : ((n - 1 : Nat) : Rat) = (n : Rat) - 1 := by
      rw [Nat.cast_sub (by omega)]; simp
    rw [this]
    field_simp
    ring

/-- **node exactness**: the reader's table index at the k-th node is exactly k+1 -/
theorem tab_node_exact (lo hi : Rat) (n k : Nat) (hn : 2 ≤ n) (hne : lo ≠ hi) :
    psi lo hi n (node lo hi n k) = (k : Rat) + 1 := by
  have h1 : ((n : Rat) - 1) ≠ 0 := by
    have : (2 : Rat) ≤ (n : Rat) := by exact_mod_cast hn
    linarith
  have h2 : hi - lo ≠ 0 := sub_ne_zero.mpr (Ne.symm hne)
  unfold psi cdelt crpix node
  simp only [ne_eq, hne, not_false_eq_true, ↓reduceIte]
  field_simp
  ring

/-- the index is affine and increasing in the pixel coordinate when hi > lo -/
theorem psi_mono (lo hi : Rat) (n : Nat) (hn : 2 ≤ n) (hlt : lo < hi) (p q : Rat) (hpq : p ≤ q) :
    psi lo hi n p ≤ psi lo hi n q := by
  have h1 : (0 : Rat) < (n : Rat) - 1 := by
    have : (2 : Rat) ≤ (n : Rat) := by exact_mod_cast hn
    linarith
  have hc : 0 < cdelt lo hi n := by
    unfold cdelt
    simp only [ne_eq, ne_of_lt hlt, not_false_eq_true, ↓reduceIte]
    exact div_pos h1 (by linarith)
  unfold psi
  have : cdelt lo hi n * (p + 1 - crpix lo) ≤ cdelt lo hi n * (q + 1 - crpix lo) :=
    mul_le_mul_of_nonneg_left (by linarith) (le_of_lt hc)
  linarith

/-- **between nodes** the reader returns a convex combination of the two neighbouring tabulated values -/
theorem tab_between_nodes (t : Nat → Rat) (n k : Nat) (ps : Rat) (hk1 : 1 ≤ k) (hkn : k < n)
    (h1 : (k : Rat) ≤ ps) (h2 : ps < (k : Rat) + 1) :
    ∃ w : Rat, 0 ≤ w ∧ w < 1 ∧ interp t n ps = (1 - w) * t (k - 1) + w * t k := by
  have hfl : Rat.floor ps = (k : Int) := by
    have : ((k : Int) : Rat) ≤ ps := by simpa using h1
    have h3 : ps < (((k : Int) + 1 : Int) : Rat) := by push_cast; simpa using h2
    have := Rat.le_floor_iff.mpr this
    have := Rat.floor_lt_iff.mpr h3
    omega
  refine ⟨ps - k, by linarith, by linarith, ?_⟩
  unfold interp
  simp only [hfl, Int.toNat_natCast]
  have : ¬ k < 1 := by omega
  have : ¬ n ≤ k := by omega
  simp [*]
  ring

/-- at a node the interpolation returns the tabulated value itself -/
theorem interp_at_node (t : Nat → Rat) (n k : Nat) (hkn : k < n) :
    interp t n ((k : Rat) + 1) = t k := by
  have hfl : Rat.floor ((k : Rat) + 1) = ((k + 1 : Nat) : Int) := by
    have : ((k : Rat) + 1) = (((k + 1 : Nat) : Int) : Rat) := by push_cast; ring
    rw [this, Rat.floor_intCast]
  unfold interp
  simp only [hfl, Int.toNat_natCast]
  by_cases hlast : n ≤ k + 1
  · have : k = n - 1 := by omega
    simp [this]
  · simp [hlast]

/-- so, end to end: the reader's value at the k-th node of the grid is the k-th tabulated value -/
theorem reader_at_node (t : Nat → Rat) (lo hi : Rat) (n k : Nat) (hn : 2 ≤ n) (hne : lo ≠ hi) (hkn : k < n) :
    interp t n (psi lo hi n (node lo hi n k)) = t k := by
  rw [tab_node_exact lo hi n k hn hne, interp_at_node t n k hkn]

/-- the node spacing never exceeds the requested step `s` -/
theorem step_le_sampling (lo hi s : Rat) (hs : 0 < s) (hlt : lo < hi) :
    (hi - lo) / (((npix lo hi s : Nat) : Rat) - 1) ≤ s := by
  have hpos : 0 < (hi - lo) / s := div_pos (by linarith) hs
  have habs : absR ((hi - lo) / s) = (hi - lo) / s := by
    unfold absR; simp [not_lt.mpr (le_of_lt hpos)]
  have hc : (hi - lo) / s ≤ ((Rat.ceil ((hi - lo) / s) : Int) : Rat) := Rat.le_ceil
  have hcpos : 0 < Rat.ceil ((hi - lo) / s) := by
    have : ((0 : Int) : Rat) < (hi - lo) / s := by simpa using hpos
    exact Rat.lt_ceil_iff.mpr this |> fun h => by omega
  have hn : (((npix lo hi s : Nat) : Rat) - 1) ≥ ((Rat.ceil ((hi - lo) / s) : Int) : Rat) := by
    unfold npix
    rw [habs]
    have h1 : (((max 2 (1 + (Rat.ceil ((hi - lo) / s)).toNat) : Nat) : Rat)) ≥ ((1 + (Rat.ceil ((hi - lo) / s)).toNat : Nat) : Rat) := by
      exact_mod_cast Nat.le_max_right _ _
    have h2 : (((Rat.ceil ((hi - lo) / s)).toNat : Nat) : Rat) = ((Rat.ceil ((hi - lo) / s) : Int) : Rat) := by
      have : ((Rat.ceil ((hi - lo) / s)).toNat : Int) = Rat.ceil ((hi - lo) / s) := Int.toNat_of_nonneg (by omega)
      exact_mod_cast this
    push_cast at h1 ⊢
    linarith
  have hd : 0 < (((npix lo hi s : Nat) : Rat) - 1) := by
    have : (0 : Rat) < ((Rat.ceil ((hi - lo) / s) : Int) : Rat) := by exact_mod_cast hcpos
    linarith
  rw [div_le_iff₀ hd]
  have : (hi - lo) / s * s = hi - lo := by field_simp
  nlinarith [mul_le_mul_of_nonneg_right (le_trans hc hn) (le_of_lt hs)]

/-! ### header bookkeeping -/

theorem insertSorted_sorted (x : Nat) (l : List Nat) (h : l.Pairwise (· ≤ ·)) : (insertSorted x l).Pairwise (· ≤ ·) := by
  induction l with
  | nil => simp [insertSorted]
  | cons y ys ih =>
    simp only [insertSorted]
    split
    · rename_i hxy
      refine List.Pairwise.cons ?_ h
      intro z hz
      rcases List.mem_cons.mp hz with rfl | hz
      · exact hxy
      · exact Nat.le_trans hxy ((List.pairwise_cons.mp h).1 z hz)
    · rename_i hxy
      have hy := List.pairwise_cons.mp h
      refine List.Pairwise.cons ?_ (ih hy.2)
      intro z hz
      have : z = x ∨ z ∈ ys := by
        clear ih h hy
        induction ys with
        | nil => simp [insertSorted] at hz; exact Or.inl hz
        | cons w ws ihw =>
          simp only [insertSorted] at hz
          split at hz
          · rcases List.mem_cons.mp hz with rfl | hz
            · exact Or.inl rfl
            · exact Or.inr hz
          · rcases List.mem_cons.mp hz with rfl | hz
            · exact Or.inr (by simp)
            · rcases ihw hz with h | h
              · exact Or.inl h
              · exact Or.inr (List.mem_cons_of_mem _ h)
      rcases this with rfl | hz
      · omega
      · exact hy.1 z hz

/-- NAXISj cards end up in increasing axis order whatever the order in which groups contribute their axes -/
theorem insertAll_sorted (axes used : List Nat) (h : used.Pairwise (· ≤ ·)) : (insertAll axes used).Pairwise (· ≤ ·) := by
  unfold insertAll
  induction axes generalizing used with
  | nil => simpa
  | cons a as ih => exact ih _ (insertSorted_sorted a used h)

/-- `NAXISj = int(max(box)) + 1` holds at least the last pixel of the box -/
theorem naxis_holds_box (lo hi : Rat) (h : 0 ≤ max lo hi) : max lo hi < (naxis lo hi : Rat) := by
  unfold naxis
  simp only [h, ↓reduceIte]
  have := Rat.lt_floor_add_one (max lo hi)
  push_cast at this ⊢
  linarith

/-- non-vacuity: a fractional, offset box with a step that does not divide it -/
example : npix (9/4) (35/2) (7/10) = 23 ∧ node (9/4) (35/2) 23 22 = 35/2 ∧ psi (9/4) (35/2) 23 (node (9/4) (35/2) 23 7) = 8 := by
  refine ⟨by decide +kernel, by decide +kernel, by decide +kernel⟩

end Gwcs.Tab
