-- C18: grid_from_bounding_box / footprint (C18a) and the SIP sampling lattice (C18b)
import GwcsProofs.C18a
import GwcsProofs.C18b
