/-
  C14 — Polygon masks cover the polygon, hug it, and clip cleanly to the image.
  Property theorems only; helper lemmas live in GwcsProofs/Lemmas/PolyLemmas.lean.
-/
import GwcsProofs.Lemmas.PolyLemmas

namespace Gwcs.Poly

/-- **fill_iff_count.** Pairing a sorted even-length list two at a time and filling the closed
    spans marks `p` iff `p` is one of the end points or an odd number of entries lie strictly
    left of it. -/
theorem marked_iff_count : ∀ (l : List Int) (p : Int), l.Pairwise (· ≤ ·) → l.length % 2 = 0 →
    (markedBy l p = true ↔ (p ∈ l ∨ cntLt l p % 2 = 1))
  | [], p, _, _ => by simp [markedBy, pairs, cntLt]
  | [a], p, _, he => by simp at he
  | a :: b :: r, p, hs, he => by
    have hs' : r.Pairwise (· ≤ ·) := by
      simp only [List.pairwise_cons] at hs; exact hs.2.2
    have ih := marked_iff_count r p hs' (by simp at he; omega)
    have hab : a ≤ b := by
      simp only [List.pairwise_cons] at hs; exact hs.1 b (by simp)
    have hbr : ∀ c ∈ r, b ≤ c := by
      simp only [List.pairwise_cons] at hs; exact hs.2.1
    rw [markedBy_cons2, Bool.or_eq_true, ih, cntLt_cons, cntLt_cons]
    simp only [decide_eq_true_eq, List.mem_cons]
    by_cases h1 : p < a
    · have hz : cntLt r p = 0 := cntLt_zero_of_le r p (fun c hc => by have := hbr c hc; omega)
      have hn : p ∉ r := fun hm => by have := hbr p hm; omega
      have na : ¬ a < p := by omega
      have nb : ¬ b < p := by omega
      simp only [hz, hn, na, nb, if_false]
      constructor
      · rintro (h | h)
        · omega
        · rcases h with h | h <;> simp at h
      · rintro ((h | h | h) | h)
        · omega
        · omega
        · exact h.elim
        · simp at h
    · by_cases h2 : p ≤ b
      · have hz : cntLt r p = 0 := cntLt_zero_of_le r p (fun c hc => by have := hbr c hc; omega)
        rw [hz]
        constructor
        · intro _
          by_cases hpa : p = a
          · exact Or.inl (Or.inl hpa)
          · by_cases hpb : p = b
            · exact Or.inl (Or.inr (Or.inl hpb))
            · right
              have : a < p := by omega
              have : ¬ b < p := by omega
              simp [*]
        · intro _; left; omega
      · have ha : a < p := by omega
        have hb : b < p := by omega
        simp only [ha, hb, if_true]
        constructor
        · rintro (h | h | h)
          · omega
          · exact Or.inl (Or.inr (Or.inr h))
          · right; omega
        · rintro ((h | h | h) | h)
          · omega
          · omega
          · exact Or.inr (Or.inl h)
          · right; right; omega

/-- **clip.** With the guard, the columns written for the span `[i, j]` shifted by `s` on a row of
    `nx` pixels are exactly the in-image columns of the shifted span (Python slice semantics). -/
theorem spanCols_iff (nx : Nat) (s i j : Int) (c : Nat) :
    c ∈ spanCols nx s i j ↔ (c < nx ∧ i + s ≤ c ∧ (c : Int) ≤ j + s) := by
  unfold spanCols
  simp only
  split
  · simp only [List.not_mem_nil, false_iff]; omega
  · rw [mem_pySlice_range _ _ _ (by omega) (by omega)]; omega

/-- Witness (not the property): without the guard a span wholly left of the image wraps around —
    the D2 defect: span `[0,5]` shifted by `-10` on a 12-pixel row writes column 7. -/
theorem spanColsUnguarded_wraps :
    (7 : Nat) ∈ spanColsUnguarded 12 (-10) 0 5 ∧ ¬ (((7 : Nat) : Int) ≤ 5 + (-10)) := by
  decide

/-- Row-level marking through sorting: membership and counts are those of the unsorted list. -/
theorem marked_sorted_iff (cs : List Int) (p : Int) (he : cs.length % 2 = 0) :
    markedBy (sortInts cs) p = true ↔ (p ∈ cs ∨ cntLt cs p % 2 = 1) := by
  rw [marked_iff_count _ _ (sortInts_sorted cs) (by rw [(sortInts_perm cs).length_eq]; exact he)]
  rw [(sortInts_perm cs).mem_iff, cntLt_perm (sortInts_perm cs)]

/-- **row_covers.** On a row crossed by an even number of edges, an integer column with an odd
    number of exact crossings strictly to its left and none through it is marked, whatever the
    admissible slack. -/
theorem row_covers (l : List (Rat × Int)) (p : Int) (hadm : ∀ xs ∈ l, admissible xs)
    (heven : l.length % 2 = 0) (hodd : cntLtQ l p % 2 = 1) (hne : ∀ xs ∈ l, xs.1 ≠ (p : Rat)) :
    markedBy (sortInts (l.map cOf)) p = true := by
  rw [marked_sorted_iff _ _ (by simpa using heven)]
  by_cases hc : p ∈ l.map cOf
  · exact Or.inl hc
  · right; rw [cntLt_map_cOf l p hadm hc hne]; exact hodd

/-- **row_hugs.** A marked column is within one pixel to the right of an exact crossing, or has an
    odd number of crossings strictly to its left (and none through it). -/
theorem row_hugs (l : List (Rat × Int)) (p : Int) (hadm : ∀ xs ∈ l, admissible xs)
    (heven : l.length % 2 = 0) (hm : markedBy (sortInts (l.map cOf)) p = true) :
    (∃ xs ∈ l, 0 ≤ (p : Rat) - xs.1 ∧ (p : Rat) - xs.1 ≤ 1) ∨
      (cntLtQ l p % 2 = 1 ∧ ∀ xs ∈ l, xs.1 ≠ (p : Rat)) := by
  rw [marked_sorted_iff _ _ (by simpa using heven)] at hm
  by_cases hc : p ∈ l.map cOf
  · left
    obtain ⟨xs, hxs, he⟩ := List.mem_map.mp hc
    exact ⟨xs, hxs, by rw [← he]; exact cOf_near xs (hadm xs hxs)⟩
  · by_cases hx : ∀ xs ∈ l, xs.1 ≠ (p : Rat)
    · right
      rcases hm with hm | hm
      · exact absurd hm hc
      · rw [cntLt_map_cOf l p hadm hc hx] at hm; exact ⟨hm, hx⟩
    · left
      have : ∃ xs ∈ l, xs.1 = (p : Rat) := by
        apply Classical.byContradiction
        intro hno
        apply hx
        intro xs hxs he
        exact hno ⟨xs, hxs, he⟩
      obtain ⟨xs, hxs, he⟩ := this
      exact ⟨xs, hxs, by rw [he]; constructor <;> grind⟩

/-- **even_crossings (half-open below).** A closed vertex cycle meets every row in an even number
    of edges under the rule `ymin ≤ y < ymax`. -/
theorem closed_even_lo (v : List Pt) (hne : v ≠ []) (hclosed : v.head hne = v.getLast hne) (y : Int) :
    (activeLo (edgesOf v) y).length % 2 = 0 := by
  obtain ⟨a, r, rfl⟩ := List.exists_cons_of_ne_nil hne
  unfold activeLo
  rw [← List.countP_eq_length_filter]
  have hc : ∀ e : Edge, decide (e.ymin ≤ y ∧ y < e.ymax) =
      ((fun p : Pt => decide (p.y ≤ y)) ⟨e.sx, e.sy⟩ != (fun p : Pt => decide (p.y ≤ y)) ⟨e.ex, e.ey⟩) := by
    intro e
    have := lo_cond e y
    cases h : (decide (e.sy ≤ y) != decide (e.ey ≤ y)) <;> simp_all
  rw [List.countP_congr (fun e _ => by rw [hc e])]
  rw [chain_parity (fun p : Pt => decide (p.y ≤ y)) a r]
  simp only [List.head_cons] at hclosed
  rw [← hclosed]; simp

/-- **even_crossings (half-open above)**, rule `ymin < y ≤ ymax` (used on the top row). -/
theorem closed_even_hi (v : List Pt) (hne : v ≠ []) (hclosed : v.head hne = v.getLast hne) (y : Int) :
    (activeHi (edgesOf v) y).length % 2 = 0 := by
  obtain ⟨a, r, rfl⟩ := List.exists_cons_of_ne_nil hne
  unfold activeHi
  rw [← List.countP_eq_length_filter]
  have hc : ∀ e : Edge, decide (e.ymin < y ∧ y ≤ e.ymax) =
      ((fun p : Pt => decide (p.y < y)) ⟨e.sx, e.sy⟩ != (fun p : Pt => decide (p.y < y)) ⟨e.ex, e.ey⟩) := by
    intro e
    have := hi_cond e y
    cases h : (decide (e.sy < y) != decide (e.ey < y)) <;> simp_all
  rw [List.countP_congr (fun e _ => by rw [hc e])]
  rw [chain_parity (fun p : Pt => decide (p.y < y)) a r]
  simp only [List.head_cons] at hclosed
  rw [← hclosed]; simp

/-! ### Polygon-level statements

`InsideLo v p y`: an odd number of edges of the closed chain `v` cross row `y` (rule
`ymin ≤ y < ymax`) strictly left of the integer column `p`, none through it — the even–odd
definition of "the pixel centre `(p, y)` is strictly inside".  `InsideHi` is the same with the
rule `ymin < y ≤ ymax`; a point satisfying either lies in the closure of the even–odd interior. -/

def crossingsLeft (act : List Edge) (p y : Int) : Nat :=
  act.countP (fun e => decide (e.xAt y < (p : Rat)))

def InsideLo (v : List Pt) (p y : Int) : Prop :=
  crossingsLeft (activeLo (edgesOf v) y) p y % 2 = 1 ∧ ∀ e ∈ activeLo (edgesOf v) y, e.xAt y ≠ (p : Rat)

def InsideHi (v : List Pt) (p y : Int) : Prop :=
  crossingsLeft (activeHi (edgesOf v) y) p y % 2 = 1 ∧ ∀ e ∈ activeHi (edgesOf v) y, e.xAt y ≠ (p : Rat)

/-- a point of a non-horizontal edge on row `y` lies within one pixel to the left of column `p` -/
def NearBoundary (v : List Pt) (p y : Int) : Prop :=
  ∃ e ∈ edgesOf v, e.sy ≠ e.ey ∧ e.ymin ≤ y ∧ y ≤ e.ymax ∧
    0 ≤ (p : Rat) - e.xAt y ∧ (p : Rat) - e.xAt y ≤ 1

def Admissible (σ : Slack) : Prop := ∀ e y, admissibleAt σ e y

theorem rowXs_eq (σ : Slack) (act : List Edge) (y : Int) :
    rowXs σ act y = (act.map (fun e => (e.xAt y, σ e y))).map cOf := by
  simp [rowXs, cOf, List.map_map, Function.comp_def]

theorem activeLo_pred_eq_activeHi (es : List Edge) (y : Int) : activeLo es (y - 1) = activeHi es y := by
  unfold activeLo activeHi
  apply List.filter_congr
  intro e _
  have : (e.ymin ≤ y - 1 ∧ y - 1 < e.ymax) ↔ (e.ymin < y ∧ y ≤ e.ymax) := by omega
  simp [this]

theorem geoOf_es (v : List Pt) : (geoOf v).es = edgesOf v := by
  cases v <;> simp [geoOf, edgesOf]

/-- marking on a row in terms of an explicit active list -/
theorem marked_of_inside (σ : Slack) (hσ : Admissible σ) (act : List Edge) (p y : Int)
    (heven : act.length % 2 = 0)
    (hodd : crossingsLeft act p y % 2 = 1) (hne : ∀ e ∈ act, e.xAt y ≠ (p : Rat)) :
    markedBy (sortInts (rowXs σ act y)) p = true := by
  rw [rowXs_eq]
  apply row_covers
  · intro xs hxs
    obtain ⟨e, _, rfl⟩ := List.mem_map.mp hxs
    exact hσ e y
  · simpa using heven
  · unfold cntLtQ; rw [List.countP_map]; exact hodd
  · intro xs hxs
    obtain ⟨e, he, rfl⟩ := List.mem_map.mp hxs
    exact hne e he

theorem near_or_inside_of_marked (σ : Slack) (hσ : Admissible σ) (act : List Edge) (p y : Int)
    (heven : act.length % 2 = 0) (hm : markedBy (sortInts (rowXs σ act y)) p = true) :
    (∃ e ∈ act, 0 ≤ (p : Rat) - e.xAt y ∧ (p : Rat) - e.xAt y ≤ 1) ∨
      (crossingsLeft act p y % 2 = 1 ∧ ∀ e ∈ act, e.xAt y ≠ (p : Rat)) := by
  rw [rowXs_eq] at hm
  have := row_hugs _ p (by
      intro xs hxs
      obtain ⟨e, _, rfl⟩ := List.mem_map.mp hxs
      exact hσ e y) (by simpa using heven) hm
  rcases this with ⟨xs, hxs, h⟩ | ⟨h1, h2⟩
  · left
    obtain ⟨e, he, rfl⟩ := List.mem_map.mp hxs
    exact ⟨e, he, h⟩
  · right
    refine ⟨?_, ?_⟩
    · unfold cntLtQ at h1; rw [List.countP_map] at h1; exact h1
    · intro e he
      exact h2 (e.xAt y, σ e y) (List.mem_map_of_mem he)

/-- **covers_strict_interior.** For every closed vertex chain of positive width, every admissible
    slack and every integer pixel centre `(p, y)` on a row of the polygon: if the centre is
    strictly inside by the even–odd rule (rule Lo below the top row, rule Hi on the top row)
    then the scan marks it. -/
theorem covers_strict_interior (σ : Slack) (hσ : Admissible σ) (v : List Pt) (hne : v ≠ [])
    (hclosed : v.head hne = v.getLast hne) (hw : 0 < (geoOf v).width) (p y : Int)
    (hy : (geoOf v).ybot ≤ y ∧ y ≤ (geoOf v).ytop)
    (hin : (y < (geoOf v).ytop ∧ InsideLo v p y) ∨ (y = (geoOf v).ytop ∧ InsideHi v p y)) :
    canvasMarked σ (geoOf v) p y = true := by
  unfold canvasMarked activeAt
  rw [geoOf_es]
  simp only [Bool.and_eq_true, decide_eq_true_eq]
  refine ⟨⟨hy.1, hy.2, hw⟩, ?_⟩
  rcases hin with ⟨hlt, h1, h2⟩ | ⟨heq, h1, h2⟩
  · rw [if_pos hlt]
    exact marked_of_inside σ hσ _ p y (closed_even_lo v hne hclosed y) h1 h2
  · rw [if_neg (by omega), ← heq, activeLo_pred_eq_activeHi]
    exact marked_of_inside σ hσ _ p y (closed_even_hi v hne hclosed y) h1 h2

/-- **hugs.** Every marked pixel `(p, y)` is at most one pixel to the right of a boundary point of
    its own row, or is inside by the even–odd rule (hence in the closed polygon). -/
theorem hugs (σ : Slack) (hσ : Admissible σ) (v : List Pt) (hne : v ≠ [])
    (hclosed : v.head hne = v.getLast hne) (p y : Int)
    (hm : canvasMarked σ (geoOf v) p y = true) :
    NearBoundary v p y ∨ InsideLo v p y ∨ InsideHi v p y := by
  unfold canvasMarked activeAt at hm
  rw [geoOf_es] at hm
  simp only [Bool.and_eq_true, decide_eq_true_eq] at hm
  obtain ⟨⟨_, hyt, _⟩, hm⟩ := hm
  by_cases hlt : y < (geoOf v).ytop
  · rw [if_pos hlt] at hm
    rcases near_or_inside_of_marked σ hσ _ p y (closed_even_lo v hne hclosed y) hm with ⟨e, he, h⟩ | h
    · left
      unfold activeLo at he
      simp only [List.mem_filter, decide_eq_true_eq] at he
      refine ⟨e, he.1, ?_, he.2.1, by omega, h⟩
      intro heq
      have := he.2
      unfold Edge.ymin Edge.ymax at this
      omega
    · right; left; exact h
  · have heq : y = (geoOf v).ytop := by omega
    rw [if_neg hlt, ← heq, activeLo_pred_eq_activeHi] at hm
    rcases near_or_inside_of_marked σ hσ _ p y (closed_even_hi v hne hclosed y) hm with ⟨e, he, h⟩ | h
    · left
      unfold activeHi at he
      simp only [List.mem_filter, decide_eq_true_eq] at he
      refine ⟨e, he.1, ?_, by omega, he.2.2, h⟩
      intro heq
      have := he.2
      unfold Edge.ymin Edge.ymax at this
      omega
    · right; right; exact h

/-- **rows_out_of_reach_untouched.** Nothing is marked on rows the polygon does not reach. -/
theorem rows_out_of_reach_untouched (σ : Slack) (g : Geo) (p y : Int) (h : y < g.ybot ∨ g.ytop < y) :
    canvasMarked σ g p y = false := by
  unfold canvasMarked
  have : ¬ (g.ybot ≤ y ∧ y ≤ g.ytop ∧ 0 < g.width) := by omega
  simp [this]

/-- **zero_width_marks_nothing.** -/
theorem zero_width_marks_nothing (σ : Slack) (g : Geo) (p y : Int) (h : g.width ≤ 0) :
    canvasMarked σ g p y = false := by
  unfold canvasMarked
  have : ¬ (g.ybot ≤ y ∧ y ≤ g.ytop ∧ 0 < g.width) := by omega
  simp [this]

theorem markedBy_iff (l : List Int) (p : Int) :
    markedBy l p = true ↔ ∃ ij ∈ pairs l, ij.1 ≤ p ∧ p ≤ ij.2 := by
  simp [markedBy, List.any_eq_true]

/-- **clip_eq_crop.** On an `ny × nx` image the pixel `(r, c)` written by `scan` is exactly the
    canvas marking of the prepared polygon at `(c - shiftx, r - shifty)`: the answer does not
    depend on `ny, nx`, so the mask equals the crop of the mask on any larger canvas, also for
    polygons partly or wholly at negative coordinates. -/
theorem clip_eq_crop (σ : Slack) (p : Prep) (ny nx r c : Nat) (hr : r < ny) (hc : c < nx) :
    (rowCols σ p (geoOf p.verts) ny nx r).contains c =
      canvasMarked σ (geoOf p.verts) ((c : Int) - p.shiftx) ((r : Int) - p.shifty) := by
  unfold rowCols canvasMarked
  simp only
  by_cases hcond : (geoOf p.verts).ybot ≤ (r : Int) - p.shifty ∧ (r : Int) - p.shifty ≤ (geoOf p.verts).ytop ∧
      0 < (geoOf p.verts).width
  · rw [if_pos ⟨hr, hcond⟩]
    simp only [hcond, and_self, decide_true, Bool.true_and]
    rw [Bool.eq_iff_iff, markedBy_iff]
    simp only [List.contains_iff_mem, List.mem_flatMap, spanCols_iff]
    constructor
    · rintro ⟨ij, hij, _, h1, h2⟩
      exact ⟨ij, hij, by omega, by omega⟩
    · rintro ⟨ij, hij, h1, h2⟩
      exact ⟨ij, hij, hc, by omega, by omega⟩
  · rw [if_neg (fun h => hcond h.2)]
    simp [hcond]

/-- **round_is_nearest.** The vertex used is within half a pixel of the given one, wherever it
    lies: `v - 1/2 < roundQ v ≤ v + 1/2`. -/
theorem round_is_nearest (r : Rat) : r - 1 / 2 < (roundQ r : Rat) ∧ (roundQ r : Rat) ≤ r + 1 / 2 := by
  unfold roundQ
  have h1 := Rat.floor_le (r + 1 / 2)
  have h2 := Rat.lt_floor_add_one (r + 1 / 2)
  have h3 : (((r + 1 / 2).floor + 1 : Int) : Rat) = ((r + 1 / 2).floor : Rat) + 1 := by
    simp [Rat.intCast_add]
  rw [h3] at h2
  constructor <;> grind

/-- **round_commutes_with_integer_shift.** -/
theorem round_commutes_with_integer_shift (r : Rat) (k : Int) : roundQ (r + k) = roundQ r + k := by
  unfold roundQ
  have : r + (k : Rat) + 1 / 2 = (r + 1 / 2) + (k : Rat) := by grind
  rw [this, Rat.floor_add_intCast]

/-- **labels_last_wins.** After drawing labelled masks in order each pixel carries the label of the
    last mask covering it, and the empty label (`none`) if none does. -/
theorem labels_last_wins {L} (masks : List (L × (Nat → Nat → Bool))) (r c : Nat) :
    drawAll masks r c = ((masks.filter (fun lm => lm.2 r c)).getLast?).map (·.1) := by
  unfold drawAll
  suffices h : ∀ (init : Nat → Nat → Option L),
      (masks.foldl (fun img lm => fun r c => if lm.2 r c then some lm.1 else img r c) init) r c =
        match (masks.filter (fun lm => lm.2 r c)).getLast? with
        | some lm => some lm.1
        | none => init r c by
    rw [h]; cases (masks.filter (fun lm => lm.2 r c)).getLast? <;> rfl
  induction masks with
  | nil => intro init; rfl
  | cons m ms ih =>
    intro init
    rw [List.foldl_cons, ih]
    have hf : (m :: ms).filter (fun lm => lm.2 r c) =
        if m.2 r c then m :: ms.filter (fun lm => lm.2 r c) else ms.filter (fun lm => lm.2 r c) := by
      simp [List.filter_cons]
    rw [hf]
    by_cases hm : m.2 r c = true
    · simp only [hm, if_true]
      cases hl : (ms.filter (fun lm => lm.2 r c)) with
      | nil => simp
      | cons a t =>
        rw [List.getLast?_cons_cons]
        have : (a :: t).getLast? = some ((a :: t).getLast (by simp)) := List.getLast?_eq_some_getLast (by simp)
        rw [this]
    · have hm' : m.2 r c = false := by simpa using hm
      simp only [hm', Bool.false_eq_true, if_false]

theorem geoOf_translate (dx dy : Int) (a : Pt) (r : List Pt) :
    geoOf (translate dx dy (a :: r)) =
      ⟨(geoOf (a :: r)).es.map (Edge.shift dx dy), (geoOf (a :: r)).xlo + dx, (geoOf (a :: r)).ybot + dy,
        (geoOf (a :: r)).ytop + dy, (geoOf (a :: r)).width⟩ := by
  have he := edgesOf_translate dx dy (a :: r)
  have h1 := minX_translate dx dy r a.x
  have h2 := minY_translate dx dy r a.y
  have h3 := maxX_translate dx dy r a.x
  have h4 := maxY_translate dx dy r a.y
  simp only [translate, List.map_cons] at he h1 h2 h3 h4 ⊢
  simp only [geoOf, he, h1, h2, h3, h4]
  congr 1
  omega

/-- **translate_equivariant.** Shifting the polygon by whole pixels shifts the (unclipped) marking
    by the same amount, the slack being transported along. -/
theorem translate_equivariant (σ' : Slack) (dx dy : Int) (v : List Pt) (p y : Int) :
    canvasMarked σ' (geoOf (translate dx dy v)) (p + dx) (y + dy) =
      canvasMarked (fun e y => σ' (e.shift dx dy) (y + dy)) (geoOf v) p y := by
  cases v with
  | nil => simp [translate, geoOf, canvasMarked]
  | cons a r =>
    rw [geoOf_translate]
    unfold canvasMarked activeAt
    simp only
    have hrange : (((geoOf (a :: r)).ybot + dy ≤ y + dy ∧ y + dy ≤ (geoOf (a :: r)).ytop + dy ∧ 0 < (geoOf (a :: r)).width)) ↔
        ((geoOf (a :: r)).ybot ≤ y ∧ y ≤ (geoOf (a :: r)).ytop ∧ 0 < (geoOf (a :: r)).width) := by omega
    have hlt : (y + dy < (geoOf (a :: r)).ytop + dy) ↔ (y < (geoOf (a :: r)).ytop) := by omega
    have hact : (if y + dy < (geoOf (a :: r)).ytop + dy then
          activeLo ((geoOf (a :: r)).es.map (Edge.shift dx dy)) (y + dy)
        else activeLo ((geoOf (a :: r)).es.map (Edge.shift dx dy)) ((geoOf (a :: r)).ytop + dy - 1)) =
        (if y < (geoOf (a :: r)).ytop then activeLo (geoOf (a :: r)).es y
          else activeLo (geoOf (a :: r)).es ((geoOf (a :: r)).ytop - 1)).map (Edge.shift dx dy) := by
      by_cases h : y < (geoOf (a :: r)).ytop
      · rw [if_pos h, if_pos (hlt.mpr h), activeLo_shift]
      · rw [if_neg h, if_neg (fun h' => h (hlt.mp h'))]
        have : (geoOf (a :: r)).ytop + dy - 1 = ((geoOf (a :: r)).ytop - 1) + dy := by omega
        rw [this, activeLo_shift]
    rw [hact]
    have hrow : ∀ act : List Edge, rowXs σ' (act.map (Edge.shift dx dy)) (y + dy) =
        (rowXs (fun e y => σ' (e.shift dx dy) (y + dy)) act y).map (· + dx) := by
      intro act
      unfold rowXs
      rw [List.map_map, List.map_map]
      apply List.map_congr_left
      intro e _
      simp only [Function.comp, shift_xAt, Rat.ceil_add_intCast]
      omega
    rw [hrow, sortInts_map_add, markedBy_map_add]
    congr 1
    simp only [hrange]

/-- **shift_harmless.** The polygon's internal shift to non-negative coordinates does not change
    the result: what `scan` writes at image pixel `(r, c)` is the canvas marking of the *unshifted*
    rounded polygon at `(c, r)` (with the slack transported). -/
theorem shift_harmless (σ : Slack) (rv : List Pt) (p : Prep) (hp : prep rv = .ok p) (c r : Int) :
    canvasMarked σ (geoOf p.verts) (c - p.shiftx) (r - p.shifty) =
      canvasMarked (fun e y => σ (e.shift (-p.shiftx) (-p.shifty)) (y + -p.shifty)) (geoOf rv) c r := by
  unfold prep at hp
  split at hp
  · cases hp
  · injection hp with hp
    subst hp
    simp only
    have := translate_equivariant σ (-(minX rv 0)) (-(minY rv 0)) rv c r
    simp only [Int.sub_eq_add_neg]
    exact this

/-- **aetLoop_perm_activeAt.** The Active Edge Table maintained incrementally by the scan loop
    (append edges starting at `y`, drop edges ending at `y`, no update on the top row) is, on every
    row of the polygon, a permutation of the closed-form active set the theorems above speak of. -/
theorem aetLoop_perm_activeAt (v : List Pt) (y : Int)
    (hy : (geoOf v).ybot ≤ y ∧ y ≤ (geoOf v).ytop) :
    (aetLoop (geoOf v).es (geoOf v).ybot (geoOf v).ytop (y - (geoOf v).ybot).toNat).Perm
      (activeAt (geoOf v) y) := by
  have h := aetLoop_perm (geoOf v).es (geoOf v).ybot (geoOf v).ytop (geoOf_ybot_le v)
    (y - (geoOf v).ybot).toNat
  have hk : (geoOf v).ybot + (((y - (geoOf v).ybot).toNat : Nat) : Int) = y := by omega
  rw [hk] at h
  unfold activeAt
  by_cases hlt : y < (geoOf v).ytop
  · rw [if_pos hlt] at h ⊢; exact h
  · rw [if_neg hlt] at h ⊢
    by_cases hb : (geoOf v).ybot < (geoOf v).ytop
    · rw [if_pos hb] at h; exact h
    · rw [if_neg hb] at h
      rw [activeLo_below_nil _ _ _ (geoOf_ybot_le v) (by omega)]
      exact h

/-- **scanMaskLoop_eq_scanMask.** Hence the mask computed with the loop's own table equals the mask
    computed with the closed-form active sets. -/
theorem scanMaskLoop_eq_scanMask (σ : Slack) (p : Prep) (ny nx : Nat) :
    scanMaskLoop σ p ny nx = scanMask σ p ny nx := by
  unfold scanMaskLoop scanMask
  simp only
  apply List.map_congr_left
  intro r _
  congr 1
  unfold rowColsLoop rowCols
  simp only
  split
  · rename_i hc
    have hperm := aetLoop_perm_activeAt p.verts ((r : Int) - p.shifty) ⟨hc.2.1, hc.2.2.1⟩
    have : sortInts (rowXs σ (aetLoop (geoOf p.verts).es (geoOf p.verts).ybot (geoOf p.verts).ytop
        ((r : Int) - p.shifty - (geoOf p.verts).ybot).toNat) ((r : Int) - p.shifty)) =
        sortInts (rowXs σ (activeAt (geoOf p.verts) ((r : Int) - p.shifty)) ((r : Int) - p.shifty)) := by
      apply sortInts_eq_of_perm
      unfold rowXs
      exact hperm.map _
    rw [this]
  · rfl

/-! ### Non-vacuity: the hypotheses are met by a concrete polygon (tests, labelled as such) -/

def sq : List Pt := [⟨0, 0⟩, ⟨4, 0⟩, ⟨4, 4⟩, ⟨0, 4⟩, ⟨0, 0⟩]

example : sq.head (by decide) = sq.getLast (by decide) := by decide
example : 0 < (geoOf sq).width ∧ (geoOf sq).ybot ≤ 2 ∧ 2 < (geoOf sq).ytop := by decide
instance (v : List Pt) (p y : Int) : Decidable (InsideLo v p y) := by unfold InsideLo; exact inferInstance
example : InsideLo sq 2 2 := by decide +kernel
example : Admissible noSlack := fun _ _ => Or.inl rfl
example : canvasMarked noSlack (geoOf sq) 2 2 = true :=
  covers_strict_interior noSlack (fun _ _ => Or.inl rfl) sq (by decide) (by decide) (by decide) 2 2
    (by decide) (Or.inl ⟨by decide, by decide +kernel⟩)

end Gwcs.Poly
