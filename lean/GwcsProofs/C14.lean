import GwcsModel.Polygon
