/-
  C06 — Every conversion is a pointwise map: shape-preserving and batch-independent.
  Package-defined models: the translated `evaluate` bodies are per-element functions by construction
  (C19), the selector's group-by-label scatter equals the pointwise map (C15 `selector_pointwise`),
  the label mappers are folds per key.  Here: the generic consequences for batches, and the
  `numerical_inverse` batching skeleton.
-/
import GwcsModel.Batch
import GwcsProofs.C15

namespace Gwcs.Batch

variable {α β : Type}

/-- **X_batch_eq_map (element form).** Element `i` of the answer to a batch is the answer to element
    `i` alone. -/
theorem batch_elem (f : α → β) (xs : List α) (i : Nat) (h : i < xs.length) :
    (mapBatch f xs)[i]'(by simpa [mapBatch] using h) = f xs[i] := by
  simp [mapBatch]

/-- shape is preserved: as many answers as inputs -/
theorem batch_length (f : α → β) (xs : List α) : (mapBatch f xs).length = xs.length := by simp [mapBatch]

/-- **permutation.** Permuting the batch permutes the result and nothing else. -/
theorem batch_perm (f : α → β) (xs ys : List α) (h : xs.Perm ys) : (mapBatch f xs).Perm (mapBatch f ys) :=
  h.map f

theorem batch_reverse (f : α → β) (xs : List α) : mapBatch f xs.reverse = (mapBatch f xs).reverse := by
  simp [mapBatch]

/-- **concatenation / splitting.** -/
theorem batch_append (f : α → β) (xs ys : List α) : mapBatch f (xs ++ ys) = mapBatch f xs ++ mapBatch f ys := by
  simp [mapBatch]

theorem batch_split (f : α → β) (xs : List α) (k : Nat) :
    mapBatch f (xs.take k) = (mapBatch f xs).take k ∧ mapBatch f (xs.drop k) = (mapBatch f xs).drop k := by
  simp [mapBatch, List.map_take, List.map_drop]

/-- an empty batch gives an empty answer -/
theorem batch_empty (f : α → β) : mapBatch f [] = [] := rfl

/-- **numinv_skeleton.** In `numerical_inverse`'s array path, entry `i` of output column `j` is
    component `j` of the solution of row `i` solved alone — whatever the other rows contain. -/
theorem numinv_skeleton (solve : List α → List α) (d : α) (nout n : Nat) (cols : List (List α))
    (i j : Nat) (hi : i < n) (hj : j < nout) :
    ((numinvBatch solve d nout n cols)[j]?).bind (·[i]?) = some ((solve (rowAt cols d i)).getD j d) := by
  unfold numinvBatch
  simp [hi, hj]

/-- rows are independent: changing other rows does not change row `i`'s solution -/
theorem numinv_rows_independent (solve : List α → List α) (d : α) (nout n : Nat) (cols cols' : List (List α))
    (i j : Nat) (hi : i < n) (hj : j < nout) (hrow : rowAt cols d i = rowAt cols' d i) :
    ((numinvBatch solve d nout n cols)[j]?).bind (·[i]?) = ((numinvBatch solve d nout n cols')[j]?).bind (·[i]?) := by
  rw [numinv_skeleton solve d nout n cols i j hi hj, numinv_skeleton solve d nout n cols' i j hi hj, hrow]

/-- broadcasting with a scalar (shape `[]`) or with itself keeps the shape -/
theorem broadcast_scalar (s : List Nat) : broadcast2 [] s = some s ∧ broadcast2 s [] = some s := by
  constructor
  · simp [broadcast2, broadcast2.go]
  · simp only [broadcast2]
    cases hs : s.reverse with
    | nil => simp [broadcast2.go, List.reverse_eq_nil_iff.mp hs]
    | cons a t =>
      simp only [List.reverse_nil, broadcast2.go, Option.map_some]
      rw [← hs, List.reverse_reverse]

theorem broadcast_go_self : ∀ (s : List Nat), broadcast2.go s s = some s
  | [] => rfl
  | x :: xs => by simp [broadcast2.go, broadcast_go_self xs]

theorem broadcast_self (s : List Nat) : broadcast2 s s = some s := by
  simp [broadcast2, broadcast_go_self]

end Gwcs.Batch
