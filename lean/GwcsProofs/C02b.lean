import GwcsProofs.C15

/-! C02 (declared / user-supplied inverses) for a region selector: the backward direction labels a world point with the label mapper's
own inverse and applies the inverse of that region's transform. -/
namespace Gwcs.Sel

variable {L X Y : Type} [DecidableEq L]

/-- a `RegionsSelector` evaluated on a batch: the label mapper labels every point, the selector does the rest -/
def slicerEval (labelOf : X → L) (sel : L → Option (X → Y)) (isEmpty : L → Bool) (undef : Y) (xs : List X) : List Y :=
  selectorEval (xs.map labelOf) xs sel isEmpty undef

theorem selectorSpec_map (labelOf : X → L) (sel : L → Option (X → Y)) (isEmpty : L → Bool) (undef : Y) :
    ∀ xs : List X, selectorSpec sel isEmpty undef (xs.map labelOf) xs =
      xs.map (fun x => if isEmpty (labelOf x) then undef else valOf sel undef (labelOf x) x)
  | [] => rfl
  | x :: xs => by simp only [List.map_cons, selectorSpec, selectorSpec_map labelOf sel isEmpty undef xs]

theorem slicerEval_pointwise (labelOf : X → L) (sel : L → Option (X → Y)) (isEmpty : L → Bool) (undef : Y) (xs : List X) :
    slicerEval labelOf sel isEmpty undef xs =
      xs.map (fun x => if isEmpty (labelOf x) then undef else valOf sel undef (labelOf x) x) := by
  unfold slicerEval
  rw [selector_pointwise _ _ _ _ _ (by simp), selectorSpec_map]

/-- **slicer_round_trip.** Pixels -> world -> pixels through a selector and its inverse selector returns every labelled pixel, for a
batch of any size, provided each region's backward transform undoes its forward one on that region and the label mapper's inverse gives
the image of a region that region's label. -/
theorem slicer_round_trip (pixLabel : X → L) (worldLabel : Y → L) (fwd : L → Option (X → Y)) (bwd : L → Option (Y → X))
    (isEmpty : L → Bool) (undefY : Y) (undefX : X) (xs : List X)
    (h : ∀ x ∈ xs, isEmpty (pixLabel x) = false ∧
      ∃ g g', fwd (pixLabel x) = some g ∧ bwd (pixLabel x) = some g' ∧ g' (g x) = x ∧ worldLabel (g x) = pixLabel x) :
    slicerEval worldLabel bwd isEmpty undefX (slicerEval pixLabel fwd isEmpty undefY xs) = xs := by
  rw [slicerEval_pointwise, slicerEval_pointwise, List.map_map]
  have key : ∀ x ∈ xs, ((fun y => if isEmpty (worldLabel y) = true then undefX else valOf bwd undefX (worldLabel y) y) ∘
      fun x => if isEmpty (pixLabel x) = true then undefY else valOf fwd undefY (pixLabel x) x) x = id x := by
    intro x hx
    obtain ⟨he, g, g', hg, hg', hinv, hlab⟩ := h x hx
    simp only [Function.comp, he, Bool.false_eq_true, ↓reduceIte, valOf, hg, hlab, hg', hinv, id]
  rw [List.map_congr_left key, List.map_id]

/-- **wrong_mapper_breaks.** If the inverse selector labels world points with the FORWARD (pixel) mapper instead of the mapper's
inverse (the shape of seeded change C02-12), a world point can be taken for another region (or none) and the pixel does not come back:
two slices of columns, world = (column - centre) * 1/2 + 10 * slice. -/
theorem wrong_mapper_breaks :
    let pixLabel : Int → Nat := fun x => if 10 ≤ x ∧ x ≤ 40 then 1 else if 60 ≤ x ∧ x ≤ 90 then 2 else 0
    let fwd : Nat → Option (Int → Int) := fun l => if l = 1 then some (fun x => x - 25 + 1000) else if l = 2 then some (fun x => x - 75 + 2000) else none
    let bwd : Nat → Option (Int → Int) := fun l => if l = 1 then some (fun w => w - 1000 + 25) else if l = 2 then some (fun w => w - 2000 + 75) else none
    slicerEval pixLabel bwd (fun l => l == 0) (-1) (slicerEval pixLabel fwd (fun l => l == 0) (-1) [12, 70]) ≠ [12, 70] := by
  decide +kernel

-- non-vacuity of `slicer_round_trip`: the same two slices with the proper inverse mapper (labels from the world value)
example :
    let pixLabel : Int → Nat := fun x => if 10 ≤ x ∧ x ≤ 40 then 1 else if 60 ≤ x ∧ x ≤ 90 then 2 else 0
    let worldLabel : Int → Nat := fun w => if 900 ≤ w ∧ w ≤ 1100 then 1 else if 1900 ≤ w ∧ w ≤ 2100 then 2 else 0
    let fwd : Nat → Option (Int → Int) := fun l => if l = 1 then some (fun x => x - 25 + 1000) else if l = 2 then some (fun x => x - 75 + 2000) else none
    let bwd : Nat → Option (Int → Int) := fun l => if l = 1 then some (fun w => w - 1000 + 25) else if l = 2 then some (fun w => w - 2000 + 75) else none
    slicerEval worldLabel bwd (fun l => l == 0) (-1) (slicerEval pixLabel fwd (fun l => l == 0) (-1) [12, 70, 33]) = [12, 70, 33] := by
  decide +kernel

end Gwcs.Sel
