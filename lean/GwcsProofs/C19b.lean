/-
  C19 (continued) — CartesianToSpherical: ranges, poles, and inverse of SphericalToCartesian,
  with `arctan2 y x := Complex.arg ⟨x, y⟩`.
-/
import GwcsProofs.C19
import GwcsModel.Analytic

open Gwcs Gwcs.Gen Gwcs.Ana Gwcs.C19

namespace Gwcs.C19

theorem norm_mk (a b : ℝ) : ‖(⟨a, b⟩ : ℂ)‖ = Real.sqrt (a * a + b * b) := by
  rw [Complex.norm_def, Complex.normSq_mk]

theorem cos_arg_mk (a b : ℝ) (h : (⟨a, b⟩ : ℂ) ≠ 0) :
    Real.cos (Complex.arg ⟨a, b⟩) = a / Real.sqrt (a * a + b * b) := by
  rw [Complex.cos_arg h, norm_mk]

theorem sin_arg_mk (a b : ℝ) : Real.sin (Complex.arg ⟨a, b⟩) = b / Real.sqrt (a * a + b * b) := by
  rw [Complex.sin_arg, norm_mk]

theorem r2d_d2r (t : ℝ) : t * (180 / Real.pi) * (Real.pi / 180) = t := by
  have := Real.pi_ne_zero
  field_simp

/-- **c2s latitude range.** -/
theorem c2s_lat_range (w : Bool) (x y z : ℝ) :
    -90 ≤ (cartesianToSpherical w x y z).2 ∧ (cartesianToSpherical w x y z).2 ≤ 90 := by
  simp only [cartesianToSpherical]
  show -90 ≤ Complex.arg ⟨Real.sqrt (x * x + y * y), z⟩ * (180 / Real.pi) ∧
    Complex.arg ⟨Real.sqrt (x * x + y * y), z⟩ * (180 / Real.pi) ≤ 90
  have hre : 0 ≤ (⟨Real.sqrt (x * x + y * y), z⟩ : ℂ).re := Real.sqrt_nonneg _
  have h := Complex.abs_arg_le_pi_div_two_iff.mpr hre
  have hpi := Real.pi_pos
  rw [abs_le] at h
  constructor
  · have : -(Real.pi / 2) * (180 / Real.pi) ≤ Complex.arg ⟨Real.sqrt (x * x + y * y), z⟩ * (180 / Real.pi) :=
      mul_le_mul_of_nonneg_right h.1 (by positivity)
    have e : -(Real.pi / 2) * (180 / Real.pi) = -90 := by field_simp; norm_num
    linarith
  · have : Complex.arg ⟨Real.sqrt (x * x + y * y), z⟩ * (180 / Real.pi) ≤ (Real.pi / 2) * (180 / Real.pi) :=
      mul_le_mul_of_nonneg_right h.2 (by positivity)
    have e : (Real.pi / 2) * (180 / Real.pi) = 90 := by field_simp; norm_num
    linarith

/-- longitude in degrees before the wrap -/
noncomputable def lonRaw (x y : ℝ) : ℝ :=
  if Real.sqrt (x * x + y * y) = 0 then Complex.arg ⟨x, y⟩ * (180 / Real.pi) * 0 else Complex.arg ⟨x, y⟩ * (180 / Real.pi)

theorem c2s_lon_eq (w : Bool) (x y z : ℝ) :
    (cartesianToSpherical w x y z).1 = if w then lonRaw x y - 360 * (⌊lonRaw x y / 360⌋ : ℝ) else lonRaw x y := by
  simp only [cartesianToSpherical, lonRaw]
  show (if w = true then ANum.mod360 (if ANum.isZero (ANum.hypot x y) = true then _ else _) else _) = _
  have hz : ANum.isZero (ANum.hypot x y) = decide (Real.sqrt (x * x + y * y) = 0) := rfl
  rw [hz]
  have h0 : ((0.0 : ℝ)) = 0 := by norm_num
  by_cases hh : Real.sqrt (x * x + y * y) = 0
  · simp only [hh, decide_true, if_true]
    cases w <;> simp only [Bool.false_eq_true, if_false, if_true]
    · show Complex.arg ⟨x, y⟩ * (180 / Real.pi) * (0.0 : ℝ) = _
      rw [lit, h0]
    · show (Complex.arg ⟨x, y⟩ * (180 / Real.pi) * (0.0 : ℝ)) - 360 * (⌊(Complex.arg ⟨x, y⟩ * (180 / Real.pi) * (0.0 : ℝ)) / 360⌋ : ℝ) = _
      rw [lit, h0]
  · simp only [hh, decide_false, Bool.false_eq_true, if_false]
    cases w <;> simp only [Bool.false_eq_true, if_false, if_true]
    · rfl
    · rfl

/-- **poles map to longitude 0** (zero-length vectors included), for both wrap settings. -/
theorem c2s_pole_lon_zero (w : Bool) (z : ℝ) : (cartesianToSpherical w 0 0 z).1 = 0 := by
  rw [c2s_lon_eq]
  have : lonRaw 0 0 = 0 := by simp [lonRaw]
  rw [this]; cases w <;> simp

/-- **longitude range, wrap at 180:** `−180 < lon ≤ 180`. -/
theorem c2s_lon_range_180 (x y z : ℝ) :
    -180 ≤ (cartesianToSpherical false x y z).1 ∧ (cartesianToSpherical false x y z).1 ≤ 180 := by
  rw [c2s_lon_eq]
  simp only [Bool.false_eq_true, if_false, lonRaw]
  have hpi := Real.pi_pos
  have h1 := Complex.neg_pi_lt_arg (⟨x, y⟩ : ℂ)
  have h2 := Complex.arg_le_pi (⟨x, y⟩ : ℂ)
  have e1 : -Real.pi * (180 / Real.pi) = -180 := by field_simp
  have e2 : Real.pi * (180 / Real.pi) = 180 := by field_simp
  have a1 : -Real.pi * (180 / Real.pi) ≤ Complex.arg ⟨x, y⟩ * (180 / Real.pi) :=
    mul_le_mul_of_nonneg_right (le_of_lt h1) (by positivity)
  have a2 : Complex.arg ⟨x, y⟩ * (180 / Real.pi) ≤ Real.pi * (180 / Real.pi) :=
    mul_le_mul_of_nonneg_right h2 (by positivity)
  split
  · simp
  · constructor <;> linarith

/-- **longitude range, wrap at 360:** `0 ≤ lon < 360`. -/
theorem c2s_lon_range_360 (x y z : ℝ) :
    0 ≤ (cartesianToSpherical true x y z).1 ∧ (cartesianToSpherical true x y z).1 < 360 := by
  rw [c2s_lon_eq]
  simp only [if_true]
  have h1 := Int.floor_le (lonRaw x y / 360)
  have h2 := Int.lt_floor_add_one (lonRaw x y / 360)
  constructor
  · have : (⌊lonRaw x y / 360⌋ : ℝ) * 360 ≤ lonRaw x y := by
      have := mul_le_mul_of_nonneg_right h1 (show (0 : ℝ) ≤ 360 by norm_num)
      rwa [div_mul_cancel₀ _ (show (360 : ℝ) ≠ 0 by norm_num)] at this
    linarith
  · have : lonRaw x y < ((⌊lonRaw x y / 360⌋ : ℝ) + 1) * 360 := by
      have := mul_lt_mul_of_pos_right h2 (show (0 : ℝ) < 360 by norm_num)
      rwa [div_mul_cancel₀ _ (show (360 : ℝ) ≠ 0 by norm_num)] at this
    linarith

/-- spherical→cartesian does not see whole turns of the longitude -/
theorem s2c_periodic (lon lat : ℝ) (k : ℤ) :
    sphericalToCartesian (lon - 360 * (k : ℝ)) lat = sphericalToCartesian lon lat := by
  simp only [sphericalToCartesian, anum_cos, anum_sin, anum_d2r]
  have : (lon - 360 * (k : ℝ)) * (Real.pi / 180) = lon * (Real.pi / 180) - (k : ℝ) * (2 * Real.pi) := by ring
  rw [this, Real.cos_sub_int_mul_two_pi, Real.sin_sub_int_mul_two_pi]

/-- **c2s_inverse.** For every non-zero vector and both wrap settings, converting to spherical
    coordinates and back gives the vector normalised to unit length. -/
theorem c2s_inverse (w : Bool) (x y z : ℝ) (hv : x * x + y * y + z * z ≠ 0) :
    sphericalToCartesian (cartesianToSpherical w x y z).1 (cartesianToSpherical w x y z).2 =
      (x / Real.sqrt (x * x + y * y + z * z), y / Real.sqrt (x * x + y * y + z * z),
        z / Real.sqrt (x * x + y * y + z * z)) := by
  have hlat : (cartesianToSpherical w x y z).2 = Complex.arg ⟨Real.sqrt (x * x + y * y), z⟩ * (180 / Real.pi) := rfl
  rw [hlat, c2s_lon_eq]
  have hred : sphericalToCartesian (if w = true then lonRaw x y - 360 * (⌊lonRaw x y / 360⌋ : ℝ) else lonRaw x y)
      (Complex.arg ⟨Real.sqrt (x * x + y * y), z⟩ * (180 / Real.pi)) =
      sphericalToCartesian (lonRaw x y) (Complex.arg ⟨Real.sqrt (x * x + y * y), z⟩ * (180 / Real.pi)) := by
    cases w
    · simp
    · simp only [if_true]; exact s2c_periodic _ _ _
  rw [hred]
  simp only [sphericalToCartesian, anum_cos, anum_sin, anum_d2r, r2d_d2r]
  set h := Real.sqrt (x * x + y * y) with hh
  have hh0 : 0 ≤ h := Real.sqrt_nonneg _
  have hhsq : h * h = x * x + y * y := Real.mul_self_sqrt (by nlinarith [mul_self_nonneg x, mul_self_nonneg y])
  have hr : h * h + z * z = x * x + y * y + z * z := by rw [hhsq]
  have hw : (⟨h, z⟩ : ℂ) ≠ 0 := by
    intro hc
    have h1 : h = 0 := congrArg Complex.re hc
    have h2 : z = 0 := congrArg Complex.im hc
    apply hv; rw [← hr, h1, h2]; ring
  rw [cos_arg_mk h z hw, sin_arg_mk h z, hr]
  set r := Real.sqrt (x * x + y * y + z * z) with hrdef
  by_cases hz : h = 0
  · -- on the axis: x = y = 0
    have hxy : x * x + y * y = 0 := by rw [← hhsq, hz]; ring
    have hx : x = 0 := by nlinarith [mul_self_nonneg x, mul_self_nonneg y]
    have hy : y = 0 := by nlinarith [mul_self_nonneg x, mul_self_nonneg y]
    simp [hz, hx, hy]
  · have hlon : lonRaw x y * (Real.pi / 180) = Complex.arg ⟨x, y⟩ := by
      simp only [lonRaw, hh.symm ▸ hz, if_false]
      exact r2d_d2r _
    have hxy : (⟨x, y⟩ : ℂ) ≠ 0 := by
      intro hc
      have h1 : x = 0 := congrArg Complex.re hc
      have h2 : y = 0 := congrArg Complex.im hc
      apply hz; rw [hh, h1, h2]; simp
    rw [hlon, cos_arg_mk x y hxy, sin_arg_mk x y, ← hh]
    ext
    · simp; field_simp
    · simp; field_simp
    · simp

end Gwcs.C19
