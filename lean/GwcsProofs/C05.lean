/-
  C05 — Iterative inversion reports every non-solution and converges where designed to.
  Proved here: the *reporting logic* (coverage of every non-converged row by the two index lists,
  raise iff a list is non-empty), the loop invariant that makes it true, row independence of the
  adaptive update, and exactness of the Aitken step on axis-aligned affine maps.
  Named, not proved: that `dn < tol²` bounds the forward residual for distorted WCSs, and numerical
  convergence itself (exercised on the implementation with a forward-mapping oracle).
-/
import GwcsModel.Solver
import GwcsProofs.C05b
import Mathlib.Tactic.FieldSimp
import Mathlib.Tactic.Ring
import Mathlib.Tactic.Linarith
import Mathlib.Algebra.Order.Field.Rat

namespace Gwcs.Sol

/-- loop invariant: a row that is no longer selected has converged by the solver's own criterion, or
    is (and stays) classified divergent, or has a non-finite pixel -/
def Inv (tol2 : Rat) (r : Row) : Prop :=
  r.inInd = false → (r.converged tol2 = true ∨ r.isDiv tol2 = true ∨ r.pixFinite = false)

/-- **invariant at entry (direct).** -/
theorem inv_enterAdaptive (tol2 : Rat) (rows : List Row) : ∀ r ∈ enterAdaptive rows, Inv tol2 r := by
  intro r hr
  simp only [enterAdaptive, List.mem_map] at hr
  obtain ⟨r0, _, rfl⟩ := hr
  intro h
  right; right; simpa using h

/-- **invariant at entry (hand-over from the non-adaptive loop).** -/
theorem inv_switchToAdaptive (tol2 : Rat) (rows : List Row) : ∀ r ∈ switchToAdaptive tol2 rows, Inv tol2 r := by
  intro r hr
  simp only [switchToAdaptive, List.mem_map] at hr
  obtain ⟨r0, _, rfl⟩ := hr
  intro h
  simp only at h
  have hprev : (if (r0.pixFinite && decide (tol2 ≤ r0.dn) && decide (r0.dn < r0.dnprev)) = true then r0.dn else r0.dnprev) = r0.dnprev := by
    rw [h]; simp
  by_cases hf : r0.pixFinite = true
  · by_cases ht : tol2 ≤ r0.dn
    · have hlt : ¬ r0.dn < r0.dnprev := by
        intro hl; simp [hf, ht, hl] at h
      right; left
      simp only [Row.isDiv, hf, if_true, ht, decide_true, Bool.true_and, decide_eq_true_eq]
      rw [if_neg hlt]
      exact not_lt.mp hlt
    · left
      simp only [Row.converged, hf, Bool.true_and, decide_eq_true_eq]
      exact not_le.mp ht
  · right; right; simpa using hf

/-- **invariant preserved by every adaptive pass**, whatever the numeric oracle returns. -/
theorem inv_adaptiveStep (tol2 : Rat) (dnnew : Nat → Rat) (fin : Nat → Bool) (rows : List Row)
    (h : ∀ r ∈ rows, Inv tol2 r) : ∀ r ∈ adaptiveStep tol2 dnnew fin rows, Inv tol2 r := by
  intro r hr
  simp only [adaptiveStep, List.mem_map] at hr
  obtain ⟨⟨r0, i⟩, hmem, rfl⟩ := hr
  have hr0 : r0 ∈ rows := (List.mem_zipIdx hmem).2.2 ▸ List.getElem_mem _
  simp only
  by_cases hin : r0.inInd = true
  · simp only [hin, if_true]
    intro hsel
    simp only [Bool.and_eq_false_iff, decide_eq_false_iff_not, not_le] at hsel
    rcases hsel with hf | hlt
    · right; right; exact hf
    · by_cases hf : fin i = true
      · left; simp [Row.converged, hf, hlt]
      · right; right; simpa using hf
  · simp only [hin, Bool.false_eq_true, if_false]
    exact h r0 hr0

/-- rows of the adaptive pass are updated independently of each other: the update of a batch is
    the concatenation of the updates of its parts (hence a NaN row cannot poison its neighbours) -/
theorem adaptive_row_local (tol2 : Rat) (dnnew : Nat → Rat) (fin : Nat → Bool) (rows : List Row) (i : Nat)
    (hi : i < rows.length) :
    (adaptiveStep tol2 dnnew fin rows)[i]? =
      some (if rows[i].inInd then
        { rows[i] with dnprev := rows[i].dn, dn := dnnew i, pixFinite := fin i,
                       inInd := fin i && decide (tol2 ≤ dnnew i) }
      else rows[i]) := by
  simp [adaptiveStep, List.getElem?_map, List.getElem?_zipIdx, hi]

/-- **coverage.** At exit — the selection is empty or the iteration budget is spent — every row is
    converged by the solver's criterion, or listed as divergent, or listed as slowly converging, or has
    a non-finite world coordinate, or was rescued by the fallback solver; and an exception is raised
    (quiet off) exactly when one of the two lists is non-empty. -/
theorem coverage (tol2 : Rat) (kGeMax detect quiet : Bool) (fb : Nat → Bool) (rows : List Row)
    (hinv : ∀ r ∈ rows, Inv tol2 r) (hexit : kGeMax = true ∨ ∀ r ∈ rows, r.inInd = false)
    (i : Nat) (hi : i < rows.length) :
    let o := classify tol2 kGeMax detect quiet fb rows
    rows[i].converged tol2 = true ∨ i ∈ o.divergent ∨ i ∈ o.slow ∨ rows[i].worldFinite = false ∨
      (detect = true ∧ fb i = true) := by
  intro o
  have hget : rows[i]? = some rows[i] := List.getElem?_eq_getElem hi
  have hdiv : rows[i].isDiv tol2 = true → (i ∈ o.divergent ∨ (detect = true ∧ fb i = true)) := by
    intro hd
    have hmem0 : i ∈ (List.range rows.length).filter (fun j => ((rows[j]?).map (Row.isDiv tol2)).getD false) := by
      simp [List.mem_filter, hi, hget, hd]
    cases hdet : detect with
    | false => left; simp only [o, classify, hdet, Bool.false_eq_true, if_false]; exact hmem0
    | true =>
      cases hfb : fb i with
      | true => right; exact ⟨rfl, rfl⟩
      | false =>
        left
        simp only [o, classify, hdet, if_true]
        rw [List.mem_filter]
        exact ⟨hmem0, by simp [hfb]⟩
  by_cases hconv : rows[i].converged tol2 = true
  · exact Or.inl hconv
  by_cases hd : rows[i].isDiv tol2 = true
  · rcases hdiv hd with h | h
    · exact Or.inr (Or.inl h)
    · exact Or.inr (Or.inr (Or.inr (Or.inr h)))
  by_cases hf : rows[i].pixFinite = true
  · -- finite, not converged, not divergent: `tol2 ≤ dn < dnprev`; it must still be selected, so k ≥ maxiter
    have hge : tol2 ≤ rows[i].dn := by
      simp only [Row.converged, hf, Bool.true_and, decide_eq_true_eq, not_lt] at hconv; exact hconv
    have hlt : rows[i].dn < rows[i].dnprev := by
      simp only [Row.isDiv, hf, if_true, hge, decide_true, Bool.true_and, decide_eq_true_eq, not_le] at hd
      exact hd
    have hsel : rows[i].inInd = true := by
      by_contra hns
      have hns' : rows[i].inInd = false := by simpa using hns
      rcases hinv rows[i] (List.getElem_mem hi) hns' with h | h | h
      · exact hconv h
      · exact hd h
      · rw [hf] at h; cases h
    have hk : kGeMax = true := by
      rcases hexit with h | h
      · exact h
      · have := h rows[i] (List.getElem_mem hi); rw [hsel] at this; cases this
    right; right; left
    simp only [o, classify, hk, if_true]
    rw [List.mem_filter]
    refine ⟨by simpa using hi, ?_⟩
    simp [hget, Row.isSlow, hf, hge, hlt]
  · -- non-finite pixel: invalid unless the world coordinate itself is non-finite
    have hf' : rows[i].pixFinite = false := by simpa using hf
    by_cases hw : rows[i].worldFinite = true
    · exfalso; apply hd; simp [Row.isDiv, Row.invalid, hf', hw]
    · right; right; right; left; simpa using hw

/-- **raise iff a list is non-empty.** -/
theorem raises_iff (tol2 : Rat) (kGeMax detect quiet : Bool) (fb : Nat → Bool) (rows : List Row) :
    (classify tol2 kGeMax detect quiet fb rows).raises = true ↔
      (quiet = false ∧ ((classify tol2 kGeMax detect quiet fb rows).divergent ≠ [] ∨
        (classify tol2 kGeMax detect quiet fb rows).slow ≠ [])) := by
  simp only [classify]
  cases quiet <;> simp [List.isEmpty_iff]

/-- **aitken_exact_affine.** For an axis-aligned affine world map `w x = a·x + b` (either parity,
    `a ≠ 0`), any non-zero inverse pixel scale `c`, and a starting point that is not yet the solution,
    one corrected step lands exactly on the solution `x* = (t − b)/a`: such WCSs converge in one step
    in every mode. -/
theorem aitken_exact_affine (a b c t x : ℚ) (ha : a ≠ 0) (hc : c ≠ 0) (hx : a * x + b ≠ t) :
    x - correction c (fun x => a * x + b) t x = (t - b) / a := by
  unfold correction
  simp only
  have hd : c * (a * (c * (a * x + b - t) + x) + b - t) + (c * (a * x + b - t) + x) - 2 * (c * (a * x + b - t) + x) + x =
      c * a * (c * (a * x + b - t)) := by ring
  have hxt : a * x + b - t ≠ 0 := sub_ne_zero.mpr hx
  have hne : c * a * (c * (a * x + b - t)) ≠ 0 := mul_ne_zero (mul_ne_zero hc ha) (mul_ne_zero hc hxt)
  rw [hd, if_neg hne]
  have e : (c * (a * x + b - t) + x - x) * (c * (a * x + b - t) + x - x) / (c * a * (c * (a * x + b - t))) = (a * x + b - t) / a := by
    field_simp
    ring
  rw [e]
  field_simp
  ring

/-- at the solution the correction vanishes -/
theorem aitken_fixed_point (a b c t x : ℚ) (hx : a * x + b = t) : correction c (fun x => a * x + b) t x = 0 := by
  unfold correction
  have h0 : a * x + b - t = 0 := by rw [hx]; ring
  simp [h0]

end Gwcs.Sol
