-- C03: masking by the bounding box (C03a) and boxes given per input name (C03c)
import GwcsProofs.C03a
import GwcsProofs.C03c
