/-
  C08 — Answers depend only on the current pipeline, never on earlier queries.
-/
import GwcsModel.Cache

namespace Gwcs.Cache

variable {P Q A : Type}

/-- the memo, when present, was computed from the current pipeline -/
def Coherent (s : CState P) : Prop := s.memo = none ∨ s.memo = some s.pipe

/-- bookkeeping twin of `Coherent` used by the correspondence: the memo's epoch is the current one -/
def EpochCoherent (s : CState P) : Prop := s.memoEpoch = none ∨ s.memoEpoch = some s.epoch

instance [DecidableEq P] (s : CState P) : Decidable (Coherent s) := by unfold Coherent; exact inferInstance

theorem fresh_coherent (p : P) : Coherent (fresh p) := Or.inl rfl

/-- **cache_coherent (one step).** Coherence is preserved by every query and re-established by
    every edit, accepted or rejected. -/
theorem step_coherent (ans : P → P → Q → A) (s : CState P) (e : Event P Q) (h : Coherent s) :
    Coherent (step ans s e).1 := by
  cases e with
  | edit r =>
    cases r with
    | none => simpa [step] using h
    | some p' => exact Or.inl rfl
  | query q inv =>
    simp only [step]
    split
    · exact Or.inr rfl
    · exact h

theorem step_epochCoherent (ans : P → P → Q → A) (s : CState P) (e : Event P Q) (h : EpochCoherent s) :
    EpochCoherent (step ans s e).1 := by
  cases e with
  | edit r =>
    cases r with
    | none => simpa [step] using h
    | some p' => exact Or.inl rfl
  | query q inv =>
    simp only [step]
    split
    · exact Or.inr rfl
    · exact h

/-- **queries_preserve_abs.** A query changes neither the pipeline nor the edit count. -/
theorem queries_preserve_abs (ans : P → P → Q → A) (s : CState P) (q : Q) (inv : Bool) :
    (step ans s (.query q inv)).1.pipe = s.pipe ∧ (step ans s (.query q inv)).1.epoch = s.epoch := by
  simp only [step]
  split <;> simp

/-- a rejected edit changes nothing at all -/
theorem rejected_edit_noop (ans : P → P → Q → A) (s : CState P) :
    (step ans s (.edit none : Event P Q)).1 = s := rfl

/-- **answer_depends_on_abs.** In a coherent state the answer to any query is the answer a freshly
    built WCS with the same pipeline gives. -/
theorem answer_depends_on_abs (ans : P → P → Q → A) (s : CState P) (q : Q) (inv : Bool) (h : Coherent s) :
    (step ans s (.query q inv)).2 = (step ans (fresh s.pipe) (.query q inv)).2 := by
  have hg : guessSource s = s.pipe := by
    unfold guessSource
    rcases h with h | h <;> simp [h]
  have hf : guessSource (fresh s.pipe) = s.pipe := rfl
  simp only [step, hg, hf]
  split <;> split <;> rfl

/-- **run_history.** From a fresh WCS, after *any* interleaving of edits (valid or rejected) and
    queries, the state is coherent … -/
theorem run_coherent (ans : P → P → Q → A) : ∀ (es : List (Event P Q)) (s : CState P),
    Coherent s → Coherent (run ans s es).1
  | [], s, h => h
  | e :: es, s, h => by
    simp only [run]
    exact run_coherent ans es _ (step_coherent ans s e h)

/-- … so the answer to the next query equals the fresh twin's answer, whatever came before. -/
theorem run_history (ans : P → P → Q → A) (p : P) (es : List (Event P Q)) (q : Q) (inv : Bool) :
    let s := (run ans (fresh p) es).1
    (step ans s (.query q inv)).2 = (step ans (fresh s.pipe) (.query q inv)).2 :=
  answer_depends_on_abs ans _ q inv (run_coherent ans es _ (fresh_coherent p))

theorem run_epochCoherent (ans : P → P → Q → A) : ∀ (es : List (Event P Q)) (s : CState P),
    EpochCoherent s → EpochCoherent (run ans s es).1
  | [], s, h => h
  | e :: es, s, h => by
    simp only [run]
    exact run_epochCoherent ans es _ (step_epochCoherent ans s e h)

/-- Witness (not the property): without invalidation on edit coherence is lost — the D5 defect.
    Pipelines are numbers; an inverting query, then an edit 0 ↦ 1, leaves the memo of pipeline 0. -/
def wAns : Nat → Nat → Unit → Nat := fun g _ _ => g
def wS2 : CState Nat := (stepStale wAns (stepStale wAns (fresh 0) (.query () true)).1 (.edit (some 1))).1

theorem stale_without_invalidation :
    ¬ Coherent wS2 ∧ (stepStale wAns wS2 (.query () true)).2 ≠ (stepStale wAns (fresh 1) (.query () true)).2 := by
  decide

example : Coherent (run (fun (g _ : Nat) (_ : Unit) => g) (fresh 0)
    [.query () true, .edit (some 1), .edit none, .query () true]).1 := by decide

end Gwcs.Cache
