import GwcsModel.Units
import Mathlib.Tactic.FieldSimp
import Mathlib.Tactic.Ring
import Mathlib.Algebra.Order.Field.Rat
/-!
# C16 — units are transparent

Theorems about the unit glue for an *arbitrary* numeric transform `f` (any arity, not only the affine
family the driver runs): the values interface of a unit-carrying WCS equals that of its unit-free twin,
world quantities in any convertible unit invert like bare numbers in frame units, pixel quantities in
the wrong unit are rejected, and objects requested with units come back in the frame's units.
-/
namespace Gwcs.Units

/-- axis-by-axis convertibility -/
def Conv (src dst : List U) : Prop := List.Forall₂ (fun s d => s.dim = d.dim) src dst

def NonZero (us : List U) : Prop := ∀ u ∈ us, u.scale ≠ 0

theorem Conv.length {src dst : List U} (h : Conv src dst) : src.length = dst.length :=
  List.Forall₂.length_eq h

theorem Conv.trans {a b c : List U} (h1 : Conv a b) (h2 : Conv b c) : Conv a c := by
  induction h1 generalizing c with
  | nil => cases h2; exact List.Forall₂.nil
  | cons hd _ ih =>
    cases h2 with
    | cons hd' tl' => exact List.Forall₂.cons (hd.trans hd') (ih tl')

@[simp] theorem zipM_nil_left {α β γ} (f : α → β → Except Err γ) (bs : List β) : zipM f [] bs = pure [] := by
  cases bs <;> rfl

@[simp] theorem zipM_nil_right {α β γ} (f : α → β → Except Err γ) (as : List α) : zipM f as [] = pure [] := by
  cases as <;> rfl

theorem zipM_cons {α β γ} (f : α → β → Except Err γ) (a : α) (as : List α) (b : β) (bs : List β) :
    zipM f (a :: as) (b :: bs) = (do let c ← f a b; let cs ← zipM f as bs; pure (c :: cs)) := rfl

/-- stripping quantities whose units are convertible always succeeds and rescales -/
theorem zipM_stripTo_qtys {src dst : List U} (h : Conv src dst) :
    ∀ vals : List Rat, vals.length = src.length →
      zipM stripTo (qtys vals src) dst = .ok (scaleBy src dst vals) := by
  induction h with
  | nil => intro vals _; simp [qtys, scaleBy]; rfl
  | @cons s d ss ds hd _ ih =>
    intro vals hl
    match vals, hl with
    | v :: vs, hl =>
      have hl' : vs.length = ss.length := by simpa using hl
      have := ih vs hl'
      simp only [qtys, List.zip_cons_cons, List.map_cons] at this ⊢
      rw [zipM_cons, show stripTo (Arg.qty v s) d = .ok (v * s.scale / d.scale) by simp [stripTo, toValue, hd]]
      simp only [scaleBy, List.zip_cons_cons, List.map_cons] at this ⊢
      rw [show (Except.ok (v * s.scale / d.scale) : Except Err Rat) = pure (v * s.scale / d.scale) from rfl, pure_bind, this]
      rfl

theorem zipM_stripOrKeep_qtys {src dst : List U} (h : Conv src dst) :
    ∀ vals : List Rat, vals.length = src.length →
      zipM stripOrKeep (qtys vals src) dst = .ok (scaleBy src dst vals) := by
  induction h with
  | nil => intro vals _; simp [qtys, scaleBy]; rfl
  | @cons s d ss ds hd _ ih =>
    intro vals hl
    match vals, hl with
    | v :: vs, hl =>
      have hl' : vs.length = ss.length := by simpa using hl
      have := ih vs hl'
      simp only [qtys, List.zip_cons_cons, List.map_cons] at this ⊢
      rw [zipM_cons, show stripOrKeep (Arg.qty v s) d = .ok (v * s.scale / d.scale) by simp [stripOrKeep, toValue, hd]]
      simp only [scaleBy, List.zip_cons_cons, List.map_cons] at this ⊢
      rw [show (Except.ok (v * s.scale / d.scale) : Except Err Rat) = pure (v * s.scale / d.scale) from rfl, pure_bind, this]
      rfl

theorem mapM_unBare_bare (vals : List Rat) : (vals.map Arg.bare).mapM unBare = (.ok vals : Except Err _) := by
  induction vals with
  | nil => rfl
  | cons v vs ih =>
    simp only [List.map_cons, List.mapM_cons, ih, unBare]
    rfl

theorem any_isQty_bare (vals : List Rat) : (vals.map Arg.bare).any isQty = false := by
  induction vals with
  | nil => rfl
  | cons v vs ih => simp [isQty, ih]

/-- plain results of a unit-free transform pass through the values interface as they are -/
theorem removeQuantityOutput_bare (us : List U) (vals : List Rat) :
    removeQuantityOutput false us (vals.map Arg.bare) = .ok vals := by
  simp only [removeQuantityOutput, any_isQty_bare, Bool.or_self, Bool.false_eq_true, if_false]
  exact mapM_unBare_bare vals

theorem scaleBy_length (src dst : List U) (vals : List Rat) (h1 : vals.length = src.length) (h2 : src.length = dst.length) :
    (scaleBy src dst vals).length = vals.length := by
  simp [scaleBy, List.length_zip]; omega

/-- conversions compose: going through an intermediate unit of non-zero scale changes nothing -/
theorem toValue_trans (v : Rat) (a b c : U) (hab : a.dim = b.dim) (hb : b.scale ≠ 0) :
    (toValue v a b >>= fun x => toValue x b c) = toValue v a c := by
  unfold toValue
  simp only [hab, ↓reduceIte]
  by_cases hbc : b.dim = c.dim
  · simp only [hbc, ↓reduceIte]
    show Except.ok _ = Except.ok _
    congr 1
    field_simp
  · simp [hbc]; rfl

theorem scaleBy_trans {a b c : List U} (hab : a.length = b.length) (hbc : b.length = c.length) (hb : NonZero b) :
    ∀ vals : List Rat, scaleBy b c (scaleBy a b vals) = scaleBy a c vals := by
  induction a generalizing b c with
  | nil => intro vals; simp [scaleBy]
  | cons x xs ih =>
    match b, c, hab, hbc with
    | y :: ys, z :: zs, hab, hbc =>
      intro vals
      cases vals with
      | nil => simp [scaleBy]
      | cons v vs =>
        have hy : y.scale ≠ 0 := hb y (by simp)
        have := ih (b := ys) (c := zs) (by simpa using hab) (by simpa using hbc) (fun u hu => hb u (by simp [hu])) vs
        simp only [scaleBy, List.zip_cons_cons, List.map_cons] at this ⊢
        rw [this]
        congr 1
        field_simp

theorem scaleBy_self {a : List U} (ha : NonZero a) : ∀ vals : List Rat, vals.length = a.length → scaleBy a a vals = vals := by
  induction a with
  | nil => intro vals h; simp at h; subst h; simp [scaleBy]
  | cons x xs ih =>
    intro vals h
    cases vals with
    | nil => simp at h
    | cons v vs =>
      have hx : x.scale ≠ 0 := ha x (by simp)
      have := ih (fun u hu => ha u (by simp [hu])) vs (by simpa using h)
      simp only [scaleBy, List.zip_cons_cons, List.map_cons] at this ⊢
      rw [this]
      congr 1
      field_simp

/-- well-formedness of a unit-carrying transform against the frames around it -/
structure Tr.WF (t : Tr) (frameIn frameOut : List U) : Prop where
  convIn : Conv frameIn t.inU
  convOut : Conv t.outU frameOut
  arity : ∀ vs : List Rat, vs.length = t.inU.length → (t.f vs).length = t.outU.length

/-- evaluating a unit-carrying transform on quantities in any convertible units -/
theorem Tr.eval_qtys (t : Tr) (hq : t.usesQ = true) {us : List U} (h : Conv us t.inU) (vals : List Rat) (hl : vals.length = us.length) :
    t.eval (qtys vals us) = .ok (qtys (t.f (scaleBy us t.inU vals)) t.outU) := by
  simp only [Tr.eval, hq, ↓reduceIte, zipM_stripTo_qtys h vals hl]
  rfl

theorem Tr.eval_bare (t : Tr) (hq : t.usesQ = false) (vals : List Rat) :
    t.eval (vals.map Arg.bare) = .ok ((t.f vals).map Arg.bare) := by
  simp only [Tr.eval, hq, mapM_unBare_bare]
  rfl

/-- **values interface, forward**: a unit-carrying WCS and its unit-free twin return the same bare numbers -/
theorem values_agree (w : W) (hq : w.fwd.usesQ = true) (wf : w.fwd.WF w.pixU w.worldU)
    (pix : List Rat) (hl : pix.length = w.pixU.length) :
    w.pixelToWorldValues pix = .ok (scaleBy w.fwd.outU w.worldU (w.fwd.f (scaleBy w.pixU w.fwd.inU pix)))
    ∧ w.twin.pixelToWorldValues pix = w.pixelToWorldValues pix := by
  have h1 : w.pixelToWorldValues pix = .ok (scaleBy w.fwd.outU w.worldU (w.fwd.f (scaleBy w.pixU w.fwd.inU pix))) := by
    simp only [W.pixelToWorldValues, addUnitsInput, hq, ↓reduceIte, removeQuantityOutput]
    rw [Tr.eval_qtys _ hq wf.convIn _ hl]
    show zipM stripOrKeep _ _ = _
    apply zipM_stripOrKeep_qtys wf.convOut
    apply wf.arity
    rw [scaleBy_length _ _ _ hl wf.convIn.length, hl, wf.convIn.length]
  refine ⟨h1, ?_⟩
  rw [h1]
  simp only [W.pixelToWorldValues, W.twin, Tr.twin, addUnitsInput, removeQuantityOutput]
  have := Tr.eval_bare (w.fwd.twin w.pixU w.worldU) rfl pix
  simp only [Tr.twin] at this
  simp only [Bool.false_eq_true, ↓reduceIte, this]
  simp only [bind, Except.bind, any_isQty_bare, Bool.or_self, Bool.false_eq_true, if_false]
  exact mapM_unBare_bare _

/-- what `invert` does with quantities when the backward transform carries units: no stripping -/
theorem invert_usesQ (w : W) (hq : w.bwd.usesQ = true) (args : List Arg) : w.invert args = w.bwd.eval args := by
  unfold W.invert
  split <;> simp [hq]

/-- **values interface, backward** -/
theorem world_values_agree (w : W) (hq : w.bwd.usesQ = true) (wf : w.bwd.WF w.worldU w.pixU)
    (world : List Rat) (hl : world.length = w.worldU.length) :
    w.worldToPixelValues world = .ok (scaleBy w.bwd.outU w.pixU (w.bwd.f (scaleBy w.worldU w.bwd.inU world)))
    ∧ w.twin.worldToPixelValues world = w.worldToPixelValues world := by
  have h1 : w.worldToPixelValues world = .ok (scaleBy w.bwd.outU w.pixU (w.bwd.f (scaleBy w.worldU w.bwd.inU world))) := by
    simp only [W.worldToPixelValues, addUnitsInput, hq, ↓reduceIte, removeQuantityOutput, invert_usesQ w hq]
    rw [Tr.eval_qtys _ hq wf.convIn _ hl]
    show zipM stripOrKeep _ _ = _
    apply zipM_stripOrKeep_qtys wf.convOut
    apply wf.arity
    rw [scaleBy_length _ _ _ hl wf.convIn.length, hl, wf.convIn.length]
  refine ⟨h1, ?_⟩
  rw [h1]
  have hb := Tr.eval_bare (w.bwd.twin w.worldU w.pixU) rfl world
  simp only [W.worldToPixelValues, W.twin, addUnitsInput, removeQuantityOutput, Tr.twin, Bool.false_eq_true, ↓reduceIte] at hb ⊢
  have hinv : ∀ (w' : W) (vs : List Rat), w'.invert (vs.map Arg.bare) = w'.bwd.eval (vs.map Arg.bare) := by
    intro w' vs; unfold W.invert; cases vs <;> simp
  rw [hinv]
  simp only [hb]
  simp only [bind, Except.bind, any_isQty_bare, Bool.or_self, Bool.false_eq_true, if_false]
  exact mapM_unBare_bare _

theorem zipM_stripOrKeep_bare : ∀ (vals : List Rat) (us : List U), vals.length = us.length →
    zipM stripOrKeep (vals.map Arg.bare) us = .ok vals := by
  intro vals
  induction vals with
  | nil => intro us h; cases us <;> simp_all <;> rfl
  | cons v vs ih =>
    intro us h
    cases us with
    | nil => simp at h
    | cons u us' =>
      have := ih us' (by simpa using h)
      simp only [List.map_cons]
      rw [zipM_cons]
      show (do let cs ← zipM stripOrKeep (vs.map Arg.bare) us'; pure (v :: cs)) = _
      rw [this]; rfl

/-- **a user-supplied unit-free inverse next to a unit-carrying forward transform is honoured as given**: bare world numbers
(frame units) go straight to it, and the values interface returns its pixels as bare numbers -/
theorem mixed_world_values (w : W) (hb : w.bwd.usesQ = false) (world : List Rat) :
    w.worldToPixelValues world = .ok (w.bwd.f world) := by
  have hinv : w.invert (world.map Arg.bare) = w.bwd.eval (world.map Arg.bare) := by
    unfold W.invert; cases world <;> simp
  simp only [W.worldToPixelValues, addUnitsInput, hb, Bool.false_eq_true, ↓reduceIte, hinv, Tr.eval_bare _ hb, removeQuantityOutput]
  simp only [bind, Except.bind, any_isQty_bare, Bool.or_self, Bool.false_eq_true, if_false]
  exact mapM_unBare_bare _

/-- **the other mix: a unit-free forward transform with a user-supplied unit-carrying inverse** - the values interface still returns
bare numbers in the input frame's units, whatever the forward transform is (the strip follows the transform that produced the result) -/
theorem mixed_rev_world_values (w : W) (hb : w.bwd.usesQ = true) (wf : w.bwd.WF w.worldU w.pixU)
    (world : List Rat) (hl : world.length = w.worldU.length) :
    w.worldToPixelValues world = .ok (scaleBy w.bwd.outU w.pixU (w.bwd.f (scaleBy w.worldU w.bwd.inU world))) :=
  (world_values_agree w hb wf world hl).1

/-- **world quantities in any convertible unit** invert, on a unit-free WCS, exactly like the bare
numbers obtained by converting them to the frame units -/
theorem quantity_any_unit (w : W) (hq : w.bwd.usesQ = false) {us : List U} (h : Conv us w.worldU)
    (vals : List Rat) (hl : vals.length = us.length) (hne : vals ≠ []) :
    w.invert (qtys vals us) = w.invert ((scaleBy us w.worldU vals).map Arg.bare) := by
  have hb : ∀ vs : List Rat, w.invert (vs.map Arg.bare) = w.bwd.eval (vs.map Arg.bare) := by
    intro vs; unfold W.invert; cases vs <;> simp
  rw [hb]
  match vals, us, hl, hne, h with
  | v :: vs, u :: us', hl, _, h =>
    have hs := zipM_stripTo_qtys h (v :: vs) hl
    simp only [qtys, List.zip_cons_cons, List.map_cons] at hs ⊢
    simp only [W.invert, hq, Bool.false_eq_true, ↓reduceIte, getValues, hs]
    rfl

/-- the same for a unit-carrying WCS: any convertible unit gives the result of the frame unit -/
theorem quantity_any_unit_usesQ (w : W) (hq : w.bwd.usesQ = true) {us : List U} (h : Conv us w.worldU)
    (hw : Conv w.worldU w.bwd.inU) (hnz : NonZero w.worldU) (vals : List Rat) (hl : vals.length = us.length) :
    w.invert (qtys vals us) = w.invert (qtys (scaleBy us w.worldU vals) w.worldU) := by
  have huw : Conv us w.bwd.inU := h.trans hw
  rw [invert_usesQ w hq, invert_usesQ w hq, Tr.eval_qtys _ hq huw _ hl,
    Tr.eval_qtys _ hq hw _ (by rw [scaleBy_length _ _ _ hl h.length, hl, h.length]),
    scaleBy_trans h.length hw.length hnz]

/-- bare numbers are read in frame units -/
theorem bare_equals_frame_units (w : W) (hq : w.bwd.usesQ = false) (hnz : NonZero w.worldU)
    (vals : List Rat) (hl : vals.length = w.worldU.length) (hne : vals ≠ []) :
    w.invert (qtys vals w.worldU) = w.invert (vals.map Arg.bare) := by
  have hc : Conv w.worldU w.worldU := by
    unfold Conv; exact List.forall₂_same.mpr (fun _ _ => rfl)
  rw [quantity_any_unit w hq hc vals hl hne, scaleBy_self hnz vals hl]

/-- a failing position makes `zipM` fail when the only possible error is `e` -/
theorem zipM_error {α β γ} (f : α → β → Except Err γ) (e : Err) (honly : ∀ a b e', f a b = .error e' → e' = e) :
    ∀ (as : List α) (bs : List β) (i : Nat) (a : α) (b : β), as[i]? = some a → bs[i]? = some b → f a b = .error e →
      zipM f as bs = .error e := by
  intro as
  induction as with
  | nil => intro bs i a b h; simp at h
  | cons x xs ih =>
    intro bs i a b ha hb hf
    cases bs with
    | nil => simp at hb
    | cons y ys =>
      rw [zipM_cons]
      cases hxy : f x y with
      | error e' => rw [honly x y e' hxy]; rfl
      | ok c =>
        cases i with
        | zero => simp at ha hb; subst ha; subst hb; rw [hf] at hxy; cases hxy
        | succ j =>
          have := ih ys j a b (by simpa using ha) (by simpa using hb) hf
          show (do let cs ← zipM f xs ys; pure (c :: cs)) = _
          rw [this]; rfl

/-- **wrong pixel unit is rejected** (unit-free transform): a pixel quantity whose unit is not the
input frame's unit, at any position and whatever the other arguments are, raises `ValueError` -/
theorem wrong_pixel_unit_rejected (pixU : List U) (pix : List Arg) (i : Nat) (v : Rat) (s u : U)
    (hp : pix[i]? = some (.qty v s)) (hu : pixU[i]? = some u) (hne : s ≠ u) :
    sanitizePixel false pixU pix = .error .valueErr := by
  simp only [sanitizePixel, Bool.false_eq_true, ↓reduceIte]
  apply zipM_error stripPix .valueErr _ pix pixU i _ _ hp hu
  · simp [stripPix, hne]
  · intro a b e' h
    cases a with
    | bare v => simp [stripPix] at h
    | qty v s => simp only [stripPix] at h; split at h <;> cases h; rfl

/-- ... and one in the frame's unit is stripped, never reinterpreted -/
theorem right_pixel_unit_stripped (pixU : List U) (vals : List Rat) (hl : vals.length = pixU.length) :
    sanitizePixel false pixU (qtys vals pixU) = .ok (vals.map Arg.bare) := by
  simp only [sanitizePixel, Bool.false_eq_true, ↓reduceIte]
  induction pixU generalizing vals with
  | nil => simp at hl; subst hl; rfl
  | cons u us ih =>
    cases vals with
    | nil => simp at hl
    | cons v vs =>
      have := ih vs (by simpa using hl)
      simp only [qtys, List.zip_cons_cons, List.map_cons] at this ⊢
      rw [zipM_cons, show stripPix (Arg.qty v u) u = .ok (Arg.bare v) by simp [stripPix]]
      show (do let cs ← zipM stripPix _ us; pure (Arg.bare v :: cs)) = _
      rw [this]; rfl

/-- unit-carrying transform: a pixel quantity of another dimension is rejected by the transform -/
theorem wrong_pixel_dim_rejected (t : Tr) (hq : t.usesQ = true) (args : List Arg) (i : Nat) (v : Rat) (s u : U)
    (hp : args[i]? = some (.qty v s)) (hu : t.inU[i]? = some u) (hne : s.dim ≠ u.dim) :
    t.eval args = .error .valueErr := by
  simp only [Tr.eval, hq, ↓reduceIte]
  have : zipM stripTo args t.inU = .error .valueErr := by
    apply zipM_error stripTo .valueErr _ args t.inU i _ _ hp hu
    · simp [stripTo, toValue, hne]
    · intro a b e' h
      cases a with
      | bare v => simp [stripTo] at h; exact h.symm
      | qty v s => simp only [stripTo, toValue] at h; split at h <;> cases h; rfl
  rw [this]; rfl

theorem zipM_toFrame_qtys {src dst : List U} (h : Conv src dst) :
    ∀ vals : List Rat, vals.length = src.length →
      zipM toFrame (qtys vals src) dst = .ok (qtys (scaleBy src dst vals) dst) := by
  induction h with
  | nil => intro vals _; simp [qtys, scaleBy]; rfl
  | @cons s d ss ds hd _ ih =>
    intro vals hl
    match vals, hl with
    | v :: vs, hl =>
      have := ih vs (by simpa using hl)
      simp only [qtys, scaleBy, List.zip_cons_cons, List.map_cons] at this ⊢
      rw [zipM_cons, show toFrame (Arg.qty v s) d = .ok (Arg.qty (v * s.scale / d.scale) d) by
        simp [toFrame, convert, toValue, hd]; rfl]
      show (do let cs ← zipM toFrame _ ds; pure (_ :: cs)) = _
      rw [this]; rfl

theorem zipM_toFrame_bare (dst : List U) : ∀ vals : List Rat, zipM toFrame (vals.map Arg.bare) dst = .ok (qtys vals dst) := by
  induction dst with
  | nil => intro vals; simp [qtys]; rfl
  | cons d ds ih =>
    intro vals
    cases vals with
    | nil => simp [qtys]; rfl
    | cons v vs =>
      have := ih vs
      simp only [qtys, List.map_cons, List.zip_cons_cons] at this ⊢
      rw [zipM_cons]
      show (do let cs ← zipM toFrame _ ds; pure (Arg.qty v d :: cs)) = _
      rw [this]; rfl

theorem sanitize_bare_aux : ∀ (pix : List Rat) (pixU : List U),
    List.map (fun x : Arg × U => match x.1 with
        | Arg.bare v => Arg.qty v x.2
        | q => q) ((pix.map Arg.bare).zip pixU) = List.map (fun x : Rat × U => Arg.qty x.1 x.2) (pix.zip pixU) := by
  intro pix
  induction pix with
  | nil => intro pixU; simp
  | cons v vs ih =>
    intro pixU
    cases pixU with
    | nil => simp
    | cons u us => simp [ih us]

/-- **results requested with units come back in the output frame's declared units**, with exactly the
numbers of the values interface — for the unit-carrying form ... -/
theorem with_units_in_frame_units (w : W) (hq : w.fwd.usesQ = true) (wf : w.fwd.WF w.pixU w.worldU)
    (pix : List Rat) (hl : pix.length = w.pixU.length) :
    ∃ vals, w.pixelToWorldValues pix = .ok vals ∧ w.pixelToWorld (pix.map Arg.bare) = .ok (qtys vals w.worldU) := by
  refine ⟨_, (values_agree w hq wf pix hl).1, ?_⟩
  have hs : sanitizePixel true w.pixU (pix.map Arg.bare) = .ok (qtys pix w.pixU) := by
    simp only [sanitizePixel, ↓reduceIte, qtys]
    show Except.ok _ = Except.ok _
    congr 1
    exact sanitize_bare_aux pix w.pixU
  simp only [W.pixelToWorld, hq, hs, W.callWithUnits]
  show (do let res ← w.fwd.eval (qtys pix w.pixU); coordinates w.worldU res) = _
  rw [Tr.eval_qtys _ hq wf.convIn _ hl]
  show coordinates _ _ = _
  unfold coordinates
  apply zipM_toFrame_qtys wf.convOut
  apply wf.arity
  rw [scaleBy_length _ _ _ hl wf.convIn.length, hl, wf.convIn.length]

/-- ... and for the unit-free form (numbers are labelled with the frame units) -/
theorem with_units_in_frame_units_twin (w : W) (hq : w.fwd.usesQ = false) (pix : List Rat) (hl : pix.length = w.pixU.length) :
    w.pixelToWorldValues pix = .ok (w.fwd.f pix) ∧ w.pixelToWorld (pix.map Arg.bare) = .ok (qtys (w.fwd.f pix) w.worldU) := by
  constructor
  · simp only [W.pixelToWorldValues, addUnitsInput, hq, Bool.false_eq_true, ↓reduceIte, removeQuantityOutput, Tr.eval_bare _ hq]
    simp only [bind, Except.bind, any_isQty_bare, Bool.or_self, Bool.false_eq_true, if_false]
    exact mapM_unBare_bare _
  · have hs : sanitizePixel false w.pixU (pix.map Arg.bare) = .ok (pix.map Arg.bare) := by
      simp only [sanitizePixel, Bool.false_eq_true, ↓reduceIte]
      clear hq
      induction pix generalizing w with
      | nil => simp; rfl
      | cons v vs ih =>
        cases hp : w.pixU with
        | nil => rw [hp] at hl; simp at hl
        | cons u us =>
          have := ih { w with pixU := us } (by rw [hp] at hl; simpa using hl)
          simp only [List.map_cons] at this ⊢
          rw [zipM_cons]
          show (do let cs ← zipM stripPix _ us; pure (Arg.bare v :: cs)) = _
          rw [this]; rfl
    simp only [W.pixelToWorld, hq, hs, W.callWithUnits]
    show (do let res ← w.fwd.eval (pix.map Arg.bare); coordinates w.worldU res) = _
    rw [Tr.eval_bare _ hq]
    exact zipM_toFrame_bare _ _

/-- **the twins build the same objects** -/
theorem objects_agree (w : W) (hq : w.fwd.usesQ = true) (wf : w.fwd.WF w.pixU w.worldU)
    (pix : List Rat) (hl : pix.length = w.pixU.length) :
    w.twin.pixelToWorld (pix.map Arg.bare) = w.pixelToWorld (pix.map Arg.bare) := by
  obtain ⟨vals, hv, ho⟩ := with_units_in_frame_units w hq wf pix hl
  have ht := with_units_in_frame_units_twin w.twin rfl pix hl
  have hv' := (values_agree w hq wf pix hl).2
  rw [ht.1, hv] at hv'
  rw [ho, ht.2]
  cases hv'
  rfl

/-- non-vacuity: a 2-axis unit-carrying WCS (deg/arcsec, um/nm) satisfies the hypotheses -/
example :
    let pixU : U := ⟨0, 1⟩
    let deg : U := ⟨1, 1⟩
    let arcsec : U := ⟨1, 1 / 3600⟩
    let um : U := ⟨2, 1000⟩
    let nm : U := ⟨2, 1⟩
    let t : Tr := { usesQ := true, f := affine [(2, 1), (3, 5)], inU := [pixU, pixU], outU := [deg, um] }
    t.WF [pixU, pixU] [arcsec, nm] := by
  refine ⟨?_, ?_, ?_⟩
  · exact List.Forall₂.cons rfl (List.Forall₂.cons rfl List.Forall₂.nil)
  · exact List.Forall₂.cons rfl (List.Forall₂.cons rfl List.Forall₂.nil)
  · intro vs h
    simp [affine] at h ⊢
    omega

end Gwcs.Units

namespace Gwcs.Units

/-- on a unit-carrying WCS `_sanitize_pixel_inputs` leaves pixel quantities as they are -/
theorem sanitize_keeps_qtys : ∀ (vals : List Rat) (us pixU : List U), vals.length = us.length → us.length = pixU.length →
    sanitizePixel true pixU (qtys vals us) = .ok (qtys vals us) := by
  intro vals us pixU h1 h2
  simp only [sanitizePixel, ↓reduceIte]
  show Except.ok _ = _
  congr 1
  induction vals generalizing us pixU with
  | nil => simp [qtys]
  | cons v vs ih =>
    match us, pixU, h1, h2 with
    | u :: us', p :: ps, h1, h2 =>
      have := ih us' ps (by simpa using h1) (by simpa using h2)
      simp only [qtys, List.zip_cons_cons, List.map_cons] at this ⊢
      rw [this]

/-- **pixel quantities in any convertible unit** (unit-carrying transform): the answer is the one for the converted numbers given in
the input frame's own unit - converted, never taken at face value. (For the unit-free twin any unit other than the frame's is rejected:
`wrong_pixel_unit_rejected`.) -/
theorem pixel_quantity_converted (w : W) (hq : w.fwd.usesQ = true) {us : List U} (h : Conv us w.pixU) (hpu : Conv w.pixU w.fwd.inU)
    (nz : NonZero w.pixU) (vals : List Rat) (hl : vals.length = us.length) :
    w.pixelToWorld (qtys vals us) = w.pixelToWorld (qtys (scaleBy us w.pixU vals) w.pixU) := by
  have hlen := h.length
  have hl2 : (scaleBy us w.pixU vals).length = w.pixU.length := by
    rw [scaleBy_length us w.pixU vals hl hlen, hl, hlen]
  simp only [W.pixelToWorld, hq, sanitize_keeps_qtys vals us w.pixU hl hlen, sanitize_keeps_qtys _ w.pixU w.pixU hl2 rfl]
  show (do let p ← (Except.ok (qtys vals us) : Except Err _); w.callWithUnits p) = (do let p ← (Except.ok _ : Except Err _); w.callWithUnits p)
  simp only [bind, Except.bind, W.callWithUnits]
  rw [Tr.eval_qtys w.fwd hq (h.trans hpu) vals hl, Tr.eval_qtys w.fwd hq hpu _ hl2,
    scaleBy_trans hlen hpu.length nz vals]

end Gwcs.Units

/-! ### scale-only unit-carrying transforms and `world_to_array_index` -/

namespace Gwcs.Units

/-- the array index through a scale-only backward transform, in closed form: the world value is taken in the transform's unit,
scaled, read in the pixel unit and rounded -/
theorem arrayIndexScaleOnly_eq (k v : Rat) (s inU outU pixU : U) (hd : s.dim = inU.dim) (hp : outU.dim = pixU.dim) :
    arrayIndexScaleOnly k inU outU pixU (.qty v s) =
      .ok ((k * v * (outU.scale * s.scale / inU.scale) / pixU.scale + 1 / 2).floor) := by
  simp [arrayIndexScaleOnly, evalScaleOnly, hd, toFrame, convert, toValue, hp, magnitude, bind, Except.bind, Except.map, pure, Except.pure]

/-- **the array index does not depend on the unit the world value is given in**: two spellings of the same physical quantity
(`v * s.scale = v' * s'.scale`) give the same index, although the backward transform converts nothing -/
theorem array_index_unit_independent (k v v' : Rat) (s s' inU outU pixU : U) (hd : s.dim = inU.dim) (hd' : s'.dim = inU.dim)
    (hp : outU.dim = pixU.dim) (hsame : v * s.scale = v' * s'.scale) :
    arrayIndexScaleOnly k inU outU pixU (.qty v s) = arrayIndexScaleOnly k inU outU pixU (.qty v' s') := by
  rw [arrayIndexScaleOnly_eq k v s inU outU pixU hd hp, arrayIndexScaleOnly_eq k v' s' inU outU pixU hd' hp]
  have : k * v * (outU.scale * s.scale / inU.scale) = k * v' * (outU.scale * s'.scale / inU.scale) := by
    have h1 : k * v * (outU.scale * s.scale / inU.scale) = k * (v * s.scale) * outU.scale / inU.scale := by ring
    have h2 : k * v' * (outU.scale * s'.scale / inU.scale) = k * (v' * s'.scale) * outU.scale / inU.scale := by ring
    rw [h1, h2, hsame]
  rw [this]

/-- and it is the index of the unit-free twin: the world value in the transform's unit times the factor, rounded -/
theorem array_index_matches_twin (k v : Rat) (inU outU : U) (hin : inU.scale ≠ 0) (hout : outU.scale ≠ 0) :
    arrayIndexScaleOnly k inU outU outU (.qty v inU) = .ok ((k * v + 1 / 2).floor) := by
  rw [arrayIndexScaleOnly_eq k v inU inU outU outU rfl rfl]
  have : k * v * (outU.scale * inU.scale / inU.scale) / outU.scale = k * v := by field_simp
  rw [this]

/-- rounding the raw magnitude instead (no conversion to the frame unit) depends on the spelling: a frequency axis whose
transform works in MHz, asked in Hz - pixel 50.375 comes back as index 50375000 -/
example :
    let hz : U := ⟨2, 1⟩; let mhz : U := ⟨2, 1000000⟩; let pix : U := ⟨0, 1⟩
    arrayIndexScaleOnly (1 / 2) mhz pix pix (.qty 100750000 hz) = .ok 50 ∧
    arrayIndexScaleOnly (1 / 2) mhz pix pix (.qty (403 / 4) mhz) = .ok 50 ∧
    arrayIndexScaleOnlyRaw (1 / 2) mhz pix (.qty 100750000 hz) = .ok 50375000 ∧
    arrayIndexScaleOnlyRaw (1 / 2) mhz pix (.qty (403 / 4) mhz) = .ok 50 := by decide +kernel

end Gwcs.Units

/-! ### plain numbers next to quantities in one result -/

namespace Gwcs.Units

/-- **mixed_outputs_converted.** As soon as one result is a quantity (a look-up table of quantities beside a unit-free shift), every
quantity is converted to its axis's frame unit and every plain number is kept - whatever the transform says about its parameters. -/
theorem mixed_outputs_converted (usesQ : Bool) (us : List U) (res : List Arg) (h : res.any isQty = true) :
    removeQuantityOutput usesQ us res = zipM stripOrKeep res us := by
  simp [removeQuantityOutput, h]

/-- looking at the first result only is not enough: a plain slit position followed by a wavelength in nm, frame units (m, um) -/
example :
    let m : U := ⟨2, 1⟩; let um : U := ⟨2, 1 / 1000000⟩; let nm : U := ⟨2, 1 / 1000000000⟩
    removeQuantityOutput false [m, um] [.bare (11 / 2), .qty 505 nm] = .ok [11 / 2, 101 / 200] := by decide +kernel

end Gwcs.Units
