import GwcsModel.Tab

/-! C11 (celestial pairs are carried by the SIP/linear part): which separable group is treated as the celestial pair. -/
namespace Gwcs.Tab

/-- **celestial_group_same_frame.** A group is handed to the SIP/linear part only if it consists of exactly two world axes that are
both axes of one and the same 2-axis celestial frame. -/
theorem celestial_group_same_frame (frames : List FrameI) (s : List Nat) (h : celestialGroup frames s = true) :
    ∃ a b f, s = [a, b] ∧ f ∈ frames ∧ f.cel = true ∧ f.axes.length = 2 ∧ a ∈ f.axes ∧ b ∈ f.axes := by
  unfold celestialGroup at h
  match s, h with
  | [a, b], h =>
    simp only at h
    cases hf : findFrame frames a with
    | none => simp [hf] at h
    | some f =>
      simp only [hf, Bool.and_eq_true, beq_iff_eq, List.contains_eq_mem, decide_eq_true_eq] at h
      have hmem : f ∈ frames := List.mem_of_find?_eq_some hf
      have ha : a ∈ f.axes := by
        have := List.find?_some hf
        simpa using this
      exact ⟨a, b, f, rfl, hmem, h.1.1, h.1.2, ha, h.2⟩

/-- **split_celestial_not_paired.** When the two axes of the celestial frame fall into different separable groups (a raster-scanned
slit: longitude from the scan position, latitude and wavelength from the detector), a group made of one celestial axis and an axis of
another frame is not the celestial pair: it is tabulated (the shape of seeded change C11-10). -/
theorem split_celestial_not_paired (frames : List FrameI) (a b : Nat) (f : FrameI) (hf : findFrame frames a = some f)
    (hb : b ∉ f.axes) : celestialGroup frames [a, b] = false := by
  simp [celestialGroup, hf, hb]

-- non-vacuity: sky on world axes (0, 1), spectral on 2; groups [0] and [1, 2]: neither is the celestial pair; [0, 1] would be
example : celestialGroup [⟨[0, 1], true⟩, ⟨[2], false⟩] [1, 2] = false ∧ celestialGroup [⟨[0, 1], true⟩, ⟨[2], false⟩] [0] = false ∧
    celestialGroup [⟨[0, 1], true⟩, ⟨[2], false⟩] [0, 1] = true := by decide

end Gwcs.Tab
