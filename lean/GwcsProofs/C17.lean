/-
  C17 — No call leaves process-wide numeric/warning settings changed, even on failure.
-/
import GwcsModel.Effects

namespace Gwcs.Eff

/-- the error modes that will be in force once every open errstate bracket has closed -/
def baseErr (g : G) : ErrModes := (g.errStack.getLast?).getD g.err
def baseFilt (g : G) : List Nat := (g.filtStack.getLast?).getD g.filters

theorem getLast?_cons_getD {α} (a : α) (l : List α) (d : α) :
    ((a :: l).getLast?).getD d = (l.getLast?).getD a := by
  cases l with
  | nil => rfl
  | cons b t =>
    rw [List.getLast?_cons_cons]
    have : (b :: t).getLast? = some ((b :: t).getLast (by simp)) := List.getLast?_eq_some_getLast (by simp)
    simp [this]

/-- **restores_G (general form).** Along a guarded trace started at nesting depths equal to the
    current stack heights, all brackets end closed, and the settings in force at the end are the
    ones that were in force outside the outermost bracket at the start. -/
theorem guarded_run : ∀ (tr : List Ev) (g : G),
    guarded tr g.errStack.length g.filtStack.length = true →
    (run tr g).errStack = [] ∧ (run tr g).filtStack = [] ∧
      baseErr (run tr g) = baseErr g ∧ baseFilt (run tr g) = baseFilt g ∧ (run tr g).print = g.print
  | [], g, h => by
    simp only [guarded, Bool.and_eq_true, beq_iff_eq, List.length_eq_zero_iff] at h
    exact ⟨h.1, h.2, rfl, rfl, rfl⟩
  | ev :: tr, g, h => by
    have key : ∀ g' : G, g' = stepEv g ev →
        guarded tr g'.errStack.length g'.filtStack.length = true →
        baseErr g' = baseErr g → baseFilt g' = baseFilt g → g'.print = g.print →
        (run (ev :: tr) g).errStack = [] ∧ (run (ev :: tr) g).filtStack = [] ∧
          baseErr (run (ev :: tr) g) = baseErr g ∧ baseFilt (run (ev :: tr) g) = baseFilt g ∧
          (run (ev :: tr) g).print = g.print := by
      intro g' hg' hgd hbe hbf hp
      have ih := guarded_run tr g' hgd
      have hr : run (ev :: tr) g = run tr g' := by simp [run, List.foldl_cons, hg']
      rw [hr]
      exact ⟨ih.1, ih.2.1, ih.2.2.1.trans hbe, ih.2.2.2.1.trans hbf, ih.2.2.2.2.trans hp⟩
    cases ev with
    | esEnter =>
      apply key _ rfl
      · simpa [stepEv, guarded] using h
      · simp [stepEv, baseErr, getLast?_cons_getD]
      · rfl
      · rfl
    | esExit =>
      cases hs : g.errStack with
      | nil => simp [guarded, hs] at h
      | cons s r =>
        apply key _ rfl
        · simpa [stepEv, hs, guarded] using h
        · simp [stepEv, hs, baseErr, getLast?_cons_getD]
        · simp [stepEv, hs, baseFilt]
        · simp [stepEv, hs]
    | setErr i o =>
      simp only [guarded, Bool.and_eq_true, decide_eq_true_eq] at h
      apply key _ rfl
      · simpa [stepEv] using h.2
      · cases hs : g.errStack with
        | nil => simp [hs] at h
        | cons s r => simp only [stepEv, baseErr, hs, getLast?_cons_getD]
      · rfl
      · rfl
    | cwEnter =>
      apply key _ rfl
      · simpa [stepEv, guarded] using h
      · rfl
      · simp [stepEv, baseFilt, getLast?_cons_getD]
      · rfl
    | cwExit =>
      cases hs : g.filtStack with
      | nil => simp [guarded, hs] at h
      | cons s r =>
        apply key _ rfl
        · simpa [stepEv, hs, guarded] using h
        · simp [stepEv, hs, baseErr]
        · simp [stepEv, hs, baseFilt, getLast?_cons_getD]
        · simp [stepEv, hs]
    | filt n =>
      simp only [guarded, Bool.and_eq_true, decide_eq_true_eq] at h
      apply key _ rfl
      · simpa [stepEv] using h.2
      · rfl
      · cases hs : g.filtStack with
        | nil => simp [hs] at h
        | cons s r => simp only [stepEv, baseFilt, hs, getLast?_cons_getD]
      · rfl
    | setPrint n => simp [guarded] at h
    | eval => exact key _ rfl (by simpa [stepEv, guarded] using h) rfl rfl rfl
    | raised => exact key _ rfl (by simpa [stepEv, guarded] using h) rfl rfl rfl

/-- **restores_G.** Any entry point whose event trace is guarded — however many user-transform
    evaluations it contains, wherever an exception cuts it short — returns or raises with numpy's
    error handling, the warnings filters and the print options exactly as they were. -/
theorem restores_G (tr : List Ev) (err : ErrModes) (filters : List Nat) (print : Nat)
    (h : guarded tr 0 0 = true) :
    (run tr (fresh err filters print)).err = err ∧ (run tr (fresh err filters print)).filters = filters ∧
      (run tr (fresh err filters print)).print = print := by
  obtain ⟨h1, h2, h3, h4, h5⟩ := guarded_run tr (fresh err filters print) (by simpa [fresh] using h)
  refine ⟨?_, ?_, h5⟩
  · unfold baseErr at h3
    rw [h1] at h3
    simpa [fresh] using h3
  · unfold baseFilt at h4
    rw [h2] at h4
    simpa [fresh] using h4

/-- the shape of the iterative solver after the D4 fix: errstate bracket around
    `seterr(ignore) … evaluations … [seterr(restore)]`, the explicit restore being skipped when an
    evaluation raises -/
def solverTrace (nEvals : Nat) (crash : Bool) : List Ev :=
  [.esEnter, .setErr .ignore .ignore] ++ List.replicate nEvals .eval ++
    (if crash then [.raised] else [.setErr .warn .warn]) ++ [.esExit]

theorem guarded_replicate_eval (n : Nat) (t : List Ev) (d c : Nat) :
    guarded (List.replicate n .eval ++ t) d c = guarded t d c := by
  induction n with
  | zero => rfl
  | succ n ih => simp [List.replicate_succ, guarded, ih]

/-- **every crash position.** The solver's trace is guarded for every number of evaluations and
    whether or not one of them raises. -/
theorem solverTrace_guarded (n : Nat) (crash : Bool) : guarded (solverTrace n crash) 0 0 = true := by
  unfold solverTrace
  simp only [List.cons_append, List.nil_append, List.append_assoc, guarded, decide_true, Bool.true_and,
    Nat.lt_add_one, guarded_replicate_eval]
  cases crash <;> simp [guarded]

/-- Witness (not the property): the code before the D4 fix, without the bracket, leaks when an
    evaluation raises. -/
theorem unbracketed_leaks :
    let tr : List Ev := [.setErr .ignore .ignore, .eval, .raised]
    let g0 := fresh ⟨.warn, .warn, .ignore, .warn⟩ [] 0
    guarded tr 0 0 = false ∧ (run tr g0).err ≠ g0.err := by decide

example : guarded [.cwEnter, .filt 1, .eval, .raised, .cwExit] 0 0 = true := by decide

/-- a guarded stretch, wherever it starts, comes back to the nesting depths (0, 0) it must end on: what follows it is judged from there -/
theorem guarded_append_aux (t2 : List Ev) : ∀ (t1 : List Ev) (d c : Nat),
    guarded t1 d c = true → guarded (t1 ++ t2) d c = guarded t2 0 0
  | [], d, c, h => by
    simp only [guarded, Bool.and_eq_true, beq_iff_eq] at h
    obtain ⟨rfl, rfl⟩ := h
    rfl
  | .esEnter :: t, d, c, h => by
    simp only [List.cons_append, guarded] at h ⊢
    exact guarded_append_aux t2 t (d + 1) c h
  | .esExit :: t, d + 1, c, h => by
    simp only [List.cons_append, guarded] at h ⊢
    exact guarded_append_aux t2 t d c h
  | .esExit :: t, 0, c, h => by simp [guarded] at h
  | .setErr i o :: t, d, c, h => by
    simp only [List.cons_append, guarded, Bool.and_eq_true, decide_eq_true_eq] at h ⊢
    rw [guarded_append_aux t2 t d c h.2]
    simp [h.1]
  | .cwEnter :: t, d, c, h => by
    simp only [List.cons_append, guarded] at h ⊢
    exact guarded_append_aux t2 t d (c + 1) h
  | .cwExit :: t, d, c + 1, h => by
    simp only [List.cons_append, guarded] at h ⊢
    exact guarded_append_aux t2 t d c h
  | .cwExit :: t, d, 0, h => by simp [guarded] at h
  | .filt n :: t, d, c, h => by
    simp only [List.cons_append, guarded, Bool.and_eq_true, decide_eq_true_eq] at h ⊢
    rw [guarded_append_aux t2 t d c h.2]
    simp [h.1]
  | .setPrint n :: t, d, c, h => by simp [guarded] at h
  | .eval :: t, d, c, h => by
    simp only [List.cons_append, guarded] at h ⊢
    exact guarded_append_aux t2 t d c h
  | .raised :: t, d, c, h => by
    simp only [List.cons_append, guarded] at h ⊢
    exact guarded_append_aux t2 t d c h

/-- **calls in sequence.** One guarded call after another (the SIP fit, then the -TAB export, inside `to_fits`; a forward evaluation
    after an inversion) is guarded: settings are restored after the whole session. -/
theorem guarded_append (t1 t2 : List Ev) (h1 : guarded t1 0 0 = true) (h2 : guarded t2 0 0 = true) :
    guarded (t1 ++ t2) 0 0 = true := by
  rw [guarded_append_aux t2 t1 0 0 h1, h2]

theorem sequence_restores (t1 t2 : List Ev) (err : ErrModes) (filters : List Nat) (print : Nat)
    (h1 : guarded t1 0 0 = true) (h2 : guarded t2 0 0 = true) :
    (run (t1 ++ t2) (fresh err filters print)).err = err ∧ (run (t1 ++ t2) (fresh err filters print)).filters = filters ∧
      (run (t1 ++ t2) (fresh err filters print)).print = print :=
  restores_G (t1 ++ t2) err filters print (guarded_append t1 t2 h1 h2)

/-- witnesses (not the property): a filter installed outside any `catch_warnings`, and a `set_printoptions` on an error path, stay -/
theorem unbracketed_filter_and_print_leak :
    let g0 := fresh ⟨.warn, .warn, .ignore, .warn⟩ [7] 0
    guarded [.filt 1, .eval] 0 0 = false ∧ (run [.filt 1, .eval] g0).filters ≠ g0.filters ∧
    guarded [.setPrint 3, .raised] 0 0 = false ∧ (run [.setPrint 3, .raised] g0).print ≠ g0.print := by decide

end Gwcs.Eff
