/-
  C04 — Inverse results and in_image respect the bounding box on every inversion path.
-/
import GwcsModel.Invert

namespace Gwcs.Inv

variable {α : Type} [LE α] [DecidableLE α]

/-- **invert_masks (iterative path, and any path that masks).** With masking on, a valid solution
    outside the closed box becomes the fill value on every axis; a solution inside is returned as is. -/
theorem invert_masks_of_masking (am : Bool) (path : Path) (h : path = .iterative ∨ am = true)
    (b : List (α × α)) (fill : α) (pix : List α) :
    (inBox b pix = false → invert am path (some b) true fill true pix = pix.map (fun _ => fill)) ∧
      (inBox b pix = true → invert am path (some b) true fill true pix = pix) := by
  have hm : invert am path (some b) true fill true pix = maskPix (some b) true fill true pix := by
    rcases h with rfl | rfl
    · rfl
    · cases path <;> simp [invert]
  rw [hm]
  constructor <;> intro hb <;> simp [maskPix, hb]

/-- The full statement of the property's first clause: *both* paths mask. -/
def invert_masks_both_paths_full (am : Bool) : Prop :=
  ∀ (path : Path) (b : List (Int × Int)) (fill : Int) (pix : List Int),
    inBox b pix = false → invert am path (some b) true fill true pix = pix.map (fun _ => fill)

/-- it holds for the variant in which the analytic path masks … -/
theorem invert_masks_both_paths_of_fixed : invert_masks_both_paths_full true := by
  intro path b fill pix hb
  exact (invert_masks_of_masking true path (Or.inr rfl) b fill pix).1 hb

/-- … and fails for the code as it is (known finding D12): the analytic path returns the position
    outside the box unmasked.  Witness: box x ∈ [1, 5], analytic solution 0. -/
theorem invert_masks_both_paths_fails_unfixed : ¬ invert_masks_both_paths_full false := by
  intro h
  have := h .analytic [(1, 5)] (-1) [0] (by decide)
  revert this; decide

/-- **invert_masks_both_paths_partial**: what is proved for the unchanged tree — the iterative path. -/
theorem invert_masks_both_paths_partial (b : List (α × α)) (fill : α) (pix : List α) (hb : inBox b pix = false) :
    invert false .iterative (some b) true fill true pix = pix.map (fun _ => fill) :=
  (invert_masks_of_masking false .iterative (Or.inl rfl) b fill pix).1 hb

/-- **mask_all_or_nothing.** A masked row is either the solution as it was or the fill value on *every* axis: never a
    half-masked point such as `(nan, 10.0)`. -/
theorem mask_all_or_nothing (box : Option (List (α × α))) (wbb : Bool) (fill : α) (valid : Bool) (pix : List α) :
    maskPix box wbb fill valid pix = pix ∨ maskPix box wbb fill valid pix = pix.map (fun _ => fill) := by
  unfold maskPix
  cases wbb <;> cases box <;> simp only [Or.inl, true_or]
  rename_i b
  by_cases h : (valid && !(inBox b pix)) = true
  · right; simp only [h, if_true]
  · left; simp only [h]; rfl

/-- **mask_rowwise.** Masking a batch is masking each of its points alone: the answer for a point does not depend on which other
    points (unsolved ones, rescued ones, out-of-box ones) share the batch, nor on where in the batch it stands. -/
theorem mask_rowwise (box : Option (List (α × α))) (wbb : Bool) (fill : α) (rows : List (Bool × List α)) (k : Nat) (hk : k < rows.length) :
    (maskRows box wbb fill rows)[k]? = some (maskPix box wbb fill rows[k].1 rows[k].2) := by
  simp [maskRows, hk]

theorem mask_append (box : Option (List (α × α))) (wbb : Bool) (fill : α) (a b : List (Bool × List α)) :
    maskRows box wbb fill (a ++ b) = maskRows box wbb fill a ++ maskRows box wbb fill b := by
  simp [maskRows]

theorem mask_perm (box : Option (List (α × α))) (wbb : Bool) (fill : α) (a b : List (Bool × List α)) (h : a.Perm b) :
    (maskRows box wbb fill a).Perm (maskRows box wbb fill b) :=
  h.map _

/-- a point the root finder rescued (valid again) is masked like any other: outside the box it is the fill value -/
theorem rescued_point_masked (b : List (α × α)) (fill : α) (pix : List α) (hb : inBox b pix = false) :
    maskPix (some b) true fill true pix = pix.map (fun _ => fill) := by
  simp [maskPix, hb]

/-- **invert_nomask.** With masking off the box is ignored on both paths. -/
theorem invert_nomask (am : Bool) (path : Path) (box : Option (List (α × α))) (fill : α) (valid : Bool) (pix : List α) :
    invert am path box false fill valid pix = pix := by
  cases path <;> cases am <;> simp [invert, maskPix]

/-- no box: nothing is masked -/
theorem invert_nobox (am : Bool) (path : Path) (wbb : Bool) (fill : α) (valid : Bool) (pix : List α) :
    invert am path none wbb fill valid pix = pix := by
  cases path <;> cases am <;> cases wbb <;> simp [invert, maskPix]

theorem inBox_map_nan_irrelevant (b : List (α × α)) (pix : List α) (h : inBox b pix = true) :
    inBox b pix = true := h

/-- **inImage_iff.** Whatever the path — including the unmasked analytic one — `in_image` is true
    exactly for world points whose pixel solution is finite and inside the closed box (merely finite
    without a box).  (`finite nan = false`; the solution has at least one coordinate.) -/
theorem inImage_iff (am : Bool) (path : Path) (finite : α → Bool) (nan : α) (hnan : finite nan = false)
    (box : Option (List (α × α))) (pix : List α) (hne : pix ≠ []) :
    inImage am path finite nan box true pix =
      (pix.all finite && (match box with | none => true | some b => inBox b pix)) := by
  cases box with
  | none => simp [inImage, invert_nobox]
  | some b =>
    unfold inImage
    simp only
    by_cases hm : invert am path (some b) true nan true pix = pix
    · rw [hm]
    · -- the solution was masked: it is outside the box, and the masked coordinates are NaN
      have hmask : invert am path (some b) true nan true pix = maskPix (some b) true nan true pix := by
        cases path with
        | iterative => rfl
        | analytic => cases am <;> simp [invert] at hm ⊢
      rw [hmask] at hm ⊢
      have hout : inBox b pix = false := by
        cases hb : inBox b pix with
        | false => rfl
        | true => simp [maskPix, hb] at hm
      have hall : (pix.map (fun _ => nan)).all finite = false := by
        cases pix with
        | nil => exact absurd rfl hne
        | cons c cs => simp [hnan]
      simp [maskPix, hout, hall]

/-- **inImage_scalar_eq_array.** The array answer is the elementwise scalar answer, of the input's length. -/
theorem inImage_scalar_eq_array (am : Bool) (path : Path) (finite : α → Bool) (nan : α) (box : Option (List (α × α)))
    (rows : List (Bool × List α)) (i : Nat) (h : i < rows.length) :
    (inImageBatch am path finite nan box rows)[i]'(by simpa [inImageBatch] using h) =
      inImage am path finite nan box rows[i].1 rows[i].2 := by
  simp [inImageBatch]

end Gwcs.Inv
