/-
  C18 — Footprint and pixel grids are the box's corners and pixels, in documented order.
-/
import GwcsModel.Grid
import GwcsProofs.C13
import Mathlib.Tactic.Linarith
import Mathlib.Tactic.FieldSimp
import Mathlib.Tactic.Ring
import Mathlib.Algebra.Order.Field.Rat

namespace Gwcs.Grid

/-! ### grid_from_bounding_box -/

theorem axisNodes_getElem? (lo hi s : Rat) (k : Nat) (h : k < gridCount lo hi s) :
    (axisNodes lo hi s)[k]? = some (lo + ((k : Int) : Rat) * s) := by
  unfold axisNodes
  rw [List.getElem?_map, List.getElem?_range h]
  rfl

theorem axisNodes_length (lo hi s : Rat) : (axisNodes lo hi s).length = gridCount lo hi s := by
  simp [axisNodes]

/-- the real number of steps that fit: `(hi + s − lo)/s ≤ n < (hi + s − lo)/s + 1` -/
theorem gridCount_bounds (lo hi s : Rat) (hs : 0 < s) (hle : lo ≤ hi) :
    1 ≤ gridCount lo hi s ∧
      hi - lo ≤ (((gridCount lo hi s : Nat) : Int) : Rat) * s - s ∧
      (((gridCount lo hi s : Nat) : Int) : Rat) * s - 2 * s < hi - lo := by
  unfold gridCount
  set q : Rat := (hi + s - lo) / s with hq
  have hq1 : 1 ≤ q := by
    rw [hq, le_div_iff₀ hs]; linarith
  have hc1 : q ≤ (q.ceil : Rat) := Rat.le_ceil
  have hc2 : (q.ceil : Rat) < q + 1 := Rat.ceil_lt
  have hpos : (1 : Int) ≤ q.ceil := by
    have : (1 : Rat) ≤ (q.ceil : Rat) := le_trans hq1 hc1
    exact_mod_cast this
  have hnat : ((q.ceil.toNat : Nat) : Int) = q.ceil := Int.toNat_of_nonneg (by omega)
  have hqs : q * s = hi + s - lo := by rw [hq]; field_simp
  refine ⟨by omega, ?_, ?_⟩
  · rw [hnat]
    have : q * s ≤ (q.ceil : Rat) * s := mul_le_mul_of_nonneg_right hc1 (le_of_lt hs)
    linarith
  · rw [hnat]
    have : (q.ceil : Rat) * s < (q + 1) * s := mul_lt_mul_of_pos_right hc2 hs
    linarith

/-- **starts_at_lower.** The lattice starts at the lower limit. -/
theorem starts_at_lower (lo hi s : Rat) (hs : 0 < s) (hle : lo ≤ hi) :
    (axisNodes lo hi s)[0]? = some lo := by
  have h := (gridCount_bounds lo hi s hs hle).1
  rw [axisNodes_getElem? lo hi s 0 (by omega)]
  simp

/-- **advances by the requested step.** -/
theorem advances_by_step (lo hi s : Rat) (k : Nat) (h : k + 1 < gridCount lo hi s) :
    ∃ a b, (axisNodes lo hi s)[k]? = some a ∧ (axisNodes lo hi s)[k + 1]? = some b ∧ b = a + s := by
  refine ⟨_, _, axisNodes_getElem? lo hi s k (by omega), axisNodes_getElem? lo hi s (k + 1) h, ?_⟩
  push_cast; ring

/-- **stops_at_first_reaching_upper.** The last node has reached the upper limit and the one before
    it (if any) has not. -/
theorem stops_at_first_reaching_upper (lo hi s : Rat) (hs : 0 < s) (hle : lo ≤ hi) :
    let n := gridCount lo hi s
    (∃ last, (axisNodes lo hi s)[n - 1]? = some last ∧ hi ≤ last) ∧
      (2 ≤ n → ∃ prev, (axisNodes lo hi s)[n - 2]? = some prev ∧ prev < hi) := by
  intro n
  obtain ⟨h1, h2, h3⟩ := gridCount_bounds lo hi s hs hle
  constructor
  · refine ⟨_, axisNodes_getElem? lo hi s (n - 1) (by omega), ?_⟩
    have : (((n - 1 : Nat) : Int) : Rat) = (((n : Nat) : Int) : Rat) - 1 := by
      have : ((n - 1 : Nat) : Int) = (n : Int) - 1 := by omega
      rw [this]; push_cast; ring
    rw [this]
    have : ((((n : Nat) : Int) : Rat) - 1) * s = (((n : Nat) : Int) : Rat) * s - s := by ring
    linarith
  · intro h2n
    refine ⟨_, axisNodes_getElem? lo hi s (n - 2) (by omega), ?_⟩
    have : (((n - 2 : Nat) : Int) : Rat) = (((n : Nat) : Int) : Rat) - 2 := by
      have : ((n - 2 : Nat) : Int) = (n : Int) - 2 := by omega
      rw [this]; push_cast; ring
    rw [this]
    have : ((((n : Nat) : Int) : Rat) - 2) * s = (((n : Nat) : Int) : Rat) * s - 2 * s := by ring
    linarith

/-- **unit_centred_is_overlapping_pixels.** With centring and unit step the nodes along an axis are
    exactly the integers `m` whose open pixel `(m − ½, m + ½)` meets the closed box `[lo, hi]`, i.e.
    `lo − ½ < m < hi + ½`: a limit at `k + ½` goes to the pixel inside the box. -/
theorem unit_centred_is_overlapping_pixels (lo hi : Rat) (m : Int) :
    ((m : Rat) ∈ axisNodes (bboxToPixel (lo, hi)).1 (bboxToPixel (lo, hi)).2 1) ↔
      (lo - 1 / 2 < (m : Rat) ∧ (m : Rat) < hi + 1 / 2) := by
  unfold bboxToPixel axisNodes gridCount
  simp only
  set a : Int := (lo + 1 / 2).floor with ha
  set b : Int := (hi - 1 / 2).ceil with hb
  have hcount : ((((b : Rat) + 1 - (a : Rat)) / 1).ceil).toNat = (b + 1 - a).toNat := by
    have : ((b : Rat) + 1 - (a : Rat)) / 1 = ((b + 1 - a : Int) : Rat) := by push_cast; ring
    rw [this, Rat.ceil_intCast]
  rw [hcount]
  have hfl : a ≤ m ↔ lo - 1 / 2 < (m : Rat) := by
    have h1 : a ≤ m ↔ a < m + 1 := by omega
    rw [h1, ha, Rat.floor_lt_iff]
    push_cast
    constructor <;> intro h <;> linarith
  have hce : m ≤ b ↔ (m : Rat) < hi + 1 / 2 := by
    have h1 : m ≤ b ↔ m - 1 < b := by omega
    rw [h1, hb, Rat.lt_ceil_iff]
    push_cast
    constructor <;> intro h <;> linarith
  rw [← hfl, ← hce]
  simp only [List.mem_map, List.mem_range]
  constructor
  · rintro ⟨k, hk, hm⟩
    have : (m : Rat) = ((a + (k : Int) : Int) : Rat) := by rw [← hm]; push_cast; ring
    have hmk : m = a + (k : Int) := by exact_mod_cast this
    omega
  · rintro ⟨h1, h2⟩
    refine ⟨(m - a).toNat, by omega, ?_⟩
    have : (((m - a).toNat : Nat) : Int) = m - a := Int.toNat_of_nonneg (by omega)
    rw [this]; push_cast; ring

theorem broadcastStep_length (nd : Nat) (step st : List Rat) (h : broadcastStep nd step = .ok st) : st.length = nd := by
  unfold broadcastStep at h
  simp only at h
  by_cases hl : (if nd > 1 ∧ step.length = 1 then List.replicate nd (step.headD 1) else step).length = nd
  · rw [if_pos hl] at h
    injection h with h
    rw [← h]; exact hl
  · rw [if_neg hl] at h; cases h

/-- **order_xy / per_axis_step.** Axis `i` of the result is the lattice of the `i`-th interval with
    the `i`-th step: the grid is in (x, y, …) order with per-axis steps. -/
theorem order_xy (bb : List (Rat × Rat)) (step : List Rat) (center : Bool) (axes : List (List Rat))
    (h : gridAxes bb step center = .ok axes) (i : Nat) (hi : i < bb.length) :
    ∃ st : List Rat, broadcastStep bb.length step = .ok st ∧
      ∃ (h1 : i < (limits bb center).length) (h2 : i < st.length),
        axes[i]? = some (axisNodes ((limits bb center)[i]).1 ((limits bb center)[i]).2 st[i]) := by
  unfold gridAxes at h
  cases hb : broadcastStep bb.length step with
  | error e => simp [hb, bind, Except.bind] at h
  | ok st =>
    simp only [hb, bind, Except.bind, pure, Except.pure] at h
    split at h
    · cases h
    injection h with h
    have hlen : st.length = bb.length := broadcastStep_length _ _ _ hb
    have hl : (limits bb center).length = bb.length := by
      unfold limits; split <;> simp
    have h1 : i < (limits bb center).length := by omega
    have h2 : i < st.length := by omega
    refine ⟨st, rfl, h1, h2, ?_⟩
    rw [← h, List.getElem?_map]
    have : ((limits bb center).zip st)[i]? = some ((limits bb center)[i], st[i]) :=
      List.getElem?_zip_eq_some.mpr ⟨List.getElem?_eq_getElem h1, List.getElem?_eq_getElem h2⟩
    rw [this]; rfl

/-- a scalar step applies to every axis -/
theorem scalar_step_broadcast (nd : Nat) (s : Rat) (h : 1 < nd) :
    broadcastStep nd [s] = .ok (List.replicate nd s) := by
  simp [broadcastStep, h]

/-- a step tuple of the wrong length is refused -/
theorem bad_step_refused (nd : Nat) (step : List Rat) (h1 : step.length ≠ nd) (h2 : step.length ≠ 1) :
    broadcastStep nd step = .error .valueErr := by
  simp [broadcastStep, h1, h2]

/-! ### footprint -/

/-- **no_box_refused.** Without any bounding box the footprint is refused. -/
theorem no_box_refused (f : List Rat → Except Err (List Rat)) (center : Bool) (types : List String) (at' : String) :
    footprint f none none center types at' = .error .typeErr := rfl

/-- the box passed in wins over the WCS's own; the own box is used when none is passed -/
theorem chooseBox_passed (b : List (Rat × Rat)) (own : Option (List (Rat × Rat))) : chooseBox (some b) own = .ok b := rfl
theorem chooseBox_own (b : List (Rat × Rat)) : chooseBox none (some b) = .ok b := rfl

/-- **clockwise_from_lower_left.** For an all-spatial output the corners are listed
    lower-left, upper-left, upper-right, lower-right. -/
theorem clockwise_from_lower_left (x y : Rat × Rat) (rest : List (Rat × Rat)) :
    orderClockwise (x :: y :: rest) = .ok [[x.1, y.1], [x.1, y.2], [x.2, y.2], [x.2, y.1]] := rfl

/-- an all-spatial output of one pixel axis, or of three, has no "clockwise": its corners are the product of the limits -/
theorem all_spatial_not_planar (box : List (Rat × Rat)) (types : List String) (h : box.length ≠ 2) :
    corners box types false = .ok (product box) := by
  unfold corners
  have : (box.length == 2) = false := by simpa using h
  simp [this, Except.map]

/-- **centre_moves_to_pixel_centres.** With centring every corner coordinate is replaced by its
    nearest pixel centre before the transform is applied. -/
theorem centre_moves_to_pixel_centres (box : List (Rat × Rat)) (types : List String) (raw : List (List Rat))
    (h : corners box types false = .ok raw) :
    corners box types true = .ok (raw.map (fun v => v.map (fun c => ((Api.toIndex c : Int) : Rat)))) := by
  unfold corners at h ⊢
  generalize (if (allSpatial types && box.length == 2) = true then orderClockwise box else Except.ok (product box)) = r at h ⊢
  cases r with
  | error e => simp [Except.map] at h
  | ok v =>
    simp only [Except.map, Bool.false_eq_true, if_false] at h
    injection h with h; subst h
    simp [Except.map]

/-- **footprint_is_image_of_corners.** For `axis_type = "all"` the footprint is the unmasked forward
    image of the corners of the chosen box, in the listed order. -/
theorem footprint_is_image_of_corners (f : List Rat → Except Err (List Rat)) (bb own : Option (List (Rat × Rat)))
    (box : List (Rat × Rat)) (hbox : chooseBox bb own = .ok box) (center : Bool) (types : List String)
    (verts : List (List Rat)) (hv : corners box types center = .ok verts) :
    footprint f bb own center types "all" = (verts.mapM f).map FootOut.points := by
  unfold footprint
  simp only [hbox, hv, bind, Except.bind]
  cases verts.mapM f with
  | error e => rfl
  | ok r =>
    simp only [Except.map]
    unfold reduceAxisType
    have h1 : (("all" : String) == "spatial") = false := by decide
    have h2 : (("all" : String) != "all") = false := by decide
    simp [h1, h2]

/-- **product_order (size).** The general footprint lists the full product of the per-axis limits:
    `2ⁿ` corners. -/
theorem product_length : ∀ (bb : List (Rat × Rat)), (product bb).length = 2 ^ bb.length
  | [] => rfl
  | iv :: rest => by simp [product, product_length rest, Nat.pow_succ]; omega

/-- … every corner takes, on each axis, either the lower or the upper limit of that axis … -/
theorem product_mem : ∀ (bb : List (Rat × Rat)) (p : List Rat), p ∈ product bb →
    p.length = bb.length ∧ ∀ i (h1 : i < p.length) (h2 : i < bb.length), p[i] = bb[i].1 ∨ p[i] = bb[i].2
  | [], p, h => by simp [product] at h; subst h; simp
  | iv :: rest, p, h => by
    simp only [product, List.mem_append, List.mem_map] at h
    rcases h with ⟨q, hq, rfl⟩ | ⟨q, hq, rfl⟩
    all_goals
      obtain ⟨hl, hall⟩ := product_mem rest q hq
      refine ⟨by simp [hl], ?_⟩
      intro i h1 h2
      cases i with
      | zero => simp
      | succ i => simpa using hall i (by simpa using h1) (by simpa using h2)

/-- … in `itertools.product` order: the first axis is the slowest, first its lower half. -/
theorem product_order_first (iv : Rat × Rat) (rest : List (Rat × Rat)) (k : Nat) (hk : k < 2 ^ rest.length) :
    ((product (iv :: rest))[k]?).bind (·[0]?) = some iv.1 ∧
      ((product (iv :: rest))[k + 2 ^ rest.length]?).bind (·[0]?) = some iv.2 := by
  have hl := product_length rest
  constructor
  · simp only [product]
    rw [List.getElem?_append_left (by simp [hl]; exact hk)]
    simp [List.getElem?_map, List.getElem?_eq_getElem (show k < (product rest).length by omega)]
  · simp only [product]
    rw [List.getElem?_append_right (by simp [hl])]
    simp [hl, List.getElem?_map, List.getElem?_eq_getElem (show k < (product rest).length by omega)]

end Gwcs.Grid

namespace Gwcs.Grid

/-- **axis_type_spelling_irrelevant.** Two spellings of the requested type that differ only in case (and frames that report their
types in any case) give the same footprint. -/
theorem axis_type_spelling_irrelevant (f : List Rat → Except Err (List Rat)) (bb own : Option (List (Rat × Rat))) (center : Bool)
    (t1 t2 : List String) (a1 a2 : String) (ht : t1.map String.toLower = t2.map String.toLower) (ha : a1.toLower = a2.toLower) :
    footprintRaw f bb own center t1 a1 = footprintRaw f bb own center t2 a2 := by
  have hn : ∀ s : String, normType s = (if s.toLower == "time" then "temporal" else s.toLower) := fun _ => rfl
  have h1 : t1.map normType = t2.map normType := by
    have : ∀ l : List String, l.map normType = (l.map String.toLower).map (fun l => if l == "time" then "temporal" else l) := by
      intro l; simp [List.map_map, Function.comp_def, hn]
    rw [this t1, this t2, ht]
  have h2 : normType a1 = normType a2 := by rw [hn, hn, ha]
  unfold footprintRaw
  rw [h1, h2]

/-- **temporal_alias.** 'TIME' (what a `TemporalFrame` reports), 'time' and 'Temporal' all name the documented type 'temporal'. -/
theorem temporal_alias : normType "TIME" = "temporal" ∧ normType "time" = "temporal" ∧ normType "Temporal" = "temporal" ∧
    normType "SPATIAL" = "spatial" := by decide +kernel

end Gwcs.Grid
