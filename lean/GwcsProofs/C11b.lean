import GwcsModel.Remap

/-! C11 (celestial pairs are carried by the linear part with their original axis numbers): the header's matrix cards, read with the
reader's default rule, give exactly the fitted block in the celestial rows and nothing else in them. -/
namespace Gwcs.Remap

variable (k : Kind) (a : Ax) (b : Nat → Nat → Rat)

/-- **block_placed.** The four fitted elements are read back at (nlon|nlat, iax1|iax2). -/
theorem block_placed (hw : a.nlon ≠ a.nlat) (hp : a.iax1 ≠ a.iax2) :
    readM k (cards k a b) a.nlon a.iax1 = b 0 0 ∧ readM k (cards k a b) a.nlon a.iax2 = b 0 1 ∧
    readM k (cards k a b) a.nlat a.iax1 = b 1 0 ∧ readM k (cards k a b) a.nlat a.iax2 = b 1 1 := by
  obtain ⟨nlon, nlat, iax1, iax2⟩ := a
  simp only at hw hp
  refine ⟨?_, ?_, ?_, ?_⟩ <;>
  · simp only [readM, cards, List.cons_append, List.nil_append, List.find?_cons, beq_self_eq_true, Bool.and_self, Bool.and_true,
      Bool.true_and]
    try grind

/-- **celestial_rows_clean.** In the rows of the two celestial world axes every column other than the pair's own two pixel axes reads
zero - in the PC formalism too, where the default of a diagonal element is one. -/
theorem celestial_rows_clean (hw : a.nlon ≠ a.nlat) (j : Nat) (h1 : j ≠ a.iax1) (h2 : j ≠ a.iax2) :
    readM k (cards k a b) a.nlon j = 0 ∧ readM k (cards k a b) a.nlat j = 0 := by
  obtain ⟨nlon, nlat, iax1, iax2⟩ := a
  simp only at hw h1 h2
  cases k <;> constructor <;>
  · simp only [readM, cards, List.cons_append, List.nil_append]
    by_cases e1 : nlon = iax1 <;> by_cases e2 : nlon = iax2 <;> by_cases e3 : nlat = iax1 <;> by_cases e4 : nlat = iax2 <;>
      by_cases e5 : j = nlon <;> by_cases e6 : j = nlat <;>
      simp_all [List.find?_cons] <;> grind

/-- **other_rows_untouched.** Rows of the other world axes carry no card: they read the formalism's default. -/
theorem other_rows_untouched (i j : Nat) (h1 : i ≠ a.nlon) (h2 : i ≠ a.nlat) :
    readM k (cards k a b) i j = (match k with | .PC => if i = j then 1 else 0 | .CD => 0) := by
  obtain ⟨nlon, nlat, iax1, iax2⟩ := a
  simp only at h1 h2
  have : (cards k ⟨nlon, nlat, iax1, iax2⟩ b).find? (fun c => c.1 == i && c.2.1 == j) = none := by
    rw [List.find?_eq_none]
    intro c hc
    simp only [cards, List.cons_append, List.nil_append, List.mem_cons, List.mem_append] at hc
    have hrow : c.1 = nlon ∨ c.1 = nlat := by
      rcases hc with h | h | h | h | h
      · left; rw [h]
      · left; rw [h]
      · right; rw [h]
      · right; rw [h]
      · rcases h with h | h
        · split at h
          · simp only [List.mem_singleton] at h; left; rw [h]
          · simp at h
        · split at h
          · simp only [List.mem_singleton] at h; right; rw [h]
          · simp at h
    rcases hrow with h | h <;> simp [h, Ne.symm h1, Ne.symm h2]
  simp only [readM, this]
  cases k <;> rfl

/-- **missing_lat_zero_leaks.** Without the explicit `PC<nlat>_<nlat> = 0` a reader couples the latitude to the unrelated pixel axis
of the same number with coefficient one (the shape of seeded change C11-8). -/
theorem missing_lat_zero_leaks (hw : a.nlon ≠ a.nlat) (h1 : a.nlat ≠ a.iax1) (h2 : a.nlat ≠ a.iax2) :
    readM .PC (cardsNoLatZero .PC a b) a.nlat a.nlat = 1 := by
  obtain ⟨nlon, nlat, iax1, iax2⟩ := a
  simp only at hw h1 h2
  simp only [readM, cardsNoLatZero, List.cons_append, List.nil_append]
  by_cases e1 : nlon = iax1 <;> by_cases e2 : nlon = iax2 <;> simp_all [List.find?_cons] <;> grind

-- non-vacuity: pixel axes (1,2) feed the celestial world axes (3,4); the latitude row reads (b10, b11, 0, 0)
example : (List.range 4).map (fun j => readM .PC (cards .PC ⟨3, 4, 1, 2⟩ (fun r c => (r * 2 + c + 5 : Nat))) 4 (j + 1)) = [7, 8, 0, 0] := by
  decide +kernel

end Gwcs.Remap
