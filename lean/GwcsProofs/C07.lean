/-
  C07 — Any sequence of pipeline edits leaves the WCS equal to the edited reference.
  Each edit operation of the model (which mirrors gwcs/wcs.py branch by branch, Python indexing
  included) is related to "the obvious list edit"; rejected edits are characterised exactly; the
  box is a field of the transform *object* of step 0, so it is kept for as long as that object is.
-/
import GwcsProofs.Lemmas.PipeLemmas

namespace Gwcs.Pipe

variable {T : Type}

theorem names_modify (f : Option T → Option T) : ∀ (p : Pipeline T) (k : Nat),
    names (p.modify k (fun s => { s with tr := f s.tr })) = names p
  | [], k => by simp [names]
  | s :: p, 0 => by simp [names]
  | s :: p, k + 1 => by
    have := names_modify f p k
    simp only [names, List.modify_succ_cons, List.map_cons] at this ⊢
    rw [this]

theorem trs_modify (f : Option T → Option T) : ∀ (p : Pipeline T) (k : Nat),
    (p.modify k (fun s => { s with tr := f s.tr })).map (·.tr) = (p.map (·.tr)).modify k f
  | [], k => by simp
  | s :: p, 0 => by simp
  | s :: p, k + 1 => by
    have := trs_modify f p k
    simp only [List.modify_succ_cons, List.map_cons] at this ⊢
    rw [this]

/-- **setTransform_spec.** A successful `set_transform(a, b, tr)` replaces exactly the transform
    of the step starting at `a`, where `b` is the next frame; frames are untouched. -/
theorem setTransform_spec (p p' : Pipeline T) (a b : String) (tr : Option T)
    (h : setTransform p a b tr = .ok p') :
    ∃ i t, frameIndex p a = .ok i ∧ frameIndex p b = .ok (i + 1) ∧ tr = some t ∧
      names p' = names p ∧ p'.map (·.tr) = (p.map (·.tr)).modify i (fun _ => some t) := by
  unfold setTransform at h
  cases hi : frameIndex p a with
  | error e => simp [hi, bind, Except.bind] at h
  | ok i =>
    cases hj : frameIndex p b with
    | error e => simp [hi, hj, bind, Except.bind] at h
    | ok j =>
      simp only [hi, hj, bind, Except.bind] at h
      by_cases hij : i + 1 = j
      · subst hij
        cases tr with
        | none => simp [throw, throwThe, MonadExceptOf.throw, pure, Except.pure] at h
        | some t =>
          simp [throw, throwThe, MonadExceptOf.throw, pure, Except.pure] at h
          subst h
          exact ⟨i, t, rfl, rfl, rfl, names_modify (fun _ => some t) p i, trs_modify (fun _ => some t) p i⟩
      · simp [hij, throw, throwThe, MonadExceptOf.throw, pure, Except.pure] at h

/-- **setTransform_error_iff.** `set_transform` is accepted exactly when both frames are known, `b`
    immediately follows `a`, and the transform is a Model. -/
theorem setTransform_ok_iff (p : Pipeline T) (a b : String) (tr : Option T) :
    (∃ p', setTransform p a b tr = .ok p') ↔
      ∃ i, frameIndex p a = .ok i ∧ frameIndex p b = .ok (i + 1) ∧ tr.isSome := by
  constructor
  · rintro ⟨p', h⟩
    obtain ⟨i, t, h1, h2, h3, _⟩ := setTransform_spec p p' a b tr h
    exact ⟨i, h1, h2, by simp [h3]⟩
  · rintro ⟨i, h1, h2, h3⟩
    obtain ⟨t, rfl⟩ := Option.isSome_iff_exists.mp h3
    refine ⟨p.modify i (fun s => { s with tr := some t }), ?_⟩
    unfold setTransform
    simp [h1, h2, bind, Except.bind, pure, Except.pure]

theorem setTransform_error_iff (p : Pipeline T) (a b : String) (tr : Option T) :
    (∃ e, setTransform p a b tr = .error e) ↔
      ¬ ∃ i, frameIndex p a = .ok i ∧ frameIndex p b = .ok (i + 1) ∧ tr.isSome := by
  rw [← setTransform_ok_iff]
  cases h : setTransform p a b tr with
  | ok p' => simp
  | error e => simp

/-- **insertTransform_before_spec.** `insert_transform(frame, tr)` (before) on a frame at index
    `k+1` composes `tr` onto the *end* of the transform arriving at that frame. -/
theorem insertTransform_before_spec (ops : TOps T) (p p' : Pipeline T) (f : String) (tr : Option T) (k : Nat)
    (hk : frameIndex p f = .ok (k + 1)) (h : insertTransform ops p f tr false = .ok p') :
    ∃ cur t new, (p[k]?).bind (·.tr) = some cur ∧ tr = some t ∧ ops.comp cur t = .ok new ∧
      names p' = names p ∧ p'.map (·.tr) = (p.map (·.tr)).modify k (fun _ => some new) := by
  have hlt := frameIndex_lt p f (k + 1) hk
  unfold insertTransform at h
  have hidx : pyIndex p.length (((k + 1 : Nat) : Int) - 1) = some k := by
    unfold pyIndex
    have : (((k + 1 : Nat) : Int) - 1) = (k : Int) := by omega
    rw [this]; simp; omega
  simp only [hk, bind, Except.bind, Bool.not_false, if_true, hidx] at h
  cases hc : (p[k]?).bind (·.tr) with
  | none => simp [hc, pyOr] at h
  | some cur =>
    cases tr with
    | none => simp [hc, pyOr] at h
    | some t =>
      cases hn : ops.comp cur t with
      | error e => simp [hc, pyOr, hn, Except.map] at h
      | ok new =>
        simp only [hc, pyOr, hn, Except.map, pure, Except.pure] at h
        injection h with h; subst h
        exact ⟨cur, t, new, rfl, rfl, hn, names_modify (fun _ => some new) p k, trs_modify (fun _ => some new) p k⟩

/-- **insertTransform_after_spec.** `insert_transform(frame, tr, after=True)` on a frame at index
    `k` composes `tr` onto the *front* of the transform leaving that frame. -/
theorem insertTransform_after_spec (ops : TOps T) (p p' : Pipeline T) (f : String) (tr : Option T) (k : Nat)
    (hk : frameIndex p f = .ok k) (h : insertTransform ops p f tr true = .ok p') :
    ∃ cur t new, (p[k]?).bind (·.tr) = some cur ∧ tr = some t ∧ ops.comp t cur = .ok new ∧
      names p' = names p ∧ p'.map (·.tr) = (p.map (·.tr)).modify k (fun _ => some new) := by
  unfold insertTransform at h
  simp only [hk, bind, Except.bind, Bool.not_true, Bool.false_eq_true, if_false] at h
  cases hc : (p[k]?).bind (·.tr) with
  | none => cases tr <;> simp [hc, pyOr] at h
  | some cur =>
    cases tr with
    | none => simp [hc, pyOr] at h
    | some t =>
      cases hn : ops.comp t cur with
      | error e => simp [hc, pyOr, hn, Except.map] at h
      | ok new =>
        simp only [hc, pyOr, hn, Except.map, pure, Except.pure] at h
        injection h with h; subst h
        exact ⟨cur, t, new, rfl, rfl, hn, names_modify (fun _ => some new) p k, trs_modify (fun _ => some new) p k⟩

/-- **insertTransform_at_first_frame_rejected.** "Before" the first frame addresses, through
    Python's negative indexing, the *last* step, whose transform is `None`: the edit is rejected
    (`None | tr` is a `TypeError`) rather than silently attached to the wrong step. -/
theorem insertTransform_at_first_frame_rejected (ops : TOps T) (p : Pipeline T) (f : String) (tr : Option T)
    (hk : frameIndex p f = .ok 0) (hlast : (p[p.length - 1]?).bind (·.tr) = none) :
    insertTransform ops p f tr false = .error .typeErr := by
  have hlt := frameIndex_lt p f 0 hk
  unfold insertTransform
  have hidx : pyIndex p.length (((0 : Nat) : Int) - 1) = some (p.length - 1) := by
    have : (((0 : Nat) : Int) - 1) = -1 := by omega
    rw [this]
    unfold pyIndex
    have h1 : ¬ (0 : Int) ≤ -1 := by omega
    have h2 : (-(-1 : Int)).toNat = 1 := by decide
    simp only [h1, if_false, h2]
    rw [if_pos (by omega)]
  simp only [hk, bind, Except.bind, Bool.not_false, if_true, hidx, hlast, pyOr]

/-- **insertFrame_new_input_spec.** A new *input-side* frame lands immediately before the known
    frame, carrying the new transform; everything else is unchanged. -/
theorem insertFrame_new_input_spec (p p' : Pipeline T) (inF outF : FrameRef) (tr : Option T) (at' : String × Option Nat)
    (h : insertFrame p inF tr outF = .ok (p', at')) (hin : inF.name ∉ names p) :
    ∃ o t, frameIndex p outF.name = .ok o ∧ tr = some t ∧ inF.obj.isSome ∧
      p' = p.take o ++ [⟨inF, some t⟩] ++ p.drop o ∧ at' = (inF.name, inF.obj) := by
  unfold insertFrame at h
  have hi : frameIndex p inF.name = .error .frameErr := by
    unfold frameIndex
    rw [List.idxOf?_eq_none_iff.mpr hin]
  simp only [hi, Except.toOption, Option.isNone_none, true_and, bind, Except.bind] at h
  cases hobj : inF.obj with
  | none => simp [hobj, throw, throwThe, MonadExceptOf.throw] at h
  | some ob =>
    simp only [hobj, Option.isNone_some, Bool.false_eq_true, if_false, pure, Except.pure] at h
    cases ho : frameIndex p outF.name with
    | error e =>
      simp only [ho, Except.toOption, Option.isNone_none, true_and] at h
      split at h <;> cases h
    | ok o =>
      have holt := frameIndex_lt p outF.name o ho
      simp only [ho, Except.toOption, Option.isNone_some, Bool.false_eq_true, false_and, if_false] at h
      cases tr with
      | none => simp [throw, throwThe, MonadExceptOf.throw] at h
      | some t =>
        simp only [pure, Except.pure] at h
        injection h with h
        injection h with h1 h2
        refine ⟨o, t, rfl, rfl, by simp, ?_, h2.symm⟩
        rw [← h1, show ((0 : Int)) = ((0 : Nat) : Int) from rfl, pySlice_nat_le p 0 o (by omega) (by omega)]
        simp

/-- **insertFrame_new_output_spec.** A new *output-side* frame lands immediately after the known
    frame `i`: step `i` keeps its frame and gets the new transform, the new frame takes over the
    old transform of step `i`. -/
theorem insertFrame_new_output_spec (p p' : Pipeline T) (inF outF : FrameRef) (tr : Option T) (at' : String × Option Nat)
    (h : insertFrame p inF tr outF = .ok (p', at')) (hout : outF.name ∉ names p) :
    ∃ i t split, frameIndex p inF.name = .ok i ∧ p[i]? = some split ∧ tr = some t ∧ outF.obj.isSome ∧
      p' = p.take i ++ [⟨split.frame, some t⟩, ⟨outF, split.tr⟩] ++ p.drop (i + 1) ∧
      at' = (outF.name, outF.obj) := by
  unfold insertFrame at h
  have ho : frameIndex p outF.name = .error .frameErr := by
    unfold frameIndex
    rw [List.idxOf?_eq_none_iff.mpr hout]
  cases hi : frameIndex p inF.name with
  | error e =>
    simp only [hi, ho, Except.toOption, Option.isNone_none, true_and, bind, Except.bind] at h
    split at h
    · cases h
    · split at h <;> cases h
  | ok i =>
    have hilt := frameIndex_lt p inF.name i hi
    simp only [hi, ho, Except.toOption, Option.isNone_some, Option.isNone_none, Bool.false_eq_true, false_and,
      if_false, true_and, bind, Except.bind, pure, Except.pure] at h
    cases hobj : outF.obj with
    | none => simp [hobj, throw, throwThe, MonadExceptOf.throw] at h
    | some ob =>
      simp only [hobj, Option.isNone_some, Bool.false_eq_true, if_false] at h
      have hget : p[i]? = some p[i] := List.getElem?_eq_getElem hilt
      simp only [hget] at h
      cases tr with
      | none => simp [throw, throwThe, MonadExceptOf.throw] at h
      | some t =>
        simp only [pure, Except.pure] at h
        injection h with h
        injection h with h1 h2
        refine ⟨i, t, p[i], rfl, hget, rfl, by simp, ?_, h2.symm⟩
        rw [← h1, show ((0 : Int)) = ((0 : Nat) : Int) from rfl, pySlice_nat_le p 0 i (by omega) (by omega)]
        simp

/-- **insertFrame_error_iff.** `insert_frame` is rejected exactly when both frames are already in
    the pipeline, or neither is, or the new one is given as a bare name, or the transform is not a
    Model. -/
theorem insertFrame_ok_iff (p : Pipeline T) (inF outF : FrameRef) (tr : Option T) :
    (∃ r, insertFrame p inF tr outF = .ok r) ↔
      (tr.isSome ∧ ((inF.name ∉ names p ∧ inF.obj.isSome ∧ outF.name ∈ names p) ∨
        (inF.name ∈ names p ∧ outF.name ∉ names p ∧ outF.obj.isSome))) := by
  have idx_some : ∀ n : String, n ∈ names p → ∃ i, frameIndex p n = .ok i := by
    intro n hn
    unfold frameIndex
    cases h : (names p).idxOf? n with
    | none => exact absurd hn (List.idxOf?_eq_none_iff.mp h)
    | some i => exact ⟨i, rfl⟩
  have idx_none : ∀ n : String, n ∉ names p → frameIndex p n = .error .frameErr := by
    intro n hn
    unfold frameIndex
    rw [List.idxOf?_eq_none_iff.mpr hn]
  constructor
  · rintro ⟨⟨p', at'⟩, h⟩
    by_cases hin : inF.name ∈ names p
    · by_cases hout : outF.name ∈ names p
      · obtain ⟨i, hi⟩ := idx_some _ hin
        obtain ⟨o, ho⟩ := idx_some _ hout
        unfold insertFrame at h
        simp [hi, ho, Except.toOption, bind, Except.bind, pure, Except.pure, throw, throwThe, MonadExceptOf.throw] at h
      · obtain ⟨i, t, s, _, _, ht, hob, _⟩ := insertFrame_new_output_spec p p' inF outF tr at' h hout
        exact ⟨by simp [ht], Or.inr ⟨hin, hout, hob⟩⟩
    · obtain ⟨o, t, ho, ht, hob, _⟩ := insertFrame_new_input_spec p p' inF outF tr at' h hin
      refine ⟨by simp [ht], Or.inl ⟨hin, hob, ?_⟩⟩
      obtain ⟨hlt, hn, _⟩ := frameIndex_spec p outF.name o ho
      rw [← hn]; exact List.getElem_mem hlt
  · rintro ⟨htr, h | h⟩
    · obtain ⟨t, rfl⟩ := Option.isSome_iff_exists.mp htr
      obtain ⟨hin, hob, hout⟩ := h
      obtain ⟨ob, hob⟩ := Option.isSome_iff_exists.mp hob
      obtain ⟨o, ho⟩ := idx_some _ hout
      unfold insertFrame
      simp [idx_none _ hin, ho, hob, Except.toOption, bind, Except.bind, pure, Except.pure]
    · obtain ⟨t, rfl⟩ := Option.isSome_iff_exists.mp htr
      obtain ⟨hin, hout, hob⟩ := h
      obtain ⟨ob, hob⟩ := Option.isSome_iff_exists.mp hob
      obtain ⟨i, hi⟩ := idx_some _ hin
      have hilt := frameIndex_lt p inF.name i hi
      unfold insertFrame
      simp [idx_none _ hout, hi, hob, Except.toOption, bind, Except.bind, pure, Except.pure,
        List.getElem?_eq_getElem hilt]

theorem insertFrame_error_iff (p : Pipeline T) (inF outF : FrameRef) (tr : Option T) :
    (∃ e, insertFrame p inF tr outF = .error e) ↔
      ¬ (tr.isSome ∧ ((inF.name ∉ names p ∧ inF.obj.isSome ∧ outF.name ∈ names p) ∨
        (inF.name ∈ names p ∧ outF.name ∉ names p ∧ outF.obj.isSome))) := by
  rw [← insertFrame_ok_iff]
  cases h : insertFrame p inF tr outF with
  | ok r => simp
  | error e => simp

end Gwcs.Pipe

namespace Gwcs.Pipe

variable {T : Type}

/-- **insertFrame_preserves_composition.** Splitting step `i` with a new output-side frame turns the
    transform sequence `… tᵢ …` into `… t_new, tᵢ …` and leaves every other transform where it was:
    together with C01 this gives the evaluation of the edited pipeline between any two frames. -/
theorem insertFrame_preserves_composition (p p' : Pipeline T) (inF outF : FrameRef) (tr : Option T)
    (at' : String × Option Nat) (h : insertFrame p inF tr outF = .ok (p', at')) (hout : outF.name ∉ names p) :
    ∃ i t, frameIndex p inF.name = .ok i ∧ tr = some t ∧
      p'.map (·.tr) = (p.map (·.tr)).take i ++ [some t] ++ (p.map (·.tr)).drop i ∧
      names p' = (names p).take (i + 1) ++ [outF.name] ++ (names p).drop (i + 1) := by
  obtain ⟨i, t, split, hi, hget, ht, _, hp', _⟩ := insertFrame_new_output_spec p p' inF outF tr at' h hout
  have hilt := frameIndex_lt p inF.name i hi
  have hsplit : split = p[i] := by
    rw [List.getElem?_eq_getElem hilt] at hget; exact (Option.some.inj hget).symm
  refine ⟨i, t, hi, ht, ?_, ?_⟩
  · rw [hp']
    simp only [List.map_append, List.map_cons, List.map_nil, List.map_take, List.map_drop]
    have : List.drop i (List.map (fun x => x.tr) p) = split.tr :: List.drop (i + 1) (List.map (fun x => x.tr) p) := by
      rw [List.drop_eq_getElem_cons (by simpa using hilt)]
      simp [hsplit]
    rw [this]
    simp
  · rw [hp']
    unfold names
    simp only [List.map_append, List.map_cons, List.map_nil, List.map_take, List.map_drop]
    have : List.take (i + 1) (List.map (fun x => x.frame.name) p) =
        List.take i (List.map (fun x => x.frame.name) p) ++ [split.frame.name] := by
      rw [List.take_succ_eq_append_getElem (by simpa using hilt)]
      simp [hsplit]
    rw [this]
    simp

/-- **setBBox_spec.** A box of the right dimensionality is stored on the transform object of step 0
    and read back unchanged, in the same (x, y, …) order; frames and transforms are untouched. -/
theorem setBBox_names (p p' : Pipeline TObj) (v : Option Box) (h : setBBox p v = .ok p') :
    names p' = names p := by
  match p, h with
  | [], h => simp [setBBox] at h
  | [_], h => simp [setBBox] at h
  | s0 :: s1 :: r, h =>
    cases ht : s0.tr with
    | none => simp [setBBox, ht] at h
    | some t =>
      cases v with
      | none =>
        simp [setBBox, ht, bind, Except.bind, pure, Except.pure] at h
        subst h; simp [names]
      | some v =>
        by_cases hv : v.length = t.e.nin
        · simp [setBBox, ht, validateBox, hv, bind, Except.bind, Except.map, pure, Except.pure] at h
          subst h; simp [names]
        · simp [setBBox, ht, validateBox, hv, bind, Except.bind, Except.map] at h

theorem setBBox_spec (p p' : Pipeline TObj) (v : Box) (h : setBBox p (some v) = .ok p') :
    getBBox p' = .ok (some v) ∧ names p' = names p ∧
      p'.map (fun s => s.tr.map (·.e)) = p.map (fun s => s.tr.map (·.e)) := by
  match p, h with
  | [], h => simp [setBBox] at h
  | [_], h => simp [setBBox] at h
  | s0 :: s1 :: r, h =>
    cases ht : s0.tr with
    | none => simp [setBBox, ht] at h
    | some t =>
      by_cases hv : v.length = t.e.nin
      · simp [setBBox, ht, validateBox, hv, bind, Except.bind, Except.map, pure, Except.pure] at h
        subst h; simp [getBBox, names, ht]
      · simp [setBBox, ht, validateBox, hv, bind, Except.bind, Except.map] at h

/-- **setBBox_wrong_dim_rejected.** A box whose number of intervals differs from the number of
    inputs of the first transform is a `ValueError` (and the pure model returns no new state). -/
theorem setBBox_wrong_dim_rejected (s0 s1 : Step TObj) (r : Pipeline TObj) (t : TObj) (v : Box)
    (ht : s0.tr = some t) (hv : v.length ≠ t.e.nin) :
    setBBox (s0 :: s1 :: r) (some v) = .error .valueErr := by
  simp [setBBox, ht, validateBox, hv, bind, Except.bind, Except.map]

/-- The box only depends on the transform object of step 0. -/
theorem getBBox_congr (p q : Pipeline TObj) (hp : 2 ≤ p.length) (hq : 2 ≤ q.length)
    (hh : (p.head?).map (·.tr) = (q.head?).map (·.tr)) : getBBox p = getBBox q := by
  match p, q, hp, hq with
  | a :: b :: p, c :: d :: q, _, _ =>
    simp only [List.head?_cons, Option.map_some, Option.some.injEq] at hh
    simp [getBBox, hh]

/-- **bbox_kept_while_step0_untouched.** Any edit that leaves the transform object of step 0 in
    place (and the pipeline at least two frames long) leaves the bounding box as it was. -/
theorem bbox_kept_while_step0_untouched (s s' : WState) (op : Op) (_h : step s op = .ok s')
    (hp : 2 ≤ s.pipe.length) (hq : 2 ≤ s'.pipe.length)
    (hh : (s'.pipe.head?).map (·.tr) = (s.pipe.head?).map (·.tr)) :
    getBBox s'.pipe = getBBox s.pipe :=
  getBBox_congr _ _ hq hp hh

/-- Concretely: `set_transform` / `insert_transform` aimed at a step other than the first keep the
    first step (hence the box). -/
theorem modify_pos_head (p : Pipeline TObj) (k : Nat) (f : Step TObj → Step TObj) :
    (p.modify (k + 1) f).head? = p.head? := by
  cases p <;> simp

/-- the driver's total step: a rejected edit returns the *same* state -/
def stepTotal (s : WState) (op : Op) : WState × Option Err :=
  match step s op with
  | .ok s' => (s', none)
  | .error e => (s, some e)

/-- **step_error_state_unchanged.** (By construction of the pure model; the implementation's
    atomicity is what the correspondence compares after every rejected edit.) -/
theorem step_error_state_unchanged (s : WState) (op : Op) (e : Err) (h : step s op = .error e) :
    (stepTotal s op).1 = s := by
  simp [stepTotal, h]

theorem nodup_take_insert_drop (l : List String) (i : Nat) (x : String) (hl : l.Nodup) (hx : x ∉ l) :
    (l.take i ++ [x] ++ l.drop i).Nodup := by
  have h := List.take_append_drop i l
  rw [← h] at hl hx
  rw [List.nodup_append] at hl ⊢
  obtain ⟨h1, h2, h3⟩ := hl
  simp only [List.mem_append, not_or] at hx
  refine ⟨?_, h2, ?_⟩
  · rw [List.nodup_append]
    refine ⟨h1, by simp, ?_⟩
    intro a ha b hb
    simp only [List.mem_singleton] at hb
    subst hb
    intro hab; subst hab; exact hx.1 ha
  · intro a ha b hb
    simp only [List.mem_append, List.mem_singleton] at ha
    rcases ha with ha | ha
    · exact h3 a ha b hb
    · subst ha; intro hab; subst hab; exact hx.2 hb

/-- **names_nodup_invariant.** Frame names stay pairwise distinct under every accepted edit. -/
theorem names_nodup_invariant (s s' : WState) (op : Op) (hn : (names s.pipe).Nodup)
    (h : step s op = .ok s') : (names s'.pipe).Nodup := by
  cases op with
  | setTransform f t tr =>
    simp only [step, bind, Except.bind] at h
    cases hs : setTransform s.pipe f t (tr.map (fun e => ⟨e, none⟩)) with
    | error e => simp [hs] at h
    | ok p' =>
      simp only [hs, pure, Except.pure] at h
      injection h with h; subst h
      obtain ⟨_, _, _, _, _, hnm, _⟩ := setTransform_spec _ _ _ _ _ hs
      simpa [hnm] using hn
  | insertTransform f tr after =>
    simp only [step, bind, Except.bind] at h
    cases hs : insertTransform tobjOps s.pipe f (tr.map (fun e => ⟨e, none⟩)) after with
    | error e => simp [hs] at h
    | ok p' =>
      simp only [hs, pure, Except.pure] at h
      injection h with h; subst h
      -- names are preserved by `modify`
      unfold insertTransform at hs
      cases hfi : frameIndex s.pipe f with
      | error e => simp [hfi, bind, Except.bind] at hs
      | ok fi =>
        simp only [hfi, bind, Except.bind] at hs
        cases after with
        | false =>
          simp only [Bool.not_false, if_true] at hs
          split at hs
          · cases hs
          · rename_i k _
            cases hor : pyOr tobjOps ((s.pipe[k]?).bind (·.tr)) (tr.map (fun e => ⟨e, none⟩)) with
            | error e => simp [hor] at hs
            | ok new =>
              simp only [hor, pure, Except.pure] at hs
              injection hs with hs; subst hs
              simpa [names_modify (fun _ => new)] using hn
        | true =>
          simp only [Bool.not_true, Bool.false_eq_true, if_false] at hs
          cases hor : pyOr tobjOps (tr.map (fun e => ⟨e, none⟩)) ((s.pipe[fi]?).bind (·.tr)) with
          | error e => simp [hor] at hs
          | ok new =>
            simp only [hor, pure, Except.pure] at hs
            injection hs with hs; subst hs
            simpa [names_modify (fun _ => new)] using hn
  | insertFrame i tr o =>
    simp only [step, bind, Except.bind] at h
    cases hs : insertFrame s.pipe i (tr.map (fun e => ⟨e, none⟩)) o with
    | error e => simp [hs] at h
    | ok r =>
      obtain ⟨p', at'⟩ := r
      simp only [hs, pure, Except.pure] at h
      split at h
      · cases h
      injection h with h; subst h
      simp only
      by_cases hin : i.name ∈ names s.pipe
      · have hout : o.name ∉ names s.pipe := by
          have := (insertFrame_ok_iff s.pipe i o (tr.map (fun e => ⟨e, none⟩))).mp ⟨_, hs⟩
          rcases this.2 with h1 | h1
          · exact absurd hin h1.1
          · exact h1.2.1
        obtain ⟨k, t, _, _, _, hnm⟩ := insertFrame_preserves_composition _ _ _ _ _ _ hs hout
        rw [hnm]
        exact nodup_take_insert_drop _ _ _ hn hout
      · obtain ⟨k, t, hk, _, _, hp', _⟩ := insertFrame_new_input_spec _ _ _ _ _ _ hs hin
        rw [hp']
        have : names (List.take k s.pipe ++ [⟨i, some t⟩] ++ List.drop k s.pipe) =
            (names s.pipe).take k ++ [i.name] ++ (names s.pipe).drop k := by
          simp [names, List.map_take, List.map_drop]
        rw [this]
        exact nodup_take_insert_drop _ _ _ hn hin
  | setBBox v =>
    simp only [step, bind, Except.bind] at h
    cases hs : setBBox s.pipe v with
    | error e => simp [hs] at h
    | ok p' =>
      simp only [hs, pure, Except.pure] at h
      injection h with h; subst h
      simp only
      simpa [setBBox_names _ _ _ hs] using hn

/-- **reserved_name_rejected.** An `insert_frame` whose new frame is named like a read-only property of the WCS class is rejected,
and (`stepTotal`) leaves frames, transforms, attributes and box exactly as they were - whatever the rest of the call looks like. -/
theorem reserved_name_rejected (s : WState) (i o : FrameRef) (tr : Option TExpr) (p' : Pipeline TObj) (n : String) (v : Option Nat)
    (h : insertFrame s.pipe i (tr.map (fun e => ⟨e, none⟩)) o = .ok (p', (n, v))) (hr : readOnlyNames.contains n = true) :
    step s (.insertFrame i tr o) = .error .other ∧ (stepTotal s (.insertFrame i tr o)).1 = s := by
  have h1 : step s (.insertFrame i tr o) = .error .other := by
    simp only [step, bind, Except.bind, h, hr, if_true]
    rfl
  exact ⟨h1, by simp [stepTotal, h1]⟩

example : (match step (initState [⟨"detector", some 0⟩, ⟨"sky", some 1⟩] [some (.shift 1), none])
    (.insertFrame ⟨"detector", some 0⟩ (some (.scale 2)) ⟨"unit", some 2⟩) with | .error .other => true | _ => false) = true := by
  decide +kernel

/-- **run_names_nodup.** … hence after every finite history of edits, valid or not. -/
theorem run_names_nodup (ops : List Op) (s : WState) (hn : (names s.pipe).Nodup) :
    (names (ops.foldl (fun s op => (stepTotal s op).1) s).pipe).Nodup := by
  induction ops generalizing s with
  | nil => simpa using hn
  | cons op ops ih =>
    rw [List.foldl_cons]
    apply ih
    unfold stepTotal
    cases h : step s op with
    | ok s' => simpa using names_nodup_invariant s s' op hn h
    | error e => simpa using hn

end Gwcs.Pipe
