import GwcsModel.Sip
import Mathlib.Tactic.FieldSimp
import Mathlib.Tactic.Ring
import Mathlib.Tactic.Linarith
import Mathlib.Algebra.Order.Field.Rat
/-!
# C10 — FITS-SIP export

* `search_no_warning_minimal`: when the degree search ends without the "failed to achieve" warning, the chosen degree meets
  the request and every permitted degree tried before it did not — the lowest permitted degree that meets it; the returned
  polynomials have that degree.
* `all_fail_warns`: if no permitted degree meets the request the warning flag stays set (an unmet request is signalled).
* `degList_perm`: the permitted degrees are tried in increasing order whatever order the caller lists them in.
* `single_degree_ignores_max_error`, `reported_ge_both`, `sampling_warning_iff`.
* `reform_sound`: CD · (u + A(u,v), v + B(u,v)) equals the fitted polynomials, for every degree, all coefficients, det ≠ 0.
* `stored_iff`, `reference_pixel_maps_to_origin`.
-/
namespace Gwcs.Sip

/-! ### degree search -/

/-- degrees tried before the chosen one were well-conditioned fits that missed the request -/
def Missed (fit : Nat → FitOutcome) (maxErr : Rat) (pre : List Nat) : Prop :=
  ∀ d' ∈ pre, ∃ e', fit d' = some (e', true) ∧ maxErr < e'

theorem search_no_warning_minimal (fit : Nat → FitOutcome) (maxErr : Rat) (single : Bool) :
    ∀ (ds : List Nat) (st0 st : SearchState), st0.unmet = true → search fit maxErr single ds st0 = some st → st.unmet = false →
      ∃ pre d post e, ds = pre ++ d :: post ∧ Missed fit maxErr pre ∧ fit d = some (e, true) ∧ e ≤ maxErr
        ∧ st.chosen = some d ∧ st.fitErr = some e ∧ st.lastDeg = d := by
  intro ds
  induction ds with
  | nil =>
    intro st0 st h0 hs hu
    simp [search] at hs
    subst hs
    rw [h0] at hu; cases hu
  | cons d ds ih =>
    intro st0 st h0 hs hu
    simp only [search] at hs
    cases hf : fit d with
    | none =>
      rw [hf] at hs
      simp only at hs
      split_ifs at hs
      cases hs; simp [h0] at hu
    | some ec =>
      obtain ⟨e, c⟩ := ec
      rw [hf] at hs
      simp only at hs
      split_ifs at hs with h1 h2 h3 h4
      · cases hs; simp [h0] at hu
      · cases hs; simp [h0] at hu
      · cases hs; simp [h0] at hu
      · cases hs
        have hc : c = true := by simpa using h1
        subst hc
        exact ⟨[], d, ds, e, rfl, by intro d' hd'; simp at hd', hf, h4, rfl, rfl, rfl⟩
      · have hc : c = true := by simpa using h1
        subst hc
        obtain ⟨pre, d1, post, e1, hds, hm, hf1, hle1, hc, he, hl⟩ := ih _ st (by simpa using h0) hs hu
        refine ⟨d :: pre, d1, post, e1, by simp [hds], ?_, hf1, hle1, hc, he, hl⟩
        intro d' hd'
        rcases List.mem_cons.mp hd' with rfl | hd'
        · exact ⟨e, hf, lt_of_not_ge h4⟩
        · exact hm d' hd'

/-- an unmet request is signalled: if no permitted degree's fit meets the request, the warning flag is still set -/
theorem all_fail_warns (fit : Nat → FitOutcome) (maxErr : Rat) (single : Bool) :
    ∀ (ds : List Nat) (st0 st : SearchState), st0.unmet = true → (∀ d ∈ ds, ∀ e c, fit d = some (e, c) → maxErr < e) →
      search fit maxErr single ds st0 = some st → st.unmet = true := by
  intro ds st0 st h0 hall hs
  by_contra hu
  have hu' : st.unmet = false := by simpa using hu
  obtain ⟨pre, d, post, e, hds, _, hf, hle, _⟩ := search_no_warning_minimal fit maxErr single ds st0 st h0 hs hu'
  have := hall d (by simp [hds]) e true hf
  exact absurd hle (not_le.mpr this)

theorem perm_insertSortedI (x : Int) (l : List Int) : (insertSortedI x l).Perm (x :: l) := by
  induction l with
  | nil => simp [insertSortedI]
  | cons y ys ih =>
    simp only [insertSortedI]
    split
    · exact List.Perm.refl _
    · exact (List.Perm.cons y ih).trans (List.Perm.swap x y ys)

theorem perm_sortI (l : List Int) : (sortI l).Perm l := by
  induction l with
  | nil => simp [sortI]
  | cons x xs ih =>
    show (insertSortedI x (sortI xs)).Perm (x :: xs)
    exact (perm_insertSortedI x _).trans (List.Perm.cons x ih)

theorem pairwise_insertSortedI (x : Int) (l : List Int) (h : l.Pairwise (· ≤ ·)) : (insertSortedI x l).Pairwise (· ≤ ·) := by
  induction l with
  | nil => simp [insertSortedI]
  | cons y ys ih =>
    simp only [insertSortedI]
    have hy := List.pairwise_cons.mp h
    split
    · rename_i hxy
      refine List.Pairwise.cons ?_ h
      intro z hz
      rcases List.mem_cons.mp hz with rfl | hz
      · exact hxy
      · exact le_trans hxy (hy.1 z hz)
    · rename_i hxy
      refine List.Pairwise.cons ?_ (ih hy.2)
      intro z hz
      have := (perm_insertSortedI x ys).mem_iff.mp hz
      rcases List.mem_cons.mp this with rfl | hz'
      · omega
      · exact hy.1 z hz'

theorem pairwise_sortI (l : List Int) : (sortI l).Pairwise (· ≤ ·) := by
  induction l with
  | nil => simp [sortI]
  | cons x xs ih => exact pairwise_insertSortedI x _ ih

/-- the degrees are tried in increasing order, whatever order the caller gives them in -/
theorem degList_perm (ds ds' : List Int) (h : ds.Perm ds') : degList (.list ds) = degList (.list ds') := by
  have : sortI ds = sortI ds' := by
    apply List.Perm.eq_of_pairwise (le := (· ≤ ·)) (fun a b _ _ h1 h2 => Int.le_antisymm h1 h2) (pairwise_sortI ds) (pairwise_sortI ds')
    exact (perm_sortI ds).trans (h.trans (perm_sortI ds').symm)
  simp [degList, this]

/-- the whole of `_fit_2D_poly`: without the "failed" warning on a multi-degree search, the returned polynomials have the
lowest permitted degree whose fit meets the request, carry that degree's coefficients, and the reported error is at least the
residual on both grids -/
theorem fit2D_no_warning_minimal (spec : DegreeSpec) (maxErr : Rat) (fit : Nat → FitOutcome) (dbl : Nat → Rat) (r : FitResult)
    (ds : List Nat) (hds : degList spec = some ds) (h : fit2D spec maxErr fit dbl = .ok r) (hw : r.warnUnmet = false) :
    ∃ pre d post e, ds = pre ++ d :: post ∧ Missed fit maxErr pre ∧ fit d = some (e, true) ∧ e ≤ maxErr
      ∧ r.degree = d ∧ r.coeffDegree = some d ∧ r.reported = some (max (dbl d) e) := by
  unfold fit2D at h
  rw [hds] at h
  simp only at h
  cases hs : search fit maxErr (ds.length == 1) ds {} with
  | none => rw [hs] at h; cases h
  | some st =>
    rw [hs] at h
    simp only at h
    cases hc : st.chosen with
    | none => rw [hc] at h; cases h
    | some c =>
      cases he : st.fitErr with
      | none => rw [hc, he] at h; cases h
      | some e =>
        rw [hc, he] at h
        simp only at h
        split at h
        · cases h
          simp only at hw
          obtain ⟨pre, d, post, e1, hsplit, hm, hf, hle, hc1, he1, hl⟩ :=
            search_no_warning_minimal fit maxErr _ ds {} st rfl hs hw
          rw [hc] at hc1; cases hc1
          rw [he] at he1; cases he1
          exact ⟨pre, c, post, e, hsplit, hm, hf, hle, hl, rfl, rfl⟩
        · cases h
          simp only at hw
          obtain ⟨pre, d, post, e1, hsplit, hm, hf, hle, hc1, he1, hl⟩ :=
            search_no_warning_minimal fit maxErr _ ds {} st rfl hs hw
          rw [he] at he1; cases he1
          rename_i hcond
          exact absurd (Or.inl hle) hcond

/-- without the warning, the degree of the returned polynomials is one of the permitted ones -/
theorem no_warning_degree_permitted (spec : DegreeSpec) (maxErr : Rat) (fit : Nat → FitOutcome) (dbl : Nat → Rat) (r : FitResult)
    (ds : List Nat) (hds : degList spec = some ds) (h : fit2D spec maxErr fit dbl = .ok r) (hw : r.warnUnmet = false) :
    r.degree ∈ ds := by
  obtain ⟨pre, d, post, e, hsplit, _, _, _, hd, _, _⟩ := fit2D_no_warning_minimal spec maxErr fit dbl r ds hds h hw
  rw [hd, hsplit]; simp

/-- the two searches of `to_fits_sip`: the forward polynomials over `degree`, the inverse ones over `inv_degree`, each with its
    own tolerance and its own fits -/
def sipFits (degree invDegree : DegreeSpec) (maxErr maxInvErr : Rat) (fitF fitI : Nat → FitOutcome) (dblF dblI : Nat → Rat) :
    FitExit × FitExit :=
  (fit2D degree maxErr fitF dblF, fit2D invDegree maxInvErr fitI dblI)

/-- **inverse_degree_from_inv_degree.** Whatever was asked for the forward polynomials, an inverse fit that raises no warning has a
    degree permitted by `inv_degree` (and the forward one a degree permitted by `degree`). -/
theorem inverse_degree_from_inv_degree (degree invDegree : DegreeSpec) (maxErr maxInvErr : Rat) (fitF fitI : Nat → FitOutcome)
    (dblF dblI : Nat → Rat) (rI : FitResult) (dsI : List Nat) (hds : degList invDegree = some dsI)
    (h : (sipFits degree invDegree maxErr maxInvErr fitF fitI dblF dblI).2 = .ok rI) (hw : rI.warnUnmet = false) :
    rI.degree ∈ dsI :=
  no_warning_degree_permitted invDegree maxInvErr fitI dblI rI dsI hds h hw

/-- the reported error never understates either residual -/
theorem reported_ge_both (a b : Rat) : a ≤ max a b ∧ b ≤ max a b := ⟨le_max_left _ _, le_max_right _ _⟩

/-- an explicit single degree is fitted whatever the requested error is: degree, coefficients and reported error do not depend on it -/
theorem single_degree_ignores_max_error (d : Int) (m1 m2 : Rat) (fit : Nat → FitOutcome) (dbl : Nat → Rat) (e : Rat)
    (hd : 1 ≤ d ∧ d ≤ 9) (hf : fit d.toNat = some (e, true)) :
    ∃ r1 r2, fit2D (.single d) m1 fit dbl = .ok r1 ∧ fit2D (.single d) m2 fit dbl = .ok r2
      ∧ r1.degree = d.toNat ∧ r2.degree = d.toNat ∧ r1.coeffDegree = some d.toNat ∧ r2.coeffDegree = some d.toNat
      ∧ r1.reported = r2.reported ∧ (r1.warnUnmet = true ↔ m1 < e) := by
  have hdl : degList (.single d) = some [d.toNat] := by
    simp [degList]; omega
  have key : ∀ m : Rat, ∃ r, fit2D (.single d) m fit dbl = .ok r ∧ r.degree = d.toNat ∧ r.coeffDegree = some d.toNat
      ∧ r.reported = some (max (dbl d.toNat) e) ∧ (r.warnUnmet = true ↔ m < e) := by
    intro m
    unfold fit2D
    rw [hdl]
    simp only [List.length_singleton, beq_self_eq_true, search, hf, Bool.not_true, Bool.false_eq_true, ↓reduceIte, ltInf]
    by_cases hle : e ≤ m
    · simp [hle, not_lt.mpr hle]
    · simp [hle, lt_of_not_ge hle]
  obtain ⟨r1, h1, a1, b1, c1, w1⟩ := key m1
  obtain ⟨r2, h2, a2, b2, c2, _⟩ := key m2
  exact ⟨r1, r2, h1, h2, a1, a2, b1, b2, by rw [c1, c2], w1⟩

/-! ### the SIP split -/

theorem inv_id_x (a b c d x y : Rat) (hdet : a * d - b * c ≠ 0) :
    a * ((d * x - b * y) / (a * d - b * c)) + b * ((-c * x + a * y) / (a * d - b * c)) = x := by
  rw [← mul_div_assoc, ← mul_div_assoc, ← add_div, div_eq_iff hdet]
  ring

theorem inv_id_y (a b c d x y : Rat) (hdet : a * d - b * c ≠ 0) :
    c * ((d * x - b * y) / (a * d - b * c)) + d * ((-c * x + a * y) / (a * d - b * c)) = y := by
  rw [← mul_div_assoc, ← mul_div_assoc, ← add_div, div_eq_iff hdet]
  ring

theorem sum_lin (L : List (Nat × Nat)) (k1 k2 : Rat) (a b m : Nat × Nat → Rat) :
    k1 * (L.map fun t => a t * m t).sum + k2 * (L.map fun t => b t * m t).sum = (L.map fun t => (k1 * a t + k2 * b t) * m t).sum := by
  induction L with
  | nil => simp
  | cons t ts ih =>
    simp only [List.map_cons, List.sum_cons]
    rw [← ih]; ring

theorem mem_monomialsHigh (deg : Nat) (t : Nat × Nat) : t ∈ monomialsHigh deg → 1 < t.1 + t.2 := by
  intro h
  simp only [monomialsHigh, List.mem_flatMap, List.mem_range, List.mem_filterMap] at h
  obtain ⟨i, _, j, _, hj⟩ := h
  split at hj
  · rename_i hc; cases hj; exact hc.1
  · cases hj

theorem sum_congr_mem (L : List (Nat × Nat)) (f g : Nat × Nat → Rat) (h : ∀ t ∈ L, f t = g t) : (L.map f).sum = (L.map g).sum := by
  induction L with
  | nil => rfl
  | cons t ts ih =>
    simp only [List.map_cons, List.sum_cons]
    rw [h t (by simp), ih (fun t' ht' => h t' (by simp [ht']))]

/-- **the recombination is exact**: the header's CD matrix applied to (u + A, v + B) reproduces the fitted polynomials -/
theorem reform_sound (fx fy : Poly) (hdeg : fx.deg = fy.deg) (h0x : fx.c 0 0 = 0) (h0y : fy.c 0 0 = 0)
    (hdet : fx.c 1 0 * fy.c 0 1 - fx.c 0 1 * fy.c 1 0 ≠ 0) (u v : Rat) :
    (reform fx fy).eval u v = (fx.eval u v, fy.eval u v) := by
  simp only [Sip.eval, reform, Poly.eval, Poly.high, h0x, h0y]
  have hx := sum_lin (monomialsHigh fx.deg) (fx.c 1 0) (fx.c 0 1)
    (fun t => if t.1 + t.2 > 1 then (fy.c 0 1 * fx.c t.1 t.2 - fx.c 0 1 * fy.c t.1 t.2) / (fx.c 1 0 * fy.c 0 1 - fx.c 0 1 * fy.c 1 0) else 0)
    (fun t => if t.1 + t.2 > 1 then (-fy.c 1 0 * fx.c t.1 t.2 + fx.c 1 0 * fy.c t.1 t.2) / (fx.c 1 0 * fy.c 0 1 - fx.c 0 1 * fy.c 1 0) else 0)
    (fun t => u ^ t.1 * v ^ t.2)
  have hy := sum_lin (monomialsHigh fx.deg) (fy.c 1 0) (fy.c 0 1)
    (fun t => if t.1 + t.2 > 1 then (fy.c 0 1 * fx.c t.1 t.2 - fx.c 0 1 * fy.c t.1 t.2) / (fx.c 1 0 * fy.c 0 1 - fx.c 0 1 * fy.c 1 0) else 0)
    (fun t => if t.1 + t.2 > 1 then (-fy.c 1 0 * fx.c t.1 t.2 + fx.c 1 0 * fy.c t.1 t.2) / (fx.c 1 0 * fy.c 0 1 - fx.c 0 1 * fy.c 1 0) else 0)
    (fun t => u ^ t.1 * v ^ t.2)
  have ex : ((monomialsHigh fx.deg).map fun t => (fx.c 1 0 * (if t.1 + t.2 > 1 then (fy.c 0 1 * fx.c t.1 t.2 - fx.c 0 1 * fy.c t.1 t.2) / (fx.c 1 0 * fy.c 0 1 - fx.c 0 1 * fy.c 1 0) else 0)
        + fx.c 0 1 * (if t.1 + t.2 > 1 then (-fy.c 1 0 * fx.c t.1 t.2 + fx.c 1 0 * fy.c t.1 t.2) / (fx.c 1 0 * fy.c 0 1 - fx.c 0 1 * fy.c 1 0) else 0)) * (u ^ t.1 * v ^ t.2)).sum
      = ((monomialsHigh fx.deg).map fun t => fx.c t.1 t.2 * (u ^ t.1 * v ^ t.2)).sum := by
    apply sum_congr_mem
    intro t ht
    have := mem_monomialsHigh _ t ht
    simp only [gt_iff_lt, this, ↓reduceIte]
    congr 1
    exact inv_id_x _ _ _ _ _ _ hdet
  have ey : ((monomialsHigh fx.deg).map fun t => (fy.c 1 0 * (if t.1 + t.2 > 1 then (fy.c 0 1 * fx.c t.1 t.2 - fx.c 0 1 * fy.c t.1 t.2) / (fx.c 1 0 * fy.c 0 1 - fx.c 0 1 * fy.c 1 0) else 0)
        + fy.c 0 1 * (if t.1 + t.2 > 1 then (-fy.c 1 0 * fx.c t.1 t.2 + fx.c 1 0 * fy.c t.1 t.2) / (fx.c 1 0 * fy.c 0 1 - fx.c 0 1 * fy.c 1 0) else 0)) * (u ^ t.1 * v ^ t.2)).sum
      = ((monomialsHigh fx.deg).map fun t => fy.c t.1 t.2 * (u ^ t.1 * v ^ t.2)).sum := by
    apply sum_congr_mem
    intro t ht
    have := mem_monomialsHigh _ t ht
    simp only [gt_iff_lt, this, ↓reduceIte]
    congr 1
    exact inv_id_y _ _ _ _ _ _ hdet
  rw [ex] at hx
  rw [ey] at hy
  rw [← hdeg]
  refine Prod.ext ?_ ?_
  · simp only
    linarith [hx]
  · simp only
    linarith [hy]

/-- the reference pixel maps to the reference value: zero offset gives zero intermediate coordinates -/
theorem reference_pixel_maps_to_origin (fx fy : Poly) : (reform fx fy).eval 0 0 = (0, 0) := by
  have hz : ∀ (p : Poly), p.high 0 0 = 0 := by
    intro p
    unfold Poly.high
    have : ∀ t ∈ monomialsHigh p.deg, p.c t.1 t.2 * ((0 : Rat) ^ t.1 * 0 ^ t.2) = 0 := by
      intro t ht
      have h1 := mem_monomialsHigh _ t ht
      rcases Nat.eq_zero_or_pos t.1 with h | h
      · have : t.2 ≠ 0 := by omega
        simp [zero_pow this]
      · have : t.1 ≠ 0 := by omega
        simp [zero_pow this]
    rw [sum_congr_mem _ _ (fun _ => 0) this]
    simp
  simp [Sip.eval, hz]

/-- which A_i_j / B_i_j keywords are written -/
theorem stored_iff (deg : Nat) (keeplinear : Bool) (i j : Nat) :
    (i, j) ∈ stored deg keeplinear ↔ i ≤ deg ∧ j ≤ deg ∧ (if keeplinear then 0 else 1) < i + j ∧ i + j ≤ deg := by
  simp only [stored, List.mem_flatMap, List.mem_range, List.mem_filterMap]
  cases keeplinear
  · simp only [Bool.false_eq_true, ↓reduceIte]
    constructor
    · rintro ⟨i', hi', j', hj', h⟩
      split_ifs at h with hc
      cases h
      exact ⟨by omega, by omega, hc.1, by omega⟩
    · rintro ⟨hi, hj, h1, h2⟩
      exact ⟨i, by omega, j, by omega, by simp [h1]; omega⟩
  · simp only [↓reduceIte]
    constructor
    · rintro ⟨i', hi', j', hj', h⟩
      split_ifs at h with hc
      cases h
      exact ⟨by omega, by omega, hc.1, by omega⟩
    · rintro ⟨hi, hj, h1, h2⟩
      exact ⟨i, by omega, j, by omega, by simp [h1]; omega⟩

/-- non-vacuity: a search over 1..9 where degree 3 is the first to meet 0.25 -/
example :
    let fit : Nat → FitOutcome := fun d => some ((2 : Rat) / (d * d), true)
    fit2D .all (1 / 4) fit (fun _ => 1 / 5) = .ok ⟨3, some 3, some (2 / 9), false, false, false⟩ := by
  decide +kernel

end Gwcs.Sip
