import GwcsProofs.C01
import GwcsProofs.C07
import GwcsProofs.C08
import GwcsProofs.C14
import GwcsProofs.C03
import GwcsProofs.C13
import GwcsProofs.C15
import GwcsProofs.C17
