import GwcsProofs.C14
