/-
  GwcsModel.Api — the APE-14 low-level view (gwcs/api.py, gwcs/utils.py `_toindex`):
  nearest-pixel rounding, the array-index variants, the pixel_shape / array_shape state machine,
  and astropy's separability matrix (`astropy.modeling.separable`) on the transform algebra.
-/
import GwcsModel.TExpr

namespace Gwcs.Api

/-- `utils._toindex` on exact values: `floor(v + 0.5)` as an integer. -/
def toIndex (v : Rat) : Int := (v + 1 / 2).floor

/-- `_toindex` as the implementation evaluates it, in doubles. -/
def toIndexF (v : Float) : Float := Float.floor (v + 0.5)

/-- `array_index_to_world_values(*idx) = pixel_to_world_values(*idx[::-1])` -/
def arrayIndexToWorld {α β} (p2w : List α → β) (idx : List α) : β := p2w idx.reverse

/-- `world_to_array_index_values`: world→pixel, reversed, rounded to the nearest pixel centre. -/
def worldToArrayIndex {β} (w2p : β → Except Err (List Rat)) (w : β) : Except Err (List Int) :=
  (w2p w).map (fun px => px.reverse.map toIndex)

/-! ### pixel_shape / array_shape -/

/-- the single stored field `_pixel_shape` -/
abbrev ShapeState := Option (List Nat)

inductive ShapeOp where
  | setPixelShape (v : Option (List Nat))
  | setArrayShape (v : Option (List Nat))
  deriving Repr

def pixelShape (s : ShapeState) : Option (List Nat) := s
def arrayShape (s : ShapeState) : Option (List Nat) := s.map List.reverse

/-- one assignment on a WCS with `ndim` pixel axes; a shape of the wrong length is a `ValueError` through either property
    (`array_shape = v` is `pixel_shape = v[::-1]`) -/
def shapeStep (ndim : Nat) (s : ShapeState) : ShapeOp → Except Err ShapeState
  | .setPixelShape none => .ok none
  | .setPixelShape (some v) => if v.length = ndim then .ok (some v) else .error .valueErr
  | .setArrayShape none => .ok none
  | .setArrayShape (some v) => if v.length = ndim then .ok (some v.reverse) else .error .valueErr

/-- rejected assignments leave the state as it was -/
def shapeStepTotal (ndim : Nat) (s : ShapeState) (op : ShapeOp) : ShapeState :=
  match shapeStep ndim s op with
  | .ok s' => s'
  | .error _ => s

end Gwcs.Api

namespace Gwcs.TExpr

/-- astropy's separability matrix: may output `i` depend on input `j`?
    1→1 leaves are separable, `Polynomial2D` is not, `Mapping`/`Identity` route axes,
    `&` is block-diagonal, `|` is the Boolean matrix product. -/
def dep : TExpr → Nat → Nat → Bool
  | shift _, i, j => i == 0 && j == 0
  | scale _, i, j => i == 0 && j == 0
  | poly1 _ _, i, j => i == 0 && j == 0
  | poly2 _ _ _, i, j => i == 0 && decide (j < 2)
  | identity n, i, j => i == j && decide (i < n)
  | mapping _ idx, i, j => idx[i]? == some j
  | comp l r, i, j => (List.range l.nout).any (fun k => r.dep i k && l.dep k j)
  | stack l r, i, j =>
      if i < l.nout then decide (j < l.nin) && l.dep i j
      else decide (l.nin ≤ j) && r.dep (i - l.nout) (j - l.nin)
  | withInv e _, i, j => e.dep i j
  | fixin e _, i, j => e.dep i j    -- not used for the separability claim (see C13 notes)

def depMatrix (e : TExpr) : List (List Bool) :=
  (List.range e.nout).map (fun i => (List.range e.nin).map (fun j => e.dep i j))

end Gwcs.TExpr
