/-
  GwcsModel.Selector — label mappers and the region selector (gwcs/selector.py).
-/
import GwcsModel.Api

namespace Gwcs.Sel

/-! ### LabelMapperArray: `mask[toindex(y), toindex(x)]` with numpy indexing -/

/-- numpy integer indexing of one axis: negative indices wrap once, anything else out of range is
    an `IndexError` -/
def npIndex {α} (l : List α) (i : Int) : Except Err α :=
  match pyIndex l.length i with
  | some k => match l[k]? with | some v => .ok v | none => .error .indexErr
  | none => .error .indexErr

def arrayLabelAt {L} (mask : List (List L)) (ix iy : Int) : Except Err L := do
  let row ← npIndex mask iy
  npIndex row ix

/-- exact version: pixel centres at integers -/
def arrayLabel {L} (mask : List (List L)) (x y : Rat) : Except Err L :=
  arrayLabelAt mask (Api.toIndex x) (Api.toIndex y)

/-! ### LabelMapperRange -/

/-- key strictly inside the open range; a NaN key (`none`) is in no range -/
def inRange (r : Rat × Rat) (key : Option Rat) : Bool :=
  match key with
  | some k => decide (r.1 < k) && decide (k < r.2)
  | none => false

/-- consecutive ranges of the start-sorted list do not overlap: `endᵢ ≤ startᵢ₊₁` -/
def chainOK : List (Rat × Rat) → Bool
  | a :: b :: r => decide (a.2 ≤ b.1) && chainOK (b :: r)
  | _ => true

def sortByStart (rs : List (Rat × Rat)) : List (Rat × Rat) := rs.mergeSort (fun a b => decide (a.1 ≤ b.1))

/-- `_has_overlapping` (after the D21 fix): sort by start (each range keeps its own end); overlapping
    if some `endᵢ > startᵢ₊₁`, or the smallest start exceeds some end (a reversed range) -/
def hasOverlapping (rs : List (Rat × Rat)) : Bool :=
  let l := sortByStart rs
  !(chainOK l) || (match l with | [] => false | a :: _ => l.any (fun r => decide (r.2 < a.1)))

/-- loop over a table in dict order; every matching entry overwrites the result -/
def lastMatch {α L} (p : α → Bool) (lab : α → L) (l : List α) (init : L) : L :=
  l.foldl (fun res a => if p a then lab a else res) init

/-- the evaluation loop: ranges visited in dict order, a later matching range overwrites -/
def rangeLabel {L} (rs : List ((Rat × Rat) × L)) (noLabel : L) (key : Option Rat) : L :=
  lastMatch (fun r => inRange r.1 key) (fun r => r.2) rs noLabel

def mkRangeMapper {L} (rs : List ((Rat × Rat) × L)) : Except Err (List ((Rat × Rat) × L)) :=
  if hasOverlapping (rs.map (·.1)) then .error .valueErr else .ok rs

/-! ### LabelMapperDict: `np.isclose(key, x, atol)` (rtol = 1e-5), last matching key wins -/

def absR (r : Rat) : Rat := if r < 0 then -r else r

def isClose (atol : Rat) (key x : Rat) : Bool := decide (absR (key - x) ≤ atol + absR x / 100000)

def dictLabel {L} (ks : List (Rat × L)) (atol : Rat) (noLabel : L) (x : Option Rat) : L :=
  match x with
  | some v => lastMatch (fun k => isClose atol k.1 v) (fun k => k.2) ks noLabel
  | none => noLabel          -- `np.isclose(key, nan)` is False for every key

/-! ### RegionsSelector.evaluate -/

/-- `a[mask]` -/
def gather {α} : List α → List Bool → List α
  | x :: xs, true :: m => x :: gather xs m
  | _ :: xs, false :: m => gather xs m
  | _, _ => []

/-- `out[mask] = vals` -/
def scatter {α} : List α → List Bool → List α → List α
  | _ :: out, true :: m, v :: vals => v :: scatter out m vals
  | o :: out, true :: m, [] => o :: scatter out m []
  | o :: out, false :: m, vals => o :: scatter out m vals
  | out, _, _ => out

/-- one pass of the loop body for region label `rid` -/
def selectorStep {L X Y} [DecidableEq L] (labels : List L) (xs : List X) (sel : L → Option (X → Y)) (undef : Y)
    (out : List Y) (rid : L) : List Y :=
  let ind := labels.map (fun l => decide (l = rid))
  let inputs := gather xs ind
  let result := match sel rid with
    | some g => inputs.map g
    | none => inputs.map (fun _ => undef)
  scatter out ind result

/-- `RegionsSelector.evaluate`: outputs start as `undefined_transform_value`; for every distinct
    non-empty label the transform registered for it is applied to the points carrying it. -/
def selectorEval {L X Y} [DecidableEq L] (labels : List L) (xs : List X) (sel : L → Option (X → Y))
    (isEmpty : L → Bool) (undef : Y) : List Y :=
  let uniq := (labels.eraseDups).filter (fun l => !isEmpty l)
  uniq.foldl (selectorStep labels xs sel undef) (labels.map (fun _ => undef))

/-- the same loop with the points of a region picked by an arbitrary "same label" test instead of equality (what a tolerance
    comparison such as `np.isclose(labels, rid)` would be) -/
def selectorEvalBy {L X Y} [DecidableEq L] (same : L → L → Bool) (labels : List L) (xs : List X) (sel : L → Option (X → Y))
    (isEmpty : L → Bool) (undef : Y) : List Y :=
  let uniq := (labels.eraseDups).filter (fun l => !isEmpty l)
  uniq.foldl (fun out rid =>
    let ind := labels.map (fun l => same l rid)
    let inputs := gather xs ind
    let result := match sel rid with
      | some g => inputs.map g
      | none => inputs.map (fun _ => undef)
    scatter out ind result) (labels.map (fun _ => undef))

/-- `set_input(rid)`: the transform registered for one region, or an error for an unknown one -/
def setInput {L T} [DecidableEq L] (table : List (L × T)) (rid : L) : Except Err T :=
  match table.find? (fun kv => kv.1 = rid) with
  | some kv => .ok kv.2
  | none => .error .valueErr

end Gwcs.Sel
