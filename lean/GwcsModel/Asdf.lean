import GwcsModel.Basic
/-!
# ASDF converters (C09)

Model of `gwcs/converters/wcs.py`: which frame fields each converter writes, under which condition,
and which it reads back and hands to the frame constructor; the composite / step / WCS nodes; the
label→transform association of the selector converters and the positional binding used by the
spectroscopy converters.  The YAML layer, schema validation, asdf-astropy's converters for units,
sky frames and transforms are not modelled: those values are opaque atoms that travel unchanged.
-/
namespace Gwcs.Asdf

inductive Kind where
  | generic | frame2d | celestial | spectral | temporal | stokes
deriving DecidableEq, Repr

/-- the observable fields of a non-composite frame; `refFrame` is an opaque atom -/
structure Frame where
  kind : Kind
  name : String
  naxes : Nat
  axesType : List String
  axesOrder : List Nat
  axesNames : List String
  refFrame : Option Nat
  unit : List String
  phys : List String
  refPos : Option String
deriving DecidableEq, Repr

inductive Val where
  | str (s : String)
  | nat (n : Nat)
  | strs (l : List String)
  | nats (l : List Nat)
  | atom (id : Nat)
deriving DecidableEq, Repr

abbrev Node := List (String × Val)

def Node.get (n : Node) (k : String) : Option Val := (n.find? (fun kv => kv.1 == k)).map (·.2)

/-- `FrameConverter._to_yaml_tree` with the Spectral and Stokes overrides -/
def toNode (f : Frame) : Node :=
  if f.kind = .stokes then
    [("name", .str f.name)] ++ (if f.axesOrder ≠ [] then [("axes_order", .nats f.axesOrder)] else [])
  else
    [("name", .str f.name)]
    ++ (if f.kind = .generic then [("axes_type", .strs f.axesType), ("naxes", .nat f.naxes)] else [])
    ++ [("axes_order", .nats f.axesOrder), ("axes_names", .strs f.axesNames)]
    ++ (match f.refFrame with | some r => [("reference_frame", .atom r)] | none => [])
    ++ [("unit", .strs f.unit), ("axis_physical_types", .strs f.phys)]
    ++ (if f.kind = .spectral then
          (match f.refPos with | some p => [("reference_position", .str p.toLower)] | none => [])
        else [])

/-- constructor defaults, used for every keyword the node does not carry -/
structure Defaults where
  naxes : Nat
  axesType : List String
  axesOrder : List Nat
  axesNames : List String
  unit : List String
  phys : List String

/-- `FrameConverter._from_yaml_tree` followed by the frame constructor -/
def fromNode (k : Kind) (d : Defaults) (n : Node) : Except Err Frame := do
  let name ← match n.get "name" with | some (.str s) => pure s | _ => throw .other   -- KeyError
  let (naxes, axesType) ← match k, n.get "axes_type", n.get "naxes" with
    | .generic, some (.strs t), some (.nat m) => pure (m, t)
    | .generic, _, _ => throw .typeErr      -- CoordinateFrame() missing required arguments
    | _, _, _ => pure (d.naxes, d.axesType)
  let axesOrder := match n.get "axes_order" with | some (.nats l) => l | _ => d.axesOrder
  let axesNames := match n.get "axes_names" with | some (.strs l) => l | _ => d.axesNames
  let refFrame := match n.get "reference_frame" with | some (.atom r) => some r | _ => none
  let unit := match n.get "unit" with | some (.strs l) => l | _ => d.unit
  let phys := match n.get "axis_physical_types" with | some (.strs l) => l | _ => d.phys
  let refPos := match k, n.get "reference_position" with
    | .spectral, some (.str p) => some p.toUpper
    | _, _ => none
  pure { kind := k, name, naxes, axesType, axesOrder, axesNames, refFrame, unit, phys, refPos }

/-- frames, possibly nested composites; a bare string names a frame without an object -/
inductive FrameT where
  | leaf (f : Frame)
  | named (s : String)
  | comp (name : String) (frames : List FrameT)
deriving Repr

inductive Tree where
  | leaf (k : Kind) (n : Node)
  | named (s : String)
  | comp (n : List (String × Option String)) (frames : List Tree)   -- keys written besides 'frames'
deriving Repr

mutual
def toTree : FrameT → Tree
  | .leaf f => .leaf f.kind (toNode f)
  | .named s => .named s
  | .comp name fs => .comp [("name", some name)] (toTrees fs)
def toTrees : List FrameT → List Tree
  | [] => []
  | f :: fs => toTree f :: toTrees fs
end

mutual
def fromTree (dflt : Kind → Defaults) : Tree → Except Err FrameT
  | .leaf k n => (fromNode k (dflt k) n).map FrameT.leaf
  | .named s => pure (.named s)
  | .comp n ts =>
      -- `if len(node) != 2: raise ValueError("CompositeFrame has extra properties")`
      match n with
      | [("name", some name)] => (fromTrees dflt ts).map (FrameT.comp name)
      | _ => throw .valueErr
def fromTrees (dflt : Kind → Defaults) : List Tree → Except Err (List FrameT)
  | [] => pure []
  | t :: ts => do
      let f ← fromTree dflt t
      let fs ← fromTrees dflt ts
      pure (f :: fs)
end

/-- the WCS node: name, steps (frame, optional opaque transform), pixel shape -/
structure WcsObj where
  name : String
  steps : List (FrameT × Option Nat)
  pixelShape : Option (List Nat)
deriving Repr

structure WcsNode where
  name : String
  steps : List (Tree × Option Nat)
  pixelShape : Option (List Nat)     -- the key is always written, `None` included

def toWcsNode (w : WcsObj) : WcsNode :=
  { name := w.name, steps := w.steps.map (fun (f, t) => (toTree f, t)), pixelShape := w.pixelShape }

def fromSteps (dflt : Kind → Defaults) : List (Tree × Option Nat) → Except Err (List (FrameT × Option Nat))
  | [] => pure []
  | (t, tr) :: rest => do
      let f ← fromTree dflt t
      let fs ← fromSteps dflt rest
      pure ((f, tr) :: fs)

def fromWcsNode (dflt : Kind → Defaults) (n : WcsNode) : Except Err WcsObj := do
  let steps ← fromSteps dflt n.steps
  pure { name := n.name, steps, pixelShape := n.pixelShape }

/-- selector converters: `labels`/`transforms` are written as two parallel lists taken from the
mapping in iteration order and zipped back on read -/
def selToNode {κ τ} (sel : List (κ × τ)) : List κ × List τ := (sel.map (·.1), sel.map (·.2))
def selFromNode {κ τ} (n : List κ × List τ) : List (κ × τ) := n.1.zip n.2

/-- positional binding of a call `Model(node[k₁], node[k₂], …)` to the parameter list `p₁, p₂, …` -/
def bindPositional {ν} (params : List String) (argKeys : List String) (node : String → ν) : List (String × ν) :=
  params.zip (argKeys.map node)

/-- standard spectral reference positions (astropy.wcs / gwcs STANDARD_REFERENCE_POSITION) -/
def standardPositions : List String :=
  ["GEOCENTER", "BARYCENTER", "HELIOCENTER", "TOPOCENTER", "LSR", "LSRK", "LSRD", "GALACTIC_CENTER", "LOCAL_GROUP_CENTER"]

end Gwcs.Asdf
