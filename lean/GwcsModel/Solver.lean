/-
  GwcsModel.Solver — the bookkeeping of `WCS._vectorized_fixed_point` (gwcs/wcs.py): which rows are
  still being iterated, the adaptive update of (dn, dnprev), and the final classification into
  divergent / slowly-converging / invalid rows, the scipy fallback, and the raise-or-return decision.
  The numerics (the correction itself) are an oracle: per row and iteration the squared norm of the
  new correction and whether the updated pixel is finite.
-/
import GwcsModel.Basic

namespace Gwcs.Sol

/-- per-row state; `dn`/`dnprev` are meaningful only while the pixel solution is finite (otherwise they
    are NaN in the implementation and every comparison with them is false) -/
structure Row where
  dn : Rat
  dnprev : Rat
  pixFinite : Bool
  worldFinite : Bool
  inInd : Bool            -- still selected for further iterations
  deriving Repr, DecidableEq, Inhabited

/-- `invalid = ~isfinite(pix) & isfinite(world)` -/
def Row.invalid (r : Row) : Bool := !r.pixFinite && r.worldFinite

def Row.converged (tol2 : Rat) (r : Row) : Bool := r.pixFinite && decide (r.dn < tol2)

/-- `((dn >= tol2) & (dn >= dnprev)) | invalid` — with NaN semantics for non-finite rows -/
def Row.isDiv (tol2 : Rat) (r : Row) : Bool :=
  if r.pixFinite then decide (tol2 ≤ r.dn) && decide (r.dnprev ≤ r.dn) else r.invalid

/-- `(dn >= tol2) & (dn < dnprev) & ~invalid`, evaluated only when `k >= maxiter` -/
def Row.isSlow (tol2 : Rat) (r : Row) : Bool :=
  r.pixFinite && decide (tol2 ≤ r.dn) && decide (r.dn < r.dnprev)

/-- one pass of the adaptive loop: rows in `ind` get `dnprev := dn`, `dn := dnnew i`, their pixel
    finiteness after the correction, and stay selected iff `dnnew >= tol2`
    (the `if not all(conv): conv[:] = True` override makes divergence detection inert here) -/
def adaptiveStep (tol2 : Rat) (dnnew : Nat → Rat) (finiteAfter : Nat → Bool) (rows : List Row) : List Row :=
  rows.zipIdx.map (fun (r, i) =>
    if r.inInd then
      { r with dnprev := r.dn, dn := dnnew i, pixFinite := finiteAfter i,
               inInd := finiteAfter i && decide (tol2 ≤ dnnew i) }
    else r)

/-- selection made when the non-adaptive loop hands over to the adaptive one:
    `ind = where(slowconv & conv)`; `dnprev[ind] = dn[ind]` -/
def switchToAdaptive (tol2 : Rat) (rows : List Row) : List Row :=
  rows.map (fun r =>
    let sel := r.pixFinite && decide (tol2 ≤ r.dn) && decide (r.dn < r.dnprev)
    { r with inInd := sel, dnprev := if sel then r.dn else r.dnprev })

/-- selection when the adaptive loop is entered directly: all rows with finite pixels -/
def enterAdaptive (rows : List Row) : List Row := rows.map (fun r => { r with inInd := r.pixFinite })

structure Outcome where
  divergent : List Nat
  slow : List Nat
  raises : Bool
  deriving Repr, DecidableEq

/-- final classification, fallback and raise decision.
    `fallbackOK i` = scipy's `root(method='hybr')` reported success for row `i`. -/
def classify (tol2 : Rat) (kGeMax detect quiet : Bool) (fallbackOK : Nat → Bool) (rows : List Row) : Outcome :=
  let idx := List.range rows.length
  let div0 := idx.filter (fun i => ((rows[i]?).map (Row.isDiv tol2)).getD false)
  let div := if detect then div0.filter (fun i => !fallbackOK i) else div0
  let slow := if kGeMax then idx.filter (fun i => ((rows[i]?).map (Row.isSlow tol2)).getD false) else []
  { divergent := div, slow := slow, raises := !quiet && (!div.isEmpty || !slow.isEmpty) }

/-- Aitken-accelerated correction used by the solver, for one coordinate:
    `f x = c·(w x − t) + x`, `p1 = f x`, `p2 = f p1`, `d = p2 − 2 p1 + x`,
    `corr = (p1 − x)² / d` where `d ≠ 0`, else `x − p2` -/
def correction (c : Rat) (w : Rat → Rat) (t x : Rat) : Rat :=
  let f := fun x => c * (w x - t) + x
  let p1 := f x
  let p2 := f p1
  let d := p2 - 2 * p1 + x
  if d = 0 then x - p2 else (p1 - x) * (p1 - x) / d

end Gwcs.Sol
