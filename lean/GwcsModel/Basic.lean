/-
  GwcsModel.Basic — shared, core-only helpers for every model and for the driver's
  line protocol (one JSON object per line).  No Mathlib import anywhere under GwcsModel/.

  Wire conventions (mirrored by harness/protocol.py):
    * integers            JSON numbers
    * exact rationals     JSON integers, or strings "p/q"
    * IEEE doubles        strings "x" ++ 16 hex digits (the bit pattern)   e.g. "x3ff8000000000000"
    * errors              {"err": "<enum>"}
-/
import Lean.Data.Json
open Lean

namespace Gwcs

/-- The small enum every Python exception is canonicalised to. -/
inductive Err where
  | frameErr | valueErr | typeErr | notImpl | indexErr | noConv | userErr | other
  deriving Repr, DecidableEq, Inhabited

def Err.toString : Err → String
  | .frameErr => "frameErr" | .valueErr => "valueErr" | .typeErr => "typeErr"
  | .notImpl => "notImpl" | .indexErr => "indexErr" | .noConv => "noConv"
  | .userErr => "userErr" | .other => "other"

instance : ToString Err := ⟨Err.toString⟩

/-- Python-style index normalisation for `a[i]` on a sequence of length `n`. -/
def pyIndex (n : Nat) (i : Int) : Option Nat :=
  if 0 ≤ i then (if i.toNat < n then some i.toNat else none)
  else (if (-i).toNat ≤ n then some (n - (-i).toNat) else none)

/-- Python slice bound clamping for `a[lo:hi]` (step 1) on a sequence of length `n`. -/
def pyClamp (n : Nat) (i : Int) : Nat :=
  if 0 ≤ i then min i.toNat n else n - min (-i).toNat n

/-- `a[lo:hi]` with Python semantics (negative bounds count from the end, out-of-range bounds clamp). -/
def pySlice {α} (l : List α) (lo hi : Int) : List α :=
  let n := l.length
  let a := pyClamp n lo
  let b := pyClamp n hi
  (l.drop a).take (b - a)

/-! ### JSON helpers -/

def hexVal (c : Char) : Option Nat :=
  if '0' ≤ c ∧ c ≤ '9' then some (c.toNat - '0'.toNat)
  else if 'a' ≤ c ∧ c ≤ 'f' then some (c.toNat - 'a'.toNat + 10)
  else if 'A' ≤ c ∧ c ≤ 'F' then some (c.toNat - 'A'.toNat + 10)
  else none

def parseHex (s : String) : Option Nat :=
  s.toList.foldl (fun acc c => do let a ← acc; let v ← hexVal c; pure (a * 16 + v)) (some 0)

def hexDigit (n : Nat) : Char :=
  if n < 10 then Char.ofNat ('0'.toNat + n) else Char.ofNat ('a'.toNat + (n - 10))

def toHex16 (n : Nat) : String :=
  String.ofList ((List.range 16).reverse.map (fun i => hexDigit ((n / 16 ^ i) % 16)))

def floatToWire (f : Float) : String := "x" ++ toHex16 f.toBits.toNat

def floatOfWire (s : String) : Option Float :=
  match s.toList with
  | 'x' :: rest => (parseHex (String.ofList rest)).map (fun n => Float.ofBits n.toUInt64)
  | _ => none

def parseIntStr (s : String) : Option Int := s.toInt?

def ratOfString (s : String) : Option Rat :=
  match s.splitOn "/" with
  | [p] => (parseIntStr p).map (fun i => (i : Rat))
  | [p, q] => do
      let a ← parseIntStr p
      let b ← parseIntStr q
      if b = 0 then none else pure ((a : Rat) / (b : Rat))
  | _ => none

def jRat (j : Json) : Option Rat :=
  match j with
  | .num n => if n.exponent = 0 then some (n.mantissa : Rat) else
      some ((n.mantissa : Rat) / ((10 ^ n.exponent : Nat) : Rat))
  | .str s => ratOfString s
  | _ => none

def jInt (j : Json) : Option Int :=
  match j with
  | .num n => if n.exponent = 0 then some n.mantissa else none
  | .str s => parseIntStr s
  | _ => none

def jNat (j : Json) : Option Nat := (jInt j).bind (fun i => if 0 ≤ i then some i.toNat else none)

def jFloat (j : Json) : Option Float :=
  match j with
  | .str s => floatOfWire s
  | _ => none

def jStr (j : Json) : Option String := match j with | .str s => some s | _ => none
def jBool (j : Json) : Option Bool := match j with | .bool b => some b | _ => none

def jArr (j : Json) : Option (List Json) :=
  match j with | .arr a => some a.toList | _ => none

def jList {α} (f : Json → Option α) (j : Json) : Option (List α) :=
  (jArr j).bind (fun l => l.mapM f)

def jField (j : Json) (k : String) : Option Json := (j.getObjVal? k).toOption

def jFieldD (j : Json) (k : String) (d : Json) : Json := (jField j k).getD d

def ratToJson (r : Rat) : Json :=
  if r.den = 1 then Json.num ⟨r.num, 0⟩ else Json.str (toString r.num ++ "/" ++ toString r.den)

def intToJson (i : Int) : Json := Json.num ⟨i, 0⟩
def natToJson (n : Nat) : Json := Json.num ⟨(n : Int), 0⟩
def floatToJson (f : Float) : Json := Json.str (floatToWire f)
def errJson (e : Err) : Json := Json.mkObj [("err", Json.str e.toString)]
def okJson (v : Json) : Json := Json.mkObj [("ok", v)]
def listToJson {α} (f : α → Json) (l : List α) : Json := Json.arr (l.map f).toArray

def exceptToJson {α} (f : α → Json) : Except Err α → Json
  | .ok v => okJson (f v)
  | .error e => errJson e

def badRequest (msg : String) : Json := Json.mkObj [("bad", Json.str msg)]

end Gwcs

namespace Gwcs

/-- Exact rational value of a finite IEEE double given by its bit pattern. -/
def bitsToRat (b : Nat) : Option Rat :=
  let neg : Bool := b / 2 ^ 63 % 2 = 1
  let ex : Nat := b / 2 ^ 52 % 2048
  let man : Nat := b % 2 ^ 52
  let sgn (n : Nat) : Int := if neg then -(n : Int) else (n : Int)
  if ex = 2047 then none
  else if ex = 0 then some ((sgn man : Rat) / ((2 ^ 1074 : Nat) : Rat))
  else
    let m : Nat := man + 2 ^ 52
    if ex ≥ 1075 then some ((sgn (m * 2 ^ (ex - 1075)) : Int) : Rat)
    else some ((sgn m : Rat) / ((2 ^ (1075 - ex) : Nat) : Rat))

def floatToRat (f : Float) : Option Rat := bitsToRat f.toBits.toNat

/-- Integer value of a double that is integral and of moderate size (|f| < 2^63). -/
def floatToInt (f : Float) : Option Int :=
  match floatToRat f with
  | some r => if r.den = 1 then some r.num else none
  | none => none

end Gwcs
