import GwcsModel.Basic
/-!
# Units glue (C16)

Model of the unit handling around a WCS: `_add_units_input`, `_remove_quantity_output`,
`_sanitize_pixel_inputs` (gwcs/api.py), the `isnumerical` / `coordinate_to_quantity` /
`get_values` dispatch of `WCS.invert` and the `with_units` branch of `WCS.__call__` (gwcs/wcs.py),
`utils.get_values` and `CoordinateFrame.coordinates`.

A unit is a dimension tag with a positive rational scale to the dimension's base unit; astropy's unit
registry itself is not modelled.  A transform is an arbitrary numeric function together with the units
it declares for its inputs and outputs; `usesQ` says whether it is the unit-carrying form (its
arguments and results are quantities) or the unit-free twin.
-/
namespace Gwcs.Units

structure U where
  dim : Nat
  scale : Rat
deriving DecidableEq, Repr

/-- a value handed to the API: a bare number or a quantity -/
inductive Arg where
  | bare (v : Rat)
  | qty (v : Rat) (u : U)
deriving DecidableEq, Repr

/-- `Quantity.to_value(unit)` -/
def toValue (v : Rat) (src dst : U) : Except Err Rat :=
  if src.dim = dst.dim then .ok (v * src.scale / dst.scale) else .error .valueErr

/-- `Quantity.to(unit)` -/
def convert (v : Rat) (src dst : U) : Except Err Arg :=
  (toValue v src dst).map (fun x => .qty x dst)

def zipM {α β γ : Type} (f : α → β → Except Err γ) : List α → List β → Except Err (List γ)
  | a :: as, b :: bs => do
      let c ← f a b
      let cs ← zipM f as bs
      pure (c :: cs)
  | _, _ => pure []

/-- attach units axis by axis -/
def qtys (vals : List Rat) (us : List U) : List Arg :=
  (vals.zip us).map fun (v, u) => Arg.qty v u

/-- strip a quantity to a number in the unit `u` -/
def stripTo (a : Arg) (u : U) : Except Err Rat :=
  match a with
  | .qty v s => toValue v s u
  | .bare _ => .error .valueErr

def unBare (a : Arg) : Except Err Rat :=
  match a with
  | .bare v => .ok v
  | .qty _ _ => .error .valueErr

/-- a transform with declared units; `f` is the numeric function between the declared units -/
structure Tr where
  usesQ : Bool
  f : List Rat → List Rat
  inU : List U
  outU : List U

/-- evaluating an astropy model: the unit-carrying form converts quantity arguments to its own units
(rejecting other dimensions and bare numbers) and returns quantities; the unit-free form takes bare
numbers (and rejects quantities) -/
def Tr.eval (t : Tr) (args : List Arg) : Except Err (List Arg) :=
  if t.usesQ then do
    let vals ← zipM stripTo args t.inU
    pure (qtys (t.f vals) t.outU)
  else do
    let vals ← args.mapM unBare
    pure ((t.f vals).map Arg.bare)

/-- `_add_units_input` -/
def addUnitsInput (usesQ : Bool) (frameU : List U) (vals : List Rat) : List Arg :=
  if usesQ then qtys vals frameU else vals.map Arg.bare

/-- a quantity is converted to the unit `u`, a bare number is kept (results of a unit-free inverse next to a
unit-carrying forward transform, or plain arrays from a parameter-less transform) -/
def stripOrKeep (a : Arg) (u : U) : Except Err Rat :=
  match a with
  | .qty v s => toValue v s u
  | .bare v => .ok v

/-- `_remove_quantity_output`: with a unit-carrying forward transform the results are converted to the
frame's declared units; otherwise they are taken as they are -/
def isQty : Arg → Bool
  | .qty _ _ => true
  | .bare _ => false

/-- (since fix e0cbc30: quantities are stripped whenever there are any - a transform whose parameters carry no units may still
return some, e.g. from a look-up table of quantities, next to plain numbers) -/
def removeQuantityOutput (usesQ : Bool) (frameU : List U) (res : List Arg) : Except Err (List Rat) :=
  if usesQ || res.any isQty then zipM stripOrKeep res frameU
  else res.mapM unBare

/-- `utils.get_values(units, *args)` -/
def getValues (frameU : List U) (args : List Arg) : Except Err (List Rat) :=
  zipM stripTo args frameU

/-- a WCS for the purposes of the unit glue: forward and backward transform of the same form, and the
units declared by the input and output frames -/
structure W where
  fwd : Tr
  bwd : Tr
  pixU : List U
  worldU : List U

def W.pixelToWorldValues (w : W) (pix : List Rat) : Except Err (List Rat) := do
  let res ← w.fwd.eval (addUnitsInput w.fwd.usesQ w.pixU pix)
  removeQuantityOutput w.fwd.usesQ w.worldU res

/-- `WCS.invert(*args)`: the first argument decides (`isnumerical`) whether the inputs are rich; rich
inputs are stripped to frame units unless the backward transform carries units -/
def W.invert (w : W) (args : List Arg) : Except Err (List Arg) :=
  match args with
  | .qty _ _ :: _ =>
      if w.bwd.usesQ then w.bwd.eval args
      else do
        let vals ← getValues w.worldU args
        w.bwd.eval (vals.map Arg.bare)
  | _ => w.bwd.eval args

/-- `world_to_pixel_values`: the results are stripped according to the transform that produced them, the backward one
(a unit-free forward transform may carry a user-supplied unit-carrying inverse, and the other way round) -/
def W.worldToPixelValues (w : W) (world : List Rat) : Except Err (List Rat) := do
  let res ← w.invert (addUnitsInput w.bwd.usesQ w.worldU world)
  removeQuantityOutput w.bwd.usesQ w.pixU res

def toFrame (a : Arg) (u : U) : Except Err Arg :=
  match a with
  | .bare v => .ok (Arg.qty v u)
  | .qty v s => convert v s u

/-- `frame.coordinates(*result)`: numbers get the frame unit attached, quantities are converted to it -/
def coordinates (frameU : List U) (res : List Arg) : Except Err (List Arg) :=
  zipM toFrame res frameU

/-- `WCS.__call__(*pix, with_units=True)` -/
def W.callWithUnits (w : W) (pix : List Arg) : Except Err (List Arg) := do
  let res ← w.fwd.eval pix
  coordinates w.worldU res

def stripPix (a : Arg) (u : U) : Except Err Arg :=
  match a with
  | .bare v => .ok (Arg.bare v)
  | .qty v s => if s = u then .ok (Arg.bare v) else .error .valueErr

/-- `_sanitize_pixel_inputs` -/
def sanitizePixel (usesQ : Bool) (pixU : List U) (pix : List Arg) : Except Err (List Arg) :=
  if usesQ then
    pure ((pix.zip pixU).map fun (a, u) => match a with
      | .bare v => Arg.qty v u
      | q => q)
  else zipM stripPix pix pixU

/-- `pixel_to_world(*pix)` -/
def W.pixelToWorld (w : W) (pix : List Arg) : Except Err (List Arg) := do
  let p ← sanitizePixel w.fwd.usesQ w.pixU pix
  w.callWithUnits p

/-- a scale-only unit-carrying transform (`Multiply(k * out / in)`, no `Shift`): astropy multiplies and converts nothing, so a
quantity in the unit `s` comes back in the composite unit `s * out / in` - here: the dimension of `out` with the scale
`out.scale * s.scale / in.scale`; a quantity of another dimension gives a unit that converts to nothing (refused when the
result is read in the frame unit) -/
def evalScaleOnly (k : Rat) (inU outU : U) (a : Arg) : Except Err Arg :=
  match a with
  | .qty v s => if s.dim = inU.dim then .ok (.qty (k * v) ⟨outU.dim, outU.scale * s.scale / inU.scale⟩) else .error .valueErr
  | .bare _ => .error .valueErr

/-- `utils._toindex` on a result: the nearest whole pixel of the *magnitude* -/
def magnitude (a : Arg) : Rat :=
  match a with
  | .qty v _ => v
  | .bare v => v

/-- `world_to_array_index` through a one-axis scale-only backward transform: `invert(..., with_units=True)` reads the result in
the input frame's unit before it is rounded -/
def arrayIndexScaleOnly (k : Rat) (inU outU pixU : U) (a : Arg) : Except Err Int := do
  let r ← evalScaleOnly k inU outU a
  let q ← toFrame r pixU
  pure ((magnitude q + 1 / 2).floor)

/-- the same with the raw result rounded (`with_units=False`): what the conversion is there to prevent -/
def arrayIndexScaleOnlyRaw (k : Rat) (inU outU : U) (a : Arg) : Except Err Int := do
  let r ← evalScaleOnly k inU outU a
  pure ((magnitude r + 1 / 2).floor)

/-- the numeric function of the unit-free twin: declared units replaced by the frames' units -/
def scaleBy (src dst : List U) (vs : List Rat) : List Rat :=
  (vs.zip (src.zip dst)).map fun (v, s, d) => v * s.scale / d.scale

def Tr.twin (t : Tr) (frameIn frameOut : List U) : Tr :=
  { usesQ := false
    f := fun vs => scaleBy t.outU frameOut (t.f (scaleBy frameIn t.inU vs))
    inU := frameIn, outU := frameOut }

def W.twin (w : W) : W :=
  { fwd := w.fwd.twin w.pixU w.worldU, bwd := w.bwd.twin w.worldU w.pixU, pixU := w.pixU, worldU := w.worldU }

/-- per-axis affine numeric functions, used by the driver -/
def affine (ab : List (Rat × Rat)) (vs : List Rat) : List Rat :=
  (vs.zip ab).map fun (v, a, b) => a * v + b

def affineInv (ab : List (Rat × Rat)) (vs : List Rat) : List Rat :=
  (vs.zip ab).map fun (v, a, b) => (v - b) / a

end Gwcs.Units
