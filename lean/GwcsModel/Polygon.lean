/-
  GwcsModel.Polygon — model of gwcs/region.py (Polygon.__init__, Polygon.scan, Edge) and of
  LabelMapperArray.from_vertices' drawing loop (gwcs/selector.py).

  Integers throughout; the only non-integer quantity is the exact intersection abscissa
  `Edge.xAt`, a rational.  The implementation evaluates it in doubles as
  `t*u0 + sx` with `t = (y - sy)/u1` and takes `int(np.ceil(.))`; when the exact value is an
  integer the double may land one ulp above it, so the model takes the ceiling *plus a slack*
  `σ e y ∈ {0,1}` that is admissible only where the exact value is an integer.  The
  correspondence check reads the implementation's ceiling values, checks admissibility and feeds
  them to the model; the theorems hold for every admissible slack.
-/
import GwcsModel.Basic

namespace Gwcs.Poly

structure Pt where
  x : Int
  y : Int
  deriving Repr, DecidableEq, Inhabited

structure Edge where
  sx : Int
  sy : Int
  ex : Int
  ey : Int
  deriving Repr, DecidableEq, Inhabited

def Edge.ymin (e : Edge) : Int := min e.sy e.ey
def Edge.ymax (e : Edge) : Int := max e.sy e.ey

/-- Exact abscissa of the intersection of the (non-horizontal) edge's line with row `y`. -/
def Edge.xAt (e : Edge) (y : Int) : Rat :=
  (e.sx : Rat) + (((y - e.sy) * (e.ex - e.sx) : Int) : Rat) / ((e.ey - e.sy : Int) : Rat)

/-- `Polygon.get_edges`: consecutive vertex pairs. -/
def edgesOf : List Pt → List Edge
  | a :: b :: r => ⟨a.x, a.y, b.x, b.y⟩ :: edgesOf (b :: r)
  | _ => []

/-- `_round_vertex` on exact rationals: nearest pixel centre, halves up (`floor(v + 0.5)`). -/
def roundQ (r : Rat) : Int := (r + 1 / 2).floor

/-- `_round_vertex` as the implementation evaluates it, in doubles. -/
def roundF (f : Float) : Float := Float.floor (f + 0.5)

def minX (v : List Pt) (init : Int) : Int := v.foldl (fun m p => min m p.x) init
def minY (v : List Pt) (init : Int) : Int := v.foldl (fun m p => min m p.y) init
def maxX (v : List Pt) (init : Int) : Int := v.foldl (fun m p => max m p.x) init
def maxY (v : List Pt) (init : Int) : Int := v.foldl (fun m p => max m p.y) init

/-- What `Polygon.__init__` keeps: shifted integer vertices and the (non-positive) shifts. -/
structure Prep where
  verts : List Pt
  shiftx : Int
  shifty : Int
  deriving Repr

def translate (dx dy : Int) (v : List Pt) : List Pt := v.map (fun p => ⟨p.x + dx, p.y + dy⟩)

/-- `Polygon.__init__` on already-rounded vertices (fewer than 4 is a `ValueError`). -/
def prep (rv : List Pt) : Except Err Prep :=
  if rv.length < 4 then .error .valueErr else
    let sx := minX rv 0
    let sy := minY rv 0
    .ok ⟨translate (-sx) (-sy) rv, sx, sy⟩

/-- Rows `ymin ≤ y < ymax`: the Active Edge Table after `update_AET(y)`. -/
def activeLo (es : List Edge) (y : Int) : List Edge :=
  es.filter (fun e => decide (e.ymin ≤ y ∧ y < e.ymax))

/-- Edges `ymin < y ≤ ymax`. -/
def activeHi (es : List Edge) (y : Int) : List Edge :=
  es.filter (fun e => decide (e.ymin < y ∧ y ≤ e.ymax))

/-- One call of `update_AET(y, AET)`: append the non-horizontal edges starting at `y`
    (`GET[y]`), then drop the edges ending at `y`. -/
def updateAET (es : List Edge) (y : Int) (aet : List Edge) : List Edge :=
  (aet ++ es.filter (fun e => decide (e.sy ≠ e.ey ∧ e.ymin = y))).filter (fun e => decide (e.ymax ≠ y))

/-- The AET used on row `ybot + k` by `scan` (no update on the top row), computed incrementally
    exactly as the loop does. -/
def aetLoop (es : List Edge) (ybot ytop : Int) : Nat → List Edge
  | 0 => if ybot < ytop then updateAET es ybot [] else []
  | k + 1 =>
    let prev := aetLoop es ybot ytop k
    if ybot + (k + 1 : Nat) < ytop then updateAET es (ybot + (k + 1 : Nat)) prev else prev

/-- Slack: extra amount added to the exact ceiling. -/
abbrev Slack := Edge → Int → Int

def noSlack : Slack := fun _ _ => 0

/-- A slack is admissible when it is 0, or 1 at an exactly integral intersection. -/
def admissibleAt (σ : Slack) (e : Edge) (y : Int) : Prop :=
  σ e y = 0 ∨ (σ e y = 1 ∧ ((e.xAt y).floor : Rat) = e.xAt y)

instance (σ : Slack) (e : Edge) (y : Int) : Decidable (admissibleAt σ e y) := by
  unfold admissibleAt; exact inferInstance

/-- `int(np.ceil(e.compute_AET_entry(scan_line)[1]))` for every active edge. -/
def rowXs (σ : Slack) (act : List Edge) (y : Int) : List Int :=
  act.map (fun e => (e.xAt y).ceil + σ e y)

def sortInts (l : List Int) : List Int := l.mergeSort (fun a b => decide (a ≤ b))

/-- `zip(xnew[::2], xnew[1::2])`. -/
def pairs : List Int → List (Int × Int)
  | a :: b :: r => (a, b) :: pairs r
  | _ => []

/-- Is `p` inside one of the closed spans obtained by pairing the list two at a time. -/
def markedBy (l : List Int) (p : Int) : Bool :=
  (pairs l).any (fun ij => decide (ij.1 ≤ p ∧ p ≤ ij.2))

/-- Columns written by `data[ysh][xstart:xend + 1] = rid` (after the guard `xend < xstart`),
    with Python's slice semantics on a row of length `nx`. -/
def spanCols (nx : Nat) (shift : Int) (i j : Int) : List Nat :=
  let xstart := max 0 (i + shift)
  let xend := min (j + shift) ((nx : Int) - 1)
  if xend < xstart then [] else pySlice (List.range nx) xstart (xend + 1)

/-- The same assignment *without* the guard (the code before the D2 fix). -/
def spanColsUnguarded (nx : Nat) (shift : Int) (i j : Int) : List Nat :=
  let xstart := max 0 (i + shift)
  let xend := min (j + shift) ((nx : Int) - 1)
  pySlice (List.range nx) xstart (xend + 1)

/-- Geometry of a prepared polygon in its own (shifted) coordinates. -/
structure Geo where
  es : List Edge
  xlo : Int
  ybot : Int
  ytop : Int
  width : Int
  deriving Repr

def geoOf (v : List Pt) : Geo :=
  match v with
  | [] => ⟨[], 0, 0, 0, 0⟩
  | p :: r =>
    let xlo := minX r p.x
    ⟨edgesOf v, xlo, minY r p.y, maxY r p.y, maxX r p.x - xlo⟩

/-- Active edges used by `scan` on row `y` (closed form): below the top row the half-open rule,
    on the top row the table left over from the row beneath it. -/
def activeAt (g : Geo) (y : Int) : List Edge :=
  if y < g.ytop then activeLo g.es y else activeLo g.es (g.ytop - 1)

/-- Columns (in polygon coordinates, before clipping) marked on row `y`. -/
def canvasMarked (σ : Slack) (g : Geo) (x y : Int) : Bool :=
  decide (g.ybot ≤ y ∧ y ≤ g.ytop ∧ 0 < g.width) &&
    markedBy (sortInts (rowXs σ (activeAt g y) y)) x

/-- Columns of image row `r` (0-based) written by `scan` on an `ny × nx` image. -/
def rowCols (σ : Slack) (p : Prep) (g : Geo) (ny nx : Nat) (r : Nat) : List Nat :=
  let y : Int := (r : Int) - p.shifty
  if r < ny ∧ g.ybot ≤ y ∧ y ≤ g.ytop ∧ 0 < g.width then
    (pairs (sortInts (rowXs σ (activeAt g y) y))).flatMap (fun ij => spanCols nx p.shiftx ij.1 ij.2)
  else []

/-- `Polygon.scan`: which pixels of an `ny × nx` image are set. -/
def scanMask (σ : Slack) (p : Prep) (ny nx : Nat) : List (List Bool) :=
  let g := geoOf p.verts
  (List.range ny).map (fun r =>
    let cols := rowCols σ p g ny nx r
    (List.range nx).map (fun c => cols.contains c))

/-- The same using the incrementally maintained AET, as the loop does. -/
def rowColsLoop (σ : Slack) (p : Prep) (g : Geo) (ny nx : Nat) (r : Nat) : List Nat :=
  let y : Int := (r : Int) - p.shifty
  if r < ny ∧ g.ybot ≤ y ∧ y ≤ g.ytop ∧ 0 < g.width then
    let act := aetLoop g.es g.ybot g.ytop (y - g.ybot).toNat
    (pairs (sortInts (rowXs σ act y))).flatMap (fun ij => spanCols nx p.shiftx ij.1 ij.2)
  else []

def scanMaskLoop (σ : Slack) (p : Prep) (ny nx : Nat) : List (List Bool) :=
  let g := geoOf p.verts
  (List.range ny).map (fun r =>
    let cols := rowColsLoop σ p g ny nx r
    (List.range nx).map (fun c => cols.contains c))

/-- `from_vertices`: draw labelled polygons in order onto an image of "empty" (`none`). -/
def drawAll {L} (masks : List (L × (Nat → Nat → Bool))) : Nat → Nat → Option L :=
  masks.foldl (fun img lm => fun r c => if lm.2 r c then some lm.1 else img r c) (fun _ _ => none)

end Gwcs.Poly
