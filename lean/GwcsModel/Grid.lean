/-
  GwcsModel.Grid — `wcstools.grid_from_bounding_box` and `WCS.footprint` (gwcs/wcstools.py,
  gwcs/wcs.py), on exact rationals.
-/
import GwcsModel.Api

namespace Gwcs.Grid

/-- `_bbox_to_pixel`: limits moved to pixel centres, `x.5` going to the pixel *inside* the box -/
def bboxToPixel (iv : Rat × Rat) : Rat × Rat := (((iv.1 + 1 / 2).floor : Int), ((iv.2 - 1 / 2).ceil : Int))

/-- number of nodes of `np.arange(lo, hi + s, s)` / `np.mgrid[lo:hi+s:s]` (empty when not positive) -/
def gridCount (lo hi s : Rat) : Nat := (((hi + s - lo) / s).ceil).toNat

/-- the nodes along one axis -/
def axisNodes (lo hi s : Rat) : List Rat := (List.range (gridCount lo hi s)).map (fun (k : Nat) => lo + ((k : Int) : Rat) * s)

/-- per-axis limits actually used -/
def limits (bb : List (Rat × Rat)) (center : Bool) : List (Rat × Rat) :=
  if center then bb.map bboxToPixel else bb

/-- step broadcasting: a single step applies to all axes; otherwise lengths must match -/
def broadcastStep (nd : Nat) (step : List Rat) : Except Err (List Rat) :=
  let st := if nd > 1 ∧ step.length = 1 then List.replicate nd (step.headD 1) else step
  if st.length = nd then .ok st else .error .valueErr

/-- `grid_from_bounding_box`: the node list of every axis, in (x, y, …) order.  The returned array
    `grid[i]` has shape `(n_last, …, n_0)` and `grid[i][k_last]…[k_0] = nodes_i[k_i]`. -/
def gridAxes (bb : List (Rat × Rat)) (step : List Rat) (center : Bool) : Except Err (List (List Rat)) := do
  let st ← broadcastStep bb.length step
  -- `np.mgrid` refuses a negative node count (only reachable when centring turns a zero-width box at a
  -- pixel edge into crossed limits and the step is below one pixel)
  if ((limits bb center).zip st).any (fun (iv, s) => decide (((iv.2 + s - iv.1) / s).ceil < 0)) then throw .valueErr
  pure (((limits bb center).zip st).map (fun (iv, s) => axisNodes iv.1 iv.2 s))

/-- `_make_sampling_grid(npoints, bounding_box, crpix)` (gwcs/wcs.py): the lattice on which the SIP fit samples the transform -
    `npoints` nodes per axis asked for through the step `(lo - hi) / (1 - npoints)`, no centring, shifted by the reference pixel -/
def samplingStep (n : Nat) (iv : Rat × Rat) : Rat := (iv.1 - iv.2) / (1 - (n : Rat))

def samplingAxes (n : Nat) (bb : List (Rat × Rat)) (crpix : List Rat) (center : Bool := false) : Except Err (List (List Rat)) :=
  (gridAxes bb (bb.map (samplingStep n)) center).map (fun axes =>
    (axes.zip crpix).map (fun (ax, c) => ax.map (· - c)))

/-- all index tuples `(k_0, …, k_{n-1})` in C order of the reversed shape: `k_0` fastest -/
def indexTuples : List Nat → List (List Nat)
  | [] => [[]]
  | n :: rest => (indexTuples rest).flatMap (fun t => (List.range n).map (fun k => k :: t))

/-- `grid[i]` flattened in C order -/
def gridFlat (axes : List (List Rat)) (i : Nat) : List Rat :=
  (indexTuples (axes.map List.length)).map (fun t => ((axes[i]?).getD [])[(t[i]?).getD 0]?.getD 0)

/-! ### footprint -/

/-- `_order_clockwise`: the four corners of a 2-D box, from the lower-left one -/
def orderClockwise (bb : List (Rat × Rat)) : Except Err (List (List Rat)) :=
  match bb with
  | x :: y :: _ => .ok [[x.1, y.1], [x.1, y.2], [x.2, y.2], [x.2, y.1]]
  | _ => .error .indexErr

/-- `itertools.product(*bb)`: the last axis varies fastest -/
def product : List (Rat × Rat) → List (List Rat)
  | [] => [[]]
  | iv :: rest => (product rest).map (fun p => iv.1 :: p) ++ (product rest).map (fun p => iv.2 :: p)

def minL (l : List Rat) : Rat := l.foldl (fun a b => if b < a then b else a) (l.headD 0)
def maxL (l : List Rat) : Rat := l.foldl (fun a b => if a < b then b else a) (l.headD 0)

inductive FootOut where
  | points (rows : List (List Rat))   -- one row per corner, one column per world axis
  | ranges (rows : List (List Rat))   -- (2 × k): row 0 = minima, row 1 = maxima (after `.T`)
  | range1 (lo hi : Rat)              -- squeezed single axis
  deriving Repr

/-- the box whose corners are used: the one passed in, else the WCS's own, else refuse -/
def chooseBox (bb own : Option (List (Rat × Rat))) : Except Err (List (Rat × Rat)) :=
  match bb, own with
  | some b, _ => .ok b
  | none, some b => .ok b
  | none, none => .error .typeErr

def allSpatial (axesType : List String) : Bool := axesType.all (fun t => t == "spatial")

/-- corner points: clockwise for an all-spatial output of two pixel axes ("clockwise" is a notion of the plane), the full product
    otherwise; with centring they are first moved to pixel centres -/
def corners (box : List (Rat × Rat)) (axesType : List String) (center : Bool) : Except Err (List (List Rat)) :=
  (if allSpatial axesType && box.length == 2 then orderClockwise box else .ok (product box)).map (fun verts =>
    if center then verts.map (fun v => v.map (fun c => ((Api.toIndex c : Int) : Rat))) else verts)

/-- restriction of the corner images to one axis type -/
def reduceAxisType (result : List (List Rat)) (axesType : List String) (axisType : String) : Except Err FootOut :=
  if axisType == "spatial" && allSpatial axesType then .ok (.points result)
  else if axisType != "all" then
    let idx := (List.range axesType.length).filter (fun i => axesType[i]? == some axisType)
    if idx.isEmpty then .error .valueErr
    else
      let rng := idx.map (fun i => let col := result.map (fun r => (r[i]?).getD 0); (minL col, maxL col))
      if axisType == "spatial" && rng.length == 2 then (orderClockwise rng).map .points
      else match rng with
        | [r] => .ok (.range1 r.1 r.2)
        | _ => .ok (.ranges [rng.map (·.1), rng.map (·.2)])
  else .ok (.points result)

/-- axis types are compared without regard to case, and a `TemporalFrame` calls its type 'TIME' where the documented name is
'temporal': both spellings name the time axes -/
def normType (s : String) : String :=
  let l := s.toLower
  if l == "time" then "temporal" else l

/-- `WCS.footprint(bounding_box, center, axis_type)`; `f` is the unmasked forward transform -/
def footprint (f : List Rat → Except Err (List Rat)) (bb own : Option (List (Rat × Rat)))
    (center : Bool) (axesType : List String) (axisType : String) : Except Err FootOut := do
  let box ← chooseBox bb own
  let verts ← corners box axesType center
  let result ← verts.mapM f
  reduceAxisType result axesType axisType

/-- the same with the axis types as the frames report them and the requested type as the caller spelled it -/
def footprintRaw (f : List Rat → Except Err (List Rat)) (bb own : Option (List (Rat × Rat)))
    (center : Bool) (axesTypeRaw : List String) (axisTypeRaw : String) : Except Err FootOut :=
  footprint f bb own center (axesTypeRaw.map normType) (normType axisTypeRaw)

end Gwcs.Grid
