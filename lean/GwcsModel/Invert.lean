/-
  GwcsModel.Invert — how `WCS.invert` and `WCS.in_image` treat the bounding box on the two inversion
  paths (gwcs/wcs.py).  The pixel solution itself (analytic backward transform or the iterative
  solver) is an input; this model is about what is done with it.

  `analyticMasks` is the *variant flag* for known finding D12: on the unchanged tree the analytic path
  does not apply the box (`false`); the full property wants `true`.
-/
import GwcsModel.Basic

namespace Gwcs.Inv

variable {α : Type} [LE α] [DecidableLE α]

inductive Path where | analytic | iterative
  deriving Repr, DecidableEq

/-- closed-box test used by the iterative path and by `in_image`: `lo ≤ c ∧ c ≤ hi` on every axis -/
def inBox : List (α × α) → List α → Bool
  | iv :: box, c :: cs => decide (iv.1 ≤ c) && decide (c ≤ iv.2) && inBox box cs
  | _, _ => true

/-- masking at the end of `_vectorized_fixed_point`: rows that are valid (finite) and outside the box
    are overwritten with the fill value on every axis -/
def maskPix (box : Option (List (α × α))) (withBB : Bool) (fill : α) (valid : Bool) (pix : List α) : List α :=
  match withBB, box with
  | true, some b => if valid && !(inBox b pix) then pix.map (fun _ => fill) else pix
  | _, _ => pix

/-- the same for a batch: one (valid, solution) row per world point, each masked on its own -/
def maskRows (box : Option (List (α × α))) (withBB : Bool) (fill : α) (rows : List (Bool × List α)) : List (List α) :=
  rows.map (fun r => maskPix box withBB fill r.1 r.2)

/-- `WCS.invert` given the raw solution of the chosen path -/
def invert (analyticMasks : Bool) (path : Path) (box : Option (List (α × α))) (withBB : Bool) (fill : α)
    (valid : Bool) (pix : List α) : List α :=
  match path with
  | .iterative => maskPix box withBB fill valid pix
  | .analytic => if analyticMasks then maskPix box withBB fill valid pix else pix

/-- `WCS.in_image` for one world point: invert with masking on and NaN fill, require finite
    coordinates, then test the closed box again -/
def inImage (analyticMasks : Bool) (path : Path) (finite : α → Bool) (nan : α) (box : Option (List (α × α)))
    (valid : Bool) (pix : List α) : Bool :=
  let coords := invert analyticMasks path box true nan valid pix
  let fin := coords.all finite
  match box with
  | none => fin
  | some b => fin && inBox b coords

/-- array input: elementwise -/
def inImageBatch (analyticMasks : Bool) (path : Path) (finite : α → Bool) (nan : α) (box : Option (List (α × α)))
    (rows : List (Bool × List α)) : List Bool :=
  rows.map (fun r => inImage analyticMasks path finite nan box r.1 r.2)

end Gwcs.Inv
