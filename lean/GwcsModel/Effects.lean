/-
  GwcsModel.Effects — process-wide settings touched during gwcs calls: numpy's floating-point error
  handling (np.seterr / np.errstate), the warnings filter list (warnings.catch_warnings /
  simplefilter) and numpy's print options.  A call is modelled by the *trace of events* it performs;
  the state survives exceptions (an exception is just the end of the trace), and `with` blocks
  contribute an `exit` event on every path because Python runs `__exit__` on every path.
-/
import GwcsModel.Basic

namespace Gwcs.Eff

inductive Mode where | ignore | warn | raise | call | print | log
  deriving Repr, DecidableEq, Inhabited

structure ErrModes where
  divide : Mode
  over : Mode
  under : Mode
  invalid : Mode
  deriving Repr, DecidableEq, Inhabited

inductive Ev where
  | esEnter                      -- `with np.errstate(...)` entered (saves the current error modes)
  | esExit                       -- … left (restores them), also when an exception propagates
  | setErr (invalid over : Mode) -- `np.seterr(invalid=…, over=…)`
  | cwEnter                      -- `with warnings.catch_warnings()` entered (saves the filter list)
  | cwExit
  | filt (id : Nat)              -- `warnings.simplefilter/filterwarnings` inserts a filter
  | setPrint (id : Nat)          -- `np.set_printoptions`
  | eval                         -- one evaluation of the user transform
  | raised                       -- an exception leaves the entry point (always last)
  deriving Repr, DecidableEq, Inhabited

structure G where
  err : ErrModes
  filters : List Nat
  print : Nat
  errStack : List ErrModes
  filtStack : List (List Nat)
  deriving Repr, DecidableEq, Inhabited

def stepEv (g : G) : Ev → G
  | .esEnter => { g with errStack := g.err :: g.errStack }
  | .esExit => match g.errStack with
      | s :: r => { g with err := s, errStack := r }
      | [] => g
  | .setErr i o => { g with err := { g.err with invalid := i, over := o } }
  | .cwEnter => { g with filtStack := g.filters :: g.filtStack }
  | .cwExit => match g.filtStack with
      | s :: r => { g with filters := s, filtStack := r }
      | [] => g
  | .filt n => { g with filters := n :: g.filters }
  | .setPrint n => { g with print := n }
  | .eval => g
  | .raised => g

def run (tr : List Ev) (g : G) : G := tr.foldl stepEv g

/-- A trace is *guarded* when brackets are balanced, every `seterr` happens inside an errstate
    bracket, every filter insertion inside a catch_warnings bracket, and print options are never
    set.  `d`, `c` = current nesting depths. -/
def guarded : List Ev → Nat → Nat → Bool
  | [], d, c => d == 0 && c == 0
  | .esEnter :: t, d, c => guarded t (d + 1) c
  | .esExit :: t, d + 1, c => guarded t d c
  | .esExit :: _, 0, _ => false
  | .setErr _ _ :: t, d, c => decide (0 < d) && guarded t d c
  | .cwEnter :: t, d, c => guarded t d (c + 1)
  | .cwExit :: t, d, c + 1 => guarded t d c
  | .cwExit :: _, _, 0 => false
  | .filt _ :: t, d, c => decide (0 < c) && guarded t d c
  | .setPrint _ :: _, _, _ => false
  | .eval :: t, d, c => guarded t d c
  | .raised :: t, d, c => guarded t d c

def fresh (err : ErrModes) (filters : List Nat) (print : Nat) : G := ⟨err, filters, print, [], []⟩

end Gwcs.Eff
