/-
  GwcsModel.Cache — the one piece of query-dependent state a WCS carries: the memoised initial
  guess of the iterative inverse (`WCS._approx_inverse`, gwcs/wcs.py), modelled over an abstract
  pipeline type `P`.

  * a query never changes the pipeline; an "inverting" query on a 2-D WCS computes the memo from
    the *current* pipeline when it is empty (`_calc_approx_inv`) and otherwise reuses it;
  * every successful edit (set_transform, insert_transform, insert_frame, bounding_box assignment —
    the latter goes through set_transform) empties the memo; a rejected edit changes nothing.

  Answers are produced by an arbitrary function `ans` of (the pipeline the memo was computed
  from, the current pipeline, the query); the theorems are about which pipelines reach `ans`.
-/
import GwcsModel.Basic

namespace Gwcs.Cache

structure CState (P : Type) where
  pipe : P
  memo : Option P          -- the pipeline `_approx_inverse` was computed from
  epoch : Nat              -- number of successful edits so far (bookkeeping for the tie)
  memoEpoch : Option Nat   -- epoch at which the memo was computed

inductive Event (P Q : Type) where
  | edit (result : Option P)      -- `some p'` = accepted edit producing p'; `none` = rejected edit
  | query (q : Q) (inverting : Bool)   -- `inverting` = goes through numerical_inverse with 2 inputs

def fresh {P} (p : P) : CState P := ⟨p, none, 0, none⟩

/-- the pipeline from which the initial guess used by this query is taken -/
def guessSource {P} (s : CState P) : P := s.memo.getD s.pipe

def step {P Q A} (ans : P → P → Q → A) (s : CState P) : Event P Q → CState P × Option A
  | .edit (some p') => ({ pipe := p', memo := none, epoch := s.epoch + 1, memoEpoch := none }, none)
  | .edit none => (s, none)
  | .query q inverting =>
      let a := ans (guessSource s) s.pipe q
      if inverting ∧ s.memo.isNone then
        ({ s with memo := some s.pipe, memoEpoch := some s.epoch }, some a)
      else (s, some a)

/-- the variant *without* invalidation on edit (the code before the D5 fix) -/
def stepStale {P Q A} (ans : P → P → Q → A) (s : CState P) : Event P Q → CState P × Option A
  | .edit (some p') => ({ s with pipe := p', epoch := s.epoch + 1 }, none)
  | e => step ans s e

def run {P Q A} (ans : P → P → Q → A) : CState P → List (Event P Q) → CState P × List (Option A)
  | s, [] => (s, [])
  | s, e :: es =>
    let (s', a) := step ans s e
    let (s'', as) := run ans s' es
    (s'', a :: as)

end Gwcs.Cache
