/-
  GwcsModel.ANum — the scalar operations the translated `evaluate` bodies use.
  Instances: `Float` (here; executed by the driver) and `ℝ` (in GwcsProofs/C19.lean).
  `pow x n` is repeated multiplication (what numpy does for small integer exponents of doubles).
-/
namespace Gwcs

class ANum (α : Type) extends Add α, Sub α, Mul α, Div α, Neg α, OfScientific α where
  sqrt : α → α
  sin : α → α
  cos : α → α
  deg2rad : α → α
  rad2deg : α → α
  atan2 : α → α → α          -- np.arctan2(y, x)
  hypot : α → α → α
  mod360 : α → α             -- np.mod(v, 360.0) where finite (non-negative result)
  isZero : α → Bool          -- `v == 0`

namespace ANum

def pow {α} [ANum α] (x : α) : Nat → α
  | 0 => (1.0 : α)
  | 1 => x
  | n + 2 => pow x (n + 1) * x

end ANum

instance : ANum Float where
  sqrt := Float.sqrt
  sin := Float.sin
  cos := Float.cos
  deg2rad := fun x => x * (3.141592653589793 / 180.0)
  rad2deg := fun x => x * (180.0 / 3.141592653589793)
  atan2 := Float.atan2
  -- libm's hypot does not overflow or underflow in the squares: scale by the larger magnitude first
  hypot := fun x y =>
    let ax := Float.abs x
    let ay := Float.abs y
    let m := if ax < ay then ay else ax
    if m == 0.0 || !m.isFinite then Float.sqrt (x * x + y * y) else m * Float.sqrt ((x / m) * (x / m) + (y / m) * (y / m))
  mod360 := fun v => if v.isFinite then v - 360.0 * Float.floor (v / 360.0) else v
  isZero := fun v => v == 0.0

end Gwcs
