import GwcsModel.Basic
/-!
# FITS-SIP export (C10)

* `fit2D`: the degree search of `_fit_2D_poly` over an abstract per-degree fit outcome (the least-squares solve itself —
  `_poly_fit_lu`, long double normal equations — is a parameter), with the double-sampling check and the reported error.
* `reform`: `_reform_poly_coefficients`, splitting the fitted polynomials into the CD matrix and the SIP A/B terms.
* `stored`: `_store_2D_coefficients`, which keywords are written.
* `sipEval`: the meaning of the header for a reader: intermediate coordinates `CD · (u + A(u,v), v + B(u,v))`, `u = p - crpix0`
  (0-based pixel, `CRPIX = crpix0 + 1`).
-/
namespace Gwcs.Sip

/-! ## degree search -/

/-- outcome of one least-squares fit: `none` = `LinAlgError`; otherwise (max residual on the fitting grid, condition number finite) -/
abbrev FitOutcome := Option (Rat × Bool)

inductive DegreeSpec where
  | all                      -- `degree=None`: 1..9
  | list (ds : List Int)     -- an iterable
  | single (d : Int)
deriving Repr

structure SearchState where
  chosen : Option Nat := none      -- degree whose coefficients are kept (cfx, cfy)
  fitErr : Option Rat := none      -- `none` = +inf
  unmet : Bool := true             -- fit_warning_msg still set
  poorCond : Bool := false         -- "The fit may be poorly conditioned."
  lastDeg : Nat := 0               -- loop variable `deg` after the loop: the degree of the returned Polynomial2D
deriving Repr, DecidableEq

def ltInf (e : Rat) (cur : Option Rat) : Bool :=
  match cur with
  | none => true
  | some c => e < c

/-- the `for deg in deglist` loop; returns `none` when a `LinAlgError` propagates (single degree) -/
def search (fit : Nat → FitOutcome) (maxErr : Rat) (single : Bool) : List Nat → SearchState → Option SearchState
  | [], st => some st
  | d :: ds, st =>
    match fit d with
    | none => if single then none else some { st with lastDeg := d }
    | some (e, condFinite) =>
      if !condFinite then
        if single then some { st with chosen := some d, fitErr := some e, poorCond := true, lastDeg := d }
        else some { st with lastDeg := d }
      else if !ltInf e st.fitErr then some { st with lastDeg := d }      -- accuracy does not improve
      else if e ≤ maxErr then some { chosen := some d, fitErr := some e, unmet := false, poorCond := st.poorCond, lastDeg := d }
      else search fit maxErr single ds { st with chosen := some d, fitErr := some e, lastDeg := d }

def insertSortedI (x : Int) : List Int → List Int
  | [] => [x]
  | y :: ys => if x ≤ y then x :: y :: ys else y :: insertSortedI x ys

def sortI (l : List Int) : List Int := l.foldr insertSortedI []

/-- the list of degrees to try, or `none` for `ValueError("Allowed values for SIP degree are [1...9]")` -/
def degList : DegreeSpec → Option (List Nat)
  | .all => some [1, 2, 3, 4, 5, 6, 7, 8, 9]
  | .list ds =>
    let s := sortI ds
    match s.head?, s.getLast? with
    | some lo, some hi => if lo < 1 ∨ hi > 9 then none else some (s.map Int.toNat)
    | _, _ => some []          -- (an empty iterable fails later with IndexError; outside the modelled inputs)
  | .single d => if d < 1 ∨ d > 9 then none else some [d.toNat]

structure FitResult where
  degree : Nat            -- degree of the returned polynomials (`deg`)
  coeffDegree : Option Nat -- degree whose coefficients they carry
  reported : Option Rat    -- returned error (before division by the plate scale); `none` = inf
  warnUnmet : Bool
  warnCond : Bool
  warnSampling : Bool
deriving Repr, DecidableEq

inductive FitExit where
  | ok (r : FitResult)
  | valueErr               -- degree outside 1..9
  | linAlgErr              -- propagated LinAlgError
  | noFit                  -- no coefficients at all (the implementation fails with an unbound local)
deriving Repr, DecidableEq

/-- `_fit_2D_poly`: `dbl d` is the residual of the degree-`d` fit on the double-density grid -/
def fit2D (spec : DegreeSpec) (maxErr : Rat) (fit : Nat → FitOutcome) (dbl : Nat → Rat) : FitExit :=
  match degList spec with
  | none => .valueErr
  | some ds =>
    let single := ds.length == 1
    match search fit maxErr single ds {} with
    | none => .linAlgErr
    | some st =>
      match st.chosen, st.fitErr with
      | some c, some e =>
        if e ≤ maxErr ∨ single then
          let r := dbl c
          .ok { degree := st.lastDeg, coeffDegree := some c, reported := some (max r e), warnUnmet := st.unmet, warnCond := st.poorCond,
                warnSampling := decide (min (5 * e) maxErr < r) }
        else
          .ok { degree := st.lastDeg, coeffDegree := some c, reported := some e, warnUnmet := st.unmet, warnCond := st.poorCond, warnSampling := false }
      | _, _ => .noFit

/-! ## polynomials and the SIP split -/

/-- coefficients `c i j` of `u^i v^j`, total degree ≤ `deg` -/
structure Poly where
  deg : Nat
  c : Nat → Nat → Rat

/-- the monomials of total degree 2..deg -/
def monomialsHigh (deg : Nat) : List (Nat × Nat) :=
  (List.range (deg + 1)).flatMap fun i => (List.range (deg + 1)).filterMap fun j =>
    if 1 < i + j ∧ i + j ≤ deg then some (i, j) else none

def Poly.high (p : Poly) (u v : Rat) : Rat :=
  ((monomialsHigh p.deg).map fun t => p.c t.1 t.2 * (u ^ t.1 * v ^ t.2)).sum

/-- constant and linear terms written out, higher terms as a sum -/
def Poly.eval (p : Poly) (u v : Rat) : Rat :=
  p.c 0 0 + p.c 1 0 * u + p.c 0 1 * v + p.high u v

structure Sip where
  cd11 : Rat
  cd12 : Rat
  cd21 : Rat
  cd22 : Rat
  a : Poly
  b : Poly

/-- `_reform_poly_coefficients` (the fitted polynomials have no constant term) -/
def reform (fx fy : Poly) : Sip :=
  let c11 := fx.c 1 0
  let c12 := fx.c 0 1
  let c21 := fy.c 1 0
  let c22 := fy.c 0 1
  let det := c11 * c22 - c12 * c21
  { cd11 := c11, cd12 := c12, cd21 := c21, cd22 := c22,
    a := { deg := fx.deg, c := fun i j => if i + j > 1 then (c22 * fx.c i j - c12 * fy.c i j) / det else 0 },
    b := { deg := fx.deg, c := fun i j => if i + j > 1 then (-c21 * fx.c i j + c11 * fy.c i j) / det else 0 } }

/-- what a reader computes from the header: intermediate coordinates of the 0-based pixel offset `(u, v)` from the reference pixel -/
def Sip.eval (s : Sip) (u v : Rat) : Rat × Rat :=
  let f := u + s.a.high u v      -- A and B have no constant or linear terms
  let g := v + s.b.high u v
  (s.cd11 * f + s.cd12 * g, s.cd21 * f + s.cd22 * g)

/-- `_store_2D_coefficients`: the (i, j) for which a keyword is written -/
def stored (deg : Nat) (keeplinear : Bool) : List (Nat × Nat) :=
  (List.range (deg + 1)).flatMap fun i => (List.range (deg + 1)).filterMap fun j =>
    if i + j > (if keeplinear then 0 else 1) ∧ i + j < deg + 1 then some (i, j) else none

/-- FITS 1-based reference pixel and image size -/
def crpixCard (crpix0 : Rat) : Rat := crpix0 + 1

end Gwcs.Sip
